(* conv: io n nat *)
(* C20 driver (shares the token format of c05_driver.ml): one scripted history per input line.
   Integers that may exceed OCaml's int (error codes such as 2^63, ids) travel as sign + binary
   digits ("z", "p101", "n101"): a pure constructor-level conversion, no arithmetic. *)
let pos_of_bits (s : string) (from : int) : positive =
  (* most significant bit first; s.[from] = '1' *)
  let p = ref XH in
  for j = from + 1 to String.length s - 1 do
    p := if s.[j] = '1' then XI !p else XO !p
  done; !p
let z_of_tok (t : string) : z =
  if t = "z" then Z0 else if t.[0] = 'p' then Zpos (pos_of_bits t 1) else Zneg (pos_of_bits t 1)
let rec bits_of_pos = function XH -> "1" | XO p -> bits_of_pos p ^ "0" | XI p -> bits_of_pos p ^ "1"
let tok_of_z = function Z0 -> "z" | Zpos p -> "p" ^ bits_of_pos p | Zneg p -> "n" ^ bits_of_pos p
let next_zb () = z_of_tok (next_tok ())
let put_zb x = put_str (tok_of_z x)

let next_id () = match next_int () with
  | 1 -> IInt (next_zb ())
  | 2 -> IStr (next_str ())
  | 3 -> IUuid (next_n ())
  | 4 -> INull
  | _ -> IOdd (next_n ())
let put_id = function
  | IInt x -> put_int 1; put_zb x
  | IStr s -> put_int 2; put_nstr s
  | IUuid n -> put_int 3; put_n n
  | INull -> put_int 4
  | IOdd n -> put_int 5; put_n n
let next_bool () = next_int () <> 0

let next_mid () = match next_int () with 0 -> None | _ -> Some (next_id ())
(* user code of a callback: a list of operations, 0 h = cancel future h, 1 m rt mid = send a
   follow-up request whose callback is the rest of the list *)
let next_kont () =
  let ops = read_list (fun () -> match next_int () with
    | 0 -> `C (next_nat ())
    | _ -> let m = next_n () in let rt = next_n () in let mid = next_mid () in `S (m, rt, mid)) in
  List.fold_right (fun op k -> match op with `C h -> KCancel (h, k) | `S (m, rt, mid) -> KSend (m, rt, mid, k)) ops KNone
let next_cb () = match next_int () with
  | 0 -> CbNone
  | 1 -> CbUser (next_kont ())
  | _ -> CbDone (next_kont ())
let next_ev () = match next_int () with
  | 0 -> let m = next_n () in let rt = next_n () in let cb = next_cb () in
         let mid = next_mid () in
         UserSend (m, rt, cb, mid)
  | 1 -> let i = next_id () in let p = next_n () in let oks = read_list next_n in RecvResult (i, p, oks)
  | 2 -> let i = next_id () in let c = next_zb () in let m = next_str () in let d = next_n () in
         RecvError (i, c, m, d)
  | 3 -> UserCancelOut (next_nat ())
  | 4 -> InReply (next_id ())
  | 5 -> InAsyncReg (next_id ())
  | 6 -> let i = next_id () in let r = next_bool () in InAsyncDone (i, r)
  | 7 -> InCancel (next_id ())
  | k -> failwith ("unknown event kind " ^ string_of_int k)

let class_code = function
  | EBase -> 0 | EInternal -> 1 | EInvalidParams -> 2 | EInvalidRequest -> 3
  | EMethodNotFound -> 4 | EParse -> 5 | ECancelled -> 6 | EServer -> 7

(* full detail of a future's state: 0 | 1 rt p | 2 class code msg data | 3 *)
let put_fstate = function
  | Pending -> put_int 0
  | Resolved (rt, p) -> put_int 1; put_n rt; put_n p
  | Failed (c, code, msg, data) -> put_int 2; put_int (class_code c); put_zb code; put_nstr msg; put_n data
  | Cancelled -> put_int 3
let state_code = function Pending -> 0 | Resolved _ -> 1 | Failed _ -> 2 | Cancelled -> 3

let put_wire = function
  | WReq (i, m, _) -> put_int 0; put_id i; put_n m
  | WProgress (t, k, v) -> put_int 1; put_id t; put_n k; put_n v


let next_pev () = match next_int () with
  | 0 -> Base (next_ev ())
  | 1 -> let t = next_id () in let u = next_bool () in PCreate (t, u)
  | 2 -> PCreateAsync (next_id ())
  | 3 -> PResume
  | 4 -> let t = next_id () in let v = next_n () in PBegin (t, v)
  | 5 -> let t = next_id () in let v = next_n () in PReport (t, v)
  | 6 -> let t = next_id () in let v = next_n () in PEnd (t, v)
  | 7 -> ClientCancel (next_id ())
  | k -> failwith ("unknown progress event kind " ^ string_of_int k)

let put_wire_arg = function
  | WReq (i, m, a) -> put_int 0; put_id i; put_n m;
      (match a with None -> put_int 0 | Some t -> put_int 1; put_id t)
  | WProgress (t, k, v) -> put_int 1; put_id t; put_n k; put_n v

(* per-event digest: futures, hook calls, frames written, refusals, Progress.tokens *)
let put_digest (s : st) =
  put_list (fun (_, o) -> put_int (state_code o.ost); put_n o.ocalls) s.ofuts;
  put_n s.errs; put_int (List.length s.out); put_n s.refused;
  put_list (fun (t, c) -> put_id t; put_bool c) (token_view s);
  put_list put_id (akeys s.futs); put_list put_id (akeys s.rtypes)

let dispatch = function
  | "prun" ->
    let evs = read_list next_pev in
    put_list put_digest (ptrace_from init evs);
    let fin = prun evs in
    put_list put_wire_arg fin.out;
    put_list (fun ((t, k), v) -> put_id t; put_n k; put_n v) (spec_progress evs)
  | c -> failwith ("unknown command " ^ c)
let () = main_loop dispatch
