(* conv: io n z *)
(* C04 driver: one case per input line, one observation per output line.
   hist e k <text> v0 <notifications>   notification = v <changes>
   change = 1 sl sc el ec <text>  (with a range)  |  0 <text>  (whole document)
   output: number of prefixes (open + one per notification); per prefix the model's source and
   version (0 | 1 v) and the reference's text and version, then the number of queried positions
   and, if any, the model's and the reference's answers; then valid, guard F17.
   After the notifications: per prefix the list of queried positions. *)
let next_enc () = match next_int () with 8 -> Utf8 | 16 -> Utf16 | _ -> Utf32
let next_kind () = match next_int () with 0 -> SyncNone | 1 -> SyncFull | _ -> SyncIncremental
let next_pos () = let l = next_n () in let c = next_n () in (l, c)
let put_pos (l, c) = put_n l; put_n c
let next_change () =
  match next_int () with
  | 1 -> let s = next_pos () in let t = next_pos () in let x = next_str () in Partial ((s, t), x)
  | _ -> Whole (next_str ())
let next_notif () = let v = next_z () in let cs = read_list next_change in (v, cs)
let rec prefixes = function [] -> [[]] | x :: r -> [] :: List.map (fun p -> x :: p) (prefixes r)
let put_optz = function None -> put_int 0; put_int 0 | Some v -> put_int 1; put_z v
(* the queries of a step: the lines of the text, then per sampled position offset_at_position,
   word_at_position, position_from_client_units and position_to_client_units on those lines *)
let put_queries e t qs =
  let ls = lsp_lines t in
  put_list put_nstr ls;
  List.iter (fun p ->
    put_n (offset_at_position e t p);
    put_nstr (word_at_position e t p);
    put_pos (fst (position_from_client_units e ls p));
    put_pos (fst (position_to_client_units e ls p))) qs
let dispatch = function
  | "hist" ->
    let e = next_enc () in let k = next_kind () in let text = next_str () in let v0 = next_z () in
    let ns = read_list next_notif in
    let ps = prefixes ns in
    let qss = List.map (fun _ -> read_list next_pos) ps in
    put_int (List.length ps);
    List.iter2 (fun p qs ->
      let d = run e k text v0 p in
      put_nstr (source d); put_optz (d_version d);
      put_nstr (spec_text e k text p); put_z (spec_version v0 p);
      put_int (List.length qs);
      if qs <> [] then begin
        put_queries e (source d) qs;              (* the model: a function of its current text *)
        put_queries e (spec_text e k text p) qs   (* the reference: the same queries on the reference text *)
      end) ps qss;
    put_bool (valid_history e k text ns);
    put_bool (guard_history e k text ns)
  | "off" ->   (* e <text> l ch -> defined? offset *)
    let e = next_enc () in let text = next_str () in let p = next_pos () in
    (match spec_off e text p with Some o -> put_int 1; put_n o | None -> put_int 0; put_int 0)
  | c -> failwith ("unknown command " ^ c)
let () = main_loop dispatch
