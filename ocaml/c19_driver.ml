(* conv: io n nat *)
(* C19 driver.  Commands:
     seqs <header> k (nattempts attempt* )^k   -> per sequence: M tokens | S bits S tokens | guard  #
     inter ...                                 -> interleaved definitions / creations / applications on several servers
     one <name> opt                            -> one feature registration on the empty registry (M, S, guard)
     isspace c                                 -> py_isspace c
     isspaces lo hi                            -> k, the k code points of [lo,hi) that are whitespace
     invalid <name>                            -> name_invalid n, blank n
   header  = names-table probeF probeC builtins
             names-table = k (0 | 1 str)^k      (0 = None)
             probeF / probeC / builtins = lists of indices into the table
   attempt = kind(0 feature,1 command) nameidx opt async params thr hid
             opt    = 0 | 1 oid truthy nominal chk(0 NoType,1 Valid,2 Wrong,3 UnknownMethod,4 Raises)
             params = 0 | 1 is_ls annot(0 none,1 server,2 other)
             thr    = 0 none | 1 above | 2 below
   A registry is printed as  nF (idx fid async thread inject)* nC (...)* nO (idx oid)*  each part
   sorted by name index; the dispatch part as, per probed feature name: found nran (fid site inject)*,
   per probed command name: nran (fid site inject)*. *)
let next_name () = match next_int () with 0 -> None | _ -> Some (next_str ())
let next_bool () = next_int () <> 0
let next_opt () = match next_int () with
  | 0 -> ONone
  | _ -> let oid = next_n () in let t = next_bool () in let nom = next_bool () in
    let chk = (match next_int () with 0 -> CkNoType | 1 -> CkValid | 2 -> CkWrong
                                    | 3 -> CkUnknownMethod | _ -> CkRaises) in
    OObj (oid, t, nom, chk)
let next_params () = match next_int () with
  | 0 -> NoFirst
  | _ -> let l = next_bool () in
    let a = (match next_int () with 0 -> ANone | 1 -> AServer | _ -> AOther) in First (l, a)
let nth_name (tbl : n list option array) i = tbl.(i)
let idx_of (tbl : n list option array) (nm : n list option) =
  let r = ref (-1) in
  Array.iteri (fun i x -> if !r < 0 && name_eqb nm x then r := i) tbl; !r
let next_attempt tbl () =
  let kind = (match next_int () with 0 -> RFeature | _ -> RCommand) in
  let nm = nth_name tbl (next_int ()) in
  let o = next_opt () in
  let asy = next_bool () in
  let ps = next_params () in
  let th = (match next_int () with 0 -> TNone | 1 -> TAbove | _ -> TBelow) in
  let hid = next_n () in
  { a_kind = kind; a_name = nm; a_opt = o;
    a_fn = { f_id = hid; f_async = asy; f_params = ps; f_thread = false; f_reg = None };
    a_thr = th }
let put_sorted (rows : int list list) =
  let rows = List.sort Stdlib.compare rows in
  put_int (List.length rows); List.iter (List.iter put_int) rows
let b2i b = if b then 1 else 0
let entry_row tbl (nm, e) =
  [idx_of tbl nm; int_of_n e.e_fid; b2i e.e_async; b2i e.e_thread; b2i e.e_inject]
let put_registry tbl (r : registry) =
  put_sorted (List.map (entry_row tbl) r.features);
  put_sorted (List.map (entry_row tbl) r.commands);
  put_sorted (List.map (fun (nm, oid) -> [idx_of tbl nm; int_of_n oid]) r.feature_options)
let sreg_row tbl g =
  [idx_of tbl g.g_name; int_of_n g.g_fid; b2i g.g_async; b2i g.g_thread; b2i g.g_inject]
let put_sstate tbl (s : sstate) =
  put_sorted (List.map (sreg_row tbl) s.s_features);
  put_sorted (List.map (sreg_row tbl) s.s_commands);
  put_sorted (List.concat (List.map (fun g -> match g.g_opt with
      | Some oid -> [[idx_of tbl g.g_name; int_of_n oid]] | None -> []) s.s_features))
let site_int e = match exec_site e with LoopInline -> 0 | LoopTask -> 1 | Pool -> 2
let put_ran es =
  put_int (List.length es);
  List.iter (fun e -> put_int (int_of_n e.e_fid); put_int (site_int e); put_int (b2i e.e_inject)) es
let put_dispatch tbl builtins pf pc (r : registry) =
  List.iter (fun i -> let (found, es) = dispatch builtins r (nth_name tbl i) in
              put_bool found; put_ran es) pf;
  List.iter (fun i -> put_ran (exec_command r (nth_name tbl i))) pc
let dispatch = function
  | "seqs" ->
    let tbl = Array.of_list (read_list next_name) in
    let pf = read_list next_int in
    let pc = read_list next_int in
    let bi = List.map (nth_name tbl) (read_list next_int) in
    let k = next_int () in
    for _ = 1 to k do
      let ats = read_list (next_attempt tbl) in
      (* M *)
      let tr = run_attempts empty_registry ats in
      put_registry tbl empty_registry; put_dispatch tbl bi pf pc empty_registry;
      put_int (List.length tr);
      List.iter (fun (r, res) ->
          put_int (match res with Ok -> 1 | Error _ -> 0);
          put_registry tbl r; put_dispatch tbl bi pf pc r) tr;
      put_str "|";
      (* S *)
      let st = spec_run_attempts s_empty ats in
      put_str ("r" ^ String.concat "" (List.map (fun (_, b) -> if b then "1" else "0") st));
      put_int (List.length st);
      List.iter (fun (s, refused) -> put_int (if refused then 0 else 1); put_sstate tbl s) st;
      put_str "|";
      put_bool (List.for_all attempt_ok ats);
      put_str "#"
    done
  | "inter" ->
    (* header nservers nops (srv op)^nops ; op = 0 async params hid | 1 kind(0 F nameidx opt,1 C nameidx,2 T) | 2 i j
       -> M: initial R D, nops, per op: res R D of the acting server | S: bits, nops, per op: accepted R | guard *)
    let tbl = Array.of_list (read_list next_name) in
    let pf = read_list next_int in
    let pc = read_list next_int in
    let bi = List.map (nth_name tbl) (read_list next_int) in
    let nsrv = next_int () in
    let ops = read_list (fun () ->
        let k = next_int () in
        let x = (match next_int () with
            | 0 -> let asy = next_bool () in let ps = next_params () in let hid = next_n () in
              WDef { f_id = hid; f_async = asy; f_params = ps; f_thread = false; f_reg = None }
            | 1 -> (match next_int () with
                | 0 -> let nm = nth_name tbl (next_int ()) in let o = next_opt () in WMake (DFeature (nm, o))
                | 1 -> let nm = nth_name tbl (next_int ()) in WMake (DCommand nm)
                | _ -> WMake DThread)
            | _ -> let i = next_nat () in let j = next_nat () in WApply (i, j)) in
        (k, x)) in
    let ws = ref (List.init nsrv (fun _ -> empty_world)) in
    put_registry tbl empty_registry; put_dispatch tbl bi pf pc empty_registry;
    put_int (List.length ops);
    List.iter (fun (k, x) ->
        let (ws', res) = mstep !ws (nat_of_int k) x in
        ws := ws';
        let r = (List.nth ws' k).w_reg in
        put_int (match res with Ok -> 1 | Error _ -> 0);
        put_registry tbl r; put_dispatch tbl bi pf pc r) ops;
    put_str "|";
    let sws = Array.make nsrv sw_empty in
    let outs = List.map (fun (k, x) ->
        let (w', refused) = spec_wstep sws.(k) x in sws.(k) <- w'; (w', refused)) ops in
    put_str ("r" ^ String.concat "" (List.map (fun (_, b) -> if b then "1" else "0") outs));
    put_int (List.length outs);
    List.iter (fun (w, refused) -> put_int (if refused then 0 else 1); put_sstate tbl w.sw_state) outs;
    put_str "|";
    put_bool (List.for_all (fun (_, x) -> wop_ok x) ops);
    put_str "#"
  | "one" ->                                  (* name opt -> M: accepted inF inO | S: accepted inF inO | guard *)
    let nm = next_name () in let o = next_opt () in
    let f = { f_id = n_of_int 1; f_async = false; f_params = First (false, ANone); f_thread = false; f_reg = None } in
    let x = OpFeature (nm, o, f) in
    let ((r, _), res) = step empty_registry x in
    put_int (match res with Ok -> 1 | Error _ -> 0);
    put_bool (amem nm r.features); put_bool (amem nm r.feature_options);
    let (s, refused) = spec_step s_empty x in
    put_bool (not refused);
    put_bool (List.exists (fun g -> name_eqb nm g.g_name) s.s_features);
    put_bool (List.exists (fun g -> name_eqb nm g.g_name && g.g_opt <> None) s.s_features);
    put_bool (op_ok x)
  | "isspace" -> let c = next_n () in put_bool (py_isspace c)
  | "isspaces" ->                             (* lo hi -> count, then every c in [lo,hi) with py_isspace c *)
    let lo = next_int () in let hi = next_int () in
    let l = ref [] in
    for c = hi - 1 downto lo do if py_isspace (n_of_int c) then l := c :: !l done;
    put_list put_int !l
  | "invalid" -> let nm = next_name () in put_bool (name_invalid nm); put_bool (blank nm)
  | c -> failwith ("unknown command " ^ c)
let () = main_loop dispatch
