(* ---- int <-> nat (small values only) ---- *)
let rec nat_of_int i = if i <= 0 then O else S (nat_of_int (i - 1))
let rec int_of_nat = function O -> 0 | S k -> 1 + int_of_nat k
let next_nat () = nat_of_int (next_int ())
let put_nat x = put_int (int_of_nat x)
