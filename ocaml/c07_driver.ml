(* conv: io n z *)
(* C07 driver: one case per input line, one observation per output line.
   Codes are arbitrary-size integers: token group `sign k b0 .. b(k-1)` (bits, least significant
   first), built directly as a Coq positive; the `data` payload is an OCaml int (an index into the
   harness's payload list, -1 = "the traceback payload"). *)
let rec pos_of_bits = function
  | [] -> XH                      (* not reached: the top bit is always 1 *)
  | [_] -> XH
  | b :: r -> if b = 1 then XI (pos_of_bits r) else XO (pos_of_bits r)
let next_zb () =
  let s = next_int () in
  let bits = read_list next_int in
  if s = 0 then Z0 else if s > 0 then Zpos (pos_of_bits bits) else Zneg (pos_of_bits bits)
let rec bits_of_pos = function XH -> [1] | XO p -> 0 :: bits_of_pos p | XI p -> 1 :: bits_of_pos p
let put_zb = function
  | Z0 -> put_int 0; put_int 0
  | Zpos p -> put_int 1; put_list put_int (bits_of_pos p)
  | Zneg p -> put_int (-1); put_list put_int (bits_of_pos p)
let next_opt f = if next_int () = 0 then None else Some (f ())
let put_opt f = function None -> put_int 0 | Some x -> put_int 1; f x
let all_classes = base_entry :: current_table
let next_class () = List.nth all_classes (next_int ())
let next_kind () = match next_int () with 0 -> HSync | 1 -> HAsync | _ -> HThread

(* cres: status (1 ok, 2 ValueError, 3 TypeError, 4 AttributeError), then the instance *)
let put_cres = function
  | COk x -> put_int 1; put_nstr x.x_class.e_name; put_zb x.x_code; put_nstr x.x_msg;
             put_opt put_int x.x_data
  | CValueError -> put_int 2
  | CTypeError -> put_int 3
  | CAttributeError -> put_int 4
let put_from = put_cres
let put_spec_class c =
  match spec_requester current_table base_entry c with
  | None -> put_int 0
  | Some e -> put_int 1; put_nstr e.e_name
let put_rerror e = put_zb e.r_code; put_nstr e.r_msg; put_opt put_int e.r_data

let next_exc () =
  let e = next_class () in
  let m = next_opt next_str in let c = next_opt next_zb in let d = next_opt next_int in
  construct e m c d

let next_request () =
    let meth = next_str () in let idtxt = next_str () in
    let p = match next_int () with 0 -> POk | 1 -> PBadValidation | _ -> PBadOther in
    let tg = match next_int () with
      | 0 -> TUnknown
      | 1 -> TFeature (next_kind ())
      | 2 -> TCommandKnown (next_kind ())
      | _ -> let tx = next_str () in TCommandUnknown (tx, -1) in
    let cancelled = next_int () = 1 in
    let o = match next_int () with
      | 0 -> HRet
      | 3 -> HRetUnser
      | 1 -> (match next_exc () with
              | COk x -> HRaiseRpc x
              | _ -> HRaiseOther ([], -1))   (* the constructor raises inside the handler: any other exception *)
      | _ -> let tx = next_str () in HRaiseOther (tx, -1) in
    { q_method = meth; q_idtxt = idtxt; q_params = p; q_target = tg;
      q_cancelled = cancelled; q_outcome = o }
(* M: the reply, and what the requester's future fails with *)
let put_reply = function
  | SBroken -> put_int 0
  | SNoReply -> put_int 3
  | SReply RResult -> put_int 1
  | SReply (RError e) -> put_int 2; put_rerror e;
    put_from (from_error current_table base_entry e); put_spec_class e.r_code
(* S *)
let put_spec q =
  put_bool (server_guard q);
  (match spec_server q with
   | None -> put_int 0
   | Some EResult -> put_int 1
   | Some (ECode c) -> put_int 2; put_zb c
   | Some (EOwn (c, m, d)) -> put_int 3; put_zb c; put_nstr m; put_opt put_int d
   | Some (ECodeText (c, tx)) -> put_int 4; put_zb c; put_nstr tx)

let dispatch = function
  | "tables" ->      (* the executable guards on the regenerated table, and its names *)
    put_bool (table_ok current_table); put_bool (ctors_ok base_entry current_table);
    put_bool (has_server_range base_entry current_table); put_bool (server_classes_ok current_table);
    put_list (fun e -> put_nstr e.e_name) all_classes
  | "from" ->        (* code msg data -> M: from_error ; S: class *)
    let c = next_zb () in let m = next_str () in let d = next_opt next_int in
    put_from (from_error current_table base_entry { r_code = c; r_msg = m; r_data = d });
    put_spec_class c
  | "ctor" ->        (* class msg? code? data? -> instance ; from_error (to_response_error x) ; S class *)
    (match next_exc () with
     | COk x as r -> put_cres r;
       (match to_response_error x with
        | None -> put_int 0                      (* ValueError from the ResponseError validator *)
        | Some e -> put_int 1;
          put_from (from_error current_table base_entry e); put_spec_class e.r_code;
          put_bool (x.x_class.e_reg && supports_code x.x_class x.x_code))
     | r -> put_cres r)
  | "srv" ->         (* method idtxt pstatus target cancelled outcome *)
    let q = next_request () in put_reply (server_reply current_table q); put_spec q
  | "session" ->     (* k requests on one connection: the fold, then per request reply and reference *)
    let qs = read_list next_request in
    let rs = session_replies current_table qs in
    put_int (List.length qs);
    List.iter2 (fun r q -> put_reply r; put_spec q) rs qs
  | c -> failwith ("unknown command " ^ c)
let () = main_loop dispatch
