(* conv: io n *)
(* C18 driver: one case per input line, one observation per output line.
   outcome of an optional string: 0 = None, 1 s = Some s, 2 = ValueError, 3 = UnicodeEncodeError,
   4 = Exception, 9 = not evaluated (an earlier step did not yield a string) *)
let put_exn = function ValueError -> put_int 2 | UnicodeEncodeError -> put_int 3 | PlainException -> put_int 4
let put_oo = function
  | Ret None -> put_int 0
  | Ret (Some s) -> put_int 1; put_nstr s
  | Raise e -> put_exn e
let put_os = function Ret s -> put_int 1; put_nstr s | Raise e -> put_exn e
let next_opt () = if next_int () = 1 then Some (next_str ()) else None
let put_opt = function None -> put_int 0 | Some s -> put_int 1; put_nstr s
let dispatch = function
  | "rt" ->      (* path -> from, to(from), from(to(from)), TextDocument(from).path; S: spec_uri norm; guard abs empty_authority *)
    let p = next_str () in
    let u1 = from_fs_path (Some p) in
    put_oo u1;
    (match u1 with
     | Ret (Some u) ->
       let b = to_fs_path (Some u) in
       put_oo b;
       (match b with Ret (Some q) -> put_oo (from_fs_path (Some q)) | _ -> put_int 9);
       put_os (text_document_path u)
     | _ -> put_int 9; put_int 9; put_int 9);
    let (su, sn) = spec_roundtrip p in
    put_nstr su; put_nstr sn;
    put_bool (guard p); put_bool (abs_path p); put_bool (empty_authority p)
  | "to" ->      (* uri -> to_fs_path, uri_scheme, TextDocument(uri).path, approx, plain, scheme_is_file, spec_scheme *)
    let u = next_str () in
    put_oo (to_fs_path (Some u)); put_oo (uri_scheme (Some u)); put_os (text_document_path u);
    put_bool (approx_uri u); put_bool (plain_uri u); put_bool (scheme_is_file u); put_opt (spec_scheme u)
  | "none" -> put_oo (from_fs_path None); put_oo (to_fs_path None); put_oo (uri_scheme None)
  | "quote" -> put_os (quote (next_str ()))
  | "unquote" -> put_nstr (unquote (next_str ()))
  | "parse" | "pyparse" as k ->
    let u = next_str () in
    (match (if k = "parse" then urlparse u else py_urlparse u) with
     | Ret (((((a, b), c), d), e), f) -> put_int 1; List.iter put_nstr [a; b; c; d; e; f]
     | Raise e -> put_exn e);
    put_bool (approx_uri u)
  | "unparse" ->
    let a = next_str () in let b = next_str () in let c = next_str () in
    let d = next_str () in let e = next_str () in let f = next_str () in
    put_os (urlunparse a b c d e f)
  | "norm" -> let p = next_str () in let (a, b) = normalize_win_path p in put_nstr a; put_nstr b
  | "rfc" ->     (* the reference's own split and strict decoding, cross-checked against Python's re *)
    let u = next_str () in
    let r = rfc3986_split u in
    put_opt r.u_scheme; put_opt r.u_authority; put_nstr r.u_path; put_opt r.u_query; put_opt r.u_fragment;
    put_opt (pct_decode u)
  | "wrt" ->     (* IS_WIN: path -> from, to(from), from(to(from)); S: uri, win_norm; guard, empty authority *)
    let p = next_str () in
    let u1 = from_fs_path_gen true (Some p) in
    put_oo u1;
    (match u1 with
     | Ret (Some u) ->
       let b = to_fs_path_gen true (Some u) in
       put_oo b;
       (match b with Ret (Some q) -> put_oo (from_fs_path_gen true (Some q)) | _ -> put_int 9)
     | _ -> put_int 9; put_int 9);
    let (su, sn) = spec_roundtrip_win p in
    put_nstr su; put_nstr sn; put_bool (win_guard p); put_bool (empty_authority (win_slashed p))
  | "wto" -> let u = next_str () in put_oo (to_fs_path_gen true (Some u)); put_bool (approx_uri u)
  | "uw" ->      (* is_win uri scheme? netloc? path? params? query? fragment? -> uri_with *)
    let w = next_int () = 1 in
    let u = next_str () in
    let a = next_opt () in let b = next_opt () in let c = next_opt () in
    let d = next_opt () in let e = next_opt () in let f = next_opt () in
    put_os (uri_with_gen w u a b c d e f); put_bool (approx_uri u)
  | "uwid" ->    (* path -> u = from(p), uri_with(u, path = to_fs_path(u)); S: spec_uri p; guard *)
    let p = next_str () in
    (match from_fs_path (Some p) with
     | Ret (Some u) ->
       (match to_fs_path (Some u) with
        | Ret (Some b) -> put_os (uri_with u None None (Some b) None None None)
        | _ -> put_int 9)
     | _ -> put_int 9);
    put_nstr (spec_uri p); put_bool (guard p)
  | "uwr" ->     (* p fp netloc? query? fragment? -> r = uri_with(from(p), ...), urlparse r; S; guard; in class F29 *)
    let p = next_str () in let fp = next_str () in
    let n = next_opt () in let q = next_opt () in let f = next_opt () in
    (match from_fs_path (Some p) with
     | Ret (Some u) ->
       let r = uri_with u None n (Some fp) None q f in
       put_os r;
       (match r with
        | Ret r' ->
          (match urlparse r' with
           | Ret (((((a, b), c), d), e), g) -> put_int 1; List.iter put_nstr [a; b; c; d; e; g]
           | Raise e -> put_exn e)
        | _ -> put_int 9)
     | _ -> put_int 9; put_int 9);
    put_nstr (spec_uri_with p fp n q f); put_bool (with_guard p fp n q f);
    put_bool (path_has_authority fp && with_guard p [n_of_int 47] n q f && opt_scalar (Some fp))
  | c -> failwith ("unknown command " ^ c)
let () = main_loop dispatch
