(* conv: io n *)
(* C18 driver: one case per input line, one observation per output line.
   outcome of an optional string: 0 = None, 1 s = Some s, 2 = ValueError, 3 = UnicodeEncodeError,
   9 = not evaluated (an earlier step did not yield a string) *)
let put_exn = function ValueError -> put_int 2 | UnicodeEncodeError -> put_int 3
let put_oo = function
  | Ret None -> put_int 0
  | Ret (Some s) -> put_int 1; put_nstr s
  | Raise e -> put_exn e
let put_os = function Ret s -> put_int 1; put_nstr s | Raise e -> put_exn e
let put_opt = function None -> put_int 0 | Some s -> put_int 1; put_nstr s
let dispatch = function
  | "rt" ->      (* path -> from, to(from), from(to(from)), TextDocument(from).path; S: spec_uri norm; guard abs empty_authority *)
    let p = next_str () in
    let u1 = from_fs_path (Some p) in
    put_oo u1;
    (match u1 with
     | Ret (Some u) ->
       let b = to_fs_path (Some u) in
       put_oo b;
       (match b with Ret (Some q) -> put_oo (from_fs_path (Some q)) | _ -> put_int 9);
       put_os (text_document_path u)
     | _ -> put_int 9; put_int 9; put_int 9);
    let (su, sn) = spec_roundtrip p in
    put_nstr su; put_nstr sn;
    put_bool (guard p); put_bool (abs_path p); put_bool (empty_authority p)
  | "to" ->      (* uri -> to_fs_path, uri_scheme, TextDocument(uri).path, approx, plain, scheme_is_file *)
    let u = next_str () in
    put_oo (to_fs_path (Some u)); put_oo (uri_scheme (Some u)); put_os (text_document_path u);
    put_bool (approx_uri u); put_bool (plain_uri u); put_bool (scheme_is_file u)
  | "none" -> put_oo (from_fs_path None); put_oo (to_fs_path None); put_oo (uri_scheme None)
  | "quote" -> put_os (quote (next_str ()))
  | "unquote" -> put_nstr (unquote (next_str ()))
  | "parse" | "pyparse" as k ->
    let u = next_str () in
    (match (if k = "parse" then urlparse u else py_urlparse u) with
     | Ret (((((a, b), c), d), e), f) -> put_int 1; List.iter put_nstr [a; b; c; d; e; f]
     | Raise e -> put_exn e);
    put_bool (approx_uri u)
  | "unparse" ->
    let a = next_str () in let b = next_str () in let c = next_str () in
    let d = next_str () in let e = next_str () in let f = next_str () in
    put_os (urlunparse a b c d e f)
  | "norm" -> let p = next_str () in let (a, b) = normalize_win_path p in put_nstr a; put_nstr b
  | "rfc" ->     (* the reference's own split and strict decoding, cross-checked against Python's re *)
    let u = next_str () in
    let r = rfc3986_split u in
    put_opt r.u_scheme; put_opt r.u_authority; put_nstr r.u_path; put_opt r.u_query; put_opt r.u_fragment;
    put_opt (pct_decode u)
  | c -> failwith ("unknown command " ^ c)
let () = main_loop dispatch
