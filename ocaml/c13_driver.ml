(* conv: io n z *)
(* C13 driver.  Tables are loaded by `setreg` / `sethelpers` lines and kept for the following
   cases.  The converter oracle is symbolic: structure ty v = SOk (ty, v) (or the failure the
   harness measured on the real converter, third field of `recv`). *)
let reg : mrow list ref = ref []
let helpers : hrow list ref = ref []

let next_bool () = next_int () <> 0
let next_ostr () = if next_int () = 0 then None else Some (next_str ())
let put_ostr = function None -> put_int 0 | Some s -> put_int 1; put_nstr s

let rec next_json () : json =
  match next_int () with
  | 0 -> JNull
  | 1 -> JBool (next_bool ())
  | 2 -> JNum (next_z ())
  | 3 -> JStr (next_str ())
  | 7 -> JFlt (next_str ())
  | 4 -> JArr (read_list next_json)
  | 5 -> JObj (read_list (fun () -> let k = next_str () in let v = next_json () in (k, v)))
  | t -> failwith ("bad json tag " ^ string_of_int t)

let int_of_gclass = function GRequest -> 0 | GNotification -> 1 | GResponse -> 2
let rec put_pval (v : pval) =
  match v with
  | PNull -> put_int 0
  | PBool b -> put_int 1; put_bool b
  | PNum z -> put_int 2; put_z z
  | PStr s -> put_int 3; put_nstr s
  | PFlt s -> put_int 7; put_nstr s
  | PList l -> put_int 4; put_list put_pval l
  | PDict kvs -> put_int 5; put_list (fun (k, v) -> put_nstr k; put_pval v) kvs
  | PTuple (tn, fs) -> put_int 6; put_nstr tn; put_list (fun (k, v) -> put_nstr k; put_pval v) fs
  | PMsg (c, fs) -> put_int 8; put_int (int_of_gclass c); put_list (fun (k, v) -> put_nstr k; put_pval v) fs

let rec put_json (j : json) = put_pval (embed j)
let int_of_kind = function KRequest -> 0 | KNotification -> 1 | KResponse -> 2 | KErrorResponse -> 3
let put_step = function Key k -> put_int 0; put_nstr k | Idx i ->
  put_int 1; put_int (let rec f = function O -> 0 | S k -> 1 + f k in f i)

let next_mrow () =
  let name = next_str () in let rq = next_bool () in
  let d = (match next_int () with 0 -> ClientToServer | 1 -> ServerToClient | _ -> BothDir) in
  let msg = next_str () in let res = next_ostr () in let par = next_ostr () in
  { m_name = name; m_request = rq; m_dir = d; m_msg_type = msg; m_res_type = res; m_par_type = par }
let next_side () = if next_int () = 0 then Server else Client
let next_hrow () =
  let sd = next_side () in let name = next_str () in let m = next_str () in
  let k = (match next_int () with 0 -> HNotify | 1 -> HSendRequest | _ -> HSendRequestAsync) in
  let p = next_bool () in let cb = next_bool () in
  { h_side = sd; h_name = name; h_method = m; h_kind = k; h_params = p; h_callback = cb }

let put_trip = function
  | None -> put_int 0
  | Some t -> put_int 1; put_nstr t.t_method; put_bool t.t_has_id; put_nstr t.t_msg_type;
              put_int (int_of_kind t.t_route); put_ostr t.t_res_type

let oracle = ref 0
(* stream cases: one measured converter outcome per frame that reaches the converter, in order *)
let oracle_queue : int list ref = ref []
let structure ty v =
  let flag = (match !oracle_queue with
              | f :: r -> oracle_queue := r; f
              | [] -> !oracle) in
  match flag with 0 -> SOk (ty, v) | 1 -> SValErr | _ -> SOtherErr

let put_message = function
  | MGeneric (c, fs) -> put_int 0; put_int (int_of_gclass c);
                        put_list (fun (k, v) -> put_nstr k; put_pval v) fs
  | MTyped (t, (ty, v)) -> put_int 1; put_nstr ty; put_pval v
let put_replies l = put_list (fun (i, c) -> put_pval i; put_z c) l
let put_outcome = function
  | ODropped None -> put_int 0; put_int 0
  | ODropped (Some c) -> put_int 0; put_int 1; put_z c
  | ORejected (c, r) -> put_int 1; put_z c; put_replies r
  | ORequest (i, m) -> put_int 2; put_pval i; put_message m
  | ONotification m -> put_int 3; put_message m
  | OResult (i, m, k) -> put_int 4; put_pval i; put_message m; put_bool k
  | OError (i, m, k) -> put_int 5; put_pval i; put_message m; put_bool k
  | OUnmodelled -> put_int 6

let put_leaves j =
  put_list (fun (p, leaf) -> put_list put_step p; put_json leaf) (spec_leaves j)
let put_guard payload =
  put_bool (generic_guard payload); put_bool (has_type_name payload); put_bool (deep_jsonrpc payload);
  put_bool (array_with_objects payload); put_bool (wf_json payload)

let dispatch = function
  | "setreg" -> reg := read_list next_mrow; put_int (List.length !reg)
  | "sethelpers" -> helpers := read_list next_hrow; put_int (List.length !helpers)
  | "tablesok" -> put_bool (helpers_ok !reg !helpers); put_bool (registry_ok !reg)
  | "helperok" -> let h = next_hrow () in put_bool (helper_ok !reg h)
  | "covered" -> let m = next_str () in
    (match find_method !reg m with
     | Some r -> put_bool (method_covered !helpers Server r); put_bool (method_covered !helpers Client r)
     | None -> put_int 0; put_int 0)
  | "trip" ->    (* helper row, id -> S (from the name alone), M (from what the row says it calls) *)
    let h = next_hrow () in let i = embed (next_json ()) in
    (* what the requester does between the request and its reply: 0 send m id | 1 notify m | 2 frame received *)
    let evs = read_list (fun () -> match next_int () with
      | 0 -> let m = next_str () in let j = embed (next_json ()) in ESend (m, j)
      | 1 -> ENotify (next_str ())
      | _ -> (match embed (next_json ()) with PDict d -> ERecv d | _ -> ERecv [])) in
    oracle := 0;
    put_trip (spec_trip !reg h.h_side h.h_name); put_trip (model_trip_after structure !reg h i evs)
  | "classify" ->
    let i = next_bool () in let m = next_bool () in let e = next_bool () in
    put_int (int_of_kind (classify i m e));
    (match spec_kind i m e with None -> put_int (-1) | Some k -> put_int (int_of_kind k))
  | "pyname" -> put_nstr (python_name (next_str ()))
  | "d2o" ->     (* _dict_to_object on a JSON value: M result, guard, class, wf, S leaves *)
    let j = next_json () in
    (match dict_to_object (embed j) with
     | SOk v -> put_int 1; put_pval v
     | _ -> put_int 0);
    put_guard j; put_leaves j
  | "recv" ->    (* sends (method, id)*, oracle flag, wire -> outcome, tables after, guards, leaves of the payload *)
    let sends = read_list (fun () -> let m = next_str () in let i = embed (next_json ()) in (m, i)) in
    oracle := next_int ();
    let wire = next_json () in
    let st = List.fold_left (fun st (m, i) -> fst (send_request !reg st m i)) st0 sends in
    let (st', o) = receive structure !reg st wire in
    put_outcome o;
    (* a request is answered through _send_response: which class it instantiates for this id *)
    (match o with
     | ORequest (i, _) -> (match snd (send_response st' i) with
                           | RespRaise -> put_int 0
                           | RespSent None -> put_int 1
                           | RespSent (Some _) -> put_int 2)
     | _ -> ());
    put_list put_pval st'.futs;
    put_list (fun (i, _) -> put_pval i) st'.rtypes;
    put_bool (nested_jsonrpc wire);
    let payload = (match wire with
      | JObj kvs -> (match aget k_params kvs with Some p -> p
                     | None -> (match aget k_result kvs with Some p -> p | None -> JNull))
      | _ -> JNull) in
    put_guard payload; put_leaves payload
  | "sendresp" ->   (* sends, id -> which class _send_response instantiates *)
    let sends = read_list (fun () -> let m = next_str () in let i = embed (next_json ()) in (m, i)) in
    let i = embed (next_json ()) in
    let st = List.fold_left (fun st (m, i) -> fst (send_request !reg st m i)) st0 sends in
    (match snd (send_response st i) with
     | RespRaise -> put_int 0
     | RespSent t -> put_int 1; put_ostr t)
  | "builtin" ->  (* has_builtin has_user -> user calls, each: after the built-in? given the params object unchanged? *)
    let hb = next_bool () in let hu = next_bool () in
    (* params is token 7; the built-in is any function of (method, params, state): here one that
       records what it was given in the state *)
    let (s', calls) = call_user_feature (fun _ p s -> p :: s) hb hu [] 7 [] in
    let users = List.filter (function CUser _ -> true | _ -> false) calls in
    put_int (List.length users);
    put_bool (List.for_all (function CUser (_, p) -> p = 7 | CBuiltin (_, p) -> p = 7) calls);
    put_bool ((not hb) || (match calls with CBuiltin _ :: _ -> s' = [7] | _ -> false))
  | "stream" ->  (* converter outcomes, frames (0 = undecodable | 1 json) -> per frame: 0 not delivered |
                     1 typed request / notification: class name, "what the converter was given is the wire JSON" |
                     2 generic | 3 a future settled *)
    let flags = read_list next_int in
    let frames = read_list (fun () -> if next_int () = 0 then FGarbage else FJson (next_json ())) in
    oracle := 0; oracle_queue := flags;
    let outs = receive_stream structure !reg st0 frames in
    oracle_queue := [];
    put_int (List.length outs);
    List.iter2 (fun f o ->
      match o with
      | ORequest (_, MTyped (_, (ty, v))) | ONotification (MTyped (_, (ty, v))) ->
        put_int 1; put_nstr ty;
        put_bool (match f with FJson j -> v = embed j | FGarbage -> false)
      | ORequest (_, MGeneric _) | ONotification (MGeneric _) -> put_int 2
      | OResult _ | OError _ -> put_int 3
      | _ -> put_int 0) frames outs
  | c -> failwith ("unknown command " ^ c)
(* the reflected tables of this run: work/C13/tables.txt (two lines: setreg ..., sethelpers ...),
   written by harness/c13.py before the driver is started *)
let load_tables () =
  let path = (try Sys.getenv "C13_TABLES" with Not_found ->
    Filename.concat (Filename.dirname (Filename.dirname Sys.executable_name)) "work/C13/tables.txt") in
  if Sys.file_exists path then begin
    let ic = open_in path in
    (try
      while true do
        let line = input_line ic in
        if String.trim line <> "" then begin
          set_line line;
          (match next_tok () with
           | "setreg" -> reg := read_list next_mrow
           | "sethelpers" -> helpers := read_list next_hrow
           | _ -> ())
        end
      done
    with End_of_file -> ());
    close_in ic
  end
let () = load_tables (); main_loop dispatch
