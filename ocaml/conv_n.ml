(* ---- int <-> positive / N (Coq inductives kept by ExtrOcamlBasic) ---- *)
let rec pos_of_int i =
  if i <= 1 then XH else if i land 1 = 1 then XI (pos_of_int (i lsr 1)) else XO (pos_of_int (i lsr 1))
let rec int_of_pos = function XH -> 1 | XO p -> 2 * int_of_pos p | XI p -> 2 * int_of_pos p + 1
let n_of_int i = if i <= 0 then N0 else Npos (pos_of_int i)
let int_of_n = function N0 -> 0 | Npos p -> int_of_pos p
let next_n () = n_of_int (next_int ())
let put_n x = put_int (int_of_n x)
let next_str () = read_list next_n            (* a string = list of code points / bytes *)
let put_nstr s = put_list put_n s
