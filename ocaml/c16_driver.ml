(* conv: io n z nat *)
(* C16 driver: events are Model/EndpointX.v's (code 8 = ServerCancel id, 9 = OutCancel o, else an
   Endpoint.ev wrapped in Base).
   C16 driver = the C08 driver plus the command `counts` (number of handler tasks and pool work
   items created by a history: used to concatenate independently generated blocks).
   C08 driver = the C01 driver (same input language, same observations) whose `run` summary also
   carries the reference of Spec/CancelSpec.v for every request frame: id, natural payload, and
   whether -32800 is allowed (cancellable && named).  Decode a configuration and an event list,
   run the extracted Endpoint.step one event at a time, print the observation after every event.

   input  :  <cmd> <cfg> <n> <ev>*n
     cfg     = writer(0 blocking|1 awaitable) hook(0 default|1 quiet|2 raises) wfail(-1 | k)
     id      = 0 <int> | 1 <len> <code point>*
     behav   = kind outcome react ; kind = 0 | 1 <n> | 2 <early> ; outcome = 0 <v> | 1 | 2 | 3 <code>
     optb    = 0 | 1 behav
     rmethod = 0 | 1 behav | 2 optb | 3 <fails> optb | 4 optb optb
     nmethod = 0 | 1 behav | 2 id | 3 optb | 4 <fails> optb
     frame   = 0 | 1 <ver> id <ps> rmethod | 2 <ver> <tag> <ps> nmethod | 3 <ver> id <iserr> <ps>
     ev      = 0 frame | 1 <t> | 2 <t> | 3 <j> | 4 <j> | 5 | 6 | 7 id
   output of `run`: n times (observation, ids newly owed a reply by the reference), then a summary
   (see put_obs / put_summary). *)
let next_bool () = next_int () <> 0
let next_id () = match next_int () with
  | 0 -> IInt (next_z ())
  | _ -> IStr (next_str ())
let next_kind () = match next_int () with
  | 0 -> HSync
  | 1 -> HAsync (next_nat ())
  | _ -> HThread (next_bool ())
let next_outcome () = match next_int () with
  | 0 -> ORet (next_z ())
  | 1 -> ORetUnser
  | 2 -> ORaise
  | _ -> ORaiseRpc (next_z ())
let next_behav () =
  let k = next_kind () in let o = next_outcome () in
  let r = if next_int () = 0 then Propagate else Swallow in
  { bkind = k; bout = o; breact = r }
let next_optb () = if next_int () = 0 then None else Some (next_behav ())
let next_ps () = match next_int () with 0 -> POk | 1 -> PBad | _ -> PFail
let next_rmethod () = match next_int () with
  | 0 -> RUnknown
  | 1 -> RUser (next_behav ())
  | 2 -> RShutdown (next_optb ())
  | 3 -> let f = next_bool () in RBuiltin (f, next_optb ())
  | _ -> let c = next_optb () in RCommand (c, next_optb ())
let next_nmethod () = match next_int () with
  | 0 -> NUnknown
  | 1 -> NUser (next_behav ())
  | 2 -> NCancel (next_id ())
  | 3 -> NExit (next_optb ())
  | _ -> let f = next_bool () in NBuiltin (f, next_optb ())
let next_frame () = match next_int () with
  | 0 -> FGarbage
  | 1 -> let v = next_bool () in let i = next_id () in let ps = next_ps () in FReq (v, i, ps, next_rmethod ())
  | 2 -> let v = next_bool () in let t = next_nat () in let ps = next_ps () in FNotif (v, t, ps, next_nmethod ())
  | _ -> let v = next_bool () in let i = next_id () in let e = next_bool () in FResp (v, i, e, next_ps ())
let next_ev () = match next_int () with
  | 0 -> Recv (next_frame ())
  | 1 -> TaskStep (next_nat ())
  | 2 -> LoopCb (next_nat ())
  | 3 -> JobStart (next_nat ())
  | 4 -> JobFinish (next_nat ())
  | 5 -> WriteStep
  | 6 -> ExitCb
  | _ -> UserSend (next_id ())
let next_evx () =
  (* peek the event code: 8 = ServerCancel id, 9 = OutCancel o, anything else an Endpoint.ev *)
  match !toks with
  | "8" :: r -> toks := r; ServerCancel (next_id ())
  | "9" :: r -> toks := r; OutCancel (next_nat ())
  | _ -> Base (next_ev ())
let next_cfg () =
  let w = if next_int () = 0 then WBlocking else WAwaitable in
  let h = match next_int () with 0 -> HookDefault | 1 -> HookQuiet | _ -> HookRaises in
  let k = next_int () in
  { c_writer = w; c_hook = h; c_wfail = (if k < 0 then None else Some (nat_of_int k)) }

let put_id = function
  | IInt z -> put_int 0; put_z z
  | IStr s -> put_int 1; put_nstr s
let put_ev = function
  | TaskStep t -> put_int 1; put_nat t
  | LoopCb t -> put_int 2; put_nat t
  | JobStart j -> put_int 3; put_nat j
  | JobFinish j -> put_int 4; put_nat j
  | WriteStep -> put_int 5
  | ExitCb -> put_int 6
  | UserSend i -> put_int 7; put_id i
  | Recv _ -> put_int 0
let put_oframe = function
  | OResp (i, PResult v) -> put_int 0; put_id i; put_int 0;
      (match v with VNull -> put_int 0 | VInt z -> put_int 1; put_z z | VObj -> put_int 2)
  | OResp (i, PError c) -> put_int 0; put_id i; put_int 1; put_z c
  | ONotif NShowMessage -> put_int 1; put_int 0
  | ONotif (NOther k) -> put_int 1; put_int (1 + int_of_nat k)
  | OReq i -> put_int 2; put_id i
let put_hentry h =
  (match h.h_who with WReq i -> put_int 0; put_id i | WNot t -> put_int 1; put_nat t);
  put_int (match h.h_part with PBuiltin -> 0 | PUser -> 1 | PCommand -> 2);
  put_int (match h.h_phase with HStart -> 0 | HEnd -> 1 | HCancel -> 2);
  put_int (match h.h_site with Loop -> 0 | Pool -> 1)
let put_esrc e = put_int (match e with EFeatureRequest -> 0 | EFeatureNotification -> 1 | EJsonRpc -> 2 | EInternal -> 3)
let rec drop k l = if k <= 0 then l else match l with [] -> [] | _ :: r -> drop (k - 1) r

(* observation after an event: the new entries of out / hlog / errs, then the two tables and flags *)
let put_obs prev s =
  put_list put_oframe (drop (List.length prev.out) s.out);
  put_list put_hentry (drop (List.length prev.hlog) s.hlog);
  put_list put_esrc (drop (List.length prev.errs) s.errs);
  put_list put_id (List.map fst s.futs);
  put_list put_id (List.map fst s.rtypes);
  put_bool s.shutdown;
  (match s.exit with None -> put_int (-1) | Some z -> put_z z);
  put_bool s.closed; put_bool s.storm; put_bool s.undef; put_bool (quiescent s)

let rec uniq = function
  | [] -> []
  | x :: r -> x :: uniq (List.filter (fun y -> not (id_eqb x y)) r)

let put_summary c evs s =
  put_bool (guard c evs); put_bool (tie_guard c evs); put_bool (f18_class c evs); put_bool (exact evs); put_bool (quiescent s);
  let exp = expected evs in
  let ids = uniq (exp @ List.concat_map (function OResp (i, _) -> [i] | _ -> []) s.out) in
  put_list (fun i -> put_id i; put_nat (count_id i exp); put_nat (replies i s.out)) ids;
  let put_payload = function
    | PResult VNull -> put_int 0; put_int 0
    | PResult (VInt z) -> put_int 0; put_int 1; put_z z
    | PResult VObj -> put_int 0; put_int 2
    | PError c -> put_int 1; put_z c in
  let reqs = List.concat_map (function Recv (FReq (_, i, ps, m)) -> [(i, ps, m)] | _ -> []) evs in
  put_list (fun (i, ps, m) -> put_id i; put_payload (natural ps m);
             put_bool ((match ps with POk -> cancellable m | _ -> false) && named i evs);
             put_bool (allowedb evs i (natural ps m))) reqs

let dispatch = function
  | "run" ->
    let c = next_cfg () in let evxs = read_list next_evx in
    let evs = List.concat_map (function Base e -> [e] | _ -> []) evxs in
    let (s, _) = List.fold_left (fun (s, x) e ->
        let s' = stepx c s e in let x' = (match e with Base b -> sp_step x b | _ -> x) in
        put_obs s s'; put_list put_id (drop (List.length x.sp_exp) x'.sp_exp); (s', x')) (init, sp_init) evxs in
    put_summary c evs s
  | "enabled" ->      (* enabled internal events in the state reached, quiescent? *)
    let c = next_cfg () in let evs = read_list next_evx in
    let s = runx c evs in
    put_list put_ev (enabled s); put_bool (quiescent s)
  | "drain" ->        (* the canonical drain schedule from the state reached *)
    let c = next_cfg () in let evs = read_list next_evx in
    let s = runx c evs in
    let d = drain c (measure s) s in
    put_list put_ev d; put_bool (quiescent (List.fold_left (step c) s d))
  | "counts" ->
    let c = next_cfg () in let evs = read_list next_evx in
    let s = runx c evs in
    put_int (List.length s.tasks); put_int (List.length s.jobs); put_bool (quiescent s);
    put_int (List.length s.futs); put_int (List.length s.rtypes); put_int (List.length s.outg)
  | c -> failwith ("unknown command " ^ c)
let () = main_loop dispatch
