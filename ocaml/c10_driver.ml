(* conv: io n z *)
(* C10 driver: one history per input line, one observation line per history.
   hist e k <folders0> <docpool> <nbpool> <folderpool> <ops>
     folders0 = list of (uri name); pools = lists of uris (every uri the history mentions)
     op = 0 item | 1 u v <changes> | 2 u | 3 n nb <items> | 4 n v optmeta optcc | 5 n <uris>
        | 6 <added (uri name)> <removed uri>
     item = u lang v <text>     change = 1 sl sc el ec <text> | 0 <text>     opt x = 0 | 1 x
     cell = kind doc optmeta optexec     nb = v optmeta type <cells>
     cc = optstructure <data cells> <entries>   structure = start delete <cells> <items> <uris>
     entry = u v <changes>
   output: number of snapshots (initial state + one per op); per snapshot
     wf bit of the op that led here (1 for the initial state),
     the model's workspace (dictionaries in insertion order, then the public lookups on the pools),
     the reference's observation evaluated on the pools. *)
let next_enc () = match next_int () with 8 -> Utf8 | 16 -> Utf16 | _ -> Utf32
let next_kind () = match next_int () with 0 -> SyncNone | 1 -> SyncFull | _ -> SyncIncremental
let next_pos () = let l = next_n () in let c = next_n () in (l, c)
let next_change () =
  match next_int () with
  | 1 -> let s = next_pos () in let t = next_pos () in let x = next_str () in Partial ((s, t), x)
  | _ -> Whole (next_str ())
let next_opt f = match next_int () with 0 -> None | _ -> Some (f ())
let next_item () =
  let u = next_n () in let l = next_n () in let v = next_z () in let t = next_str () in (((u, l), v), t)
let next_cell () =
  let k = next_n () in let d = next_n () in let m = next_opt next_n in let e = next_opt next_n in
  { c_kind = k; c_doc = d; c_meta = m; c_exec = e }
let next_nb () =
  let v = next_z () in let m = next_opt next_n in let ty = next_n () in let cells = read_list next_cell in
  { n_version = v; n_meta = m; n_type = ty; n_cells = cells }
let next_entry () =
  let u = next_n () in let v = next_z () in let cs = read_list next_change in ((u, v), cs)
let next_structure () =
  let s = next_n () in let d = next_n () in let cells = read_list next_cell in
  let o = read_list next_item in let c = read_list next_n in
  { st_start = s; st_delete = d; st_cells = cells; st_open = o; st_close = c }
let next_cc () =
  let st = next_opt next_structure in let data = read_list next_cell in let tx = read_list next_entry in
  { cc_structure = st; cc_data = data; cc_text = tx }
let next_folder () = let u = next_n () in let nm = next_n () in (u, nm)
let next_op () =
  match next_int () with
  | 0 -> DidOpen (next_item ())
  | 1 -> let u = next_n () in let v = next_z () in let cs = read_list next_change in DidChange (u, v, cs)
  | 2 -> DidClose (next_n ())
  | 3 -> let n = next_n () in let nb = next_nb () in let items = read_list next_item in NbOpen (n, nb, items)
  | 4 -> let n = next_n () in let v = next_z () in let m = next_opt next_n in let cc = next_opt next_cc in
         NbChange (n, v, m, cc)
  | 5 -> let n = next_n () in let cs = read_list next_n in NbClose (n, cs)
  | 6 -> let a = read_list next_folder in let r = read_list next_n in Folders (a, r)
  | _ -> failwith "unknown op"

let put_optn = function None -> put_int 0 | Some x -> put_int 1; put_n x
let put_optz = function None -> put_int 0 | Some v -> put_int 1; put_z v
let put_doc (d, l) = put_nstr (source d); put_optz d.d_version; put_n l
let put_cell c = put_n c.c_kind; put_n c.c_doc; put_optn c.c_meta; put_optn c.c_exec
let put_nb nb = put_z nb.n_version; put_optn nb.n_meta; put_n nb.n_type; put_list put_cell nb.n_cells
let put_optnb = function None -> put_int 0 | Some nb -> put_int 1; put_nb nb
let some_on pool f = List.concat_map (fun u -> match f u with Some x -> [(u, x)] | None -> []) pool

let put_model s docpool nbpool =
  put_list (fun (u, dl) -> put_n u; put_doc dl) s.w_docs;
  put_list (fun (u, nb) -> put_n u; put_nb nb) s.w_nbs;
  put_list (fun (u, nm) -> put_n u; put_n nm) s.w_folders;
  put_n s.w_errs;
  List.iter (fun u -> match get_text_document s u with
                      | Open (d, l) -> put_int 1; put_doc (d, l)
                      | Disk _ -> put_int 0) docpool;
  List.iter (fun c -> match get_notebook_document s None (Some c) with
                      | None -> put_int 0
                      | Some nb ->
                        put_int 1;
                        (match aget c s.w_cells with Some n -> put_n n | None -> put_int (-1));
                        put_nb nb) docpool;
  List.iter (fun n -> put_optnb (get_notebook_document s (Some n) None)) nbpool;
  List.iter (fun n -> List.iter (fun c -> put_optnb (get_notebook_document s (Some n) (Some c))) docpool) nbpool

let put_spec t docpool nbpool folderpool =
  put_list (fun (u, dl) -> put_n u; put_doc dl) (some_on docpool t.o_doc);
  put_list (fun (u, nb) -> put_n u; put_nb nb) (some_on nbpool t.o_nb);
  put_list (fun (u, nm) -> put_n u; put_n nm) (some_on folderpool t.o_folder);
  put_n t.o_errs;
  List.iter (fun u -> match spec_get t u with
                      | SOpen (d, l) -> put_int 1; put_doc (d, l)
                      | SDisk _ -> put_int 0) docpool;
  List.iter (fun c -> match spec_nb_of_cell t c with
                      | None -> put_int 0
                      | Some nb ->
                        put_int 1;
                        (match t.o_cell c with Some n -> put_n n | None -> put_int (-1));
                        put_nb nb) docpool;
  List.iter (fun n -> put_optnb (t.o_nb n)) nbpool;
  List.iter (fun n -> List.iter (fun _ -> put_optnb (t.o_nb n)) docpool) nbpool

let dispatch = function
  | "hist" ->
    let e = next_enc () in let k = next_kind () in
    let fs = read_list next_folder in
    let docpool = read_list next_n in let nbpool = read_list next_n in let folderpool = read_list next_n in
    let ops = read_list next_op in
    let cf = (e, k) in
    put_int (List.length ops + 1);
    let snap wf s t = put_bool wf; put_model s docpool nbpool; put_spec t docpool nbpool folderpool in
    let s0 = init_ws fs and t0 = spec_init fs in
    snap true s0 t0;
    ignore (List.fold_left (fun (s, t) o ->
      let wf = wf_op cf t o in
      let s' = impl_step cf s o and t' = spec_step cf t o in
      snap wf s' t'; (s', t')) (s0, t0) ops)
  | c -> failwith ("unknown command " ^ c)
let () = main_loop dispatch
