(* conv: io n z nat *)
(* C14 driver.  Commands:
     run <cfg> <evs>     -> per event: new hlog entries, new responses; then the final workspace and
                            quiescent  |  S: per received message: delivered ok expect ws reply;
                            then the guard (no delivered built-in raises)  |  what runs per message
     enabled <cfg> <evs> -> the internal events that are enabled in the state reached, quiescent
   cfg      = attempts raises tokens extras       (extras: names after "u/" of the built-ins the protocol class adds)
              attempt = kind(0 feature,1 command) name(str) async params hints thr fid
              params  = 0 | 1 is_ls annot(0 none,1 server,2 other);  thr = 0 none | 1 above | 2 below
              hints   = typing.get_type_hints succeeds on the callable (Model.Dispatch.gsig)
     sig params hints    -> has_ls_g, has_ls_param_or_annotation (see g), asks_server, sig_ok
   event    = 0 call | 1 t (TaskStep) | 2 t (LoopCb) | 3 j (JobStart) | 4 j (JobFinish)
   call     = 0 id folders | 1 | 2 u ver txt | 3 u ver txts | 4 u | 5 added removed | 6 v | 7 id |
              8 id cmd(str) a | 9 tok | 10 (0 | 1 id) nm(str) v | 11 nb ver cell txt | 12 nb ver | 13 nb cell
   Printed: entry = msg meth part fid site inj args snap;  arg = 0 params | 1 id | 2 v;
            params = the call without its id;  snap = init docs folders trace shut cancelled (sorted);
            response = 0 id (0 null | 1 obj | 2 v) | 1 id code *)
let next_bool () = next_int () <> 0
let next_params () = match next_int () with
  | 0 -> NoFirst
  | _ -> let l = next_bool () in
    let a = (match next_int () with 0 -> ANone | 1 -> AServer | _ -> AOther) in First (l, a)
let asks : n list ref = ref []
let next_attempt () =
  let kind = (match next_int () with 0 -> RFeature | _ -> RCommand) in
  let nm = Some (next_str ()) in
  let asy = next_bool () in
  let first = next_params () in
  let hints = next_bool () in
  let g = { g_first = first; g_hints = hints } in
  let ps = see g in
  let th = (match next_int () with 0 -> TNone | 1 -> TAbove | _ -> TBelow) in
  let hid = next_n () in
  if asks_server first then asks := hid :: !asks;
  { a_kind = kind; a_name = nm; a_opt = ONone;
    a_fn = { f_id = hid; f_async = asy; f_params = ps; f_thread = false; f_reg = None };
    a_thr = th }
let next_cfg () =
  asks := [];
  let ats = read_list next_attempt in
  let rs = read_list next_n in
  let tk = read_list next_n in
  let ex = read_list next_str in
  { c_reg = registry_of ats; c_raises = rs; c_tokens = tk; c_asks = !asks; c_extra = ex }
let next_call () = match next_int () with
  | 0 -> let i = next_n () in let f = read_list next_n in CInitialize (i, f)
  | 1 -> CInitialized
  | 2 -> let u = next_n () in let v = next_z () in let t = next_n () in CDidOpen (u, v, t)
  | 3 -> let u = next_n () in let v = next_z () in let t = read_list next_n in CDidChange (u, v, t)
  | 4 -> CDidClose (next_n ())
  | 5 -> let a = read_list next_n in let r = read_list next_n in CFolders (a, r)
  | 6 -> CSetTrace (next_n ())
  | 7 -> CShutdown (next_n ())
  | 8 -> let i = next_n () in let c = next_str () in let a = next_n () in CExecCmd (i, c, a)
  | 9 -> CProgressCancel (next_n ())
  | 10 -> let r = (match next_int () with 0 -> None | _ -> Some (next_n ())) in
    let nm = next_str () in let v = next_n () in COther (r, nm, v)
  | 11 -> let n = next_n () in let v = next_z () in let c = next_n () in let t = next_n () in CNbOpen (n, v, c, t)
  | 12 -> let n = next_n () in let v = next_z () in CNbChange (n, v)
  | _ -> let n = next_n () in let c = next_n () in CNbClose (n, c)
let next_ev () = match next_int () with
  | 0 -> Recv (next_call ())
  | 1 -> TaskStep (next_nat ())
  | 2 -> LoopCb (next_nat ())
  | 3 -> JobStart (next_nat ())
  | _ -> JobFinish (next_nat ())
let put_name = function None -> put_int 0 | Some s -> put_int 1; put_nstr s
let put_params = function
  | CInitialize (_, f) -> put_int 0; put_list put_n f
  | CInitialized -> put_int 1
  | CDidOpen (u, v, t) -> put_int 2; put_n u; put_z v; put_n t
  | CDidChange (u, v, t) -> put_int 3; put_n u; put_z v; put_list put_n t
  | CDidClose u -> put_int 4; put_n u
  | CFolders (a, r) -> put_int 5; put_list put_n a; put_list put_n r
  | CSetTrace v -> put_int 6; put_n v
  | CShutdown _ -> put_int 7
  | CExecCmd (_, c, a) -> put_int 8; put_nstr c; put_n a
  | CProgressCancel t -> put_int 9; put_n t
  | COther (_, nm, v) -> put_int 10; put_nstr nm; put_n v
  | CNbOpen (n, v, c, t) -> put_int 11; put_n n; put_z v; put_n c; put_n t
  | CNbChange (n, v) -> put_int 12; put_n n; put_z v
  | CNbClose (n, c) -> put_int 13; put_n n; put_n c
let put_arg = function
  | ACall k -> put_int 0; put_params k
  | AId i -> put_int 1; put_n i
  | AVal v -> put_int 2; put_n v
let put_snap (w : wsp) =
  put_bool w.w_init;
  let docs = List.sort Stdlib.compare (List.map (fun (u, (v, t)) -> (int_of_n u, int_of_z v, int_of_n t)) w.w_docs) in
  put_list (fun (u, v, t) -> put_int u; put_int v; put_int t) docs;
  put_list put_int (List.sort Stdlib.compare (List.map (fun (u, _) -> int_of_n u) w.w_folders));
  put_n w.w_trace; put_bool w.w_shut;
  put_list put_int (List.sort Stdlib.compare (List.map int_of_n w.w_cancelled))
let part_int = function PBuiltin -> 0 | PUser -> 1 | PCommand -> 2
let site_int = function OnLoop -> 0 | OnPool -> 1
let put_entry (h : hentry) =
  put_nat h.h_msg; put_name h.h_meth; put_int (part_int h.h_part); put_n h.h_fid;
  put_int (site_int h.h_site); put_bool h.h_inj; put_list put_arg h.h_args; put_snap h.h_snap
let put_oframe = function
  | OResult (i, v) -> put_int 0; put_n i;
    (match v with VNull -> put_int 0 | VObj -> put_int 1 | VInt x -> put_int 2; put_n x)
  | OError (i, c) -> put_int 1; put_n i; put_z c
let put_xinv (x : xinv) =
  put_int (part_int x.x_part); put_name x.x_meth; put_n x.x_fid; put_int (site_int x.x_site);
  put_bool x.x_inj; put_list put_arg x.x_args; put_bool x.x_now; put_bool x.x_fut
let rec drop k l = if k <= 0 then l else (match l with [] -> [] | _ :: r -> drop (k - 1) r)
let enabled (s : st) =
  let evs = ref [] in
  List.iteri (fun t tk -> match tk.t_st with
      | TNew _ -> evs := (1, t) :: !evs
      | TDoneCb _ -> evs := (2, t) :: !evs
      | _ -> ()) s.tasks;
  List.iteri (fun j jb -> match jb.j_st with
      | JQueued -> evs := (3, j) :: !evs
      | JRunning -> evs := (4, j) :: !evs
      | _ -> ()) s.jobs;
  List.rev !evs
let dispatch = function
  | "run" ->
    let c = next_cfg () in
    let evs = read_list next_ev in
    let s = ref init in
    List.iter (fun e ->
        let s' = step c !s e in
        put_list put_entry (drop (List.length !s.hlog) s'.hlog);
        put_list put_oframe (drop (List.length !s.out) s'.out);
        s := s') evs;
    put_snap !s.ws; put_bool (quiescent !s);
    put_str "|";
    let ks = calls_of evs in
    let xs = spec_run c w0 ks in
    put_int (List.length xs);
    List.iter (fun (x : xmsg) ->
        put_bool x.xm_delivered; put_bool x.xm_ok; put_list put_xinv x.xm_expect; put_snap x.xm_ws;
        (match x.xm_reply with XNothing -> put_int 0 | XFrame f -> put_int 1; put_oframe f | XSilent -> put_int 2)) xs;
    put_bool (all_ok c w0 ks); put_bool (inj_ok c);
    put_str "|";
    (* what the code is known to run instead when a built-in raises (for classification only) *)
    let w = ref w0 in
    List.iter (fun k ->
        put_list put_xinv (if delivered !w then actual c !w k else []);
        w := spec_step c !w k) ks
  | "enabled" ->
    let c = next_cfg () in
    let evs = read_list next_ev in
    let s = run c evs in
    put_list (fun (k, i) -> put_int k; put_int i) (enabled s);
    put_bool (quiescent s)
  | "sig" ->
    let first = next_params () in
    let hints = next_bool () in
    let g = { g_first = first; g_hints = hints } in
    put_bool (has_ls_g g); put_bool (has_ls_param_or_annotation (see g)); put_bool (asks_server first);
    put_bool (sig_ok g)
  | "builtins" -> put_list put_name builtins
  | c -> failwith ("unknown command " ^ c)
let () = main_loop dispatch
