(* conv: io n *)
(* C12 driver: one configuration per input line; prints the model's observation of every slot
   of ServerCapabilities, the reference's, the guard, the finding class, the workspace encoding. *)
let next_tri () = match next_int () with 0 -> None | 1 -> Some false | _ -> Some true
let next_opt f = match next_int () with 0 -> None | _ -> Some (f ())
let next_optn () = match next_int () with 0 -> None | k -> Some (n_of_int (k - 1))
let put_tri = function None -> put_int 0 | Some false -> put_int 1 | Some true -> put_int 2
let put_value = function
  | VNone -> put_int 0
  | VBool b -> put_int 1; put_bool b
  | VRef i -> put_int 2; put_n i
  | VOpts r -> put_int 3; put_tri r
  | VDiag w -> put_int 4; put_bool w
  | VRename p -> put_int 5; put_bool p
  | VSemTok (i, f, r) -> put_int 6; put_n i;
      put_int (match f with SFNone -> 0 | SFTrue -> 1 | SFDelta -> 2); put_bool r
  | VNum k -> put_int 7; put_n k
  | VCommands l -> put_int 8; put_list put_n l
  | VNotebook p -> put_int 9; put_n p
  | VFolders -> put_int 10
  | VEnc e -> put_int 11; put_n e
  | VObj (i, r, w) -> put_int 12; put_n i; put_tri r; put_tri w
  | VObjPrepare (i, p) -> put_int 13; put_n i; put_bool p
let next_client () =
  let td = next_opt (fun () ->
    let sy = next_opt (fun () ->
      let a = next_tri () in let b = next_tri () in { will_save = a; will_save_wait_until = b }) in
    let rn = next_opt (fun () -> next_tri ()) in
    { synchronization = sy; rename = rn }) in
  let ws = next_opt (fun () ->
    next_opt (fun () ->
      let a = next_tri () in let b = next_tri () in let c = next_tri () in
      let d = next_tri () in let e = next_tri () in let f = next_tri () in
      fileop_table a b c d e f)) in
  let nb = next_int () <> 0 in
  let ge = next_opt (fun () -> next_opt (fun () -> read_list next_n)) in
  { text_document = td; workspace = ws; notebook_document = nb; general = ge }
let next_objs () = read_list (fun () ->
  let r = next_tri () in let w = next_tri () in let g = next_int () <> 0 in
  { o_resolve = r; o_wsdiag = w; o_isreg = g })
let emit mode c s_c wsspec =
  let (caps, wsenc, cs, ss) =
    if mode = 0 then (build c, VNone, c, s_c)
    else let r = lsp_initialize c in (r.server_capabilities, r.workspace_encoding, with_builtins c, with_builtins s_c) in
  List.iter (fun f -> put_value (observe caps f)) all_fields;
  List.iter (fun f -> put_value (spec_caps ss f)) all_fields;
  put_bool (guard cs); put_n (klass cs);
  put_value wsenc;
  put_value (if mode = 0 then VNone else wsspec ())
let rec dispatch = function
  | "seq" ->    (* several initializes of one server: each is a complete sub-command *)
    let k = next_int () in
    for _ = 1 to k do dispatch (next_tok ()) done
  | "hist" ->    (* a registration history: attempts (kind code object check), then as "caps" *)
    let mode = next_int () in
    let atts = read_list (fun () ->
      let k = next_n () in let c = next_n () in let o = next_n () in let ck = next_n () in (((k, c), o), ck)) in
    let objs = next_objs () in
    let sk = next_optn () in
    let nb = next_optn () in
    let cli = next_client () in
    let ops = drv_ops atts N0 in
    let h0 = (config_of [] objs [] sk nb cli).heap0 in
    let c = cfg_of_history drv_nm drv_cid ops h0 sk nb cli in
    let s_c = spec_cfg_of_history drv_nm drv_cid ops h0 sk nb cli in
    put_list put_bool (results empty_registry ops);
    emit mode c s_c (fun () -> spec_workspace_encoding s_c)
  | "caps" ->
    let mode = next_int () in
    let feats = read_list (fun () -> let c = next_n () in let o = next_n () in (c, o)) in
    let objs = read_list (fun () ->
      let r = next_tri () in let w = next_tri () in let g = next_int () <> 0 in
      { o_resolve = r; o_wsdiag = w; o_isreg = g }) in
    let cmds = read_list next_n in
    let sk = next_optn () in
    let nb = next_optn () in
    let cli = next_client () in
    let c = config_of feats objs cmds sk nb cli in
    let (caps, wsenc, cs) =
      if mode = 0 then (build c, VNone, c)
      else let r = lsp_initialize c in (r.server_capabilities, r.workspace_encoding, with_builtins c) in
    List.iter (fun f -> put_value (observe caps f)) all_fields;
    List.iter (fun f -> put_value (spec_caps cs f)) all_fields;
    put_bool (guard cs); put_n (klass cs);
    put_value wsenc;
    put_value (if mode = 0 then VNone else spec_workspace_encoding c)
  | "code" ->    (* sanity: method_code (method_of_code k) *)
    let k = next_n () in put_n (method_code (method_of_code k))
  | c -> failwith ("unknown command " ^ c)
let () = main_loop dispatch
