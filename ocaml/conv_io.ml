(* ---- shared driver glue: token reader / printer (textually included after the model) ---- *)
let toks : string list ref = ref []
let set_line (s : string) =
  toks := List.filter (fun t -> t <> "") (String.split_on_char ' ' (String.trim s))
let next_tok () = match !toks with
  | [] -> failwith "driver: out of tokens"
  | t :: r -> toks := r; t
let next_int () = int_of_string (next_tok ())
let rec read_n k f = if k <= 0 then [] else let x = f () in x :: read_n (k - 1) f
let read_list f = let k = next_int () in read_n k f
let out = Buffer.create 65536
let put_int i = Buffer.add_string out (string_of_int i); Buffer.add_char out ' '
let put_str s = Buffer.add_string out s; Buffer.add_char out ' '
let put_bool b = put_int (if b then 1 else 0)
let put_list f l = put_int (List.length l); List.iter f l
let end_case () = Buffer.add_char out '\n'
let main_loop (dispatch : string -> unit) =
  (try
    while true do
      let line = input_line stdin in
      if String.trim line <> "" then begin
        set_line line;
        let cmd = next_tok () in
        (try dispatch cmd with Failure m -> put_str ("DRIVER-ERROR " ^ m));
        end_case ();
        if Buffer.length out > 60000 then (print_string (Buffer.contents out); Buffer.clear out)
      end
    done
  with End_of_file -> ());
  print_string (Buffer.contents out)
