(* conv: io n z nat *)
(* C03 driver: one case per input line, one observation per output line.
   Token formats
     tree    : 0 | 1 b | 2 sign ndigits d.. | 3 len cp.. | 4 n tree.. | 5 n (len cp.. tree)..
     payload : 9 (unserialisable) | tree
     send    : 0 id result | 1 id code message data | 2 method params | 3 id method params | 4 payload
     cfg     : writer(0 none,1 plain,2 stdout,3 await) headers(0/1)
   Byte strings are printed as one hex token ("-" when empty). *)
let hex_of (s : n list) : string =
  match s with
  | [] -> "-"
  | _ ->
    let b = Buffer.create 1024 in
    List.iter (fun c -> Buffer.add_string b (Printf.sprintf "%02x" (int_of_n c))) s;
    Buffer.contents b
let put_hex s = put_str (hex_of s)
(* code point lists are printed as ints (they may exceed 255) *)
let ten = z_of_int 10
let next_bigz () =
  let neg = next_int () in
  let ds = read_list next_int in
  let v = List.fold_left (fun a d -> Z.add (Z.mul ten a) (z_of_int d)) Z0 ds in
  if neg = 1 then Z.opp v else v
let rec next_tree () : json =
  match next_int () with
  | 0 -> JNull
  | 1 -> JBool (next_int () = 1)
  | 2 -> JInt (next_bigz ())
  | 3 -> JStr (next_str ())
  | 4 -> JArr (read_list next_tree)
  | 5 -> JObj (read_list (fun () -> let k = next_str () in let v = next_tree () in (k, v)))
  | t -> failwith ("bad tree tag " ^ string_of_int t)
let next_payload () : json option =
  match !toks with
  | "9" :: r -> toks := r; None
  | _ -> Some (next_tree ())
let next_send () : send =
  match next_int () with
  | 0 -> let id = next_tree () in let r = next_payload () in SResponse (id, r)
  | 1 -> let id = next_tree () in let code = next_bigz () in let m = next_str () in
         let d = next_tree () in SError (id, { e_code = code; e_message = m; e_data = d })
  | 2 -> let m = next_str () in let p = next_payload () in SNotify (m, p)
  | 3 -> let id = next_tree () in let m = next_str () in let p = next_payload () in SRequest (id, m, p)
  | 4 -> SRaw (next_payload ())
  | t -> failwith ("bad send tag " ^ string_of_int t)
let next_cfg () : cfg =
  let w = match next_int () with 0 -> WNone | 1 -> WPlain | 2 -> WStdout | _ -> WAwait in
  let h = next_int () = 1 in
  { writer = w; include_headers = h }
let put_op = function TWrite d -> put_int 0; put_hex d | TFlush -> put_int 1
let put_expect = function
  | Exact ms -> put_int 0; put_hex (dumps (JObj ms))
  | InternalErrorFor id -> put_int 1; put_hex (dumps id)
let rec list_eq a b = match a, b with
  | [], [] -> true
  | x :: a', y :: b' -> x = y && list_eq a' b'
  | _, _ -> false
(* runtime cross-check of the theorems on this very case: the strict decoder applied to the model's
   stream returns one body per written frame, and each body reads back (loads) as a tree whose
   dumps is the body again *)
let self_check (ops : top list) : bool =
  let datas = List.filter_map (function TWrite d -> Some d | TFlush -> None) ops in
  match spec_decode (stream ops) with
  | None -> false
  | Some bodies ->
    List.length bodies = List.length datas &&
    List.for_all (fun b -> match loads_chars b with Some j -> list_eq (dumps j) b | None -> false) bodies
let dispatch = function
  | "case" ->   (* cfg sends -> guard, per send its transport ops, expectations, self check *)
    let c = next_cfg () in
    let ss = read_list next_send in
    let g = framed c && List.for_all send_guard ss in
    put_bool g;
    put_list (fun s -> put_list put_op (send_ops c s)) ss;
    put_list put_expect (List.concat_map expected ss);
    put_bool (if framed c then self_check (sender_ops c ss) else true)
  | "sched" ->  (* cfg senders schedule -> guard, interleaved transport ops, expectations per sender *)
    let c = next_cfg () in
    let sss = read_list (fun () -> read_list next_send) in
    let sched = read_list next_nat in
    let tagged = List.mapi (fun i ss -> List.map (fun o -> (i, o)) (sender_ops c ss)) sss in
    let ops = run_schedule sched tagged in
    let g = framed c && List.for_all (List.for_all send_guard) sss in
    put_bool g;
    put_list (fun (i, o) -> put_int i; put_op o) ops;
    put_list (fun ss -> put_list put_expect (List.concat_map expected ss)) sss;
    put_bool (if framed c then self_check (List.map snd ops) else true)
  | "session" ->  (* ops (0 w h | 1 send) -> guard, per installed writer: its transport ops; per writer:
                     headers flag, has-transport flag, expectations; self check of framed writers *)
    let next_w () = match next_int () with 0 -> WNone | 1 -> WPlain | 2 -> WStdout | _ -> WAwait in
    let ops = read_list (fun () ->
      match next_int () with
      | 0 -> let w = next_w () in let h = next_int () = 1 in OSetWriter (w, h)
      | _ -> OSend (next_send ())) in
    let out = p_run p_init ops in
    let (ss0, segs) = seg ops in
    put_bool (List.for_all send_guard ss0 && List.for_all (fun ((_, _), ss) -> List.for_all send_guard ss) segs);
    let per = List.mapi (fun i _ -> for_writer (nat_of_int i) out) segs in
    put_list (fun ops -> put_list put_op ops) per;
    put_list (fun ((w, h), ss) ->
      put_bool h; put_bool (w <> WNone); put_list put_expect (List.concat_map expected ss)) segs;
    put_bool (List.for_all2 (fun ((w, h), _) ops -> if h && w <> WNone then self_check ops else true) segs per)
  | "escape" -> put_hex (escape (next_str ()))
  | "dumps" -> put_hex (dumps (next_tree ()))
  | "unescape" ->
    let s = next_str () in
    (match unescape s with Some t -> put_int 1; put_nstr t | None -> put_int 0);
    put_bool (pairfree s)
  | "roundtrip" ->   (* s -> pairfree, unescape (escape s) = Some s *)
    let s = next_str () in
    put_bool (pairfree s);
    put_bool (match unescape (escape s) with Some t -> list_eq t s | None -> false)
  | "decode" ->
    let s = next_str () in
    (match spec_decode s with
     | Some bs -> put_int 1; put_list put_hex bs
     | None -> put_int 0)
  | "loads" ->   (* body chars -> ok, canonical re-dump *)
    let s = next_str () in
    (match loads_chars s with Some j -> put_int 1; put_hex (dumps j) | None -> put_int 0)
  | c -> failwith ("unknown command " ^ c)
let () = main_loop dispatch
