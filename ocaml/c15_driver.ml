(* conv: io n *)
(* C15-framing driver (same glue as c02_driver.ml; same model): one case per input line, one observation per output line.
   kind  : two ints  `0 limit` (Stream) | `1 0` (StdinPool) | `2 0` (Sync)
   ending: 0 = EOF, 1 = reset
   raw    kind ending nchunks chunk*                       (chunk = length-prefixed byte list)
   frames kind ending nmsgs (lay v body)* cut nparts size* (lay 0 = CL, 1 = CL,CT v, 2 = CT v,CL;
                                                            cut < 0: the whole stream)
   output raw   : agree term nbodies body*
   output frames: agree term nbodies body* guard sameS [nS body*] sterm
     agree = run_chunks and loop_whole returned the same thing (Theorem chunk_independence, re-observed)
     term  = 0 EndedNormally | 1 ELimit | 2 EIntDigits | 3 EReset | 8 still blocked | 9 out of fuel *)
let next_kind () =
  let t = next_int () in let l = next_n () in
  match t with 0 -> Stream l | 1 -> StdinPool | _ -> Sync
let next_ending () = if next_int () = 0 then AtEOF else AtReset
let term_code = function
  | Done EndedNormally -> 0
  | Done (Raised ELimit) -> 1
  | Done (Raised EIntDigits) -> 2
  | Done (Raised EReset) -> 3
  | Blocked _ -> 8
  | OutOfFuel -> 9
let put_events evs = put_list put_nstr evs
let next_msg () =
  let l = next_int () in let v = next_str () in let b = next_str () in
  ((match l with 0 -> LCl | 1 -> LClCt v | _ -> LCtCl v), b)
(* cut the stream into chunks of the given sizes; what is left over is the last chunk *)
let rec split_sizes sizes s =
  match sizes with
  | [] -> (match s with [] -> [] | _ -> [s])
  | z :: r -> take z s :: split_sizes r (drop z s)
let observe k e chunks =
  let (evs, r) = run_chunks k e chunks in
  let (evs', r') = loop_whole k e (List.concat chunks) in
  put_bool (evs = evs' && r = r'); put_int (term_code r); put_events evs;
  evs
let dispatch = function
  | "raw" ->
    let k = next_kind () in let e = next_ending () in
    let chunks = read_list next_str in
    ignore (observe k e chunks)
  | "frames" ->
    let k = next_kind () in let e = next_ending () in
    let ms = read_list next_msg in
    let cut = next_int () in
    let sizes = read_list next_n in
    let full = frames ms in
    let stream = if cut < 0 then full else take (n_of_int cut) full in
    let evs = observe k e (split_sizes sizes stream) in
    put_bool (msgs_ok k ms);
    let s = cut_bodies (short_delivery k e) ms (len stream) in
    if s = evs then put_int 1 else (put_int 0; put_events s);
    put_int (term_code (Done (cut_term k e)))
  | "dec" -> put_nstr (dec (next_n ()))
  | "parsecl" ->
    (match parse_cl (next_str ()) with
     | CLNoMatch -> put_int 0 | CLMatch n -> put_int 1; put_n n | CLRaise -> put_int 2)
  | "blank" -> put_bool (is_blank (next_str ()))
  | c -> failwith ("unknown command " ^ c)
(* the extracted list functions recurse once per byte: re-exec under a large stack limit *)
let () =
  if (try Sys.getenv "C15_BIGSTACK" with Not_found -> "") = "" then
    exit (Sys.command ("ulimit -s 4000000 2>/dev/null || ulimit -s unlimited 2>/dev/null; C15_BIGSTACK=1 exec "
                       ^ Filename.quote Sys.executable_name))
  else main_loop dispatch
