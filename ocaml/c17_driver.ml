(* conv: io n z *)
(* C17 driver.  One case per line:
     conv fe fw ft hook er  <events: n ev...>  post nh stopat  (stopat 2: stop() once the process is dead; stopat 1: stop() is called while the hook is
                                                       in flight, i.e. between the watcher's two runs; hook: 0 ok | 1 raises | 2 slow | 3 awaits;
                                                       nh: handler tasks 0..nh-1 get a run after the two tasks)
   events: 0 = Send | 1 i = UserCancel | 2 0 i 0 v = SrvWrite (Reply i (RResult v))
         | 2 0 i 1 c = SrvWrite (Reply i (RError c)) | 2 1 = SrvWrite BadFrame | 2 2 = SrvWrite Junk
         | 2 3 i = SrvWrite (BadReply i) | 2 4 j = SrvWrite (Request j) | 7 j = HandlerStep j | 8 j = HandlerReturn j
         | 3 rc t = ProcExit rc tail(0 clean,1 part header,2 part body,3 junk)
         | 4 = ReaderRun | 5 = ServerExitTask | 6 = Stop
   The events are the conversation up to and including everything the caller did before it
   yields; the driver appends the two tasks in both orders (A = reader first, B = exit watcher
   first; the exit watcher gets a second run, which a suspending hook needs), observes, then lets the caller send `post` more requests and call stop() and lets the
   tasks run again, and observes again.
   Output: guard, expectations (conversation scan), then for A and B:
     obs1 obs2 post-futures spec_ok(obs1)
   `run` evaluates an explicit event list (sanity set, replays). *)
let next_event () =
  match next_int () with
  | 0 -> Send
  | 1 -> let i = next_n () in UserCancel i
  | 2 -> (match next_int () with
          | 0 -> let i = next_n () in
                 (match next_int () with
                  | 0 -> let v = next_n () in SrvWrite (Reply (i, RResult v))
                  | _ -> let c = next_z () in SrvWrite (Reply (i, RError c)))
          | 1 -> SrvWrite BadFrame
          | 3 -> let i = next_n () in SrvWrite (BadReply i)
          | 4 -> let j = next_n () in SrvWrite (Request j)
          | _ -> SrvWrite Junk)
  | 3 -> let rc = next_z () in
         let t = (match next_int () with 0 -> TClean | 1 -> TPartHeader | 2 -> TPartBody | _ -> TJunk) in
         ProcExit (rc, t)
  | 4 -> ReaderRun
  | 5 -> ServerExitTask
  | 6 -> Stop
  | 7 -> let j = next_n () in HandlerStep j
  | 8 -> let j = next_n () in HandlerReturn j
  | _ -> failwith "bad event"
let next_cfg () =
  let fe = next_int () = 1 in let fw = next_int () = 1 in let ft = next_int () = 1 in
  let hk = (match next_int () with 0 -> HookOk | 1 -> HookRaises | 2 -> HookSlow | _ -> HookAwaits) in
  let er = next_int () = 1 in
  { fix_eof = fe; fix_wrap = fw; fix_task = ft; hook = hk; errhook_raises = er }
let put_fstate = function
  | Pending -> put_int 0; put_int 0
  | Resolved v -> put_int 1; put_n v
  | FailedRpc c -> put_int 2; put_z c
  | FailedExit c -> put_int 3; put_z c
  | Cancelled -> put_int 4; put_int 0
let put_exn = function ExIncompleteRead -> put_int 1 | ExErrHook -> put_int 2 | ExTaskSetException -> put_int 3
let put_stop = function
  | StopReturns -> put_int 0; put_int 0
  | StopRaises e -> put_int 1; put_exn e
  | StopBlocked -> put_int 2; put_int 0
let put_obs o =
  put_list (fun (i, f) -> put_n i; put_fstate f) o.o_futs; put_list (fun (rc, d) -> put_z rc; put_bool d) o.o_hooks; put_bool o.o_stopped;
  put_stop o.o_stop; put_n o.o_errs;
  put_list (fun (j, h) -> put_n j; put_int (match h with HSuspended -> 0 | HCancelRequested -> 1 | HFinished -> 2 | HCancelled -> 3)) o.o_htasks
let put_expect (i, e) = put_n i; match e with
  | EExit -> put_int 0; put_int 0; put_int 0
  | EKeep f -> put_int 1; put_fstate f
  | EExitOr f -> put_int 2; put_fstate f
  | ENotPending -> put_int 3; put_int 0; put_int 0
  | EAny -> put_int 4; put_int 0; put_int 0
let rec replicate k x = if k <= 0 then [] else x :: replicate (k - 1) x
let dispatch = function
  | "run" ->
    let c = next_cfg () in let evs = read_list next_event in
    put_obs (observe (run c evs)); put_bool (wf_conv evs); put_list put_expect (conv_expect evs);
    put_bool (spec_ok (conv_expect evs) (observe (run c evs)))
  | "conv" ->
    let c = next_cfg () in let evs = read_list next_event in let post = next_int () in
    let nh = next_int () in
    let rec hsteps k = if k >= nh then [] else HandlerStep (n_of_int k) :: hsteps (k + 1) in
    let stopat = next_int () in
    let mid = if stopat = 1 then [Stop] else [] in
    let orders =
      if stopat = 2 then    (* stop() as soon as the process is dead: the reader may have run, the watcher not *)
        [[ReaderRun; Stop; ServerExitTask; ServerExitTask] @ hsteps 0;
         [Stop; ReaderRun; ServerExitTask; ServerExitTask] @ hsteps 0]
      else
        [[ReaderRun; ServerExitTask] @ mid @ [ServerExitTask] @ hsteps 0;
         [ServerExitTask; ReaderRun] @ mid @ [ServerExitTask] @ hsteps 0] in
    let later = replicate post Send @ [Stop; ReaderRun; ServerExitTask; ServerExitTask] @ hsteps 0 in
    let exps = conv_expect (evs @ List.hd orders @ replicate post Send) in
    put_bool (wf_conv (evs @ List.hd orders)); put_list put_expect exps;
    List.iter (fun ord ->
      let s1 = run c (evs @ ord) in
      let s2 = run_from c s1 later in
      put_obs (observe s1); put_obs (observe s2);
      put_bool (spec_ok (conv_expect (evs @ ord)) (observe s1))) orders
  | c -> failwith ("unknown command " ^ c)
let () = main_loop dispatch
