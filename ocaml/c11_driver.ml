(* conv: io n *)
(* C11 driver: one case per input line, one observation per output line. *)
let next_enc () = match next_int () with 8 -> Utf8 | 16 -> Utf16 | _ -> Utf32
let next_pos () = let l = next_n () in let c = next_n () in (l, c)
let put_pos (l, c) = put_n l; put_n c
let next_lines () = read_list next_str
let dispatch = function
  | "lines" -> let s = next_str () in put_list put_nstr (lsp_lines s)
  | "width" ->   (* e c -> loop_width cnu[c] true_width guard *)
    let e = next_enc () in let c = next_n () in
    put_n (loop_width e c); put_n (client_num_units e [c]); put_n (true_width e c);
    put_bool (guard_char e c)
  | "units" ->   (* e s -> cnu units guard *)
    let e = next_enc () in let s = next_str () in
    put_n (client_num_units e s); put_n (units e s); put_bool (guard_str e s)
  | "from" ->    (* e lines pos -> M result, arg after, S defined?, S result, guard *)
    let e = next_enc () in let ls = next_lines () in let p = next_pos () in
    let (r, a) = position_from_client_units e ls p in
    put_pos r; put_pos a;
    (match spec_from e ls p with Some q -> put_int 1; put_pos q | None -> put_int 0; put_int 0; put_int 0);
    put_bool (from_guard e ls p)
  | "to" ->
    let e = next_enc () in let ls = next_lines () in let p = next_pos () in
    let (r, a) = position_to_client_units e ls p in
    put_pos r; put_pos a; put_int 1; put_pos (spec_to e ls p); put_bool (to_guard e ls p)
  | "fromt" ->   (* as from, the lines being those of a text *)
    let e = next_enc () in let ls = lsp_lines (next_str ()) in let p = next_pos () in
    let (r, a) = position_from_client_units e ls p in
    put_pos r; put_pos a;
    (match spec_from e ls p with Some q -> put_int 1; put_pos q | None -> put_int 0; put_int 0; put_int 0);
    put_bool (from_guard e ls p)
  | "tot" ->
    let e = next_enc () in let ls = lsp_lines (next_str ()) in let p = next_pos () in
    let (r, a) = position_to_client_units e ls p in
    put_pos r; put_pos a; put_int 1; put_pos (spec_to e ls p); put_bool (to_guard e ls p)
  | "rfrom" ->
    let e = next_enc () in let ls = next_lines () in let s = next_pos () in let t = next_pos () in
    let ((rs, rt), (a1, a2)) = range_from_client_units e ls (s, t) in
    put_pos rs; put_pos rt; put_pos a1; put_pos a2;
    (* pointwise reference: each end is the conversion of that position (where the reference is
       defined and no open finding covers the position) *)
    List.iter (fun p ->
      match spec_from e ls p with
      | Some q when from_guard e ls p -> put_int 1; put_pos q
      | _ -> put_int 0; put_int 0; put_int 0) [s; t]
  | "rto" ->
    let e = next_enc () in let ls = next_lines () in let s = next_pos () in let t = next_pos () in
    let ((rs, rt), (a1, a2)) = range_to_client_units e ls (s, t) in
    put_pos rs; put_pos rt; put_pos a1; put_pos a2;
    List.iter (fun p ->
      if to_guard e ls p then (put_int 1; put_pos (spec_to e ls p)) else (put_int 0; put_int 0; put_int 0)) [s; t]
  | "offset" ->  (* e text pos -> M, S defined?, S, guard F17, guard units (F31 / F16') *)
    let e = next_enc () in let s = next_str () in let p = next_pos () in
    put_n (offset_at_position e s p);
    (match spec_offset e s p with Some o -> put_int 1; put_n o | None -> put_int 0; put_int 0);
    put_bool (query_guard_widths e s p); put_bool (offset_guard_units e s p)
  | "word" ->    (* e text pos -> guard F17, S defined?, M word, S word *)
    let e = next_enc () in let s = next_str () in let p = next_pos () in
    put_bool (query_guard_widths e s p);
    (match spec_word e s p with
     | Some w -> put_int 1; put_nstr (word_at_position e s p); put_nstr w
     | None -> put_int 0; put_nstr (word_at_position e s p); put_int 0)
  | "disk" ->    (* e text1 text2 pos: a document served from disk, queried before and after the
                    file changed: each answer is that of the file's CURRENT content *)
    let e = next_enc () in let t1 = next_str () in let t2 = next_str () in let p = next_pos () in
    List.iter (fun t ->
      put_nstr t; put_list put_nstr (lsp_lines t);
      put_n (offset_at_position e t p); put_nstr (word_at_position e t p)) [t1; t2]
  | c -> failwith ("unknown command " ^ c)
let () = main_loop dispatch
