(* conv: io n z nat *)
(* C06 driver: the extracted endpoint model (Model/Endpoint.v) together with the C06 reference
   (Spec/ContainSpec.v: erase1, wf1, owed_report, cfg_ok).  Readers / printers as in c01_driver.ml.

   input of `c06` :  <cfg> <nB> <who>*nB <n> (<mark> <ev>)*n
     who = 0 id | 1 <tag>            cfg / id / ev as in c01_driver.ml
   output of `c06`:
     n times:   observation after the event (put_obs), owed report under owed_guard (-1 | 0..3),
                erased image: 0 | 1 <ev without frame payload>
     then m = number of erased events, m times: observation of the erased run after the event
     then:      wf (0|1), cfg_ok (0|1), some marked frame is an other-version response to a known id (0|1)
   `enabled` / `drain`: as in c01_driver.ml.
   `sites`: the seven call sites: 1 = passes the protected handler. *)
let next_bool () = next_int () <> 0
let next_id () = match next_int () with
  | 0 -> IInt (next_z ())
  | _ -> IStr (next_str ())
let next_kind () = match next_int () with
  | 0 -> HSync
  | 1 -> HAsync (next_nat ())
  | _ -> HThread (next_bool ())
let next_outcome () = match next_int () with
  | 0 -> ORet (next_z ())
  | 1 -> ORetUnser
  | 2 -> ORaise
  | _ -> ORaiseRpc (next_z ())
let next_behav () =
  let k = next_kind () in let o = next_outcome () in
  let r = if next_int () = 0 then Propagate else Swallow in
  { bkind = k; bout = o; breact = r }
let next_optb () = if next_int () = 0 then None else Some (next_behav ())
let next_ps () = match next_int () with 0 -> POk | 1 -> PBad | _ -> PFail
let next_rmethod () = match next_int () with
  | 0 -> RUnknown
  | 1 -> RUser (next_behav ())
  | 2 -> RShutdown (next_optb ())
  | 3 -> let f = next_bool () in RBuiltin (f, next_optb ())
  | _ -> let c = next_optb () in RCommand (c, next_optb ())
let next_nmethod () = match next_int () with
  | 0 -> NUnknown
  | 1 -> NUser (next_behav ())
  | 2 -> NCancel (next_id ())
  | 3 -> NExit (next_optb ())
  | _ -> let f = next_bool () in NBuiltin (f, next_optb ())
let next_frame () = match next_int () with
  | 0 -> FGarbage
  | 1 -> let v = next_bool () in let i = next_id () in let ps = next_ps () in FReq (v, i, ps, next_rmethod ())
  | 2 -> let v = next_bool () in let t = next_nat () in let ps = next_ps () in FNotif (v, t, ps, next_nmethod ())
  | _ -> let v = next_bool () in let i = next_id () in let e = next_bool () in FResp (v, i, e, next_ps ())
let next_ev () = match next_int () with
  | 0 -> Recv (next_frame ())
  | 1 -> TaskStep (next_nat ())
  | 2 -> LoopCb (next_nat ())
  | 3 -> JobStart (next_nat ())
  | 4 -> JobFinish (next_nat ())
  | 5 -> WriteStep
  | 6 -> ExitCb
  | _ -> UserSend (next_id ())
let next_cfg () =
  let w = if next_int () = 0 then WBlocking else WAwaitable in
  let h = match next_int () with 0 -> HookDefault | 1 -> HookQuiet | _ -> HookRaises in
  let k = next_int () in
  { c_writer = w; c_hook = h; c_wfail = (if k < 0 then None else Some (nat_of_int k)) }

let put_id = function
  | IInt z -> put_int 0; put_z z
  | IStr s -> put_int 1; put_nstr s
let put_ev = function
  | TaskStep t -> put_int 1; put_nat t
  | LoopCb t -> put_int 2; put_nat t
  | JobStart j -> put_int 3; put_nat j
  | JobFinish j -> put_int 4; put_nat j
  | WriteStep -> put_int 5
  | ExitCb -> put_int 6
  | UserSend i -> put_int 7; put_id i
  | Recv _ -> put_int 0
let put_oframe = function
  | OResp (i, PResult v) -> put_int 0; put_id i; put_int 0;
      (match v with VNull -> put_int 0 | VInt z -> put_int 1; put_z z | VObj -> put_int 2)
  | OResp (i, PError c) -> put_int 0; put_id i; put_int 1; put_z c
  | ONotif NShowMessage -> put_int 1; put_int 0
  | ONotif (NOther k) -> put_int 1; put_int (1 + int_of_nat k)
  | OReq i -> put_int 2; put_id i
let put_hentry h =
  (match h.h_who with WReq i -> put_int 0; put_id i | WNot t -> put_int 1; put_nat t);
  put_int (match h.h_part with PBuiltin -> 0 | PUser -> 1 | PCommand -> 2);
  put_int (match h.h_phase with HStart -> 0 | HEnd -> 1 | HCancel -> 2);
  put_int (match h.h_site with Loop -> 0 | Pool -> 1)
let put_esrc e = put_int (match e with EFeatureRequest -> 0 | EFeatureNotification -> 1 | EJsonRpc -> 2 | EInternal -> 3)
let rec drop k l = if k <= 0 then l else match l with [] -> [] | _ :: r -> drop (k - 1) r

(* observation after an event: the new entries of out / hlog / errs, then the two tables and flags *)
let put_obs prev s =
  put_list put_oframe (drop (List.length prev.out) s.out);
  put_list put_hentry (drop (List.length prev.hlog) s.hlog);
  put_list put_esrc (drop (List.length prev.errs) s.errs);
  put_list put_id (List.map fst s.futs);
  put_list put_id (List.map fst s.rtypes);
  put_bool s.shutdown;
  (match s.exit with None -> put_int (-1) | Some z -> put_z z);
  put_bool s.closed; put_bool s.storm; put_bool s.undef; put_bool (quiescent s)


let next_who () = match next_int () with
  | 0 -> WReq (next_id ())
  | _ -> WNot (next_nat ())

let dispatch = function
  | "c06" ->
    let c = next_cfg () in
    let bl = read_list next_who in
    let b = in_set bl in
    let mevs = read_list (fun () -> let m = next_bool () in let e = next_ev () in (m, e)) in
    let vr = ref false in
    let (s, wfok, er) = List.fold_left (fun (s, ok, er) (m, e) ->
        if vresp_known s (m, e) then vr := true;
        let s' = step c s e in
        put_obs s s';
        (match (if owed_guard c s e then owed_report s e else None) with None -> put_int (-1) | Some x -> put_esrc x);
        let im = erase1 b s (m, e) in
        (match im with [] -> put_int 0 | x :: _ -> put_int 1; put_ev x);
        (s', ok && wf1 b s (m, e), List.rev_append im er)) (init, true, []) mevs in
    let er = List.rev er in
    put_int (List.length er);
    let _ = List.fold_left (fun s e -> let s' = step c s e in put_obs s s'; s') init er in
    put_bool wfok; put_bool (cfg_ok c); put_bool !vr
  | "enabled" ->
    let c = next_cfg () in let evs = read_list next_ev in
    let s = run c evs in
    put_list put_ev (enabled s); put_bool (quiescent s)
  | "drain" ->
    let c = next_cfg () in let evs = read_list next_ev in
    let s = run c evs in
    let d = drain c (measure s) s in
    put_list put_ev d; put_bool (quiescent (List.fold_left (step c) s d))
  | "sites" ->
    List.iter (fun cs -> put_bool (match passes cs with HProtected -> true | HBare -> false))
      [SrvIoAsync; SrvIoSync; SrvTcp; SrvWs; CliIo; CliTcp; CliWs];
    put_bool (handler_call HProtected HookRaises); put_bool (handler_call HBare HookRaises)
  | c -> failwith ("unknown command " ^ c)
let () = main_loop dispatch
