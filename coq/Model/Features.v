(* Model of pygls/feature_manager.py (FeatureManager.feature / command / thread, wrap_with_server,
   has_ls_param_or_annotation, is_thread_function, assign_help_attrs) in the TARGET state of the
   repository (repair 1 applied: the options are validated before any registry write), and of the
   two readers through which a registration becomes visible: JsonRPCProtocol._get_handler
   (json_rpc.py) + call_user_feature (lsp_meta.py) and lsp_workspace__execute_command.
   Transliterated branch for branch, in the code's order of checks and writes.  No proofs here.

   Python values:
   - a name is `None` or a `str` (list of code points): `option (list N)`;
   - a function object is the record `func`: identity, coroutine-function?, abstract signature
     (what has_ls_param_or_annotation can see) and the three attributes pygls hangs on it
     (execute_in_thread, reg_name/reg_type);
   - what is stored in the registry (`wrapped`) is the record `entry`;
   - the options argument and the outcome of the type check are carried by the attempt
     (`optarg`): lsprotocol/cattrs are an oracle (DESIGN section 2). *)
From Coq Require Import NArith List Bool.
Import ListNotations.
Open Scope N_scope.

Notation name := (option (list N)).

(* ------------------------------------------------------------------ str.strip() == "" *)
(* str.isspace() of one character (CPython _Py_ascii_whitespace + _PyUnicode_IsWhitespace) *)
Definition py_isspace (c : N) : bool :=
  ((9 <=? c) && (c <=? 13)) || ((28 <=? c) && (c <=? 32)) || (c =? 133) || (c =? 160)
  || (c =? 5760) || ((8192 <=? c) && (c <=? 8202)) || (c =? 8232) || (c =? 8233)
  || (c =? 8239) || (c =? 8287) || (c =? 12288).

Fixpoint py_lstrip (s : list N) : list N :=
  match s with
  | [] => []
  | c :: r => if py_isspace c then py_lstrip r else s
  end.

Definition py_strip (s : list N) : list N := rev (py_lstrip (rev (py_lstrip s))).

(* `name is None or name.strip() == ""` *)
Definition name_invalid (n : name) : bool :=
  match n with
  | None => true
  | Some s => match py_strip s with [] => true | _ => false end
  end.

(* ------------------------------------------------------------------ dict with name keys *)
Fixpoint str_eqb (a b : list N) : bool :=
  match a, b with
  | [], [] => true
  | x :: a', y :: b' => (x =? y) && str_eqb a' b'
  | _, _ => false
  end.

Definition name_eqb (a b : name) : bool :=
  match a, b with
  | None, None => true
  | Some x, Some y => str_eqb x y
  | _, _ => false
  end.

(* d.get(k) *)
Fixpoint aget {V} (k : name) (l : list (name * V)) : option V :=
  match l with
  | [] => None
  | (k', v) :: t => if name_eqb k k' then Some v else aget k t
  end.

(* k in d *)
Definition amem {V} (k : name) (l : list (name * V)) : bool :=
  match aget k l with Some _ => true | None => false end.

(* d[k] = v : an existing key keeps its place, a new one goes last *)
Fixpoint aset {V} (k : name) (v : V) (l : list (name * V)) : list (name * V) :=
  match l with
  | [] => [(k, v)]
  | (k', v') :: t => if name_eqb k k' then (k', v) :: t else (k', v') :: aset k v t
  end.

Definition akeys {V} (l : list (name * V)) : list name := map fst l.

(* ------------------------------------------------------------------ function objects *)
Inductive regtype := RFeature | RCommand.          (* ATTR_FEATURE_TYPE / ATTR_COMMAND_TYPE *)

(* the annotation of the first parameter, as `get_type_hints(f)[first.name] == type(server)` sees it *)
Inductive annot := ANone | AServer | AOther.
(* what inspect.signature shows of the first parameter; NoFirst: no parameter at all (or
   inspect.signature raises): next(...) raises and the function returns False *)
Inductive fparams := NoFirst | First (is_ls : bool) (a : annot).

Record func := mkfunc {
  f_id : N;                                 (* identity of the user's function *)
  f_async : bool;                           (* asyncio.iscoroutinefunction(f) *)
  f_params : fparams;
  f_thread : bool;                          (* getattr(f, "execute_in_thread", False) *)
  f_reg : option (regtype * name)           (* (reg_type, reg_name) when assign_help_attrs ran on f *)
}.

(* the callable stored in the registry *)
Record entry := mkentry {
  e_fid : N;                                (* the user function it ends up calling *)
  e_async : bool;                           (* asyncio.iscoroutinefunction(wrapped) *)
  e_inject : bool;                          (* the server is bound as first argument *)
  e_thread : bool                           (* is_thread_function(wrapped) *)
}.

Definition assign_help_attrs (f : func) (n : name) (t : regtype) : func :=
  mkfunc (f_id f) (f_async f) (f_params f) (f_thread f) (Some (t, n)).

Definition assign_thread_attr_f (f : func) : func :=
  mkfunc (f_id f) (f_async f) (f_params f) true (f_reg f).

Definition assign_thread_attr_e (e : entry) : entry :=
  mkentry (e_fid e) (e_async e) (e_inject e) true.

Definition has_ls_param_or_annotation (p : fparams) : bool :=
  match p with
  | NoFirst => false                        (* except Exception: return False *)
  | First is_ls a =>
    if is_ls then true
    else match a with
         | AServer => true
         | ANone => false                   (* KeyError in get_type_hints(f)[...] -> False *)
         | AOther => false
         end
  end.

Definition wrap_with_server (f : func) : entry :=
  if negb (has_ls_param_or_annotation (f_params f)) then
    mkentry (f_id f) (f_async f) false (f_thread f)            (* return f *)
  else if f_async f then
    mkentry (f_id f) true true false                           (* async def wrapped: no marker copied *)
  else
    mkentry (f_id f) false true (f_thread f).                  (* partial(f, server) + marker copied *)

(* ------------------------------------------------------------------ the options argument *)
(* outcome of `get_method_options_type(name)` followed by `is_instance(converter, options, type)` *)
Inductive optcheck :=
  | CkNoType          (* the method has no options type: options_type is None, nothing is checked *)
  | CkValid           (* is_instance(...) is True *)
  | CkWrong           (* is_instance(...) is False: the code raises TypeError *)
  | CkUnknownMethod   (* get_method_options_type raises MethodTypeNotRegisteredError *)
  | CkRaises.         (* converter.unstructure raises something that is not a TypeError *)

Inductive optarg :=
  | ONone                                                     (* options=None *)
  | OObj (oid : N) (truthy : bool) (nominal : bool) (chk : optcheck).
  (* `nominal`: the object is an instance of the declared options type (what the property calls
     the right type).  The code never looks at it; it is input to the reference in Spec. *)

Inductive err := EValidation | EDuplicate | EOptions | EMethodType | EOther | EThread | EKey.
Inductive result := Ok | Error (e : err).

(* `if options:` *)
Definition opt_truthy (o : optarg) : bool :=
  match o with ONone => false | OObj _ t _ _ => t end.

Definition opt_id (o : optarg) : N :=
  match o with ONone => 0 | OObj i _ _ _ => i end.

(* the validation block: None = passes *)
Definition options_check (o : optarg) : option err :=
  if opt_truthy o then
    match o with
    | ONone => None
    | OObj _ _ _ chk =>
      match chk with
      | CkUnknownMethod => Some EMethodType
      | CkNoType => None
      | CkValid => None
      | CkWrong => Some EOptions
      | CkRaises => Some EOther
      end
    end
  else None.

(* ------------------------------------------------------------------ the registry *)
Record registry := mkreg {
  features : list (name * entry);           (* FeatureManager._features *)
  commands : list (name * entry);           (* FeatureManager._commands *)
  feature_options : list (name * N)         (* FeatureManager._feature_options: name -> options object *)
}.

Definition empty_registry : registry := mkreg [] [] [].

(* FeatureManager.feature(feature_name, options)(f); returns f (with its new attributes) *)
Definition feature (r : registry) (n : name) (o : optarg) (f : func) : registry * func * result :=
  if name_invalid n then (r, f, Error EValidation)
  else if amem n (features r) then (r, f, Error EDuplicate)
  else match options_check o with
       | Some e => (r, f, Error e)
       | None =>
         let f1 := assign_help_attrs f n RFeature in
         let w := wrap_with_server f1 in
         let r1 := mkreg (aset n w (features r)) (commands r) (feature_options r) in
         let r2 := if opt_truthy o
                   then mkreg (features r1) (commands r1) (aset n (opt_id o) (feature_options r1))
                   else r1 in
         (r2, f1, Ok)
       end.

(* FeatureManager.command(command_name)(f) *)
Definition command (r : registry) (n : name) (f : func) : registry * func * result :=
  if name_invalid n then (r, f, Error EValidation)
  else if amem n (commands r) then (r, f, Error EDuplicate)
  else
    let f1 := assign_help_attrs f n RCommand in
    let w := wrap_with_server f1 in
    (mkreg (features r) (aset n w (commands r)) (feature_options r), f1, Ok).

(* Function objects are identities (f_id) with mutable attributes.  A registration whose handler
   takes no server stores THE FUNCTION OBJECT ITSELF (wrap_with_server returns f), so the same
   function registered under several names is one object reachable from several entries: an entry
   with e_inject = false stands for "the function object e_fid", and its e_thread field is that
   object's marker.  A partial / async wrapper (e_inject = true) is a new object per registration
   with a marker of its own.  Marking a function object therefore marks every entry that is it. *)
Definition is_function (i : N) (e : entry) : bool := negb (e_inject e) && (e_fid e =? i).

Definition mark_aliases (i : N) (l : list (name * entry)) : list (name * entry) :=
  map (fun p => if is_function i (snd p) then (fst p, assign_thread_attr_e (snd p)) else p) l.

(* assign_thread_attr(<function object i>) as seen from the registry *)
Definition mark_function (i : N) (r : registry) : registry :=
  mkreg (mark_aliases i (features r)) (mark_aliases i (commands r)) (feature_options r).

(* assign_thread_attr(table[n]) where table[n] = e *)
Definition mark_registered (r : registry) (t : regtype) (n : name) (e : entry) : registry :=
  if e_inject e then
    match t with
    | RFeature => mkreg (aset n (assign_thread_attr_e e) (features r)) (commands r) (feature_options r)
    | RCommand => mkreg (features r) (aset n (assign_thread_attr_e e) (commands r)) (feature_options r)
    end
  else mark_function (e_fid e) r.

(* FeatureManager.thread()(f): the function's single (reg_type, reg_name) pair - the LAST successful
   registration of that function object - selects the registered callable that gets the marker.
   (f' : table[reg_name] is f itself or a wrapper of f in every reachable state, because reg_name
   is only written by the registration that stores it and entries are never replaced.) *)
Definition thread (r : registry) (f : func) : registry * func * result :=
  if f_async f then (r, f, Error EThread)
  else match f_reg f with
       | Some (t, n) =>
         match aget n (match t with RFeature => features r | RCommand => commands r end) with
         | Some e =>
           (mark_registered r t n e,
            (if is_function (f_id f) e then assign_thread_attr_f f else f), Ok)
         | None => (r, f, Error EKey)       (* self.features[reg_name] raises KeyError *)
         end
       | None => (mark_function (f_id f) r, assign_thread_attr_f f, Ok)      (* except AttributeError *)
       end.

(* ------------------------------------------------------------------ one call = one step *)
Inductive op :=
  | OpFeature (n : name) (o : optarg) (f : func)
  | OpCommand (n : name) (f : func)
  | OpThread (f : func).

Definition step (r : registry) (x : op) : registry * func * result :=
  match x with
  | OpFeature n o f => feature r n o f
  | OpCommand n f => command r n f
  | OpThread f => thread r f
  end.

Definition step_reg (r : registry) (x : op) : registry := fst (fst (step r x)).
Definition step_res (r : registry) (x : op) : result := snd (step r x).

Fixpoint run (r : registry) (xs : list op) : registry :=
  match xs with
  | [] => r
  | x :: t => run (step_reg r x) t
  end.

(* ------------------------------------------------------------------ a decorated definition *)
(* `@server.thread()` above / below `@server.feature(..)` / `@server.command(..)` on a fresh
   function: the decorators are applied bottom-up and the first exception ends the statement. *)
Inductive thr := TNone | TAbove | TBelow.

Record attempt := mkattempt {
  a_kind : regtype;
  a_name : name;
  a_opt : optarg;                            (* ignored for commands: command() takes no options *)
  a_fn : func;
  a_thr : thr
}.

Definition register (r : registry) (a : attempt) (f : func) : registry * func * result :=
  match a_kind a with
  | RFeature => feature r (a_name a) (a_opt a) f
  | RCommand => command r (a_name a) f
  end.

(* the registry and the outcome after each call that was actually made *)
Definition attempt_trace (r : registry) (a : attempt) : list (registry * result) :=
  match a_thr a with
  | TNone => let '(r1, _, res1) := register r a (a_fn a) in [(r1, res1)]
  | TBelow =>
    let '(r1, f1, res1) := thread r (a_fn a) in
    match res1 with
    | Error _ => [(r1, res1)]
    | Ok => let '(r2, _, res2) := register r1 a f1 in [(r1, res1); (r2, res2)]
    end
  | TAbove =>
    let '(r1, f1, res1) := register r a (a_fn a) in
    match res1 with
    | Error _ => [(r1, res1)]
    | Ok => let '(r2, _, res2) := thread r1 f1 in [(r1, res1); (r2, res2)]
    end
  end.

Definition last_reg (r : registry) (tr : list (registry * result)) : registry :=
  fst (last tr (r, Ok)).

Fixpoint run_attempts (r : registry) (l : list attempt) : list (registry * result) :=
  match l with
  | [] => []
  | a :: t => let tr := attempt_trace r a in tr ++ run_attempts (last_reg r tr) t
  end.

(* ------------------------------------------------------------------ readers of the registry *)
(* JsonRPCProtocol._get_handler: built-in first, then the user's feature, else MethodNotFound *)
Inductive handler := HBuiltin | HUser (e : entry) | HNotFound.

Definition mem_name (n : name) (l : list name) : bool := existsb (name_eqb n) l.

Definition get_handler (builtins : list name) (r : registry) (n : name) : handler :=
  if mem_name n builtins then HBuiltin
  else match aget n (features r) with
       | Some e => HUser e
       | None => HNotFound
       end.

(* which user handlers a message for method n reaches: (a handler was found, user entries run).
   A built-in (wrapped by call_user_feature) runs the user's feature of the same name after itself. *)
Definition dispatch (builtins : list name) (r : registry) (n : name) : bool * list entry :=
  match get_handler builtins r n with
  | HBuiltin => (true, match aget n (features r) with Some e => [e] | None => [] end)
  | HUser e => (true, [e])
  | HNotFound => (false, [])
  end.

(* lsp_workspace__execute_command: self.fm.commands[params.command] (KeyError -> nothing runs) *)
Definition exec_command (r : registry) (n : name) : list entry :=
  match aget n (commands r) with Some e => [e] | None => [] end.

(* _execute_notification / _execute_request: where the handler body runs *)
Inductive site := LoopInline | LoopTask | Pool.

Definition exec_site (e : entry) : site :=
  if e_async e then LoopTask
  else if e_thread e then Pool
  else LoopInline.

(* ------------------------------------------------------------------ the two-phase API *)
(* `server.feature(name, options)`, `server.command(name)` and `server.thread()` only BUILD a
   decorator (a closure over their arguments); every check and every write happens when that
   decorator is APPLIED to a function, possibly much later and interleaved with other creations
   and applications (table-driven registration).  A world = the registry + the decorators and
   function objects the caller holds. *)
Inductive dec :=
  | DFeature (n : name) (o : optarg)
  | DCommand (n : name)
  | DThread.

(* FeatureManager.feature / command / thread up to `return decorator`: no check, no write *)
Definition make_decorator (r : registry) (d : dec) : registry * result := (r, Ok).

(* decorator(f) *)
Definition op_of (d : dec) (f : func) : op :=
  match d with
  | DFeature n o => OpFeature n o f
  | DCommand n => OpCommand n f
  | DThread => OpThread f
  end.

Record world := mkworld {
  w_reg : registry;
  w_decs : list dec;                         (* decorators created so far, by creation order *)
  w_fns : list func                          (* function objects defined so far *)
}.

Definition empty_world : world := mkworld empty_registry [] [].

Inductive wop :=
  | WDef (f : func)                          (* def f(...) *)
  | WMake (d : dec)                          (* d = server.feature(..) / command(..) / thread() *)
  | WApply (i j : nat).                      (* decorators[i](functions[j]) *)

Fixpoint set_nth {A} (j : nat) (x : A) (l : list A) : list A :=
  match l, j with
  | [], _ => []
  | _ :: t, O => x :: t
  | a :: t, S j' => a :: set_nth j' x t
  end.

Definition wstep (w : world) (x : wop) : world * result :=
  match x with
  | WDef f => (mkworld (w_reg w) (w_decs w) (w_fns w ++ [f]), Ok)
  | WMake d =>
    let '(r, res) := make_decorator (w_reg w) d in
    match res with
    | Ok => (mkworld r (w_decs w ++ [d]) (w_fns w), Ok)
    | Error _ => (mkworld r (w_decs w) (w_fns w), res)
    end
  | WApply i j =>
    match nth_error (w_decs w) i, nth_error (w_fns w) j with
    | Some d, Some f =>
      let '(r, f', res) := step (w_reg w) (op_of d f) in
      (mkworld r (w_decs w) (set_nth j f' (w_fns w)), res)
    | _, _ => (w, Error EKey)                (* the caller has no such object: nothing is called *)
    end
  end.

Fixpoint wrun (w : world) (xs : list wop) : list (world * result) :=
  match xs with
  | [] => []
  | x :: t => let '(w', res) := wstep w x in (w', res) :: wrun w' t
  end.

(* several servers in one process share nothing: a call on server k touches world k only.
   MODELLING ASSUMPTION (checked by the correspondence run, not provable here): the oracle bit
   carried by an options argument is a function of (method, options object) alone - it does not
   depend on earlier registrations on this or any other server of the process. *)
Definition mstep (ws : list world) (k : nat) (x : wop) : list world * result :=
  match nth_error ws k with
  | Some w => let '(w', res) := wstep w x in (set_nth k w' ws, res)
  | None => (ws, Error EKey)
  end.
