(* pygls/progress.py (class Progress) and the window/workDoneProgress/cancel built-in of
   pygls/protocol/language_server.py, on top of the outgoing side of the endpoint
   (Model/Outgoing.v: the create request is an ordinary send_request whose done-callback /
   awaiting coroutine registers the token).  Tokens are JSON ints or strings: 1 and "1" differ.
   No proofs in this file. *)
From Coq Require Import ZArith NArith List Bool.
From Pygls Require Export Model.Outgoing.
Import ListNotations.

(* window/workDoneProgress/create and its result class (the harness's table of methods) *)
Definition CREATE_M : N := 5.
Definition CREATE_RT : N := 6.

Inductive pev :=
  | Base (e : ev)                          (* anything of the outgoing side: acks are RecvResult / RecvError *)
  | PCreate (tok : id) (ucb : bool)        (* Progress.create(token, callback) *)
  | PCreateAsync (tok : id)                (* a coroutine runs Progress.create_async(token) up to its await *)
  | PResume                                (* the loop runs: coroutines whose awaited future is done continue *)
  | PBegin (tok : id) (v : N)              (* Progress.begin(token, value) *)
  | PReport (tok : id) (v : N)
  | PEnd (tok : id) (v : N)
  | ClientCancel (tok : id).               (* window/workDoneProgress/cancel {token} from the client *)

(* _check_token_registered: `if token in self.tokens: raise Exception(...)` *)
Definition registered (s : st) (tok : id) : bool := amem id_eqb tok (tokens s).

(* self._lsp.notify(PROGRESS, ProgressParams(token=token, value=value)) *)
Definition notify_progress (s : st) (tok : id) (kind v : N) : st :=
  set_out s (out s ++ [WProgress tok kind v]).

(* the continuation of create_async after `await` for the coroutine waiting on future k: the
   result, or the exception, of the future; `self._register_token(token)` only when the await
   returned *)
Definition resume_key (s : st) (k : nat) : st :=
  match aget Nat.eqb k (ofuts s) with
  | Some o =>
    match owait o with
    | WCreate tok =>
      if is_pending (ost o) then s
      else
        let s := if is_resolved (ost o) then register_token s tok else s in
        set_ofuts s (aupd Nat.eqb k (fun o => set_owait o (WDone tok)) (ofuts s))
    | _ => s
    end
  | None => s
  end.

(* one turn of the loop: every coroutine whose awaited future is done continues *)
Definition resume (s : st) : st := fold_left resume_key (map fst (ofuts s)) s.

(* future.cancel() on a token's cancellation future *)
Fixpoint set_nth (n : nat) (l : list bool) : list bool :=
  match l with
  | [] => []
  | b :: r => match n with O => true :: r | S n' => b :: set_nth n' r end
  end.

Definition pstep (s : st) (e : pev) : st :=
  match e with
  | Base e => step s e
  | PCreate tok ucb =>
    if registered s tok then refuse s                                         (* raises; nothing is sent *)
    else send_request s CREATE_M CREATE_RT (CbCreate tok ucb) None WNone      (* callback on_created *)
  | PCreateAsync tok =>
    if registered s tok then refuse s
    else send_request s CREATE_M CREATE_RT CbNone None (WCreate tok)
  | PResume => resume s
  | PBegin tok v =>
    (* self.tokens.setdefault(token, Future()) : client-initiated progress *)
    let s := if registered s tok then s else register_token s tok in
    notify_progress s tok 0 v
  | PReport tok v => notify_progress s tok 1 v
  | PEnd tok v => notify_progress s tok 2 v
  | ClientCancel tok =>
    match aget id_eqb tok (tokens s) with
    | None => s                                                               (* unknown token: ignored *)
    | Some h => set_tokens s (tokens s) (set_nth h (tfuts s))
    end
  end.

Definition prun_from (s : st) (evs : list pev) : st := fold_left pstep evs s.
Definition prun (evs : list pev) : st := prun_from init evs.

Fixpoint ptrace_from (s : st) (evs : list pev) : list st :=
  match evs with
  | [] => []
  | e :: r => let s' := pstep s e in s' :: ptrace_from s' r
  end.

(* Progress.tokens as the client-visible map: token -> cancelled() of its future *)
Definition token_view (s : st) : list (id * bool) :=
  map (fun th => (fst th, nth (snd th) (tfuts s) false)) (tokens s).
