(* Model of pygls/exceptions.py (JsonRpcException and its subclasses, after the `is None`
   constructor repair, notes/fix_C07_1.patch) and of the error branches of pygls/protocol/json_rpc.py
   (structure_message's error mapping, _get_handler, _handle_request's except-branches,
   _execute_request, _execute_request_callback, _handle_response's error branch).
   Generic over ANY class table: the classes themselves are data (Gen/ExcTable.v, regenerated
   from the imported module on every run).  Strings are lists of code points, codes are Z,
   the `data` payload is an opaque type D (None = Python None).  No proofs in this file. *)
From Coq Require Import ZArith NArith List Bool.
Import ListNotations.
Open Scope Z_scope.

Notation str := (list N) (only parsing).

(* ------------------------------------------------------------------------------------ *)
(* one row of the class table                                                            *)

(* supports_code: the classmethod inherited from JsonRpcException
     `getattr(cls, "CODE", -32001) == code`
   or an override that is a range test `lo <= code <= hi` (JsonRpcServerError). *)
Inductive support := SInherited | SRange (lo hi : Z).

(* __init__: the one inherited from JsonRpcException, or JsonRpcServerError's, which raises
   ValueError when the code is outside lo..hi. *)
Inductive ctor := CDefault | CRangeChecked (lo hi : Z).

Record entry := mkEntry {
  e_name : str;            (* class name *)
  e_code : option Z;       (* class attribute CODE, if any *)
  e_msg : option str;      (* class attribute MESSAGE, if any *)
  e_reg : bool;            (* member of _EXCEPTIONS *)
  e_sup : support;
  e_ctor : ctor }.

Notation table := (list entry) (only parsing).

Definition in_range (lo hi c : Z) : bool := (lo <=? c) && (c <=? hi).

(* lsprotocol's integer_validator: -2^31 .. 2^31 - 1 *)
Definition int32 (c : Z) : bool := in_range (-2147483648) 2147483647 c.

(* _is_server_error_code / supports_code *)
Definition supports_code (e : entry) (code : Z) : bool :=
  match e_sup e with
  | SInherited => Z.eqb (match e_code e with Some k => k | None => -32001 end) code
  | SRange lo hi => in_range lo hi code
  end.

(* `_EXCEPTIONS`: the registered classes, in the order the set happens to iterate *)
Definition exceptions_set (t : table) : table := filter e_reg t.

Fixpoint str_eqb (a b : str) : bool :=
  match a, b with
  | [], [] => true
  | x :: a', y :: b' => N.eqb x y && str_eqb a' b'
  | _, _ => false
  end.

Fixpoint class_named (t : table) (name : str) : option entry :=
  match t with
  | [] => None
  | e :: r => if str_eqb (e_name e) name then Some e else class_named r name
  end.

Section WithData.
Variable D : Type.

(* an exception instance: its class and the three attributes the wire carries *)
Record exc := mkExc { x_class : entry; x_code : Z; x_msg : str; x_data : option D }.

(* result of calling a class: an instance, or the exception the constructor raises *)
Inductive cres := COk (x : exc) | CValueError | CTypeError | CAttributeError.

(* JsonRpcException.__init__(self, message=None, code=None, data=None):
     if message is None: message = getattr(self.__class__, "MESSAGE")
     self.code = code if code is not None else getattr(self.__class__, "CODE")
   (a class without the attribute: AttributeError, as before the repair) *)
Definition base_init (e : entry) (message : option str) (code : option Z) (data : option D) : cres :=
  match (match message with Some m => Some m | None => e_msg e end) with
  | None => CAttributeError
  | Some m =>
    match (match code with Some c => Some c | None => e_code e end) with
    | None => CAttributeError
    | Some c => COk (mkExc e c m data)
    end
  end.

(* cls(message=..., code=..., data=...)   (arguments passed by keyword, None = Python None) *)
Definition construct (e : entry) (message : option str) (code : option Z) (data : option D) : cres :=
  match e_ctor e with
  | CDefault => base_init e message code data
  | CRangeChecked lo hi =>
    match code with
    | None => CTypeError                      (* `-32099 <= None` *)
    | Some c => if in_range lo hi c then base_init e message code data else CValueError
    end
  end.

(* to_response_error: ResponseError(code=self.code, message=self.message, data=self.data).
   lsprotocol validates `code` as an LSP integer (32 bit) and raises ValueError otherwise:
   None = no ResponseError object, the ValueError propagates to the caller. *)
Record rerror := mkErr { r_code : Z; r_msg : str; r_data : option D }.
Definition to_response_error (x : exc) : option rerror :=
  if int32 (x_code x) then Some (mkErr (x_code x) (x_msg x) (x_data x)) else None.

(* from_error: the loop over the set, then the base class *)
Fixpoint from_error_loop (base : entry) (l : table) (code : Z) (message : str) (data : option D) : cres :=
  match l with
  | [] => construct base (Some message) (Some code) data
  | e :: r =>
    if supports_code e code then construct e (Some message) (Some code) data
    else from_error_loop base r code message data
  end.

Definition from_error (t : table) (base : entry) (r : rerror) : cres :=
  from_error_loop base (exceptions_set t) (r_code r) (r_msg r) (r_data r).

(* ------------------------------------------------------------------------------------ *)
(* server side: which error a request is answered with                                   *)

Inductive hkind := HSync | HAsync | HThread.      (* plain function / coroutine / @thread *)

(* what the handler does when run.  HRaiseOther: any exception that is not a JsonRpcException;
   `text` stands for its formatted text, `tb` for the traceback payload InternalError.of builds *)
Inductive houtcome :=
| HRet                                    (* returns a value that serialises *)
| HRetUnser                               (* returns a value json.dumps cannot serialise *)
| HRaiseRpc (x : exc)
| HRaiseOther (text : str) (tb : D).

(* does the request's `params` member structure as the type registered for the method *)
Inductive pstatus := POk | PBadValidation | PBadOther.

Inductive target :=
| TUnknown                               (* neither built-in nor user feature *)
| TFeature (k : hkind)
| TCommandKnown (k : hkind)              (* workspace/executeCommand, registered command *)
| TCommandUnknown (text : str) (tb : D). (* ... unregistered: KeyError(text) in the built-in *)

Record request := mkReq {
  q_method : str;         (* method name *)
  q_idtxt : str;          (* str(id) *)
  q_params : pstatus;
  q_target : target;
  q_cancelled : bool;     (* future.cancelled() when the done-callback runs *)
  q_outcome : houtcome }.

Inductive reply := RResult | RError (e : rerror).

(* SNoReply: the except-branch that should answer raises itself (to_response_error), nothing is
   written for this request.  SBroken: a class json_rpc.py imports by name is absent from the
   table = the import fails *)
Inductive sres := SReply (r : reply) | SNoReply | SBroken.

(* `self._send_response(msg_id, error=error.to_response_error())` *)
Definition send_error (x : exc) : sres :=
  match to_response_error x with Some r => SReply (RError r) | None => SNoReply end.

Section Server.
Variable t : table.

Definition raise_reply (c : cres) : sres :=
  match c with COk x => send_error x | _ => SBroken end.

Definition with_class (name : str) (f : entry -> sres) : sres :=
  match class_named t name with Some e => f e | None => SBroken end.

Definition n_internal : str := [74;115;111;110;82;112;99;73;110;116;101;114;110;97;108;69;114;114;111;114]%N.
Definition n_invalid_params : str := [74;115;111;110;82;112;99;73;110;118;97;108;105;100;80;97;114;97;109;115]%N.
Definition n_method_not_found : str := [74;115;111;110;82;112;99;77;101;116;104;111;100;78;111;116;70;111;117;110;100]%N.
Definition n_cancelled : str := [74;115;111;110;82;112;99;82;101;113;117;101;115;116;67;97;110;99;101;108;108;101;100]%N.

Definition msg_unserialisable : str :=
  [85;110;97;98;108;101;32;116;111;32;115;101;114;105;97;108;105;122;101;32;116;104;101;32;114;101;115;117;108;116]%N.

(* JsonRpcInternalError.of(sys.exc_info()):  cls(message=<text>, data={"traceback": ...}) *)
Definition internal_error_of (text : str) (tb : D) : sres :=
  with_class n_internal (fun e => raise_reply (construct e (Some text) None (Some tb))).

(* JsonRpcMethodNotFound.of(method):  cls(message=cls.MESSAGE + ": " + method) *)
Definition method_not_found_of (method : str) : sres :=
  with_class n_method_not_found (fun e =>
    match e_msg e with
    | Some m => raise_reply (construct e (Some (m ++ [58; 32]%N ++ method)) None None)
    | None => SBroken
    end).

(* structure_message, request branch: ClassValidationError -> JsonRpcInvalidParams(),
   anything else -> JsonRpcInternalError(); _reject_request answers with it *)
Definition structure_request (p : pstatus) : option sres :=
  match p with
  | POk => None                                       (* delivered to handle_message *)
  | PBadValidation => Some (with_class n_invalid_params (fun e => raise_reply (construct e None None None)))
  | PBadOther => Some (with_class n_internal (fun e => raise_reply (construct e None None None)))
  end.

(* the three except-branches of _handle_request and of _execute_request_callback both do
   `error.to_response_error()` for a JsonRpcException and InternalError.of for the rest *)
Definition reply_of_outcome (o : houtcome) : sres :=
  match o with
  | HRet => SReply RResult
  | HRetUnser =>
    (* _send_response: `_send_data(response) is False` ->
       JsonRpcInternalError("Unable to serialize the result").to_response_error() *)
    with_class n_internal (fun e => raise_reply (construct e (Some msg_unserialisable) None None))
  | HRaiseRpc x => send_error x
  | HRaiseOther text tb => internal_error_of text tb
  end.

(* _execute_request_callback(msg_id, future) *)
Definition execute_request_callback (idtxt : str) (cancelled : bool) (o : houtcome) : sres :=
  if cancelled then
    (* JsonRpcRequestCancelled(f'Request with id "{msg_id}" is canceled') *)
    with_class n_cancelled (fun e =>
      raise_reply (construct e
        (Some ([82;101;113;117;101;115;116;32;119;105;116;104;32;105;100;32;34]%N ++ idtxt ++
               [34;32;105;115;32;99;97;110;99;101;108;101;100]%N)) None None))
  else reply_of_outcome o.

(* _execute_request: coroutine / thread handlers answer from the done-callback, a plain
   function is called inline (there is no future, so nothing to cancel) and its exception
   propagates to _handle_request *)
Definition execute_request (idtxt : str) (k : hkind) (cancelled : bool) (o : houtcome) : sres :=
  match k with
  | HAsync => execute_request_callback idtxt cancelled o
  | HThread => execute_request_callback idtxt cancelled o
  | HSync => reply_of_outcome o
  end.

(* _handle_request *)
Definition handle_request (q : request) : sres :=
  match q_target q with
  | TUnknown => method_not_found_of (q_method q)            (* _get_handler raises *)
  | TFeature k => execute_request (q_idtxt q) k (q_cancelled q) (q_outcome q)
  | TCommandKnown k => execute_request (q_idtxt q) k (q_cancelled q) (q_outcome q)
  | TCommandUnknown text tb => internal_error_of text tb     (* KeyError in the built-in *)
  end.

(* one request frame: structuring, then handle_message *)
Definition server_reply (q : request) : sres :=
  match structure_request (q_params q) with
  | Some r => r
  | None => handle_request q
  end.

(* one connection: the read loop (io_.run / run_async) takes the frames one after the other and
   resets its per-message state (content_length) in `finally`, whatever happened to the message;
   the error mapping keeps no state either, so a session is the fold of the per-message step *)
Definition session_step (acc : list sres) (q : request) : list sres := acc ++ [server_reply q].
Definition session_replies (qs : list request) : list sres := fold_left session_step qs [].

End Server.
End WithData.

Arguments mkExc {D}.
Arguments x_class {D}. Arguments x_code {D}. Arguments x_msg {D}. Arguments x_data {D}.
Arguments COk {D}. Arguments CValueError {D}. Arguments CTypeError {D}. Arguments CAttributeError {D}.
Arguments mkErr {D}. Arguments r_code {D}. Arguments r_msg {D}. Arguments r_data {D}.
Arguments base_init {D}. Arguments construct {D}. Arguments to_response_error {D}.
Arguments from_error_loop {D}. Arguments from_error {D}.
Arguments HRet {D}. Arguments HRetUnser {D}. Arguments HRaiseRpc {D}. Arguments HRaiseOther {D}.
Arguments TUnknown {D}. Arguments TFeature {D}. Arguments TCommandKnown {D}. Arguments TCommandUnknown {D}.
Arguments mkReq {D}. Arguments q_method {D}. Arguments q_idtxt {D}. Arguments q_params {D}.
Arguments q_target {D}. Arguments q_cancelled {D}. Arguments q_outcome {D}.
Arguments RResult {D}. Arguments RError {D}.
Arguments SReply {D}. Arguments SNoReply {D}. Arguments SBroken {D}. Arguments send_error {D}.
Arguments raise_reply {D}. Arguments with_class {D}. Arguments internal_error_of {D}.
Arguments method_not_found_of {D}. Arguments structure_request {D}. Arguments reply_of_outcome {D}.
Arguments execute_request_callback {D}. Arguments execute_request {D}. Arguments handle_request {D}.
Arguments server_reply {D}. Arguments session_step {D}. Arguments session_replies {D}.
