(* Model of pygls/uris.py (POSIX branch, IS_WIN = False), function for function, together with
   the fragments of urllib.parse (CPython 3.12) that it calls: quote, unquote, urlsplit,
   urlparse, urlunsplit/urlunparse.  Strings are lists of code points.  Where Python raises, the
   model returns an explicit [Raise].  The code modelled is the REPAIRED _normalize_win_path
   (str.find and path "/" for a bare //host, DESIGN section 6 row 2); finding 22 (empty
   authority) is reproduced faithfully.  No proofs in this file. *)
From Coq Require Import NArith List Bool.
From Coq Require Strings.String Strings.Ascii.
Import String.StringSyntax.
From Pygls Require Export Base.Unicode.
Open Scope N_scope.

(* ---------- outcomes ---------- *)
Inductive exn := ValueError | UnicodeEncodeError | PlainException.   (* PlainException: raise Exception(...) *)
Inductive outcome (A : Type) := Ret (a : A) | Raise (e : exn).
Arguments Ret {A} a.
Arguments Raise {A} e.
Definition bind {A B} (x : outcome A) (f : A -> outcome B) : outcome B :=
  match x with Ret a => f a | Raise e => Raise e end.

(* ---------- characters ---------- *)
Definition SLASH : N := 47.   Definition COLON : N := 58.  Definition PCT : N := 37.
Definition QM : N := 63.      Definition HASH : N := 35.   Definition SEMI : N := 59.
Definition LBR : N := 91.     Definition RBR : N := 93.

Definition is_upper (c : N) : bool := (65 <=? c) && (c <=? 90).
Definition is_lower (c : N) : bool := (97 <=? c) && (c <=? 122).
Definition is_alpha (c : N) : bool := is_upper c || is_lower c.       (* [a-zA-Z] *)
Definition is_digit (c : N) : bool := (48 <=? c) && (c <=? 57).
Definition lower (c : N) : N := if is_upper c then c + 32 else c.     (* str.lower on ASCII *)

Definition nonempty {A} (s : list A) : bool := match s with [] => false | _ => true end.
Fixpoint str_eqb (a b : list N) : bool :=
  match a, b with
  | [], [] => true
  | x :: a', y :: b' => (x =? y) && str_eqb a' b'
  | _, _ => false
  end.
Definition mem_str (s : list N) (l : list (list N)) : bool := existsb (str_eqb s) l.
Definition has (c : N) (s : list N) : bool := existsb (N.eqb c) s.

(* string literals (only used under Eval vm_compute, so that no Coq string reaches the extraction) *)
Definition lit (s : String.string) : list N :=
  List.map Ascii.N_of_ascii (String.list_ascii_of_string s).

(* longest prefix of characters that do not satisfy f, and the rest (which starts at the first
   character satisfying f, or is empty): s[:i], s[i:] for i = first index with f, else len *)
Fixpoint break (f : N -> bool) (s : list N) : list N * list N :=
  match s with
  | [] => ([], [])
  | c :: r => if f c then ([], s) else let '(a, b) := break f r in (c :: a, b)
  end.
(* "if d in s: a, b = s.split(d, 1)" else (s, "") *)
Definition split_first (d : N) (s : list N) : list N * list N :=
  let '(a, b) := break (N.eqb d) s in (a, match b with [] => [] | _ :: r => r end).

(* RE_DRIVE_LETTER_PATH = ^\/[a-zA-Z]: *)
Definition drive_match (p : list N) : bool :=
  match p with a :: b :: c :: _ => (a =? SLASH) && is_alpha b && (c =? COLON) | _ => false end.
Definition starts_slash (p : list N) : bool :=
  match p with a :: _ => a =? SLASH | [] => false end.
Definition starts_2slash (p : list N) : bool :=
  match p with a :: b :: _ => (a =? SLASH) && (b =? SLASH) | _ => false end.

(* ---------- _normalize_win_path (IS_WIN false) ---------- *)
Definition normalize_win_path (path : list N) : list N * list N :=
  let '(path1, netloc) :=
    if starts_2slash path then
      let '(h, t) := break (N.eqb SLASH) (tl (tl path)) in   (* idx = path.find("/", 2) *)
      match t with
      | [] => ([SLASH], h)                                   (* idx == -1 *)
      | _ => (t, h)
      end
    else (path, []) in
  let path2 := if starts_slash path1 then path1 else SLASH :: path1 in
  let path3 := if drive_match path2
               then match path2 with a :: b :: r => a :: lower b :: r | _ => path2 end
               else path2 in
  (path3, netloc).

(* ---------- urllib.parse.quote (safe = "/") ---------- *)
Definition always_safe (b : N) : bool :=
  is_alpha b || is_digit b || (b =? 95) || (b =? 46) || (b =? 45) || (b =? 126).   (* _ . - ~ *)
Definition safe (b : N) : bool := always_safe b || (b =? SLASH).
Definition hexdigit (n : N) : N := if n <? 10 then 48 + n else 55 + n.             (* "%02X" *)
Definition quote_byte (b : N) : list N :=
  if safe b then [b] else [PCT; hexdigit (b / 16); hexdigit (b mod 16)].
Definition quote_bytes (bs : list N) : list N := flat_map quote_byte bs.
(* str.encode("utf-8", "strict") fails on lone surrogates *)
Definition quote (s : list N) : outcome (list N) :=
  if forallb scalar s then Ret (quote_bytes (utf8_enc_all s)) else Raise UnicodeEncodeError.

(* ---------- urllib.parse.unquote (utf-8, errors = "replace") ---------- *)
Definition hexval (c : N) : option N :=
  if is_digit c then Some (c - 48)
  else if (65 <=? c) && (c <=? 70) then Some (c - 55)
  else if (97 <=? c) && (c <=? 102) then Some (c - 87)
  else None.
(* _unquote_impl on an ASCII run: "%" followed by two hex digits is a byte, any other "%" stays *)
Fixpoint pct_bytes (s : list N) : list N :=
  match s with
  | [] => []
  | c :: r =>
    if c =? PCT then
      match r with
      | h1 :: h2 :: r' =>
        match hexval h1, hexval h2 with
        | Some a, Some b => (16 * a + b) :: pct_bytes r'
        | _, _ => c :: pct_bytes r
        end
      | _ => c :: pct_bytes r
      end
    else c :: pct_bytes r
  end.

(* bytes.decode("utf-8", "replace"): every maximal ill-formed subpart becomes U+FFFD *)
Definition in_range (lo hi b : N) : bool := (lo <=? b) && (b <? hi).
Definition second_ok (b0 b1 : N) : bool :=
  if b0 <? 0xE0 then false
  else if b0 =? 0xE0 then in_range 0xA0 0xC0 b1
  else if b0 =? 0xED then in_range 0x80 0xA0 b1
  else if b0 <? 0xF0 then is_cont b1
  else if b0 =? 0xF0 then in_range 0x90 0xC0 b1
  else if b0 <? 0xF4 then is_cont b1
  else if b0 =? 0xF4 then in_range 0x80 0x90 b1
  else false.
(* what is left after the ill-formed subpart that starts with b0 (strict decoding failed) *)
Definition skip_bad (b0 : N) (r0 : list N) : list N :=
  match r0 with
  | b1 :: r1 =>
    if second_ok b0 b1 then
      match r1 with
      | b2 :: r2 => if (0xF0 <=? b0) && is_cont b2 then r2 else r1
      | [] => r1
      end
    else r0
  | [] => r0
  end.
Fixpoint utf8_dec_replace_fuel (fuel : nat) (bs : list N) : list N :=
  match fuel with
  | O => []
  | S f =>
    match bs with
    | [] => []
    | b0 :: r0 =>
      match utf8_dec1 bs with
      | Some (c, r) => c :: utf8_dec_replace_fuel f r
      | None => 0xFFFD :: utf8_dec_replace_fuel f (skip_bad b0 r0)
      end
    end
  end.
Definition utf8_dec_replace (bs : list N) : list N := utf8_dec_replace_fuel (length bs) bs.

(* one maximal ASCII run (held reversed) is percent-decoded and then utf-8 decoded *)
Definition flush_run (run_rev : list N) : list N := utf8_dec_replace (pct_bytes (rev run_rev)).
(* _generate_unquoted_parts: ASCII runs are decoded, non-ASCII characters pass through *)
Fixpoint unq_go (s run_rev : list N) : list N :=
  match s with
  | [] => flush_run run_rev
  | c :: r => if c <? 128 then unq_go r (c :: run_rev) else flush_run run_rev ++ c :: unq_go r []
  end.
Definition unquote (s : list N) : list N := if has PCT s then unq_go s [] else s.

(* ---------- urllib.parse tables ---------- *)
Local Open Scope string_scope.
Definition uses_netloc : list (list N) := Eval vm_compute in map lit
  [""; "ftp"; "http"; "gopher"; "nntp"; "telnet"; "imap"; "wais"; "file"; "mms"; "https"; "shttp";
   "snews"; "prospero"; "rtsp"; "rtsps"; "rtspu"; "rsync"; "svn"; "svn+ssh"; "sftp"; "nfs"; "git";
   "git+ssh"; "ws"; "wss"; "itms-services"].
Definition uses_params : list (list N) := Eval vm_compute in map lit
  [""; "ftp"; "hdl"; "prospero"; "http"; "imap"; "https"; "shttp"; "rtsp"; "rtsps"; "rtspu"; "sip";
   "sips"; "mms"; "sftp"; "tel"].
Local Close Scope string_scope.
Definition s_file : list N := [102; 105; 108; 101].

(* ---------- urllib.parse.urlunsplit / urlunparse ---------- *)
Definition py_urlunsplit (scheme netloc url query fragment : list N) : list N :=
  let url1 :=
    if nonempty netloc || (nonempty scheme && mem_str scheme uses_netloc && negb (starts_2slash url))
    then SLASH :: SLASH :: netloc ++ (if nonempty url && negb (starts_slash url) then SLASH :: url else url)
    else url in
  let url2 := if nonempty scheme then scheme ++ COLON :: url1 else url1 in
  let url3 := if nonempty query then url2 ++ QM :: query else url2 in
  if nonempty fragment then url3 ++ HASH :: fragment else url3.
Definition py_urlunparse (scheme netloc url params query fragment : list N) : list N :=
  py_urlunsplit scheme netloc (if nonempty params then url ++ SEMI :: params else url) query fragment.

(* ---------- pygls.uris.urlunparse ---------- *)
Definition urlunparse (scheme netloc path params query fragment : list N) : outcome (list N) :=
  bind (if drive_match path
        then bind (quote (tl (tl (tl path)))) (fun q =>
               Ret (match path with a :: b :: c :: _ => a :: b :: c :: q | _ => q end))
        else quote path) (fun qpath =>
  bind (quote scheme) (fun qscheme =>
  bind (quote netloc) (fun qnetloc =>
  bind (quote params) (fun qparams =>
  bind (quote query) (fun qquery =>
  bind (quote fragment) (fun qfragment =>
  Ret (py_urlunparse qscheme qnetloc qpath qparams qquery qfragment))))))).

(* ---------- from_fs_path ---------- *)
(* None stands for a missing argument: path[:2] raises TypeError, which is caught *)
Definition from_fs_path (p : option (list N)) : outcome (option (list N)) :=
  match p with
  | None => Ret None
  | Some path =>
    let '(path', netloc) := normalize_win_path path in
    bind (urlunparse s_file netloc path' [] [] []) (fun u => Ret (Some u))
  end.

(* ---------- urllib.parse.urlsplit ---------- *)
Fixpoint lstrip_c0 (s : list N) : list N :=            (* lstrip of U+0000..U+0020 *)
  match s with c :: r => if c <=? 32 then lstrip_c0 r else s | [] => [] end.
Definition remove_unsafe (s : list N) : list N :=      (* \t \r \n removed everywhere *)
  filter (fun c => negb ((c =? 9) || (c =? 13) || (c =? 10))) s.
Definition scheme_char (c : N) : bool := is_alpha c || is_digit c || (c =? 43) || (c =? 45) || (c =? 46).
Definition split_scheme (url : list N) : list N * list N :=
  let '(pre, rest) := break (N.eqb COLON) url in
  match rest with
  | [] => ([], url)                                     (* no ":" *)
  | _ :: after =>
    match pre with
    | [] => ([], url)                                   (* i = 0 *)
    | c0 :: _ => if is_alpha c0 && forallb scheme_char pre then (map lower pre, after) else ([], url)
    end
  end.
Definition is_delim (c : N) : bool := (c =? SLASH) || (c =? QM) || (c =? HASH).
Definition is_hex (c : N) : bool := match hexval c with Some _ => true | None => false end.
(* _check_bracketed_host for a host that starts with "v": \Av[a-fA-F0-9]+\..+\Z
   (after the "v": one or more hex digits, a dot, at least one more character) *)
Definition ipvfuture_ok (h : list N) : bool :=
  match h with
  | v :: r =>
    let '(hx, rest) := break (fun c => negb (is_hex c)) r in
    nonempty hx && match rest with d :: more => (d =? 46) && nonempty more | [] => false end
  | [] => false
  end.
(* the host between the first "[" and the next "]": netloc.partition("[")[2].partition("]")[0] *)
Definition bracketed_host (netloc : list N) : list N :=
  fst (break (N.eqb RBR) (snd (split_first LBR netloc))).
(* The checks urlsplit applies to the authority.  Exact except where [approx_netloc] says so:
   a bracketed host that does not start with "v" must be a valid IPv6 literal (ipaddress module,
   not modelled: the model answers ValueError), and a non-ASCII authority is subject to an NFKC
   check (unicodedata, not modelled: the model lets it pass). *)
Definition check_netloc (netloc : list N) : outcome unit :=
  let l := has LBR netloc in
  let r := has RBR netloc in
  if xorb l r then Raise ValueError
  else if l && r then
    match bracketed_host netloc with
    | 118 :: _ => if ipvfuture_ok (bracketed_host netloc) then Ret tt else Raise ValueError
    | _ => Raise ValueError
    end
  else Ret tt.
Definition approx_netloc (netloc : list N) : bool :=
  (has LBR netloc && has RBR netloc &&
   match bracketed_host netloc with 118 :: _ => false | _ => true end)
  || negb (ascii_str netloc).

(* the url after the scheme has been removed: (netloc, rest) *)
Definition split_netloc (url : list N) : list N * list N :=
  if starts_2slash url then break is_delim (tl (tl url)) else ([], url).

Definition py_urlsplit (url0 : list N)
  : outcome (list N * list N * list N * list N * list N) :=
  let url1 := remove_unsafe (lstrip_c0 url0) in
  let '(scheme, url2) := split_scheme url1 in
  let '(netloc, url3) := split_netloc url2 in
  bind (check_netloc netloc) (fun _ =>
  let '(url4, fragment) := split_first HASH url3 in
  let '(url5, query) := split_first QM url4 in
  Ret (scheme, netloc, url5, query, fragment)).

(* _splitparams: the parameters start at the first ";" after the last "/" *)
Fixpoint split_last_slash (s : list N) : list N * list N :=   (* (s[:k+1], s[k+1:]), k = rfind "/" *)
  match s with
  | [] => ([], [])
  | c :: r =>
    let '(h, t) := split_last_slash r in
    match h with
    | [] => if c =? SLASH then ([c], t) else ([], c :: t)
    | _ => (c :: h, t)
    end
  end.
Definition splitparams (url : list N) : list N * list N :=
  let '(h, t) := split_last_slash url in
  if has SEMI t then let '(a, b) := split_first SEMI t in (h ++ a, b) else (url, []).

Definition py_urlparse (url : list N)
  : outcome (list N * list N * list N * list N * list N * list N) :=
  bind (py_urlsplit url) (fun '(scheme, netloc, u, query, fragment) =>
  let '(u', params) :=
    if mem_str scheme uses_params && has SEMI u then splitparams u else (u, []) in
  Ret (scheme, netloc, u', params, query, fragment)).

(* ---------- pygls.uris.urlparse ---------- *)
Definition urlparse (uri : list N)
  : outcome (list N * list N * list N * list N * list N * list N) :=
  bind (py_urlparse uri) (fun '(scheme, netloc, path, params, query, fragment) =>
  Ret (unquote scheme, unquote netloc, unquote path, unquote params, unquote query, unquote fragment)).

(* ---------- to_fs_path ---------- *)
(* None: urllib coerces it to an empty bytes URL, the scheme is "" and the result None *)
Definition to_fs_path (uri : option (list N)) : outcome (option (list N)) :=
  match uri with
  | None => Ret None
  | Some u =>
    bind (urlparse u) (fun '(scheme, netloc, path, _, _, _) =>
    if negb (str_eqb scheme s_file) then Ret None
    else if nonempty netloc && nonempty path then Ret (Some (SLASH :: SLASH :: netloc ++ path))
    else if drive_match path
         then Ret (Some (match path with _ :: b :: r => lower b :: r | _ => path end))
    else Ret (Some path))
  end.

(* ---------- uri_scheme ---------- *)
(* uri_scheme(None) is "" (same coercion), not None *)
Definition uri_scheme (uri : option (list N)) : outcome (option (list N)) :=
  match uri with
  | None => Ret (Some [])
  | Some u => bind (urlparse u) (fun '(scheme, _, _, _, _, _) => Ret (Some scheme))
  end.

(* ---------- TextDocument.__init__: self.path (pygls/workspace/text_document.py) ---------- *)
(* to_fs_path(uri), or for a non-file scheme the (unquoted) path component of the URI *)
Definition text_document_path (u : list N) : outcome (list N) :=
  bind (to_fs_path (Some u)) (fun r =>
  match r with
  | Some p => Ret p
  | None => bind (urlparse u) (fun '(_, _, path, _, _, _) => Ret path)
  end).

(* where the model of urlsplit is only approximate (see check_netloc) *)
Definition approx_uri (u : list N) : bool :=
  let '(_, url2) := split_scheme (remove_unsafe (lstrip_c0 u)) in
  approx_netloc (fst (split_netloc url2)).

(* =====================================================================================
   Extension: uri_with, and the IS_WIN branches as a parameter (is_win = false is the code
   above; the equalities are in Proofs/UrisExt.v).
   ===================================================================================== *)
Definition BSLASH : N := 92.
(* str.replace(a, b) for single characters *)
Definition replace_char (a b : N) (s : list N) : list N := map (fun c => if c =? a then b else c) s.

(* _normalize_win_path: "if IS_WIN: path = path.replace("\\", "/")" comes first *)
Definition normalize_win_path_gen (is_win : bool) (path : list N) : list N * list N :=
  normalize_win_path (if is_win then replace_char BSLASH SLASH path else path).

Definition from_fs_path_gen (is_win : bool) (p : option (list N)) : outcome (option (list N)) :=
  match p with
  | None => Ret None
  | Some path =>
    let '(path', netloc) := normalize_win_path_gen is_win path in
    bind (urlunparse s_file netloc path' [] [] []) (fun u => Ret (Some u))
  end.

(* to_fs_path: "if IS_WIN: value = value.replace("/", "\\")" just before "return value" *)
Definition to_fs_path_gen (is_win : bool) (uri : option (list N)) : outcome (option (list N)) :=
  bind (to_fs_path uri) (fun r =>
  Ret (match r with
       | Some value => Some (if is_win then replace_char SLASH BSLASH value else value)
       | None => None
       end)).

(* "a or b" on strings, a possibly not given *)
Definition or_str (a : option (list N)) (b : list N) : list N :=
  match a with Some x => if nonempty x then x else b | None => b end.

(* uri_with: the old parts, then "path is None -> raise Exception", the authority that
   _normalize_win_path splits off the new path is discarded ("path, _ = ...") *)
Definition uri_with_gen (is_win : bool) (uri : list N)
    (scheme netloc path params query fragment : option (list N)) : outcome (list N) :=
  bind (urlparse uri) (fun '(o_scheme, o_netloc, o_path, o_params, o_query, o_fragment) =>
  match path with
  | None => Raise PlainException
  | Some p =>
    let '(p', _) := normalize_win_path_gen is_win p in
    urlunparse (or_str scheme o_scheme) (or_str netloc o_netloc) (if nonempty p' then p' else o_path)
               (or_str params o_params) (or_str query o_query) (or_str fragment o_fragment)
  end).
Definition uri_with := uri_with_gen false.
