(* Model/Dispatch.v - delivery of one incoming message to the built-in and the user's handlers (C14).

   What Endpoint.v abstracts away (which method, what the built-in does to the workspace, which
   registered callable is chosen and what it receives) is concrete here; what Endpoint.v details
   (transport, error hook, ids with JSON types, undecodable frames, cancel notifications, exit) is
   left out.  The registry is the one of Model/Features.v, built by the real decorators' model, and
   is read through Features.get_handler / exec_command / exec_site only.

   Which Python each definition transliterates (paths relative to pygls/):
     recv                 protocol/json_rpc.py JsonRPCProtocol.handle_message for a well-formed
                          "2.0" request / notification (the `_shutdown` gate, then dispatch)
     handle_request       JsonRPCProtocol._handle_request: _get_handler (built-ins first),
                          the workspace/executeCommand special case, the three `except` arms
     handle_notification  JsonRPCProtocol._handle_notification
     execute_request      JsonRPCProtocol._execute_request   (coroutine -> loop task, thread
     exec_notification    JsonRPCProtocol._execute_notification   function -> pool, else inline)
     chain                protocol/lsp_meta.py call_user_feature: `ret = base(...)`, then
                          `self.fm.features[name]` through _execute_notification with the SAME
                          arguments, KeyError / Exception of that part swallowed, `return ret`
     builtin_body         the lsp_* bodies of protocol/language_server.py for the ten methods of
                          `call` (workspace transformers: see ws_effect) incl. lsp_shutdown's
                          cancellation of the in-flight request futures
     exec_cmd_body        LanguageServerProtocol.lsp_workspace__execute_command
     request_callback     JsonRPCProtocol._execute_request_callback (pop in `finally`)
     cancel_ref           asyncio.Task.cancel / concurrent.futures.Future.cancel
     task_step / loop_cb  first (and only) `Task.__step` of a handler coroutine / its done-callback
     job_start/job_finish a pool work item: the handler body starts / returns (done-callback runs)

   The handler log `hlog` has ONE entry per invocation of a handler body, appended when the body
   starts: (arrival index of the message, method or command name, built-in | user | command,
   identity of the user's function, thread Loop | Pool, server injected?, arguments received,
   the workspace as the body sees it on entry).  No proofs here. *)
From Coq Require Import ZArith NArith List Bool.
From Pygls Require Import Base.Assoc Model.Features.
Import ListNotations.
Local Open Scope N_scope.

(* ------------------------------------------------------------------ method names *)
Definition s_initialize : list N := [105; 110; 105; 116; 105; 97; 108; 105; 122; 101].
Definition s_initialized : list N := [105; 110; 105; 116; 105; 97; 108; 105; 122; 101; 100].
Definition s_did_open : list N := [116; 101; 120; 116; 68; 111; 99; 117; 109; 101; 110; 116; 47; 100; 105; 100; 79; 112; 101; 110].
Definition s_did_change : list N := [116; 101; 120; 116; 68; 111; 99; 117; 109; 101; 110; 116; 47; 100; 105; 100; 67; 104; 97; 110; 103; 101].
Definition s_did_close : list N := [116; 101; 120; 116; 68; 111; 99; 117; 109; 101; 110; 116; 47; 100; 105; 100; 67; 108; 111; 115; 101].
Definition s_folders : list N := [119; 111; 114; 107; 115; 112; 97; 99; 101; 47; 100; 105; 100; 67; 104; 97; 110; 103; 101; 87; 111; 114; 107; 115; 112; 97; 99; 101; 70; 111; 108; 100; 101; 114; 115].
Definition s_set_trace : list N := [36; 47; 115; 101; 116; 84; 114; 97; 99; 101].
Definition s_shutdown : list N := [115; 104; 117; 116; 100; 111; 119; 110].
Definition s_exec_cmd : list N := [119; 111; 114; 107; 115; 112; 97; 99; 101; 47; 101; 120; 101; 99; 117; 116; 101; 67; 111; 109; 109; 97; 110; 100].
Definition s_progress_cancel : list N := [119; 105; 110; 100; 111; 119; 47; 119; 111; 114; 107; 68; 111; 110; 101; 80; 114; 111; 103; 114; 101; 115; 115; 47; 99; 97; 110; 99; 101; 108].
Definition s_exit : list N := [101; 120; 105; 116].
Definition s_nb_open : list N := [110; 111; 116; 101; 98; 111; 111; 107; 68; 111; 99; 117; 109; 101; 110; 116; 47; 100; 105; 100; 79; 112; 101; 110].
Definition s_nb_change : list N := [110; 111; 116; 101; 98; 111; 111; 107; 68; 111; 99; 117; 109; 101; 110; 116; 47; 100; 105; 100; 67; 104; 97; 110; 103; 101].
Definition s_nb_close : list N := [110; 111; 116; 101; 98; 111; 111; 107; 68; 111; 99; 117; 109; 101; 110; 116; 47; 100; 105; 100; 67; 108; 111; 115; 101].

(* the keys of FeatureManager._builtin_features of a LanguageServerProtocol (every @lsp_method) *)
Definition builtins : list name :=
  map (@Some (list N))
      [s_initialize; s_initialized; s_did_open; s_did_change; s_did_close; s_folders; s_set_trace;
       s_shutdown; s_exec_cmd; s_progress_cancel; s_exit; s_nb_open; s_nb_change; s_nb_close].

(* ------------------------------------------------------------------ messages *)
(* A well-formed message: the method together with the params lsprotocol structures for it.  The
   three built-in requests carry their id; every other method is `COther` (its name is "u/" ++ nm, so
   it cannot collide with a built-in of LanguageServerProtocol; it is a built-in iff the protocol
   class adds it: cfg.c_extra), request (Some id) or notification.
   Documents, folders, texts and progress tokens are numbered; a didChange carries whole-document
   changes (the new texts). *)
Inductive call :=
| CInitialize (i : N) (folders : list N)
| CInitialized
| CDidOpen (u : N) (ver : Z) (txt : N)
| CDidChange (u : N) (ver : Z) (txts : list N)
| CDidClose (u : N)
| CFolders (added removed : list N)
| CSetTrace (v : N)
| CShutdown (i : N)
| CExecCmd (i : N) (cmd : list N) (a : N)
| CProgressCancel (tok : N)
| COther (req : option N) (nm : list N) (v : N)
(* the notebook built-ins: a notebook n (version ver) with one cell (a text document `cell`, text txt);
   a change that carries a new version only; the close names the notebook and its cell *)
| CNbOpen (n : N) (ver : Z) (cell : N) (txt : N)
| CNbChange (n : N) (ver : Z)
| CNbClose (n : N) (cell : N).

Definition other_name (nm : list N) : name := Some (117 :: 47 :: nm).       (* "u/" ++ nm *)

Definition meth_of (k : call) : name :=
  match k with
  | CInitialize _ _ => Some s_initialize
  | CInitialized => Some s_initialized
  | CDidOpen _ _ _ => Some s_did_open
  | CDidChange _ _ _ => Some s_did_change
  | CDidClose _ => Some s_did_close
  | CFolders _ _ => Some s_folders
  | CSetTrace _ => Some s_set_trace
  | CShutdown _ => Some s_shutdown
  | CExecCmd _ _ _ => Some s_exec_cmd
  | CProgressCancel _ => Some s_progress_cancel
  | COther _ nm _ => other_name nm
  | CNbOpen _ _ _ _ => Some s_nb_open
  | CNbChange _ _ => Some s_nb_change
  | CNbClose _ _ => Some s_nb_close
  end.

(* `hasattr(message, "id")` *)
Definition req_id (k : call) : option N :=
  match k with
  | CInitialize i _ | CShutdown i | CExecCmd i _ _ => Some i
  | COther r _ _ => r
  | _ => None
  end.

(* ------------------------------------------------------------------ what built-ins act on *)
(* protocol._workspace (None before `initialize`; open text documents uri -> (version, text);
   folders), protocol.trace, protocol._shutdown, the cancelled work-done-progress tokens.
   `w_docs` is the document side of the workspace: `_text_documents` (text documents and notebook
   cells alike, under their uri number) and, kept apart by the key range, `_notebook_documents`:
   notebook n under key nb_key n with its version (and text 0).  Uri numbers of documents stay below
   nb_key 0 (a well-formedness condition on messages, like the numbering itself). *)
Definition nb_key (n : N) : N := 1000 + n.
Record wsp := mkW {
  w_init : bool;
  w_docs : list (N * (Z * N));
  w_folders : list (N * unit);
  w_trace : N;
  w_shut : bool;
  w_cancelled : list N }.

Definition w0 : wsp := mkW false [] [] 0 false [].

Definition set_docs d w := mkW (w_init w) d (w_folders w) (w_trace w) (w_shut w) (w_cancelled w).
Definition set_folders f w := mkW (w_init w) (w_docs w) f (w_trace w) (w_shut w) (w_cancelled w).

Definition add_folder (u : N) (f : list (N * unit)) := Assoc.set N.eqb u tt f.
Definition del_folder (u : N) (f : list (N * unit)) := Assoc.remove N.eqb u f.

(* for f_add, f_remove in zip_longest(added, removed): add, then remove *)
Fixpoint del_folders (r : list N) (f : list (N * unit)) : list (N * unit) :=
  match r with
  | [] => f
  | y :: r' => del_folders r' (del_folder y f)
  end.

Fixpoint zip_folders (a r : list N) (f : list (N * unit)) {struct a} : list (N * unit) :=
  match a with
  | [] => del_folders r f
  | x :: a' =>
      match r with
      | [] => zip_folders a' [] (add_folder x f)
      | y :: r' => zip_folders a' r' (del_folder y (add_folder x f))
      end
  end.

Definition memN (x : N) (l : list N) : bool := existsb (N.eqb x) l.

(* The body of a built-in as a transformer; None = it raises (RuntimeError "workspace is not
   available", KeyError of update_text_document on a document that is not open).
   workspace/executeCommand and the futures cancelled by `shutdown` are in builtin_body. *)
Definition ws_effect (toks : list N) (k : call) (w : wsp) : option wsp :=
  match k with
  | CInitialize _ fs =>
      Some (mkW true [] (fold_left (fun f u => add_folder u f) fs []) (w_trace w) (w_shut w) (w_cancelled w))
  | CInitialized => Some w
  | CDidOpen u v t =>
      if w_init w then Some (set_docs (Assoc.set N.eqb u (v, t) (w_docs w)) w) else None
  | CDidChange u v ts =>
      if negb (w_init w) then None
      else match ts with
           | [] => match Assoc.get N.eqb u (w_docs w) with        (* get_text_document(uri).version = v *)
                   | Some (_, t) => Some (set_docs (Assoc.set N.eqb u (v, t) (w_docs w)) w)
                   | None => Some w                                (* a transient document *)
                   end
           | t1 :: r => match Assoc.get N.eqb u (w_docs w) with
                        | Some _ => Some (set_docs (Assoc.set N.eqb u (v, last r t1) (w_docs w)) w)
                        | None => None                             (* self._text_documents[uri]: KeyError *)
                        end
           end
  | CDidClose u =>
      if w_init w then Some (set_docs (Assoc.remove N.eqb u (w_docs w)) w) else None
  | CFolders a r =>
      match a, r with
      | [], [] => Some w                                           (* the loop body never runs *)
      | _, _ => if w_init w then Some (set_folders (zip_folders a r (w_folders w)) w) else None
      end
  | CSetTrace v => Some (mkW (w_init w) (w_docs w) (w_folders w) v (w_shut w) (w_cancelled w))
  | CShutdown _ => Some (mkW (w_init w) (w_docs w) (w_folders w) (w_trace w) true (w_cancelled w))
  | CExecCmd _ _ _ => Some w
  | CProgressCancel tok =>
      if memN tok toks && negb (memN tok (w_cancelled w))
      then Some (mkW (w_init w) (w_docs w) (w_folders w) (w_trace w) (w_shut w) (w_cancelled w ++ [tok]))
      else Some w
  | COther _ _ _ => Some w
  | CNbOpen n v cell t =>                                          (* put_notebook_document *)
      if w_init w
      then Some (set_docs (Assoc.set N.eqb cell (v, t) (Assoc.set N.eqb (nb_key n) (v, 0) (w_docs w))) w)
      else None
  | CNbChange n v =>                                               (* update_notebook_document, no cell changes *)
      if negb (w_init w) then None
      else match Assoc.get N.eqb (nb_key n) (w_docs w) with
           | Some _ => Some (set_docs (Assoc.set N.eqb (nb_key n) (v, 0) (w_docs w)) w)
           | None => None                                          (* self._notebook_documents[uri]: KeyError *)
           end
  | CNbClose n cell =>                                             (* remove_notebook_document *)
      if w_init w
      then Some (set_docs (Assoc.remove N.eqb cell (Assoc.remove N.eqb (nb_key n) (w_docs w))) w)
      else None
  end.

(* ------------------------------------------------------------------ what a handler's signature is *)
(* has_ls_param_or_annotation(f, type(server)) looks at the callable through inspect.signature and
   typing.get_type_hints.  `g_first`: the first parameter inspect.signature shows (NoFirst: there is
   none, or inspect.signature raises) - its name being `ls` or not, and its own annotation (none /
   exactly the server's class / anything else).  `g_hints`: typing.get_type_hints(f) returns: false
   when ANY annotation of f (another parameter's, the return annotation) cannot be evaluated
   (NameError: a string / `from __future__ import annotations` reference to a name that does not
   exist at run time) and for callables get_type_hints rejects (TypeError: functools.partial objects,
   instances with __call__).  The code, in its order:
       sig = inspect.signature(f); first_p = next(islice(sig.parameters.values(), 0, 1))
       return first_p.name == "ls" or get_type_hints(f)[first_p.name] == annotation
     except Exception: return False *)
Record gsig := mkG { g_first : fparams; g_hints : bool }.

Definition has_ls_g (g : gsig) : bool :=
  match g_first g with
  | NoFirst => false                          (* StopIteration (or inspect.signature raised) *)
  | First is_ls a =>
      if is_ls then true                      (* `or` short-circuits: get_type_hints is not called *)
      else if g_hints g then
             match a with
             | AServer => true
             | ANone => false                 (* KeyError: the first parameter has no hint *)
             | AOther => false
             end
      else false                              (* NameError / TypeError of get_type_hints swallowed *)
  end.

(* the abstract signature of Model/Features.v (`fparams`: what has_ls_param_or_annotation can see)
   of such a callable: an annotation that cannot be looked up is as good as another type *)
Definition see (g : gsig) : fparams :=
  match g_first g with
  | NoFirst => NoFirst
  | First is_ls a => First is_ls (if g_hints g then a else AOther)
  end.

(* ------------------------------------------------------------------ handlers, futures, logs *)
Inductive tsite := OnLoop | OnPool.                  (* threading.current_thread() is the loop's? *)
Inductive part := PBuiltin | PUser | PCommand.
Inductive arg := ACall (k : call) | AId (i : N) | AVal (v : N).

(* one invocation of a registered callable that is going to be made *)
Record inv := mkInv {
  i_msg : nat; i_meth : name; i_part : part; i_entry : entry; i_args : list arg }.

Record hentry := mkH {
  h_msg : nat; h_meth : name; h_part : part; h_fid : N; h_site : tsite; h_inj : bool;
  h_args : list arg; h_snap : wsp }.

Inductive fres := RCancelled | RVal (v : N) | RExc.
Inductive cbkind := CReq (i : N) | CNot.

Inductive tstate := TNew (must_cancel : bool) | TDoneCb (r : fres) | TFin (r : fres).
Record task := mkT { t_inv : inv; t_cb : cbkind; t_st : tstate }.
Inductive jstate := JQueued | JRunning | JDone (r : fres) | JCancelled.
Record job := mkJ { j_inv : inv; j_cb : cbkind; j_st : jstate }.
Inductive fref := FTask (t : nat) | FJob (j : nat).

Inductive rval := VNull | VObj | VInt (v : N).
Inductive oframe := OResult (i : N) (v : rval) | OError (i : N) (code : Z).

Definition code_method_not_found : Z := (-32601)%Z.
Definition code_internal : Z := (-32603)%Z.
Definition code_cancelled : Z := (-32800)%Z.

(* the registry after the decorated definitions of the case; which user functions raise;
   the progress tokens that exist; (for the reference only) which user functions ASK for the
   server: first parameter named `ls` or annotated with the server's class; the built-ins the
   protocol class adds *)
Record cfg := mkCfg { c_reg : registry; c_raises : list N; c_tokens : list N; c_asks : list N;
                      c_extra : list (list N) }.

(* FeatureManager._builtin_features of the server's protocol class: the @lsp_method methods of
   LanguageServerProtocol plus those a subclass (protocol_cls=) adds - `c_extra`: their names after
   "u/"; such a built-in has no effect on the workspace and returns None *)
Definition bset (c : cfg) : list name := builtins ++ map other_name (c_extra c).

Definition raises (c : cfg) (e : entry) : bool := memN (e_fid e) (c_raises c).
(* a handler that returns, returns the number of its function *)
Definition res_of (c : cfg) (e : entry) : fres := if raises c e then RExc else RVal (e_fid e).

Record st := mkSt {
  ws : wsp;
  nmsg : nat;                          (* messages taken from the transport so far *)
  futs : list (N * fref);              (* protocol._request_futures *)
  tasks : list task;
  jobs : list job;
  out : list oframe;                   (* responses written *)
  hlog : list hentry }.

Definition init : st := mkSt w0 0%nat [] [] [] [] [].

Definition set_ws v s := mkSt v (nmsg s) (futs s) (tasks s) (jobs s) (out s) (hlog s).
Definition set_nmsg v s := mkSt (ws s) v (futs s) (tasks s) (jobs s) (out s) (hlog s).
Definition set_futs v s := mkSt (ws s) (nmsg s) v (tasks s) (jobs s) (out s) (hlog s).
Definition set_tasks v s := mkSt (ws s) (nmsg s) (futs s) v (jobs s) (out s) (hlog s).
Definition set_jobs v s := mkSt (ws s) (nmsg s) (futs s) (tasks s) v (out s) (hlog s).
Definition set_out v s := mkSt (ws s) (nmsg s) (futs s) (tasks s) (jobs s) v (hlog s).
Definition set_hlog v s := mkSt (ws s) (nmsg s) (futs s) (tasks s) (jobs s) (out s) v.

Fixpoint upd_nth {A : Type} (n : nat) (f : A -> A) (l : list A) : list A :=
  match l, n with
  | [], _ => []
  | x :: r, O => f x :: r
  | x :: r, S n' => x :: upd_nth n' f r
  end.

Definition add_out f s := set_out (out s ++ [f]) s.
Definition set_task_st (t : nat) (x : tstate) s :=
  set_tasks (upd_nth t (fun tk => mkT (t_inv tk) (t_cb tk) x) (tasks s)) s.
Definition set_job_st (j : nat) (x : jstate) s :=
  set_jobs (upd_nth j (fun jb => mkJ (j_inv jb) (j_cb jb) x) (jobs s)) s.
Definition fut_set (i : N) (r : fref) s := set_futs (Assoc.set N.eqb i r (futs s)) s.
Definition fut_pop (i : N) s := set_futs (Assoc.remove N.eqb i (futs s)) s.

Definition tsite_of (x : site) : tsite := match x with Pool => OnPool | _ => OnLoop end.

(* the body of a user's function starts on thread `sv` *)
Definition invoke (sv : tsite) (x : inv) (s : st) : st :=
  set_hlog (hlog s ++ [mkH (i_msg x) (i_meth x) (i_part x) (e_fid (i_entry x)) sv
                           (e_inject (i_entry x)) (i_args x) (ws s)]) s.

Definition log_builtin (n : nat) (k : call) (args : list arg) (s : st) : st :=
  set_hlog (hlog s ++ [mkH n (meth_of k) PBuiltin 0 OnLoop false args (ws s)]) s.

(* ------------------------------------------------------------------ callbacks, cancellation *)
Definition request_callback (i : N) (r : fres) (s : st) : st :=
  let s1 := match r with
            | RCancelled => add_out (OError i code_cancelled) s
            | RVal v => add_out (OResult i (VInt v)) s
            | RExc => add_out (OError i code_internal) s
            end in
  fut_pop i s1.

Definition run_cb (cb : cbkind) (r : fres) (s : st) : st :=
  match cb with
  | CReq i => request_callback i r s
  | CNot => s                              (* _execute_notification_callback: error hook only *)
  end.

Definition cancel_ref (r : fref) (s : st) : st :=
  match r with
  | FTask t =>
      match nth_error (tasks s) t with
      | Some tk => match t_st tk with
                   | TNew _ => set_task_st t (TNew true) s
                   | _ => s
                   end
      | None => s
      end
  | FJob j =>
      match nth_error (jobs s) j with
      | Some jb => match j_st jb with
                   | JQueued => run_cb (j_cb jb) RCancelled (set_job_st j JCancelled s)
                   | _ => s
                   end
      | None => s
      end
  end.

(* ------------------------------------------------------------------ starting handlers *)
Definition new_task (x : inv) (cb : cbkind) (s : st) : st :=
  set_tasks (tasks s ++ [mkT x cb (TNew false)]) s.
Definition new_job (x : inv) (cb : cbkind) (s : st) : st :=
  set_jobs (jobs s ++ [mkJ x cb JQueued]) s.

(* _execute_request(msg_id, handler, params); true = an exception leaves it *)
Definition execute_request (c : cfg) (i : N) (x : inv) (s : st) : st * bool :=
  match exec_site (i_entry x) with
  | LoopTask => (fut_set i (FTask (length (tasks s))) (new_task x (CReq i) s), false)
  | Pool => (fut_set i (FJob (length (jobs s))) (new_job x (CReq i) s), false)
  | LoopInline =>
      let s1 := invoke OnLoop x s in
      if raises c (i_entry x) then (s1, true)
      else (add_out (OResult i (VInt (e_fid (i_entry x)))) s1, false)
  end.

(* _execute_notification(handler, *params) *)
Definition exec_notification (c : cfg) (x : inv) (s : st) : st * bool :=
  match exec_site (i_entry x) with
  | LoopTask => (new_task x CNot s, false)
  | Pool => (new_job x CNot s, false)
  | LoopInline => (invoke OnLoop x s, raises c (i_entry x))
  end.

(* the tail of call_user_feature's decorator: the user's feature of the same name, with the
   built-in's own arguments, through _execute_notification; what it raises is swallowed *)
Definition chain (c : cfg) (n : nat) (k : call) (args : list arg) (s : st) : st :=
  match aget (meth_of k) (features (c_reg c)) with
  | None => s                                                      (* except KeyError: pass *)
  | Some e => fst (exec_notification c (mkInv n (meth_of k) PUser e args) s)
  end.

(* lsp_shutdown: for future in list(self._request_futures.values()): future.cancel() *)
Definition cancel_all (s : st) : st :=
  fold_left (fun s' r => cancel_ref r s') (Assoc.values (futs s)) s.

(* the base function of a built-in other than workspace/executeCommand; None = it raises *)
Definition builtin_body (c : cfg) (k : call) (s : st) : option st :=
  let s1 := match k with CShutdown _ => cancel_all s | _ => s end in
  match ws_effect (c_tokens c) k (ws s1) with
  | Some w => Some (set_ws w s1)
  | None => None
  end.

Definition result_of (k : call) : rval := match k with CInitialize _ _ => VObj | _ => VNull end.

(* lsp_workspace__execute_command(params, msg_id); true = it raises *)
Definition exec_cmd_body (c : cfg) (n : nat) (i : N) (cmd : list N) (a : N) (s : st) : st * bool :=
  match exec_command (c_reg c) (Some cmd) with
  | [] => (s, true)                                                (* self.fm.commands[...]: KeyError *)
  | e :: _ => execute_request c i (mkInv n (Some cmd) PCommand e [AVal a]) s
  end.

Definition is_exec (k : call) : bool := match k with CExecCmd _ _ _ => true | _ => false end.

Definition handle_request (c : cfg) (n : nat) (i : N) (k : call) (s : st) : st :=
  match get_handler (bset c) (c_reg c) (meth_of k) with
  | HNotFound => add_out (OError i code_method_not_found) s
  | HUser e =>
      let (s1, x) := execute_request c i (mkInv n (meth_of k) PUser e [ACall k]) s in
      if x then add_out (OError i code_internal) s1 else s1
  | HBuiltin =>
      match k with
      | CExecCmd _ cmd a =>                                        (* handler(params, msg_id) *)
          let s1 := log_builtin n k [ACall k; AId i] s in
          let (s2, x) := exec_cmd_body c n i cmd a s1 in
          if x then add_out (OError i code_internal) s2
          else chain c n k [ACall k; AId i] s2
      | _ =>                                                       (* _execute_request, inline *)
          let s1 := log_builtin n k [ACall k] s in
          match builtin_body c k s1 with
          | None => add_out (OError i code_internal) s1
          | Some s2 => add_out (OResult i (result_of k)) (chain c n k [ACall k] s2)
          end
      end
  end.

Definition handle_notification (c : cfg) (n : nat) (k : call) (s : st) : st :=
  match get_handler (bset c) (c_reg c) (meth_of k) with
  | HNotFound => s
  | HUser e => fst (exec_notification c (mkInv n (meth_of k) PUser e [ACall k]) s)
  | HBuiltin =>
      let s1 := log_builtin n k [ACall k] s in
      match builtin_body c k s1 with
      | None => s1                                                 (* reported to the error hook *)
      | Some s2 => chain c n k [ACall k] s2
      end
  end.

(* handle_message *)
Definition recv (c : cfg) (k : call) (s : st) : st :=
  let n := nmsg s in
  let s0 := set_nmsg (S n) s in
  if w_shut (ws s) then s0                                         (* "Server shutting down" *)
  else match req_id k with
       | Some i => handle_request c n i k s0
       | None => handle_notification c n k s0
       end.

(* ------------------------------------------------------------------ the other events *)
Definition task_step (c : cfg) (t : nat) (s : st) : st :=
  match nth_error (tasks s) t with
  | Some tk =>
      match t_st tk with
      | TNew true => set_task_st t (TDoneCb RCancelled) s          (* the coroutine never starts *)
      | TNew false => set_task_st t (TDoneCb (res_of c (i_entry (t_inv tk)))) (invoke OnLoop (t_inv tk) s)
      | _ => s
      end
  | None => s
  end.

Definition loop_cb (t : nat) (s : st) : st :=
  match nth_error (tasks s) t with
  | Some tk =>
      match t_st tk with
      | TDoneCb r => run_cb (t_cb tk) r (set_task_st t (TFin r) s)
      | _ => s
      end
  | None => s
  end.

Definition job_start (j : nat) (s : st) : st :=
  match nth_error (jobs s) j with
  | Some jb =>
      match j_st jb with
      | JQueued => set_job_st j JRunning (invoke OnPool (j_inv jb) s)
      | _ => s
      end
  | None => s
  end.

Definition job_finish (c : cfg) (j : nat) (s : st) : st :=
  match nth_error (jobs s) j with
  | Some jb =>
      match j_st jb with
      | JRunning =>
          let r := res_of c (i_entry (j_inv jb)) in
          run_cb (j_cb jb) r (set_job_st j (JDone r) s)
      | _ => s
      end
  | None => s
  end.

Inductive ev :=
| Recv (k : call)
| TaskStep (t : nat)
| LoopCb (t : nat)
| JobStart (j : nat)
| JobFinish (j : nat).

(* total: an event that is not enabled is a no-op, so every list of events is a schedule *)
Definition step (c : cfg) (s : st) (e : ev) : st :=
  match e with
  | Recv k => recv c k s
  | TaskStep t => task_step c t s
  | LoopCb t => loop_cb t s
  | JobStart j => job_start j s
  | JobFinish j => job_finish c j s
  end.

Definition run (c : cfg) (evs : list ev) : st := fold_left (step c) evs init.

(* every prefix: the observation after each event *)
Fixpoint trace (c : cfg) (s : st) (evs : list ev) : list st :=
  match evs with
  | [] => []
  | e :: r => let s' := step c s e in s' :: trace c s' r
  end.

Definition task_idle (tk : task) : bool := match t_st tk with TFin _ => true | _ => false end.
Definition job_idle (jb : job) : bool :=
  match j_st jb with JDone _ | JCancelled => true | _ => false end.
Definition quiescent (s : st) : bool := forallb task_idle (tasks s) && forallb job_idle (jobs s).

(* the registry of a case: the decorated definitions, applied in order to the empty registry *)
Definition registry_of (l : list attempt) : registry :=
  last_reg empty_registry (run_attempts empty_registry l).

(* ------------------------------------------------------------------ the server stops *)
(* JsonRPCServer.shutdown() - what every start_* runs in its `finally`, after `exit` or when the
   connection ends: `self._thread_pool.shutdown()` WAITS for the pool: every work item that was
   submitted is picked up by a worker and runs to its end (done-callback included) before the call
   returns; nothing is cancelled.  As seen from the model: the pool items that are still queued are
   started and finished, the running ones finished, in submission order. *)
Definition stop (c : cfg) (s : st) : st :=
  fold_left (fun s' j => job_finish c j (job_start j s')) (seq 0 (length (jobs s))) s.

Inductive evx :=
| Base (e : ev)
| Stop.

Definition stepx (c : cfg) (s : st) (e : evx) : st :=
  match e with
  | Base e => step c s e
  | Stop => stop c s
  end.

Definition runx (c : cfg) (evs : list evx) : st := fold_left (stepx c) evs init.
