(* Model/EndpointX.v - two more events on top of Model/Endpoint.v (whose event type is left as it is:
   other developments case-split on it).

     ServerCancel i   server-side cancellation of an in-flight request WITHOUT `$/cancelRequest`:
                      `self._request_futures[i].cancel()` with no pop - exactly what lsp_shutdown does
                      to every entry, applied to one (a handler or the server cancelling a task, a
                      future the handler awaits being cancelled)
     OutCancel o      the caller of send_request gives up: `future.cancel()` on the o-th future
                      send_request returned (also what asyncio.wait_for(send_request_async(..), t)
                      does at the concurrent.futures level when it times out); the table is not touched

   No proofs here. *)
From Coq Require Import ZArith NArith List Bool.
From Pygls Require Import Base.Assoc Model.Endpoint.
Import ListNotations.

Inductive evx :=
| Base (e : ev)
| ServerCancel (i : id)
| OutCancel (o : nat).

Definition server_cancel (c : cfg) (i : id) (s : st) : st :=
  match Assoc.get id_eqb i (futs s) with
  | Some r => cancel_ref c r s
  | None => s
  end.

Definition out_cancel (o : nat) (s : st) : st :=
  match nth_error (outg s) o with
  | Some OPending => set_outg_st o OCancelled s
  | _ => s
  end.

Definition stepx (c : cfg) (s : st) (e : evx) : st :=
  match e with
  | Base e => step c s e
  | ServerCancel i => match exit s with Some _ => s | None => server_cancel c i s end
  | OutCancel o => match exit s with Some _ => s | None => out_cancel o s end
  end.

Definition runx (c : cfg) (evs : list evx) : st := fold_left (stepx c) evs init.
