(* Model of pygls/workspace/workspace.py (class Workspace: __init__, add_folder, remove_folder,
   get_text_document, get_notebook_document, put/remove/update_text_document,
   put/remove/update_notebook_document) and of the built-in synchronisation handlers of
   pygls/protocol/language_server.py (lsp_text_document__did_open / did_change / did_close,
   lsp_notebook_document__did_open / did_change / did_close,
   lsp_workspace__did_change_workspace_folders; lsp_initialize's `Workspace(...)` is `init_ws`).
   Function for function, branch for branch, in the order of the statements of the code (the
   REPAIRED code: `if params.change.metadata is not None`).  Faithful, not idealised.  No proofs here.

   What is abstract:
   * URIs are numbers (the harness maps them to strings; no URI is the empty string, so
     `if notebook_uri:` in put_text_document is `notebook_uri is not None`).
   * languageId, notebookType, folder name, NotebookCellKind are numbers.
   * LSPObject metadata and ExecutionSummary are payload identifiers; `None` is the absent /
     null member.  Metadata payload 0 stands for the empty object `{}`, the only falsy one.
   * The text of one document is Model/Doc.v (`doc`, `open_doc`, `update_text_document`,
     `did_change`); this file only decides WHICH document receives WHICH change, in WHICH order.
   * A KeyError escaping a handler is caught by JsonRPCProtocol._handle_notification and reported
     to the server's error hook: `w_errs` counts these reports; the state keeps what the handler had
     done before the exception. *)
From Coq Require Export ZArith NArith List Bool.
From Pygls Require Export Base.PyStr Base.AssocWs Model.Codec Model.Doc.
Export ListNotations.
Open Scope N_scope.

(* ---- data carried by the notifications ---- *)

(* lsprotocol.types.NotebookCell *)
Record nbcell := mkCell {
  c_kind : N;                 (* NotebookCellKind *)
  c_doc : N;                  (* document: the cell's text document URI *)
  c_meta : option N;          (* metadata: Optional[LSPObject] *)
  c_exec : option N           (* execution_summary: Optional[ExecutionSummary] *)
}.

(* lsprotocol.types.NotebookDocument without its uri (the key it is stored under) *)
Record notebook := mkNb {
  n_version : Z;
  n_meta : option N;
  n_type : N;
  n_cells : list nbcell
}.

(* lsprotocol.types.TextDocumentItem: uri, languageId, version, text *)
Notation textitem := (N * N * Z * list N)%type (only parsing).

(* NotebookDocumentCellChangeStructure: array {start, deleteCount, cells or []},
   didOpen or [], didClose or [] (uris) *)
Record structure := mkStruct {
  st_start : N;
  st_delete : N;
  st_cells : list nbcell;
  st_open : list (N * N * Z * list N);
  st_close : list N
}.

(* NotebookDocumentCellChanges: structure, data or [], textContent or []
   (entry: document {uri, version}, changes) *)
Record cellchange := mkCC {
  cc_structure : option structure;
  cc_data : list nbcell;
  cc_text : list (N * Z * list change)
}.

Inductive op :=
| DidOpen (it : N * N * Z * list N)                                  (* textDocument/didOpen *)
| DidChange (u : N) (v : Z) (cs : list change)                       (* textDocument/didChange *)
| DidClose (u : N)                                                   (* textDocument/didClose *)
| NbOpen (n : N) (nb : notebook) (items : list (N * N * Z * list N)) (* notebookDocument/didOpen *)
| NbChange (n : N) (v : Z) (meta : option N) (cc : option cellchange) (* notebookDocument/didChange *)
| NbClose (n : N) (cs : list N)                                      (* notebookDocument/didClose *)
| Folders (added : list (N * N)) (removed : list N).                 (* workspace/didChangeWorkspaceFolders *)

(* ---- Workspace ---- *)

(* position encoding and sync kind the workspace was created with *)
Notation config := (encoding * sync_kind)%type (only parsing).

Record ws := mkWs {
  w_docs : list (N * (doc * N));      (* _text_documents: uri -> TextDocument (with its language_id) *)
  w_nbs : list (N * notebook);        (* _notebook_documents *)
  w_cells : list (N * N);             (* _cell_in_notebook: cell uri -> notebook uri *)
  w_folders : list (N * N);           (* _folders: uri -> WorkspaceFolder (its name) *)
  w_errs : N                          (* reports to the error hook so far *)
}.

Definition with_docs (s : ws) x := mkWs x (w_nbs s) (w_cells s) (w_folders s) (w_errs s).
Definition with_nbs (s : ws) x := mkWs (w_docs s) x (w_cells s) (w_folders s) (w_errs s).
Definition with_cells (s : ws) x := mkWs (w_docs s) (w_nbs s) x (w_folders s) (w_errs s).
Definition with_folders (s : ws) x := mkWs (w_docs s) (w_nbs s) (w_cells s) x (w_errs s).
Definition with_errs (s : ws) x := mkWs (w_docs s) (w_nbs s) (w_cells s) (w_folders s) x.

(* add_folder / remove_folder (pop, then `del` in a try: the second is a no-op) *)
Definition add_folder (s : ws) (f : N * N) : ws :=
  with_folders s (aset (fst f) (snd f) (w_folders s)).
Definition remove_folder (s : ws) (u : N) : ws :=
  with_folders s (adel u (w_folders s)).

(* Workspace.__init__: empty dictionaries, then add_folder for each initial folder *)
Definition init_ws (fs : list (N * N)) : ws :=
  fold_left add_folder fs (mkWs [] [] [] [] 0).

(* get_text_document: `self._text_documents.get(doc_uri) or self._create_text_document(doc_uri)`
   (a TextDocument is always truthy).  The fresh document has source None: it reads the file. *)
Inductive got := Open (d : doc) (lang : N) | Disk (u : N).
Definition get_text_document (s : ws) (u : N) : got :=
  match aget u (w_docs s) with
  | Some (d, l) => Open d l
  | None => Disk u
  end.

(* get_notebook_document(notebook_uri=..., cell_uri=...): notebook_uri takes precedence *)
Definition get_notebook_document (s : ws) (nu cu : option N) : option notebook :=
  match nu with
  | Some n => aget n (w_nbs s)
  | None =>
    match cu with
    | Some c =>
      match aget c (w_cells s) with
      | None => None
      | Some n => aget n (w_nbs s)
      end
    | None => None
    end
  end.

(* put_text_document(text_document, notebook_uri=None) *)
Definition put_text_document (cf : encoding * sync_kind) (s : ws) (it : N * N * Z * list N)
           (nb : option N) : ws :=
  let '(u, lang, v, text) := it in
  let s1 := with_docs s (aset u (open_doc (fst cf) (snd cf) text v, lang) (w_docs s)) in
  match nb with
  | Some n => with_cells s1 (aset u n (w_cells s1))
  | None => s1
  end.

(* remove_text_document: both pops *)
Definition remove_text_document (s : ws) (u : N) : ws :=
  with_cells (with_docs s (adel u (w_docs s))) (adel u (w_cells s)).

(* put_notebook_document: store (a deep copy of) the notebook, then put every cell document *)
Definition put_notebook_document (cf : encoding * sync_kind) (s : ws) (n : N) (nb : notebook)
           (items : list (N * N * Z * list N)) : ws :=
  fold_left (fun s it => put_text_document cf s it (Some n)) items
            (with_nbs s (aset n nb (w_nbs s))).

(* remove_notebook_document *)
Definition remove_notebook_document (s : ws) (n : N) (cs : list N) : ws :=
  fold_left remove_text_document cs (with_nbs s (adel n (w_nbs s))).

(* update_text_document(text_doc, change): `self._text_documents[doc_uri]` raises KeyError (None) *)
Definition ws_update_text_document (s : ws) (u : N) (v : Z) (c : change) : option ws :=
  match aget u (w_docs s) with
  | None => None
  | Some (d, l) => Some (with_docs s (aset u (update_text_document d v c, l) (w_docs s)))
  end.

(* `for change in changes: self.update_text_document(document, change)`; true = raised *)
Fixpoint update_all (s : ws) (u : N) (v : Z) (cs : list change) : ws * bool :=
  match cs with
  | [] => (s, false)
  | c :: r =>
    match ws_update_text_document s u v c with
    | None => (s, true)
    | Some s' => update_all s' u v r
    end
  end.

(* `for text in cell_changes.text_content or []: for change in text.changes: ...` *)
Fixpoint text_content (s : ws) (es : list (N * Z * list change)) : ws * bool :=
  match es with
  | [] => (s, false)
  | (u, v, cs) :: r =>
    let '(s', e) := update_all s u v cs in
    if e then (s', true) else text_content s' r
  end.

(* nb_cells = {cell.document: cell for cell in notebook.cells}; nb_cells.get(new_data.document):
   the LAST cell with that document; kind, metadata, execution_summary are overwritten *)
Definition set_cell_data (c d : nbcell) : nbcell :=
  mkCell (c_kind d) (c_doc c) (c_meta d) (c_exec d).
Fixpoint upd_last_cell (d : nbcell) (cells : list nbcell) : option (list nbcell) :=
  match cells with
  | [] => None
  | c :: r =>
    match upd_last_cell d r with
    | Some r' => Some (c :: r')
    | None => if c_doc c =? c_doc d then Some (set_cell_data c d :: r) else None
    end
  end.
Definition apply_cell_data (cells : list nbcell) (d : nbcell) : list nbcell :=
  match upd_last_cell d cells with
  | Some cells' => cells'
  | None => cells                       (* "Ignoring metadata for ...: not in notebook", continue *)
  end.

(* [*cells[:start], *new_cells, *cells[start + delete_count:]] *)
Definition splice_cells (cells : list nbcell) (st : structure) : list nbcell :=
  take (st_start st) cells ++ st_cells st ++ drop (st_start st + st_delete st) cells.

(* update_notebook_document; true = raised *)
Definition update_notebook_document (cf : encoding * sync_kind) (s : ws) (n : N) (v : Z)
           (meta : option N) (cc : option cellchange) : ws * bool :=
  match aget n (w_nbs s) with
  | None => (s, true)                                     (* self._notebook_documents[uri] *)
  | Some nb =>
    let nb1 := mkNb v                                     (* notebook.version = ... *)
                    (match meta with                      (* if params.change.metadata is not None *)
                     | Some m => Some m
                     | None => n_meta nb
                     end)
                    (n_type nb) (n_cells nb) in
    match cc with
    | None => (with_nbs s (aset n nb1 (w_nbs s)), false)  (* if cell_changes is None: return *)
    | Some cc =>
      (* cell data, on the cells as they are before the splice *)
      let cells1 := fold_left apply_cell_data (cc_data cc) (n_cells nb1) in
      match cc_structure cc with
      | None =>
        let s1 := with_nbs s (aset n (mkNb (n_version nb1) (n_meta nb1) (n_type nb1) cells1) (w_nbs s)) in
        text_content s1 (cc_text cc)
      | Some st =>
        let cells2 := splice_cells cells1 st in
        let s1 := with_nbs s (aset n (mkNb (n_version nb1) (n_meta nb1) (n_type nb1) cells2) (w_nbs s)) in
        let s2 := fold_left (fun s it => put_text_document cf s it (Some n)) (st_open st) s1 in
        let s3 := fold_left remove_text_document (st_close st) s2 in
        text_content s3 (cc_text cc)
      end
    end
  end.

(* ---- the built-in handlers ---- *)

(* lsp_text_document__did_change.  For an open document this is Doc.did_change on the document
   the uri selects (the loop over update_text_document, and the version of an empty notification
   through get_text_document).  For a uri that is not open the first update_text_document raises;
   with no changes get_text_document returns a fresh unmanaged document: nothing is stored. *)
Definition lsp_did_change (s : ws) (u : N) (v : Z) (cs : list change) : ws * bool :=
  match get_text_document s u with
  | Open d l => (with_docs s (aset u (did_change d (v, cs), l) (w_docs s)), false)
  | Disk _ =>
    match cs with
    | [] => (s, false)
    | _ :: _ => (s, true)
    end
  end.

(* itertools.zip_longest *)
Fixpoint zip_longest {A B} (a : list A) (b : list B) : list (option A * option B) :=
  match a with
  | [] => map (fun y => (None, Some y)) b
  | x :: a' =>
    match b with
    | [] => (Some x, None) :: zip_longest a' []
    | y :: b' => (Some x, Some y) :: zip_longest a' b'
    end
  end.

(* lsp_workspace__did_change_workspace_folders *)
Definition lsp_did_change_workspace_folders (s : ws) (added : list (N * N)) (removed : list N) : ws :=
  fold_left (fun s p =>
               let s1 := match fst p with Some f => add_folder s f | None => s end in
               match snd p with Some u => remove_folder s1 u | None => s1 end)
            (zip_longest added removed) s.

(* one notification: the handler, and the report if it raised *)
Definition handle (r : ws * bool) : ws :=
  if snd r then with_errs (fst r) (w_errs (fst r) + 1) else fst r.

Definition impl_step (cf : encoding * sync_kind) (s : ws) (o : op) : ws :=
  match o with
  | DidOpen it => put_text_document cf s it None
  | DidChange u v cs => handle (lsp_did_change s u v cs)
  | DidClose u => remove_text_document s u
  | NbOpen n nb items => put_notebook_document cf s n nb items
  | NbChange n v meta cc => handle (update_notebook_document cf s n v meta cc)
  | NbClose n cs => remove_notebook_document s n cs
  | Folders added removed => lsp_did_change_workspace_folders s added removed
  end.

Definition run_ws (cf : encoding * sync_kind) (fs : list (N * N)) (h : list op) : ws :=
  fold_left (impl_step cf) h (init_ws fs).
