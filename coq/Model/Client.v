(* Model of pygls/client.py (JsonRPCClient over stdio: start_io task set-up, _server_exit,
   server_exit hook, stop, _stop_event, _async_tasks, which error handler is handed to
   run_async) together with what the client's reader task (pygls/io_.py run_async on an
   asyncio StreamReader) does with the bytes the server wrote before it died.

   State machine: [init], total [step : config -> state -> event -> state]; an event that is not
   enabled is a no-op, so every event list is a schedule.  One event is one run of a task between
   two suspension points (asyncio runs one task at a time): the caller's code (Send, UserCancel,
   Stop), the reader task (ReaderRun: it consumes everything already written, then blocks or
   ends), the exit watcher (ServerExitTask: from the return of `await self._server.wait()` to the
   end of `_server_exit`), plus what the outside world does (SrvWrite, ProcExit).

   The model is parameterised by the two repairs that touch the anchored code, so that the
   pinned behaviour stays expressible (refutation witnesses in Props/C17.v):
     fix_eof  : io_.py run_async catches IncompleteReadError / ConnectionError -> break  (row 9)
     fix_wrap : start_io hands `self._report_server_error` (try/except around the user hook)
                to run_async instead of the bare user hook `self.report_server_error`    (row 6)
     fix_task : _server_exit cancels the asyncio Task of a coroutine handler it finds in
                _request_futures instead of calling set_exception on it   (notes/fix_C17_2.patch)
   NO proofs in this file. *)
From Coq Require Import NArith ZArith List Bool.
Import ListNotations.
Open Scope N_scope.

Notation id := N (only parsing).

(* ---- configuration: the code variant and what the two user hooks do ---- *)
Inductive hook_kind :=
| HookOk          (* returns without suspending *)
| HookRaises      (* raises an Exception *)
| HookSlow        (* suspends on something unrelated (a sleep), then returns *)
| HookAwaits.     (* waits until every request it knows of has settled, then returns *)

Record config := {
  fix_eof : bool;
  fix_wrap : bool;
  fix_task : bool;         (* _server_exit cancels handler tasks instead of calling set_exception on them *)
  hook : hook_kind;        (* what the server_exit override does *)
  errhook_raises : bool    (* the report_server_error override raises an Exception *)
}.

(* ---- data ---- *)
Inductive res := RResult (v : N) | RError (code : Z).          (* payload of a reply frame *)

Inductive fstate :=                                            (* a future handed to the caller *)
| Pending
| Resolved (v : N)                                             (* set_result *)
| FailedRpc (code : Z)                                         (* set_exception(JsonRpcException) *)
| FailedExit (rc : Z)                                          (* set_exception(RuntimeError(reason)) *)
| Cancelled.                                                   (* the caller cancelled it *)

Inductive exn := ExIncompleteRead | ExErrHook | ExTaskSetException.
Inductive rstatus := RNotStarted | RBlocked | REnded | RRaised (e : exn).   (* the reader task *)
Inductive pstatus := Alive | Exited (rc : Z).                               (* the server process *)
Inductive xstatus :=                                                        (* the _server_exit task *)
| XWaiting                                   (* in `await self._server.wait()` *)
| XInHook (rc : Z) (awaited : list id)       (* suspended inside `await self.server_exit(...)` *)
| XDone
| XRaised (e : exn).                        (* the coroutine died with an exception *)

(* protocol._request_futures holds two kinds of entries (one dict, insertion ordered):
   the future of a request this side sent, and the asyncio Task of a coroutine handler that is
   serving a request the server sent *)
Inductive entry := Own (i : id) | HTask (j : id).

(* the handler task of a server-initiated request *)
Inductive hstate :=
| HSuspended          (* created / awaiting something *)
| HCancelRequested    (* Task.cancel() was called, the task has not run since *)
| HFinished           (* returned; _execute_request_callback answered and removed the entry *)
| HCancelled.         (* cancelled; the callback answered with an error and removed the entry *)

(* what the server wrote and the reader has not consumed yet: complete items only *)
Inductive item :=
| Reply (i : id) (r : res)     (* a complete, well-formed response frame *)
| BadReply (i : id)            (* a complete frame that names request i but cannot be decoded or is
                                  not accepted as a response: error member of the wrong shape, result
                                  failing validation, other protocol version *)
| Request (j : id)             (* a complete request frame for a method with a coroutine handler *)
| BadFrame                     (* a complete frame whose body cannot be handled (not JSON) *)
| Junk.                        (* a complete line that is not a header *)

(* how the byte stream ends when the process dies: what follows the last complete item *)
Inductive tail :=
| TClean                       (* nothing *)
| TPartHeader                  (* a cut header section: no blank line was written *)
| TPartBody                    (* headers and blank line complete, body shorter than Content-Length *)
| TJunk.                       (* an unterminated or terminated non-header line *)

Inductive stop_result := StopReturns | StopRaises (e : exn) | StopBlocked.

Inductive event :=
| Send                         (* protocol.send_request(_async): a new outstanding request *)
| UserCancel (i : id)          (* the caller cancels the future of request i *)
| SrvWrite (it : item)         (* the (live) server writes a complete item *)
| ProcExit (rc : Z) (t : tail) (* the process terminates; the stream ends with t *)
| ReaderRun                    (* the reader task runs until it blocks or ends *)
| ServerExitTask               (* the _server_exit coroutine runs until it suspends or finishes *)
| HandlerStep (j : id)         (* the handler task of server request j gets a turn: it takes a requested
                                  cancellation, otherwise it keeps waiting *)
| HandlerReturn (j : id)       (* what that handler waits for happens: it returns *)
| Stop.                        (* the caller calls stop() *)

Record state := {
  futs : list (id * fstate);   (* every future handed out, in creation order *)
  rf : list entry;             (* protocol._request_futures, insertion order *)
  htasks : list (id * hstate); (* the handler tasks ever created, by server request id *)
  next : id;                   (* fresh id supply (uuid4 in the code) *)
  out : list id;               (* requests handed to writer.write, in order *)
  pipe : list item;            (* written by the server, not yet consumed by the reader *)
  proc : pstatus;
  tl : tail;                   (* meaningful once proc is Exited *)
  reader : rstatus;            (* _async_tasks[0] *)
  xtask : xstatus;             (* _async_tasks[1] *)
  stopped : bool;              (* _stop_event *)
  hook_calls : list (Z * bool); (* calls of server_exit: the returncode it saw, and whether every
                                  request it could know of was already done when it started *)
  errs : N;                    (* calls of report_server_error *)
  stop_called : bool
}.

(* start_io: both tasks created, nothing has run yet *)
Definition init : state := {|
  futs := []; rf := []; htasks := []; next := 0; out := []; pipe := []; proc := Alive; tl := TClean;
  reader := RNotStarted; xtask := XWaiting; stopped := false; hook_calls := []; errs := 0;
  stop_called := false |}.

(* ---- association-list helpers (insertion ordered, keys N) ---- *)
Fixpoint aget (l : list (id * fstate)) (i : id) : option fstate :=
  match l with
  | [] => None
  | (k, v) :: r => if k =? i then Some v else aget r i
  end.

Fixpoint aset (l : list (id * fstate)) (i : id) (v : fstate) : list (id * fstate) :=
  match l with
  | [] => []
  | (k, w) :: r => if k =? i then (k, v) :: r else (k, w) :: aset r i v
  end.

Fixpoint mem (i : id) (l : list id) : bool :=
  match l with [] => false | k :: r => (k =? i) || mem i r end.

Fixpoint remove (i : id) (l : list id) : list id :=
  match l with [] => [] | k :: r => if k =? i then r else k :: remove i r end.

(* the table: membership / removal of this side's request i, removal of handler task j *)
Definition is_own (i : id) (e : entry) : bool := match e with Own k => k =? i | HTask _ => false end.
Definition is_task (j : id) (e : entry) : bool := match e with HTask k => k =? j | Own _ => false end.
Fixpoint memo (i : id) (es : list entry) : bool :=
  match es with [] => false | e :: r => is_own i e || memo i r end.
Fixpoint remove_own (i : id) (es : list entry) : list entry :=
  match es with [] => [] | e :: r => if is_own i e then r else e :: remove_own i r end.
Fixpoint remove_task (j : id) (es : list entry) : list entry :=
  match es with [] => [] | e :: r => if is_task j e then r else e :: remove_task j r end.

Fixpoint hget (l : list (id * hstate)) (j : id) : option hstate :=
  match l with
  | [] => None
  | (k, v) :: r => if k =? j then Some v else hget r j
  end.
Fixpoint hset (l : list (id * hstate)) (j : id) (v : hstate) : list (id * hstate) :=
  match l with
  | [] => []
  | (k, w) :: r => if k =? j then (k, v) :: r else (k, w) :: hset r j v
  end.
Definition h_done (h : hstate) : bool :=
  match h with HFinished | HCancelled => true | _ => false end.

Definition is_done (f : fstate) : bool := match f with Pending => false | _ => true end.

(* ---- field updates ---- *)
Definition set_futs (s : state) f := {|
  futs := f; rf := rf s; htasks := htasks s; next := next s; out := out s; pipe := pipe s; proc := proc s; tl := tl s;
  reader := reader s; xtask := xtask s; stopped := stopped s; hook_calls := hook_calls s;
  errs := errs s; stop_called := stop_called s |}.
Definition set_rf (s : state) r := {|
  futs := futs s; rf := r; htasks := htasks s; next := next s; out := out s; pipe := pipe s; proc := proc s; tl := tl s;
  reader := reader s; xtask := xtask s; stopped := stopped s; hook_calls := hook_calls s;
  errs := errs s; stop_called := stop_called s |}.
Definition set_pipe (s : state) p := {|
  futs := futs s; rf := rf s; htasks := htasks s; next := next s; out := out s; pipe := p; proc := proc s; tl := tl s;
  reader := reader s; xtask := xtask s; stopped := stopped s; hook_calls := hook_calls s;
  errs := errs s; stop_called := stop_called s |}.
Definition set_reader (s : state) r := {|
  futs := futs s; rf := rf s; htasks := htasks s; next := next s; out := out s; pipe := pipe s; proc := proc s; tl := tl s;
  reader := r; xtask := xtask s; stopped := stopped s; hook_calls := hook_calls s;
  errs := errs s; stop_called := stop_called s |}.
Definition set_stopped (s : state) b := {|
  futs := futs s; rf := rf s; htasks := htasks s; next := next s; out := out s; pipe := pipe s; proc := proc s; tl := tl s;
  reader := reader s; xtask := xtask s; stopped := b; hook_calls := hook_calls s;
  errs := errs s; stop_called := stop_called s |}.
Definition set_errs (s : state) n := {|
  futs := futs s; rf := rf s; htasks := htasks s; next := next s; out := out s; pipe := pipe s; proc := proc s; tl := tl s;
  reader := reader s; xtask := xtask s; stopped := stopped s; hook_calls := hook_calls s;
  errs := n; stop_called := stop_called s |}.

(* ---- the caller ---- *)

(* send_request: future created, entered in _request_futures, request written.  The write never
   raises towards the caller (_send_data catches everything), dead server or not. *)
Definition do_send (s : state) : state := {|
  futs := futs s ++ [(next s, Pending)]; rf := rf s ++ [Own (next s)]; htasks := htasks s;
  next := next s + 1;
  out := out s ++ [next s]; pipe := pipe s; proc := proc s; tl := tl s; reader := reader s;
  xtask := xtask s; stopped := stopped s; hook_calls := hook_calls s; errs := errs s;
  stop_called := stop_called s |}.

(* Future.cancel(): succeeds only on a pending future; the entry stays in _request_futures *)
Definition do_cancel (s : state) (i : id) : state :=
  match aget (futs s) i with
  | Some Pending => set_futs s (aset (futs s) i Cancelled)
  | _ => s
  end.

(* ---- the reader task: run_async ---- *)

(* error_handler(exc, JsonRpcException) inside run_async's `except Exception`:
   the hook is called; when it raises, the wrapped variant swallows the exception, the bare
   variant lets it escape from the except clause and the task dies with it. *)
Definition call_error_handler (c : config) (s : state) : state :=
  let s1 := set_errs s (errs s + 1) in
  if errhook_raises c then
    if fix_wrap c then s1 else set_reader s1 (RRaised ExErrHook)
  else s1.

(* _handle_response: pop; unknown id -> reported; set_result / set_exception on a future that is
   already done raises InvalidStateError, which run_async reports like any handling error *)
Definition handle_reply (c : config) (s : state) (i : id) (r : res) : state :=
  if memo i (rf s) then
    let s1 := set_rf s (remove_own i (rf s)) in
    match aget (futs s1) i with
    | Some Pending =>
      set_futs s1 (aset (futs s1) i (match r with RResult v => Resolved v | RError code => FailedRpc code end))
    | _ => call_error_handler c s1
    end
  else call_error_handler c s.

(* _handle_request -> _execute_request with a coroutine handler:
   future = asyncio.ensure_future(handler(params)); self._request_futures[msg_id] = future.
   (Server request ids are assumed distinct from each other and from this side's ids; a repeated
   id is ignored here.) *)
Definition set_htasks (s : state) h := {|
  futs := futs s; rf := rf s; htasks := h; next := next s; out := out s; pipe := pipe s; proc := proc s;
  tl := tl s; reader := reader s; xtask := xtask s; stopped := stopped s; hook_calls := hook_calls s;
  errs := errs s; stop_called := stop_called s |}.

Definition handle_request (s : state) (j : id) : state :=
  match hget (htasks s) j with
  | None => set_htasks (set_rf s (rf s ++ [HTask j])) (htasks s ++ [(j, HSuspended)])
  | Some _ => s
  end.

(* the handler task gets a turn.  With a cancellation requested it takes the CancelledError and
   the done-callback _execute_request_callback answers (with an error) and pops the table entry;
   otherwise it is still waiting *)
Definition handler_step (s : state) (j : id) : state :=
  match hget (htasks s) j with
  | Some HCancelRequested => set_htasks (set_rf s (remove_task j (rf s))) (hset (htasks s) j HCancelled)
  | _ => s
  end.

(* the handler returns: the done-callback answers and pops the table entry *)
Definition handler_return (s : state) (j : id) : state :=
  match hget (htasks s) j with
  | Some HSuspended => set_htasks (set_rf s (remove_task j (rf s))) (hset (htasks s) j HFinished)
  | _ => s
  end.

Definition handle_item (c : config) (s : state) (it : item) : state :=
  match it with
  | Reply i r => handle_reply c s i r
  | BadReply _ => call_error_handler c s    (* structure_message / handle_message give up: the
                                               request stays outstanding, its future pending *)
  | Request j => handle_request s j
  | BadFrame => call_error_handler c s      (* json.loads raises inside the try *)
  | Junk => s                               (* no Content-Length match, not blank: next line *)
  end.

(* readline / readexactly hit the end of the stream *)
Definition at_eof (c : config) (s : state) : state :=
  match tl s with
  | TClean => set_reader s REnded           (* readline returns b'' -> break *)
  | TPartHeader => set_reader s REnded      (* the cut line is returned, then b'' -> break *)
  | TJunk => set_reader s REnded
  | TPartBody =>                            (* readexactly raises IncompleteReadError *)
    if fix_eof c then set_reader s REnded else set_reader s (RRaised ExIncompleteRead)
  end.

(* the while loop over what is buffered; `s` has the items in `p` removed from its pipe *)
Fixpoint consume (c : config) (p : list item) (s : state) : state :=
  if stopped s then set_pipe (set_reader s REnded) p          (* while not stop_event.is_set() *)
  else
    match p with
    | [] => match proc s with
            | Alive => set_reader s RBlocked                   (* await readline(): suspended *)
            | Exited _ => at_eof c s
            end
    | it :: p' =>
      let s1 := handle_item c s it in
      match reader s1 with
      | RRaised _ => set_pipe s1 p'
      | _ => consume c p' s1
      end
    end.

Definition reader_run (c : config) (s : state) : state :=
  match reader s with
  | REnded | RRaised _ => s
  | RNotStarted => consume c (pipe s) (set_pipe s [])
  | RBlocked =>
    if stopped s then
      (* suspended inside readline: it returns one line (or b'' at end of stream), the line is
         looked at, then the loop condition is false.  Frames are assumed to become available
         whole, so the reader is suspended at the first line of an item. *)
      match pipe s, proc s with
      | [], Alive => s
      | _, _ => set_reader s REnded
      end
    else consume c (pipe s) (set_pipe s [])
  end.

(* ---- the exit watcher: _server_exit ---- *)

(* for id_, fut in _request_futures.items():
       if not fut.done(): <fail it>
   Own request: fut.set_exception(RuntimeError(reason)).
   Handler task: in the unrepaired code the same call - asyncio.Task.set_exception raises
   RuntimeError("Task does not support set_exception operation") and the loop (and the coroutine)
   ends there; in the repaired code fut.cancel().  Result: futures, handler tasks, raised? *)
Fixpoint fail_loop (c : config) (rc : Z) (es : list entry)
         (f : list (id * fstate)) (h : list (id * hstate))
  : list (id * fstate) * list (id * hstate) * bool :=
  match es with
  | [] => (f, h, false)
  | Own i :: r =>
    match aget f i with
    | Some Pending => fail_loop c rc r (aset f i (FailedExit rc)) h
    | _ => fail_loop c rc r f h
    end
  | HTask j :: r =>
    match hget h j with
    | Some st =>
      if h_done st then fail_loop c rc r f h
      else if fix_task c then fail_loop c rc r f (hset h j HCancelRequested)
           else (f, h, true)
    | None => fail_loop c rc r f h
    end
  end.

Definition all_done (f : list (id * fstate)) (ids : list id) : bool :=
  forallb (fun i => match aget f i with Some st => is_done st | None => false end) ids.

Definition set_hook_calls (s : state) h := {|
  futs := futs s; rf := rf s; htasks := htasks s; next := next s; out := out s; pipe := pipe s; proc := proc s; tl := tl s;
  reader := reader s; xtask := xtask s; stopped := stopped s; hook_calls := h;
  errs := errs s; stop_called := stop_called s |}.
Definition set_xtask (s : state) x := {|
  futs := futs s; rf := rf s; htasks := htasks s; next := next s; out := out s; pipe := pipe s; proc := proc s; tl := tl s;
  reader := reader s; xtask := x; stopped := stopped s; hook_calls := hook_calls s;
  errs := errs s; stop_called := stop_called s |}.

(* after the hook (returned, or raised an Exception that the try/except logs):
   self._stop_event.set(); the coroutine ends *)
Definition finish_exit (s : state) : state := set_xtask (set_stopped s true) XDone.

(* One run of the exit watcher.  From the return of wait(): fail the not-done futures, enter the
   hook.  A hook that does not suspend returns or raises at once; a hook that suspends leaves the
   task inside it (XInHook with the requests the hook knew of), and a later run finishes it when
   what it waits for has happened. *)
Definition server_exit_task (c : config) (s : state) : state :=
  match xtask s with
  | XWaiting =>
    match proc s with
    | Exited rc =>
      let '(f1, h1, raised) := fail_loop c rc (rf s) (futs s) (htasks s) in
      let s1 := set_htasks (set_futs s f1) h1 in
      if raised then set_xtask s1 (XRaised ExTaskSetException) else
      let ids := map fst (futs s1) in
      let s2 := set_hook_calls s1 (hook_calls s1 ++ [(rc, all_done (futs s1) ids)]) in
      match hook c with
      | HookOk => finish_exit s2
      | HookRaises => finish_exit s2           (* except Exception: logged *)
      | HookSlow => set_xtask s2 (XInHook rc ids)
      | HookAwaits => match ids with
                      | [] => finish_exit s2   (* nothing to wait for: does not suspend *)
                      | _ => set_xtask s2 (XInHook rc ids)
                      end
      end
    | Alive => s
    end
  | XInHook rc ids =>
    match hook c with
    | HookAwaits => if all_done (futs s) ids then finish_exit s else s
    | _ => finish_exit s
    end
  | XDone => s
  | XRaised _ => s
  end.

(* ---- stop() ---- *)
Definition do_stop (s : state) : state := {|
  futs := futs s; rf := rf s; htasks := htasks s; next := next s; out := out s; pipe := pipe s; proc := proc s; tl := tl s;
  reader := reader s; xtask := xtask s; stopped := true; hook_calls := hook_calls s;
  errs := errs s; stop_called := true |}.

(* What `await client.stop()` does in state s: waits for the process, then
   `await asyncio.gather` of the two tasks, which re-raises the first exception of a task. *)
Definition stop_outcome (s : state) : stop_result :=
  match proc s with
  | Alive => StopBlocked
  | Exited _ =>
    match reader s, xtask s with
    | RRaised e, _ => StopRaises e
    | _, XRaised e => StopRaises e
    | REnded, XDone => StopReturns
    | _, _ => StopBlocked
    end
  end.

(* ---- the outside world ---- *)
Definition srv_write (s : state) (it : item) : state :=
  match proc s with
  | Alive => set_pipe s (pipe s ++ [it])
  | Exited _ => s
  end.

Definition proc_exit (s : state) (rc : Z) (t : tail) : state :=
  match proc s with
  | Alive => {|
      futs := futs s; rf := rf s; htasks := htasks s; next := next s; out := out s; pipe := pipe s; proc := Exited rc;
      tl := t; reader := reader s; xtask := xtask s; stopped := stopped s;
      hook_calls := hook_calls s; errs := errs s; stop_called := stop_called s |}
  | Exited _ => s
  end.

Definition step (c : config) (s : state) (e : event) : state :=
  match e with
  | Send => do_send s
  | UserCancel i => do_cancel s i
  | SrvWrite it => srv_write s it
  | ProcExit rc t => proc_exit s rc t
  | ReaderRun => reader_run c s
  | ServerExitTask => server_exit_task c s
  | HandlerStep j => handler_step s j
  | HandlerReturn j => handler_return s j
  | Stop => do_stop s
  end.

Definition run_from (c : config) (s : state) (evs : list event) : state := fold_left (step c) evs s.
Definition run (c : config) (evs : list event) : state := run_from c init evs.

(* ---- what a caller can observe ---- *)
Record obs := {
  o_futs : list (id * fstate); (* the futures, by request id, in creation order *)
  o_hooks : list (Z * bool);
  o_stopped : bool;
  o_stop : stop_result;        (* the outcome of `await client.stop()` called now *)
  o_errs : N;
  o_htasks : list (id * hstate)
}.

Definition observe (s : state) : obs := {|
  o_futs := futs s; o_hooks := hook_calls s; o_stopped := stopped s;
  o_stop := stop_outcome s; o_errs := errs s; o_htasks := htasks s |}.

(* the target state of the repository / the pinned commit *)
Definition repaired (h : hook_kind) (e : bool) : config :=
  {| fix_eof := true; fix_wrap := true; fix_task := true; hook := h; errhook_raises := e |}.
Definition pinned (h : hook_kind) (e : bool) : config :=
  {| fix_eof := false; fix_wrap := false; fix_task := false; hook := h; errhook_raises := e |}.
