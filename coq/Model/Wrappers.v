(* Control skeletons around the read loops (pygls/server.py, pygls/client.py) and of
   JsonRPCProtocol._send_data, after the REPAIRED code:
     _start_io_async : try: asyncio.run(run_async(..)) except BrokenPipeError: log
                       except KeyboardInterrupt: pass  finally: self.shutdown()
     _start_io_sync  : the same around run(..)   (called directly, not through asyncio.run)
     lsp_connection  : try: await run_async(..) finally: writer.close(); self.shutdown()
     client task     : asyncio.create_task(run_async(..)); stop() sets the stop event and gathers it
     shutdown()      : stop event set, thread pool shut down, asyncio server closed
   A wrapper is a function of how the call of the loop ended.  The *Pinned constructors are the
   code before the repairs (rows 20 and fix_C15_4) and only serve the refutation Examples.
   No proofs in this file. *)
From Pygls Require Export Model.Framing.

(* how the call of the loop ends, as the wrapper sees it: the loop's own terminations plus what
   can come through it from a handler or the interpreter *)
Inductive lexn :=
| XLoop (e : exn)          (* ValueError (line limit, int digits), ConnectionResetError *)
| XBrokenPipe              (* BrokenPipeError *)
| XKeyboardInterrupt
| XSystemExit              (* the exit handler; target state: no longer swallowed by start_io *)
| XNotCoroutine.           (* ValueError("a coroutine was expected, got None") of asyncio.run(None) *)
Inductive lterm := LNormal | LRaised (x : lexn).

Definition of_term (t : term) : lterm :=
  match t with EndedNormally => LNormal | Raised e => LRaised (XLoop e) end.

(* the resources shutdown() releases, and the connection's StreamWriter *)
(* jobs_done: the @thread handlers that were queued or running in the pool when the loop ended have
   run to completion (every complete frame received before the cut is handled, also by a threaded
   handler that had not started yet) *)
Record sstate := mk_s { stop_set : bool; pool_down : bool; srv_closed : bool; wr_closed : bool;
                        jobs_done : bool }.
Definition fresh : sstate := mk_s false false false false false.

(* JsonRPCServer.shutdown: self._thread_pool.shutdown() is ThreadPoolExecutor.shutdown(wait=True,
   cancel_futures=False): it WAITS for the pool, and work items still queued are run, not cancelled *)
Definition shutdown (s : sstate) : sstate := mk_s true true true (wr_closed s) true.
Definition close_writer (s : sstate) : sstate :=
  mk_s (stop_set s) (pool_down s) (srv_closed s) true (jobs_done s).
Definition released (s : sstate) : bool := stop_set s && pool_down s && srv_closed s && jobs_done s.

Inductive wrapper :=
| StartIoAsync | StartIoSync | TcpCallback | ClientTask
| TcpCallbackPinned | StartIoSyncPinned.

Inductive ret := Returns | Propagates (x : lexn).

(* the except clauses of _start_io_* *)
Definition start_io_except (l : lterm) : ret :=
  match l with
  | LNormal => Returns
  | LRaised XBrokenPipe => Returns            (* except BrokenPipeError: logger.error(...) *)
  | LRaised XKeyboardInterrupt => Returns     (* except KeyboardInterrupt: pass *)
  | LRaised x => Propagates x
  end.

Definition propagate (l : lterm) : ret :=
  match l with LNormal => Returns | LRaised x => Propagates x end.

(* MODELLING ASSUMPTION (checked by the tie, harness/c15.py check_restart): every run of a wrapper
   starts from `fresh` - in particular start_io / start_tcp install a NEW, unset stop event
   (`self._stop_event = Event()`), so that starting the same server object again after a disconnect
   serves the next peer exactly like the first; the loop model accordingly never finds the stop
   event set on entry. *)
Definition wrapper_run (w : wrapper) (l : lterm) : sstate * ret :=
  match w with
  | StartIoAsync | StartIoSync =>
    (shutdown fresh, start_io_except l)                    (* finally: self.shutdown() *)
  | TcpCallback =>
    (shutdown (close_writer fresh), propagate l)           (* finally: writer.close(); self.shutdown() *)
  | ClientTask =>
    (* stop(): self._stop_event.set(); awaiting the gathered tasks re-raises the task's exception;
       the client owns no pool / asyncio server: those are vacuously released *)
    (mk_s true true true false true, propagate l)
  | TcpCallbackPinned =>
    (* await run_async(..); self.shutdown()   -- no finally, writer never closed *)
    (match l with LNormal => shutdown fresh | LRaised _ => fresh end, propagate l)
  | StartIoSyncPinned =>
    (* asyncio.run(run(..)): run() returns None, asyncio.run(None) raises ValueError *)
    (shutdown fresh, start_io_except (match l with LNormal => LRaised XNotCoroutine | _ => l end))
  end.

(* asyncio.Server.wait_closed() (Python 3.12) waits for every connection's writer to be closed:
   start_tcp returns only if the callback released the server AND closed its writer *)
Definition start_tcp_returns (s : sstate) : bool := released s && wr_closed s.

(* the loop followed by its wrapper *)
Definition serve (w : wrapper) (k : kind) (e : ending) (stream : list N)
  : option (list ev * (sstate * ret)) :=
  match loop_whole k e stream with
  | (evs, Done t) => Some (evs, wrapper_run w (of_term t))
  | _ => None
  end.

(* ---- JsonRPCProtocol._send_data ----
   body = json.dumps(data, default=...)   except Exception -> _report_server_error; return False
   writer.write(header + body)            except Exception -> _report_server_error
   _report_server_error = try: self.report_server_error(..) except Exception: log   (the guard)
   The three external calls are oracles that return or raise; an Exception is caught by
   `except Exception`, a BaseException that is not an Exception (KeyboardInterrupt, SystemExit) is not. *)
Inductive oracle := OOk | ORaisesException | ORaisesBase.
Inductive sd_ret := SDNone | SDFalse | SDRaises.      (* returns None / returns False / an exception escapes *)
Inductive sd_ev := EvWrite | EvHook.                  (* write attempted / error hook called *)

(* _report_server_error(error, source) *)
Definition report_guarded (hook : oracle) : list sd_ev * bool (* true = returned *) :=
  match hook with
  | OOk | ORaisesException => ([EvHook], true)          (* except Exception: logger.warning(..) *)
  | ORaisesBase => ([EvHook], false)
  end.

Definition send_data (dumps write hook : oracle) : list sd_ev * sd_ret :=
  match dumps with
  | ORaisesBase => ([], SDRaises)
  | ORaisesException =>
    let (evs, ok) := report_guarded hook in (evs, if ok then SDFalse else SDRaises)
  | OOk =>
    match write with
    | OOk => ([EvWrite], SDNone)
    | ORaisesBase => ([EvWrite], SDRaises)
    | ORaisesException =>
      let (evs, ok) := report_guarded hook in (EvWrite :: evs, if ok then SDNone else SDRaises)
    end
  end.
