(* The OUTGOING side of the pygls endpoint: requests pygls sends and the replies to them.
   Transliterated from (target state of) pygls/protocol/json_rpc.py:
     send_request / send_request_async, the callback `wrapper`, structure_message (response
     branches), handle_message (response dispatch), _handle_response, _send_response's
     `_result_types.pop` (cross-direction), _execute_request's `_request_futures[id] = task`
     (cross-direction), _execute_request_callback's `finally: pop`, _handle_cancel_notification;
   pygls/exceptions.py: JsonRpcException.__init__ (`is None` defaults), from_error,
     supports_code, _is_server_error_code;
   concurrent.futures.Future: set_result / set_exception / cancel / add_done_callback
     (callbacks run at completion, exceptions raised by them are swallowed; set_* on a
     cancelled future raises InvalidStateError).
   The two tables `futs` (_request_futures) and `rtypes` (_result_types) are SHARED between the
   two directions, as in the code: the events In* are what the incoming direction does to them.
   No proofs in this file. *)
From Coq Require Import ZArith NArith List Bool.
From Pygls Require Export Base.AssocOut.
Import ListNotations.

(* ---- message ids: a JSON int, a JSON string, or the n-th uuid4 string of the supply ---- *)
Inductive id :=
  | IInt (z : Z) | IStr (s : list N) | IUuid (n : N)
  | INull                (* JSON null: what a peer echoes when it could not detect the id of a request *)
  | IOdd (n : N).        (* any other JSON value a peer may put there that equals no issued id: a number
                            that is not an integer, a list, an object (not even hashable), ... *)

Fixpoint str_eqb (a b : list N) : bool :=
  match a, b with
  | [], [] => true
  | x :: a', y :: b' => N.eqb x y && str_eqb a' b'
  | _, _ => false
  end.

(* dict key equality: 7 and "7" are different keys.  IUuid n stands for the n-th string drawn
   from uuid.uuid4(), assumed different from every other string in the history (DESIGN 2). *)
Definition id_eqb (a b : id) : bool :=
  match a, b with
  | IInt x, IInt y => Z.eqb x y
  | IStr x, IStr y => str_eqb x y
  | IUuid x, IUuid y => N.eqb x y
  | INull, INull => true
  | IOdd x, IOdd y => N.eqb x y
  | _, _ => false
  end.

(* ---- exception classes registered in pygls.exceptions._EXCEPTIONS (+ the base class) ---- *)
Inductive exc_class :=
  EBase | EInternal | EInvalidParams | EInvalidRequest | EMethodNotFound | EParse | ECancelled | EServer.

(* JsonRpcException.from_error: the registered class whose supports_code(code) holds, else the
   base class.  (_EXCEPTIONS is a set; at most one class supports a code - C07 - so the
   iteration order does not matter.) *)
Definition class_of_code (c : Z) : exc_class :=
  if Z.eqb c (-32603) then EInternal
  else if Z.eqb c (-32602) then EInvalidParams
  else if Z.eqb c (-32600) then EInvalidRequest
  else if Z.eqb c (-32601) then EMethodNotFound
  else if Z.eqb c (-32700) then EParse
  else if Z.eqb c (-32800) then ECancelled
  else if Z.leb (-32099) c && Z.leb c (-32000) then EServer
  else EBase.

(* lsprotocol's ResponseError.code carries integer_validator: an LSP `integer` is an int32.  An
   error object whose code is outside that range does not structure (ValueError inside cattrs). *)
Definition int32 (c : Z) : bool := Z.leb (-2147483648) c && Z.leb c 2147483647.

(* ---- the concurrent.futures.Future handed to the caller of send_request ---- *)
Inductive fstate :=
  | Pending
  | Resolved (rt p : N)      (* set_result(structure(payload p, result class rt).result) *)
  | Failed (c : exc_class) (code : Z) (msg : list N) (data : N)
  | Cancelled.

(* What user code does when one of its callbacks runs (callbacks are user code and may call back
   into the protocol): cancel another future it holds, or send a follow-up request - with a fresh
   id, another id, or the id of the request that was just answered (a callback-driven poll with a
   fixed msg_id) - whose own callback is the rest. *)
Inductive kont :=
  | KNone
  | KCancel (h : nat) (k : kont)                         (* futures[h].cancel(); then go on *)
  | KSend (m rt : N) (mid : option id) (k : kont).       (* send_request(m, msg_id=mid) with callback k; done *)

(* done-callback of the future: none; the `wrapper` send_request puts around callback= (runs the
   user callback only when result() does not raise); a callback the caller attached with
   future.add_done_callback (runs on every completion: result, error, cancel); or
   Progress.create's on_created (registers the token, then the optional user callback) *)
Inductive cbkind := CbNone | CbUser (k : kont) | CbDone (k : kont) | CbCreate (tok : id) (ucb : bool).

(* does a successful completion count as a call of the user callback *)
Definition cbflag (c : cbkind) : bool :=
  match c with CbNone => false | CbUser _ => true | CbDone _ => false | CbCreate _ u => u end.

(* a coroutine suspended in `await send_request_async(...)` whose continuation has an effect on
   the state (Progress.create_async registers the token after the await) *)
Inductive waiter := WNone | WCreate (tok : id) | WDone (tok : id).

Record ofut := mkO {
  oid : id;          (* id the request was sent with *)
  ometh : N;         (* method (code) *)
  ort : N;           (* get_result_type(method): 0 = None (generic response class) *)
  ocb : cbkind;
  ost : fstate;
  ocalls : N;        (* number of calls of the user callback *)
  owait : waiter
}.

(* values of _request_futures: an outgoing Future (by handle) or an incoming request's task/job *)
Inductive fref := FOut (k : nat) | FIn.

Inductive wire :=
  | WReq (i : id) (m : N) (arg : option id)    (* request written (arg: the token of a progress create) *)
  | WProgress (tok : id) (kind : N) (v : N).   (* $/progress notification written *)

Record st := mkS {
  futs : list (id * fref);        (* _request_futures, insertion ordered *)
  rtypes : list (id * N);         (* _result_types *)
  ofuts : list (nat * ofut);      (* futures returned to callers, by handle (= order of creation) *)
  out : list wire;                (* what reached writer.write *)
  errs : N;                       (* calls of the error hook (report_server_error) *)
  next : N;                       (* uuid4 supply *)
  tokens : list (id * nat);       (* Progress.tokens: token -> cancellation future (handle) *)
  tfuts : list bool;              (* every cancellation future ever created: cancelled()? *)
  refused : N                     (* "Token is already registered!" exceptions raised to callers *)
}.

Definition init : st := mkS [] [] [] [] 0 0 [] [] 0.

Definition set_futs s v := mkS v (rtypes s) (ofuts s) (out s) (errs s) (next s) (tokens s) (tfuts s) (refused s).
Definition set_rtypes s v := mkS (futs s) v (ofuts s) (out s) (errs s) (next s) (tokens s) (tfuts s) (refused s).
Definition set_ofuts s v := mkS (futs s) (rtypes s) v (out s) (errs s) (next s) (tokens s) (tfuts s) (refused s).
Definition set_out s v := mkS (futs s) (rtypes s) (ofuts s) v (errs s) (next s) (tokens s) (tfuts s) (refused s).
Definition hook s := mkS (futs s) (rtypes s) (ofuts s) (out s) (errs s + 1) (next s) (tokens s) (tfuts s) (refused s).
Definition set_next s v := mkS (futs s) (rtypes s) (ofuts s) (out s) (errs s) v (tokens s) (tfuts s) (refused s).
Definition set_tokens s t f := mkS (futs s) (rtypes s) (ofuts s) (out s) (errs s) (next s) t f (refused s).
Definition refuse s := mkS (futs s) (rtypes s) (ofuts s) (out s) (errs s) (next s) (tokens s) (tfuts s) (refused s + 1).

Definition set_ost (o : ofut) (v : fstate) := mkO (oid o) (ometh o) (ort o) (ocb o) v (ocalls o) (owait o).
Definition called (o : ofut) := mkO (oid o) (ometh o) (ort o) (ocb o) (ost o) (ocalls o + 1) (owait o).
Definition set_owait (o : ofut) (w : waiter) := mkO (oid o) (ometh o) (ort o) (ocb o) (ost o) (ocalls o) w.

Definition is_pending (f : fstate) : bool := match f with Pending => true | _ => false end.
Definition is_resolved (f : fstate) : bool := match f with Resolved _ _ => true | _ => false end.

(* Progress._register_token: self.tokens[token] = Future() *)
Definition register_token (s : st) (tok : id) : st :=
  set_tokens s (aset id_eqb tok (length (tfuts s)) (tokens s)) (tfuts s ++ [false]).

(* ---- send_request(method, params, callback, msg_id) ----
   Two phases, in the order of the code: everything is REGISTERED (id drawn, Future created,
   callback attached, _request_futures[id], _result_types[id]) and only then is the request
   handed to the writer.  A reply that is dispatched while `writer.write` is still running
   (in-process / loopback transports; a read loop on another thread that is faster than the
   sending thread) therefore already finds both entries: Proofs.OutgoingProofs.reply_during_write. *)
Definition send_arg (cb : cbkind) (w : waiter) : option id :=
  match cb, w with
  | CbCreate tok _, _ => Some tok
  | _, WCreate tok => Some tok
  | _, _ => None
  end.

Definition send_id_of (s : st) (mid : option id) : id :=
  match mid with Some i => i | None => IUuid (next s) end.

Definition send_register (s : st) (m rt : N) (cb : cbkind) (mid : option id) (w : waiter) : st :=
  let '(i, s) := match mid with
                 | Some i => (i, s)
                 | None => (IUuid (next s), set_next s (next s + 1))      (* str(uuid.uuid4()) *)
                 end in
  let k := length (ofuts s) in
  let s := set_ofuts s (ofuts s ++ [(k, mkO i m rt cb Pending 0 w)]) in   (* future = Future(); add_done_callback *)
  let s := set_futs s (aset id_eqb i (FOut k) (futs s)) in                (* _request_futures[id] = future *)
  set_rtypes s (aset id_eqb i rt (rtypes s)).                             (* _result_types[id] = get_result_type(method) *)

Definition send_write (s : st) (f : wire) : st := set_out s (out s ++ [f]).   (* _send_data(request) *)

Definition send_request (s : st) (m rt : N) (cb : cbkind) (mid : option id) (w : waiter) : st :=
  send_write (send_register s m rt cb mid w) (WReq (send_id_of s mid) m (send_arg cb w)).

(* what a response carries once structured *)
Inductive outcome := ORes (rt p : N) | OErr (code : Z) (msg : list N) (data : N).

(* the done-callbacks of future k, run by set_result / set_exception / cancel, as far as they
   concern the protocol's own state (a failed / cancelled future makes `wrapper` raise at
   future.result(); the exception is swallowed and the user callback not called) *)
Definition run_callbacks (s : st) (k : nat) (o : ofut) : st :=
  match ost o with
  | Resolved _ _ =>
    match ocb o with
    | CbNone => s
    | CbUser _ => set_ofuts s (aupd Nat.eqb k called (ofuts s))
    | CbDone _ => s
    | CbCreate tok ucb =>
      let s := register_token s tok in
      if ucb then set_ofuts s (aupd Nat.eqb k called (ofuts s)) else s
    end
  | _ => s
  end.

(* the user code that runs inside those done-callbacks: (attached with add_done_callback?, what it does) *)
Definition kont_of (o : ofut) : option (bool * kont) :=
  match ocb o with
  | CbUser kn => if is_resolved (ost o) then Some (false, kn) else None
  | CbDone kn => if is_pending (ost o) then None else Some (true, kn)
  | _ => None
  end.

Inductive ev :=
  | UserSend (m rt : N) (cb : cbkind) (mid : option id)
  (* a response frame {"id": i, "result": p}; oks = the result classes under which payload p
     structures (the cattrs oracle) *)
  | RecvResult (i : id) (p : N) (oks : list N)
  (* a response frame {"id": i, "error": {"code":, "message":, "data":}} *)
  | RecvError (i : id) (code : Z) (msg : list N) (data : N)
  | UserCancelOut (k : nat)
  (* the incoming direction, acting on the same two tables *)
  | InReply (i : id)                  (* _send_response(i, result=...) for an incoming request *)
  | InAsyncReg (i : id)               (* _execute_request: _request_futures[i] = task / pool future *)
  | InAsyncDone (i : id) (res : bool) (* _execute_request_callback: reply (result or error), finally pop *)
  | InCancel (i : id).                (* $/cancelRequest {id: i} *)

Definition mem_n (x : N) (l : list N) : bool := existsb (N.eqb x) l.

(* future.cancel() on an outgoing future, without the user code of its callbacks *)
Definition cancel_out (s : st) (k : nat) : st :=
  set_ofuts s (aupd Nat.eqb k (fun o => if is_pending (ost o) then set_ost o Cancelled else o) (ofuts s)).

(* The endpoint code, parameterised by X = "run the user code of the callbacks that fire now".
   The position of X in these functions is the position at which concurrent.futures runs the
   done-callbacks: INSIDE set_result / set_exception / cancel, i.e. in _handle_response after
   `_request_futures.pop(msg_id)` and as the last thing the frame's handling does. *)
Section WithUserCode.
  Variable X : st -> option (bool * kont) -> st.

  (* future.set_result / future.set_exception on the future with handle k *)
  Definition complete_with (s : st) (k : nat) (oc : outcome) : st :=
    match aget Nat.eqb k (ofuts s) with
    | None => s                                               (* no such future: unreachable *)
    | Some o =>
      if is_pending (ost o) then
        let v := match oc with
                 | ORes rt p => Resolved rt p
                 | OErr c m d => Failed (class_of_code c) c m d  (* from_error: exc_class(code=, message=, data=) *)
                 end in
        let o' := set_ost o v in
        X (run_callbacks (set_ofuts s (aupd Nat.eqb k (fun _ => o') (ofuts s))) k o') (kont_of o')
      else hook s                                             (* InvalidStateError escapes handle_message *)
    end.

  (* _handle_response(msg_id, result, error) *)
  Definition handle_response_with (s : st) (i : id) (oc : outcome) : st :=
    match aget id_eqb i (futs s) with
    | None => hook s                                          (* unknown id: reported, ignored *)
    | Some r =>
      let s := set_futs s (adel id_eqb i (futs s)) in         (* future = _request_futures.pop(id) *)
      match r with
      | FOut k => complete_with s k oc
      | FIn => hook s                                         (* asyncio Task / pool future of an incoming request:
                                                                 Task.set_result raises, reported by the read loop *)
      end
    end.

  (* future.cancel(): a pending future becomes cancelled and its done-callbacks run *)
  Definition cancel_with (s : st) (k : nat) : st :=
    X (cancel_out s k)
      (match aget Nat.eqb k (ofuts s) with
       | Some o => if is_pending (ost o) then kont_of (set_ost o Cancelled) else None
       | None => None
       end).

  Definition step_with (s : st) (e : ev) : st :=
    match e with
    | UserSend m rt cb mid => send_request s m rt cb mid WNone
    | RecvResult i p oks =>
      (* structure_message, result branch: response_type = _result_types.pop(id) or JsonRPCResponseMessage *)
      match aget id_eqb i (rtypes s) with
      | None => hook s                                        (* KeyError -> JsonRpcInternalError, frame only reported *)
      | Some rt =>
        let s := set_rtypes s (adel id_eqb i (rtypes s)) in
        if mem_n rt oks then handle_response_with s i (ORes rt p)
        else hook s                                           (* payload does not structure: frame only reported *)
      end
    | RecvError i c m d =>
      (* structure_message, error branch: _result_types.pop(id, None), structure(ResponseErrorMessage);
         then _handle_response *)
      let s := set_rtypes s (adel id_eqb i (rtypes s)) in
      if int32 c then handle_response_with s i (OErr c m d)
      else hook s                                             (* the error object does not structure: frame only reported *)
    | UserCancelOut k => cancel_with s k
    | InReply i => set_rtypes s (adel id_eqb i (rtypes s))
    | InAsyncReg i => set_futs s (aset id_eqb i FIn (futs s))
    | InAsyncDone i res =>
      let s := if res then set_rtypes s (adel id_eqb i (rtypes s)) else s in
      set_futs s (adel id_eqb i (futs s))
    | InCancel i =>
      match aget id_eqb i (futs s) with
      | None => s
      | Some r =>
        let s := set_futs s (adel id_eqb i (futs s)) in
        match r with FOut k => cancel_with s k | FIn => s end
      end
    end.
End WithUserCode.

(* ---- the primitive machine: callbacks whose user code does nothing to the protocol ---- *)
Definition xnone (s : st) (_ : option (bool * kont)) : st := s.
Notation complete := (complete_with xnone).
Notation handle_response := (handle_response_with xnone).
Notation step := (step_with xnone).

(* ---- the re-entrant machine: the user code of a callback runs where the callback runs ---- *)
(* f bounds the number of operations user code performs within one event (each callback runs
   once and its operations are finitely many: fuel_for is such a bound) *)
Fixpoint execf (f : nat) (s : st) (dk : bool) (kn : kont) : st :=
  match f with
  | O => s
  | S f' =>
    match kn with
    | KNone => s
    | KSend m rt mid k' => send_request s m rt (if dk then CbDone k' else CbUser k') mid WNone
    | KCancel h k' =>
      execf f' (cancel_with (fun s x => match x with Some (d, kh) => execf f' s d kh | None => s end) s h) dk k'
    end
  end.

Definition xrun (f : nat) (s : st) (x : option (bool * kont)) : st :=
  match x with Some (d, kn) => execf f s d kn | None => s end.

Fixpoint ksize (k : kont) : nat :=
  match k with KNone => 1 | KCancel _ k' => S (ksize k') | KSend _ _ _ k' => S (ksize k') end.
Definition cb_size (c : cbkind) : nat :=
  match c with CbUser k => ksize k | CbDone k => ksize k | _ => 0 end.
Definition fuel_for (s : st) (e : ev) : nat :=
  S (fold_right (fun ko n => cb_size (ocb (snd ko)) + n) 0 (ofuts s)
     + match e with UserSend _ _ cb _ => cb_size cb | _ => 0 end).

Definition rstep (s : st) (e : ev) : st := step_with (xrun (fuel_for s e)) s e.
Definition rrun_from (s : st) (evs : list ev) : st := fold_left rstep evs s.
Definition rrun (evs : list ev) : st := rrun_from init evs.
Fixpoint rtrace_from (s : st) (evs : list ev) : list st :=
  match evs with
  | [] => []
  | e :: r => let s' := rstep s e in s' :: rtrace_from s' r
  end.

Definition run_from (s : st) (evs : list ev) : st := fold_left step evs s.
Definition run (evs : list ev) : st := run_from init evs.

(* prefixes, for per-event observation by the driver *)
Fixpoint trace_from (s : st) (evs : list ev) : list st :=
  match evs with
  | [] => []
  | e :: r => let s' := step s e in s' :: trace_from s' r
  end.
