(* Model/ExitWrappers.v - how the call that started the server turns the end of the read loop into
   a process status (pygls/server.py, target state: fix_C09_2 applied).  No proofs here.

     _start_io_async : try: asyncio.run(run_async(..))
                       except BrokenPipeError: logger.error(..)
                       except KeyboardInterrupt: pass            (pinned: (KeyboardInterrupt, SystemExit))
                       finally: self.shutdown()
     _start_io_sync  : the same clauses around the synchronous run(..), called directly
     start_tcp       : try: asyncio.run(tcp_server(..)) except asyncio.CancelledError: ..
                       the loop runs inside the connection callback task; a SystemExit /
                       KeyboardInterrupt raised in a task step or in a loop callback is re-raised by
                       asyncio out of run_forever, hence out of asyncio.run and out of start_tcp;
                       the callback's `finally: writer.close(); self.shutdown()` (row 20) has run
     shutdown()      : stop event set, thread pool shut down, asyncio server closed

   `lsp_exit` (Model/Endpoint.v) ends the loop with SystemExit(status): immediately when
   writer.close() is synchronous (StdoutWriter, asyncio.StreamWriter: the WBlocking configuration),
   from the done-callback of the close task otherwise.  A server script calls start_* as its last
   statement: the process status is 0 when the call returns, the SystemExit's code when one
   propagates, 1 for any other uncaught exception (traceback). *)
From Coq Require Import ZArith List Bool.
From Pygls Require Import Model.Endpoint.
Local Open Scope Z_scope.

Inductive wrapper :=
| StartIoAsync | StartIoSync | StartTcp
| StartIoAsyncPinned | StartIoSyncPinned.        (* the code before fix_C09_2: refutation witness only *)

(* how the call of the read loop ends, as the wrapper sees it *)
Inductive lend :=
| LReturn                    (* input ended / stop event set *)
| LSysExit (rc : Z)          (* lsp_exit *)
| LKbd                       (* KeyboardInterrupt *)
| LBrokenPipe.               (* BrokenPipeError out of the loop *)

(* how the start_* call ends *)
Inductive wend :=
| WReturn
| WSysExit (rc : Z)
| WKbd
| WExc.                      (* some other exception propagates *)

Record wres := mkW { w_end : wend; w_released : bool }.   (* w_released: self.shutdown() has run *)

(* the except clauses of _start_io_* *)
Definition start_io_except (pinned : bool) (l : lend) : wend :=
  match l with
  | LReturn => WReturn
  | LBrokenPipe => WReturn                                  (* except BrokenPipeError: logger.error *)
  | LKbd => WReturn                                         (* except KeyboardInterrupt: pass *)
  | LSysExit rc => if pinned then WReturn else WSysExit rc  (* pinned: swallowed with KeyboardInterrupt *)
  end.

Definition wrapper_run (w : wrapper) (l : lend) : wres :=
  match w with
  | StartIoAsync => mkW (start_io_except false l) true            (* finally: self.shutdown() *)
  | StartIoAsyncPinned => mkW (start_io_except true l) true
  | StartIoSync => mkW (start_io_except false l) true
  | StartIoSyncPinned => mkW (start_io_except true l) true
  | StartTcp =>
      mkW (match l with
           | LReturn => WReturn        (* connection over: shutdown() closes the asyncio server, serve_forever is cancelled *)
           | LSysExit rc => WSysExit rc
           | LKbd => WKbd
           | LBrokenPipe => WReturn    (* stays inside the callback task; its finally ends the server as above *)
           end) true
  end.

(* the interpreter: None = ended by the re-raised SIGINT, not modelled *)
Definition process_status (e : wend) : option Z :=
  match e with
  | WReturn => Some 0
  | WSysExit rc => Some rc
  | WExc => Some 1
  | WKbd => None
  end.

(* the end of the loop as decided by the endpoint: SystemExit iff `exit` is set *)
Definition loop_end (s : st) : lend :=
  match exit s with Some rc => LSysExit rc | None => LReturn end.

(* status of a server process whose endpoint went through `evs` and whose input then ended *)
Definition status (w : wrapper) (c : cfg) (evs : list ev) : option Z :=
  process_status (w_end (wrapper_run w (loop_end (run c evs)))).
