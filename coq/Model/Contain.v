(* Model/Contain.v - the glue between the read loop (Model/Framing.v) and the endpoint
   (Model/Endpoint.v) that C06 is about.  No proofs in this file.

   deliver / serve   io_.run_async / io_.run hand every body the framing loop cuts out of the stream to
                     `json.loads(body, object_hook=protocol.structure_message)` and
                     `protocol.handle_message`, inside the per-message try / except / finally; the
                     endpoint model's `Recv f` is exactly that block.  What the endpoint can observe
                     of a body (class, id, version, params status, method, handler behaviour) is the
                     abstraction `classify : body -> frame` - json / cattrs are an oracle.
   passes            which callable each call site of the read loops hands over as `error_handler`:
                     pygls/server.py _start_io_async, _start_io_sync, start_tcp, start_ws and
                     pygls/client.py start_io, start_tcp, start_ws (after the repairs of DESIGN
                     section 6 row 6: all seven pass `self._report_server_error`)
   handler_call      `error_handler(exc, JsonRpcException)` inside the loop's `except Exception:`
                     clause: `_report_server_error` is try: self.report_server_error(..) except
                     Exception: log - the bare `report_server_error` lets the exception of a user
                     override escape, which leaves the `except` clause and ends the loop. *)
From Coq Require Import NArith List.
From Pygls Require Import Model.Framing Model.Endpoint.
Import ListNotations.

Inductive callsite := SrvIoAsync | SrvIoSync | SrvTcp | SrvWs | CliIo | CliTcp | CliWs.
Inductive handler := HProtected | HBare.

Definition passes (cs : callsite) : handler := HProtected.

(* true = the call returns and the loop goes on to `finally: content_length = 0` and the next header *)
Definition handler_call (h : handler) (k : hookkind) : bool :=
  match h, k with
  | HBare, HookRaises => false
  | _, _ => true
  end.

Section Deliver.
Variable classify : list N -> frame.

Definition deliver (bs : list Framing.ev) : list Endpoint.ev :=
  map (fun b => match b with Body x => Recv (classify x) end) bs.

(* the whole stream through the loop and the endpoint: final endpoint state and how the loop ended *)
Definition serve (c : cfg) (k : Framing.kind) (stream : list N) : st * result :=
  let (bs, r) := loop_whole k AtEOF stream in (Endpoint.run c (deliver bs), r).
End Deliver.
