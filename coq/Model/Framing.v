(* Model of the read loops of pygls/io_.py: `run_async` over an asyncio.StreamReader (TCP, client),
   `run_async` over StdinAsyncReader (blocking BufferedReader calls on the pool) and the
   synchronous `run`.  One loop body, parameterised by the reader kind; written after the
   REPAIRED code (IncompleteReadError / ConnectionError -> break in run_async; ConnectionError ->
   break in run).

   A reader is a buffer of unread bytes plus what is known about the future of the stream
   (`eof = false`: more may come, a read that cannot complete blocks; `eof = true`: the peer has
   closed).  One Python iteration has two suspension points (readline, readexactly); the model
   makes each a step, the phase says which read is pending:
     PHeader cl : at `header = readline()`, with the variable content_length = cl
     PBody n    : at `body = readexactly(n)` / `read(n)` (the blank line has been consumed)
   No proofs in this file. *)
From Pygls Require Export Base.Bytes.
Open Scope N_scope.

(* Stream: asyncio.StreamReader with its line limit (asyncio default 2**16)
   StdinPool: StdinAsyncReader = BufferedReader.readline / .read(n) on a pool thread
   Sync: `run` calling reader.readline() / reader.read(n) directly *)
Inductive kind := Stream (limit : N) | StdinPool | Sync.

(* what can escape the loop: ValueError from StreamReader.readline (line longer than the limit),
   ValueError from int() (more than 4300 digits), ConnectionResetError from the reader (EReset: only in
   the unrepaired loops, kept for the pinned-code witnesses of Model/Wrappers.v) *)
Inductive exn := ELimit | EIntDigits | EReset.
Inductive term := EndedNormally | Raised (e : exn).

(* what the loop hands to json.loads(body, object_hook=protocol.structure_message) /
   protocol.handle_message, in order *)
Inductive ev := Body (b : list N).

Inductive phase := PHeader (cl : N) | PBody (n : N).
Notation lstate := (phase * list N)%type (only parsing).

(* ---- the three readers ---- *)

Inductive rl_result := RLine (line rest : list N) | RLBlocked | RLRaise (e : exn).

(* StreamReader.readline = readuntil(b"\n"): LF at index isep > limit -> LimitOverrunError ->
   ValueError; no LF and more than `limit` bytes buffered -> the same; no LF at EOF -> the whole
   buffer (possibly b"").  BufferedReader.readline: through LF, or the remainder at EOF. *)
Definition readline (k : kind) (eof : bool) (buf : list N) : rl_result :=
  match split_line buf with
  | Some (line, rest) =>
    match k with
    | Stream lim => if lim <? len line - 1 then RLRaise ELimit else RLine line rest
    | _ => RLine line rest
    end
  | None =>
    match k with
    | Stream lim => if lim <? len buf then RLRaise ELimit
                    else if eof then RLine buf [] else RLBlocked
    | _ => if eof then RLine buf [] else RLBlocked
    end
  end.

Inductive rx_result := RXBytes (body rest : list N) | RXBlocked | RXIncomplete.

(* StreamReader.readexactly(n): n bytes, or IncompleteReadError at EOF.
   BufferedReader.read(n): n bytes, or the short remainder at EOF (possibly b""). *)
Definition readexactly (k : kind) (eof : bool) (n : N) (buf : list N) : rx_result :=
  if n <=? len buf then RXBytes (take n buf) (drop n buf)
  else if eof then match k with Stream _ => RXIncomplete | _ => RXBytes buf [] end
  else RXBlocked.

(* ---- the header recognisers ---- *)

Definition CL_PREFIX : list N := [67;111;110;116;101;110;116;45;76;101;110;103;116;104;58;32].
                                 (* b"Content-Length: " *)

(* CONTENT_LENGTH_PATTERN = rb"^Content-Length: (\d+)\r\n$" used with fullmatch, then int() *)
Inductive cl_result := CLNoMatch | CLMatch (n : N) | CLRaise.
Definition parse_cl (header : list N) : cl_result :=
  match strip_prefix CL_PREFIX header with
  | None => CLNoMatch
  | Some r =>
    let (ds, tail) := span is_digit r in
    if negb (is_nil ds) && eqb_bytes tail [13; 10]
    then if INT_MAX_STR_DIGITS <? len ds then CLRaise else CLMatch (int_of_digits ds)
    else CLNoMatch
  end.

(* `not header.strip()` *)
Definition is_blank (header : list N) : bool := is_nil (bstrip header).

(* ---- one step of the loop ---- *)

Inductive outcome := OBlocked | OStop (t : term) | OCont (st : lstate) (evs : list ev).

Definition step (k : kind) (eof : bool) (st : lstate) : outcome :=
  let '(p, buf) := st in
  match p with
  | PHeader cl =>
    match readline k eof buf with
    | RLBlocked => OBlocked
    | RLRaise e => OStop (Raised e)                 (* ValueError: not caught by the loop *)
    | RLine header rest =>
      if is_nil header then OStop EndedNormally     (* if not header: break *)
      else
        (* if not content_length: match = PATTERN.fullmatch(header); if match: ... = int(...) *)
        match (if cl =? 0 then parse_cl header else CLNoMatch) with
        | CLRaise => OStop (Raised EIntDigits)
        | pc =>
          let cl' := match pc with CLMatch n => n | _ => cl end in
          (* if content_length and not header.strip(): *)
          if negb (cl' =? 0) && is_blank header then OCont (PBody cl', rest) []
          else OCont (PHeader cl', rest) []
        end
    end
  | PBody n =>
    match readexactly k eof n buf with
    | RXBlocked => OBlocked
    | RXIncomplete => OStop EndedNormally           (* except IncompleteReadError: break *)
    | RXBytes body rest =>
      if is_nil body then OStop EndedNormally       (* if not body: break *)
      else OCont (PHeader 0, rest) [Body body]      (* try: loads+handle ... finally: content_length = 0 *)
    end
  end.

(* ---- running the loop ---- *)

Inductive result := Blocked (st : lstate) | Done (t : term) | OutOfFuel.

Fixpoint run_fuel (fuel : nat) (k : kind) (eof : bool) (st : lstate) : list ev * result :=
  match fuel with
  | O => ([], OutOfFuel)
  | S f =>
    match step k eof st with
    | OBlocked => ([], Blocked st)
    | OStop t => ([], Done t)
    | OCont st' evs => let (es, r) := run_fuel f k eof st' in (evs ++ es, r)
    end
  end.

(* every continuing step consumes at least one byte, so |buf| + 1 rounds always suffice
   (Proofs.FramingProofs.run_total: OutOfFuel is never returned by `run`) *)
Definition run (k : kind) (eof : bool) (st : lstate) : list ev * result :=
  run_fuel (S (length (snd st))) k eof st.

Definition init_state : lstate := (PHeader 0, []).

(* how the input ends: orderly close, or the reader starts raising ConnectionResetError *)
Inductive ending := AtEOF | AtReset.

(* the end of input reaches a loop that is blocked in a read *)
Definition finish (k : kind) (e : ending) (r : result) : list ev * result :=
  match r with
  | Blocked st =>
    match e with
    | AtEOF => run k true st
    | AtReset => ([], Done EndedNormally)      (* run_async and run: except ConnectionError: break *)
    end
  | _ => ([], r)
  end.

(* presentation 1: the whole stream is there, then the end *)
Definition whole_from (k : kind) (e : ending) (st : lstate) : list ev * result :=
  match e with
  | AtEOF => run k true st
  | AtReset => let (evs, r) := run k false st in
               let (evs', r') := finish k AtReset r in (evs ++ evs', r')
  end.
Definition loop_whole (k : kind) (e : ending) (stream : list N) : list ev * result :=
  whole_from k e (PHeader 0, stream).

(* presentation 2: the incremental machine; the loop runs until it blocks after each chunk *)
Definition feed (k : kind) (r : result) (chunk : list N) : result * list ev :=
  match r with
  | Blocked (p, buf) => let (evs, r') := run k false (p, buf ++ chunk) in (r', evs)
  | _ => (r, [])
  end.

Fixpoint feed_all (k : kind) (r : result) (chunks : list (list N)) : result * list ev :=
  match chunks with
  | [] => (r, [])
  | c :: cs => let (r1, e1) := feed k r c in
               let (r2, e2) := feed_all k r1 cs in (r2, e1 ++ e2)
  end.

Definition run_chunks_from (k : kind) (e : ending) (r : result) (chunks : list (list N))
  : list ev * result :=
  let (r1, e1) := feed_all k r chunks in
  let (e2, r2) := finish k e r1 in (e1 ++ e2, r2).

Definition run_chunks (k : kind) (e : ending) (chunks : list (list N)) : list ev * result :=
  run_chunks_from k e (Blocked init_state) chunks.
