(* Model of pygls/capabilities.py (ServerCapabilitiesBuilder: every _with_*, _provider_options,
   get_capability, build) and of the part of pygls/protocol/language_server.py lsp_initialize that
   feeds the builder and hands the advertised position encoding to the workspace.
   State of the code: the target state (repair #24: completionItem/resolve and codeAction/resolve
   raise resolve_provider).  Faithful, not idealised: registered option objects live in a heap and
   are written IN PLACE by the builder, exactly as `value.resolve_provider = ...` does.
   No proofs in this file. *)
From Coq Require Import NArith List Bool.
Import ListNotations.
Open Scope N_scope.

(* ------------------------------------------------------------------------------------------ *)
(* LSP methods.  Constructor names are the names of the lsprotocol.types constants.  The first 51
   are the methods capabilities.py mentions; the next 7 bear a capability in LSP 3.17 without the
   builder looking at their registration; everything else (other registry methods, methods newer
   than 3.17, user-defined method names) is `MOther n`.                                        *)
Inductive method :=
| TEXT_DOCUMENT_DID_OPEN | TEXT_DOCUMENT_DID_CLOSE | TEXT_DOCUMENT_WILL_SAVE
| TEXT_DOCUMENT_WILL_SAVE_WAIT_UNTIL | TEXT_DOCUMENT_DID_SAVE
| TEXT_DOCUMENT_COMPLETION | COMPLETION_ITEM_RESOLVE
| TEXT_DOCUMENT_HOVER | TEXT_DOCUMENT_SIGNATURE_HELP | TEXT_DOCUMENT_DECLARATION
| TEXT_DOCUMENT_DEFINITION | TEXT_DOCUMENT_TYPE_DEFINITION
| TEXT_DOCUMENT_INLAY_HINT | INLAY_HINT_RESOLVE
| TEXT_DOCUMENT_IMPLEMENTATION | TEXT_DOCUMENT_REFERENCES | TEXT_DOCUMENT_DOCUMENT_HIGHLIGHT
| TEXT_DOCUMENT_DOCUMENT_SYMBOL
| TEXT_DOCUMENT_CODE_ACTION | CODE_ACTION_RESOLVE
| TEXT_DOCUMENT_CODE_LENS | CODE_LENS_RESOLVE
| TEXT_DOCUMENT_DOCUMENT_LINK | DOCUMENT_LINK_RESOLVE
| TEXT_DOCUMENT_DOCUMENT_COLOR | TEXT_DOCUMENT_FORMATTING | TEXT_DOCUMENT_RANGE_FORMATTING
| TEXT_DOCUMENT_ON_TYPE_FORMATTING
| TEXT_DOCUMENT_RENAME | TEXT_DOCUMENT_PREPARE_RENAME
| TEXT_DOCUMENT_FOLDING_RANGE | TEXT_DOCUMENT_SELECTION_RANGE
| TEXT_DOCUMENT_PREPARE_CALL_HIERARCHY | TEXT_DOCUMENT_PREPARE_TYPE_HIERARCHY
| TEXT_DOCUMENT_SEMANTIC_TOKENS_FULL | TEXT_DOCUMENT_SEMANTIC_TOKENS_FULL_DELTA
| TEXT_DOCUMENT_SEMANTIC_TOKENS_RANGE
| TEXT_DOCUMENT_LINKED_EDITING_RANGE | TEXT_DOCUMENT_MONIKER
| WORKSPACE_SYMBOL | WORKSPACE_SYMBOL_RESOLVE
| WORKSPACE_WILL_CREATE_FILES | WORKSPACE_DID_CREATE_FILES | WORKSPACE_WILL_DELETE_FILES
| WORKSPACE_DID_DELETE_FILES | WORKSPACE_WILL_RENAME_FILES | WORKSPACE_DID_RENAME_FILES
| TEXT_DOCUMENT_DIAGNOSTIC | WORKSPACE_DIAGNOSTIC
| TEXT_DOCUMENT_INLINE_VALUE
(* capability-bearing in LSP 3.17, not read by the builder *)
| TEXT_DOCUMENT_DID_CHANGE
| NOTEBOOK_DOCUMENT_DID_OPEN | NOTEBOOK_DOCUMENT_DID_CHANGE | NOTEBOOK_DOCUMENT_DID_SAVE
| NOTEBOOK_DOCUMENT_DID_CLOSE
| WORKSPACE_EXECUTE_COMMAND | WORKSPACE_DID_CHANGE_WORKSPACE_FOLDERS
| MOther (n : N).

(* The named methods in a fixed order: position = the code used by the driver and the harness
   (harness/c12.py reads this list from this file). *)
Definition named_methods : list method :=
  [ TEXT_DOCUMENT_DID_OPEN; TEXT_DOCUMENT_DID_CLOSE; TEXT_DOCUMENT_WILL_SAVE;
    TEXT_DOCUMENT_WILL_SAVE_WAIT_UNTIL; TEXT_DOCUMENT_DID_SAVE;
    TEXT_DOCUMENT_COMPLETION; COMPLETION_ITEM_RESOLVE;
    TEXT_DOCUMENT_HOVER; TEXT_DOCUMENT_SIGNATURE_HELP; TEXT_DOCUMENT_DECLARATION;
    TEXT_DOCUMENT_DEFINITION; TEXT_DOCUMENT_TYPE_DEFINITION;
    TEXT_DOCUMENT_INLAY_HINT; INLAY_HINT_RESOLVE;
    TEXT_DOCUMENT_IMPLEMENTATION; TEXT_DOCUMENT_REFERENCES; TEXT_DOCUMENT_DOCUMENT_HIGHLIGHT;
    TEXT_DOCUMENT_DOCUMENT_SYMBOL;
    TEXT_DOCUMENT_CODE_ACTION; CODE_ACTION_RESOLVE;
    TEXT_DOCUMENT_CODE_LENS; CODE_LENS_RESOLVE;
    TEXT_DOCUMENT_DOCUMENT_LINK; DOCUMENT_LINK_RESOLVE;
    TEXT_DOCUMENT_DOCUMENT_COLOR; TEXT_DOCUMENT_FORMATTING; TEXT_DOCUMENT_RANGE_FORMATTING;
    TEXT_DOCUMENT_ON_TYPE_FORMATTING;
    TEXT_DOCUMENT_RENAME; TEXT_DOCUMENT_PREPARE_RENAME;
    TEXT_DOCUMENT_FOLDING_RANGE; TEXT_DOCUMENT_SELECTION_RANGE;
    TEXT_DOCUMENT_PREPARE_CALL_HIERARCHY; TEXT_DOCUMENT_PREPARE_TYPE_HIERARCHY;
    TEXT_DOCUMENT_SEMANTIC_TOKENS_FULL; TEXT_DOCUMENT_SEMANTIC_TOKENS_FULL_DELTA;
    TEXT_DOCUMENT_SEMANTIC_TOKENS_RANGE;
    TEXT_DOCUMENT_LINKED_EDITING_RANGE; TEXT_DOCUMENT_MONIKER;
    WORKSPACE_SYMBOL; WORKSPACE_SYMBOL_RESOLVE;
    WORKSPACE_WILL_CREATE_FILES; WORKSPACE_DID_CREATE_FILES; WORKSPACE_WILL_DELETE_FILES;
    WORKSPACE_DID_DELETE_FILES; WORKSPACE_WILL_RENAME_FILES; WORKSPACE_DID_RENAME_FILES;
    TEXT_DOCUMENT_DIAGNOSTIC; WORKSPACE_DIAGNOSTIC;
    TEXT_DOCUMENT_INLINE_VALUE;
    TEXT_DOCUMENT_DID_CHANGE;
    NOTEBOOK_DOCUMENT_DID_OPEN; NOTEBOOK_DOCUMENT_DID_CHANGE; NOTEBOOK_DOCUMENT_DID_SAVE;
    NOTEBOOK_DOCUMENT_DID_CLOSE;
    WORKSPACE_EXECUTE_COMMAND; WORKSPACE_DID_CHANGE_WORKSPACE_FOLDERS ].

Definition other_base : N := 100.
Definition method_code (m : method) : N :=
  match m with
  | TEXT_DOCUMENT_DID_OPEN => 0 | TEXT_DOCUMENT_DID_CLOSE => 1 | TEXT_DOCUMENT_WILL_SAVE => 2
  | TEXT_DOCUMENT_WILL_SAVE_WAIT_UNTIL => 3 | TEXT_DOCUMENT_DID_SAVE => 4
  | TEXT_DOCUMENT_COMPLETION => 5 | COMPLETION_ITEM_RESOLVE => 6 | TEXT_DOCUMENT_HOVER => 7
  | TEXT_DOCUMENT_SIGNATURE_HELP => 8 | TEXT_DOCUMENT_DECLARATION => 9
  | TEXT_DOCUMENT_DEFINITION => 10 | TEXT_DOCUMENT_TYPE_DEFINITION => 11
  | TEXT_DOCUMENT_INLAY_HINT => 12 | INLAY_HINT_RESOLVE => 13
  | TEXT_DOCUMENT_IMPLEMENTATION => 14 | TEXT_DOCUMENT_REFERENCES => 15
  | TEXT_DOCUMENT_DOCUMENT_HIGHLIGHT => 16 | TEXT_DOCUMENT_DOCUMENT_SYMBOL => 17
  | TEXT_DOCUMENT_CODE_ACTION => 18 | CODE_ACTION_RESOLVE => 19 | TEXT_DOCUMENT_CODE_LENS => 20
  | CODE_LENS_RESOLVE => 21 | TEXT_DOCUMENT_DOCUMENT_LINK => 22 | DOCUMENT_LINK_RESOLVE => 23
  | TEXT_DOCUMENT_DOCUMENT_COLOR => 24 | TEXT_DOCUMENT_FORMATTING => 25
  | TEXT_DOCUMENT_RANGE_FORMATTING => 26 | TEXT_DOCUMENT_ON_TYPE_FORMATTING => 27
  | TEXT_DOCUMENT_RENAME => 28 | TEXT_DOCUMENT_PREPARE_RENAME => 29
  | TEXT_DOCUMENT_FOLDING_RANGE => 30 | TEXT_DOCUMENT_SELECTION_RANGE => 31
  | TEXT_DOCUMENT_PREPARE_CALL_HIERARCHY => 32 | TEXT_DOCUMENT_PREPARE_TYPE_HIERARCHY => 33
  | TEXT_DOCUMENT_SEMANTIC_TOKENS_FULL => 34 | TEXT_DOCUMENT_SEMANTIC_TOKENS_FULL_DELTA => 35
  | TEXT_DOCUMENT_SEMANTIC_TOKENS_RANGE => 36 | TEXT_DOCUMENT_LINKED_EDITING_RANGE => 37
  | TEXT_DOCUMENT_MONIKER => 38 | WORKSPACE_SYMBOL => 39 | WORKSPACE_SYMBOL_RESOLVE => 40
  | WORKSPACE_WILL_CREATE_FILES => 41 | WORKSPACE_DID_CREATE_FILES => 42
  | WORKSPACE_WILL_DELETE_FILES => 43 | WORKSPACE_DID_DELETE_FILES => 44
  | WORKSPACE_WILL_RENAME_FILES => 45 | WORKSPACE_DID_RENAME_FILES => 46
  | TEXT_DOCUMENT_DIAGNOSTIC => 47 | WORKSPACE_DIAGNOSTIC => 48
  | TEXT_DOCUMENT_INLINE_VALUE => 49 | TEXT_DOCUMENT_DID_CHANGE => 50
  | NOTEBOOK_DOCUMENT_DID_OPEN => 51 | NOTEBOOK_DOCUMENT_DID_CHANGE => 52
  | NOTEBOOK_DOCUMENT_DID_SAVE => 53 | NOTEBOOK_DOCUMENT_DID_CLOSE => 54
  | WORKSPACE_EXECUTE_COMMAND => 55 | WORKSPACE_DID_CHANGE_WORKSPACE_FOLDERS => 56
  | MOther n => other_base + n
  end.
(* method_of_code (method_code m) = m is proved in Proofs/CapsProofs.v *)
Definition method_of_code (c : N) : method :=
  if c <? other_base then nth (N.to_nat c) named_methods (MOther c) else MOther (c - other_base).

(* ------------------------------------------------------------------------------------------ *)
(* The observable slots of ServerCapabilities the builder writes. *)
Inductive field :=
| FSyncOpenClose | FSyncChange | FSyncWillSave | FSyncWillSaveWaitUntil | FSyncSave
| FNotebookSync
| FCompletion | FHover | FSignatureHelp | FDeclaration | FDefinition | FTypeDefinition
| FInlayHint | FImplementation | FReferences | FDocumentHighlight | FDocumentSymbol
| FCodeAction | FCodeLens | FDocumentLink | FColor | FFormatting | FRangeFormatting
| FOnTypeFormatting | FRename | FFoldingRange | FExecuteCommand | FSelectionRange
| FCallHierarchy | FTypeHierarchy | FSemanticTokens | FLinkedEditingRange | FMoniker
| FWorkspaceSymbol | FWorkspaceFolders
| FWillCreate | FDidCreate | FWillDelete | FDidDelete | FWillRename | FDidRename
| FDiagnostic | FInlineValue | FPositionEncoding.

Definition all_fields : list field :=
  [ FSyncOpenClose; FSyncChange; FSyncWillSave; FSyncWillSaveWaitUntil; FSyncSave; FNotebookSync;
    FCompletion; FHover; FSignatureHelp; FDeclaration; FDefinition; FTypeDefinition;
    FInlayHint; FImplementation; FReferences; FDocumentHighlight; FDocumentSymbol;
    FCodeAction; FCodeLens; FDocumentLink; FColor; FFormatting; FRangeFormatting;
    FOnTypeFormatting; FRename; FFoldingRange; FExecuteCommand; FSelectionRange;
    FCallHierarchy; FTypeHierarchy; FSemanticTokens; FLinkedEditingRange; FMoniker;
    FWorkspaceSymbol; FWorkspaceFolders;
    FWillCreate; FDidCreate; FWillDelete; FDidDelete; FWillRename; FDidRename;
    FDiagnostic; FInlineValue; FPositionEncoding ].

Definition field_code (f : field) : N :=
  match f with
  | FSyncOpenClose => 0 | FSyncChange => 1 | FSyncWillSave => 2 | FSyncWillSaveWaitUntil => 3
  | FSyncSave => 4 | FNotebookSync => 5 | FCompletion => 6 | FHover => 7 | FSignatureHelp => 8
  | FDeclaration => 9 | FDefinition => 10 | FTypeDefinition => 11 | FInlayHint => 12
  | FImplementation => 13 | FReferences => 14 | FDocumentHighlight => 15 | FDocumentSymbol => 16
  | FCodeAction => 17 | FCodeLens => 18 | FDocumentLink => 19 | FColor => 20 | FFormatting => 21
  | FRangeFormatting => 22 | FOnTypeFormatting => 23 | FRename => 24 | FFoldingRange => 25
  | FExecuteCommand => 26 | FSelectionRange => 27 | FCallHierarchy => 28 | FTypeHierarchy => 29
  | FSemanticTokens => 30 | FLinkedEditingRange => 31 | FMoniker => 32 | FWorkspaceSymbol => 33
  | FWorkspaceFolders => 34 | FWillCreate => 35 | FDidCreate => 36 | FWillDelete => 37
  | FDidDelete => 38 | FWillRename => 39 | FDidRename => 40 | FDiagnostic => 41
  | FInlineValue => 42 | FPositionEncoding => 43
  end.
Definition field_eqb (a b : field) : bool := field_code a =? field_code b.

(* ------------------------------------------------------------------------------------------ *)
(* Values.  An option object registered by the user is known by its identity `i` (what the
   builder neither reads nor writes - its class and all other attributes - is the payload the
   harness keeps under that identity); the attributes the builder reads or writes are in `obj`. *)
Record obj := { o_resolve : option bool;       (* .resolve_provider  (None = attribute is None) *)
                o_wsdiag  : option bool;       (* .workspace_diagnostics *)
                o_isreg   : bool }.            (* isinstance(., SemanticTokensRegistrationOptions) *)
Notation heap_t := (N -> obj) (only parsing).

Inductive semfull := SFNone | SFTrue | SFDelta.   (* full=None | True | SemanticTokensFullDelta(delta=True) *)

Inductive value :=
| VNone                                   (* attribute stays None: absent on the wire *)
| VBool (b : bool)
| VRef (i : N)                            (* the registered option object i, by reference *)
| VOpts (r : option bool)                 (* a default-constructed <X>Options() with resolve_provider = r *)
| VDiag (w : bool)                        (* DiagnosticOptions(inter_file_dependencies=False, workspace_diagnostics=w) *)
| VRename (p : bool)                      (* RenameOptions(prepare_provider=p) *)
| VSemTok (legend : N) (full : semfull) (rng : bool)   (* SemanticTokensOptions(legend=<object>, full, range) *)
| VNum (k : N)                            (* TextDocumentSyncKind *)
| VCommands (l : list N)                  (* ExecuteCommandOptions(commands=l) *)
| VNotebook (p : N)                       (* the server's notebook_document_sync object *)
| VFolders                                (* WorkspaceFoldersServerCapabilities(supported=True, change_notifications=True) *)
| VEnc (e : N)                            (* position encoding, 8 / 16 / 32 *)
| VObj (i : N) (r w : option bool)        (* observation of VRef i: the object as it is when serialised *)
| VObjPrepare (i : N) (p : bool).         (* reference side only: object i with prepare_provider = p *)

(* ------------------------------------------------------------------------------------------ *)
(* Client capabilities: the paths get_capability walks (option chaining) and the two attributes
   read directly (notebook_document, general.position_encodings). *)
Record sync_caps := { will_save : option bool; will_save_wait_until : option bool }.
Record rename_caps := { prepare_support : option bool }.
Record td_caps := { synchronization : option sync_caps; rename : option rename_caps }.
Inductive fileop := OpWillCreate | OpDidCreate | OpWillDelete | OpDidDelete | OpWillRename | OpDidRename.
Record ws_caps := { file_operations : option (fileop -> option bool) }.
Record general_caps := { position_encodings : option (list N) }.
Record client := { text_document : option td_caps; workspace : option ws_caps;
                   notebook_document : bool;       (* `is not None` *)
                   general : option general_caps }.

Definition bind {A B} (o : option A) (f : A -> option B) : option B :=
  match o with Some a => f a | None => None end.

(* get_capability(client, "a.b.c", default): reduce(getattr, ...) with AttributeError on None,
   and a None leaf -> default.  One function per path the builder asks for. *)
Definition cap_will_save (c : client) : option bool :=
  bind (text_document c) (fun t => bind (synchronization t) will_save).
Definition cap_will_save_wait_until (c : client) : option bool :=
  bind (text_document c) (fun t => bind (synchronization t) will_save_wait_until).
Definition cap_prepare_support (c : client) : bool :=      (* default False *)
  match bind (text_document c) (fun t => bind (rename t) prepare_support) with
  | Some b => b | None => false end.
Definition cap_fileop (c : client) (o : fileop) : option bool :=
  bind (workspace c) (fun w => bind (file_operations w) (fun f => f o)).

(* ------------------------------------------------------------------------------------------ *)
(* What the builder is constructed with. *)
Record config := {
  reg : method -> bool;            (* feature in self.features *)
  opt : method -> option N;        (* self.feature_options.get(feature): identity of the object *)
  heap0 : N -> obj;                (* the registered objects before build() *)
  commands : list N;               (* self.commands, in order *)
  sync_kind : option N;            (* text_document_sync_kind (None possible) *)
  nb_sync : option N;              (* notebook_document_sync *)
  cl : client }.

Record st := { prov : field -> value; heap : N -> obj }.

Definition set (f : field) (v : value) (s : st) : st :=
  {| prov := fun g => if field_eqb g f then v else prov s g; heap := heap s |}.
(* `if value is not None: self.server_cap.<f> = value` *)
Definition assign (f : field) (ov : option value) (s : st) : st :=
  {| prov := fun g => if field_eqb g f then match ov with Some v => v | None => prov s g end
                      else prov s g;
     heap := heap s |}.
Definition upd (i : N) (f : obj -> obj) (h : N -> obj) : N -> obj :=
  fun j => if j =? i then f (h j) else h j.

Definition obj_set_resolve (r : option bool) (o : obj) : obj :=
  {| o_resolve := r; o_wsdiag := o_wsdiag o; o_isreg := o_isreg o |}.
Definition obj_set_wsdiag (w : option bool) (o : obj) : obj :=
  {| o_resolve := o_resolve o; o_wsdiag := w; o_isreg := o_isreg o |}.

(* _provider_options(feature, default): Python None is `None` here *)
Definition provider_options (c : config) (m : method) (default : option value) : option value :=
  if reg c m then match opt c m with Some i => Some (VRef i) | None => default end
  else None.

(* `value.resolve_provider = b` on whatever `value` is bound to *)
Definition write_resolve (ov : option value) (b : bool) (s : st) : option value * st :=
  match ov with
  | Some (VRef i) => (ov, {| prov := prov s; heap := upd i (obj_set_resolve (Some b)) (heap s) |})
  | Some (VOpts _) => (Some (VOpts (Some b)), s)
  | _ => (ov, s)
  end.
Definition write_wsdiag (ov : option value) (b : bool) (s : st) : option value * st :=
  match ov with
  | Some (VRef i) => (ov, {| prov := prov s; heap := upd i (obj_set_wsdiag (Some b)) (heap s) |})
  | Some (VDiag _) => (Some (VDiag b), s)
  | _ => (ov, s)
  end.

(* ---- the _with_* methods, in the order of the source file ---- *)

(* `x and y` for x = get_capability(...) in {None, False, True} and y a bool *)
Definition py_and (x : option bool) (y : bool) : value :=
  match x with None => VNone | Some false => VBool false | Some true => VBool y end.

Definition with_text_document_sync (c : config) (s : st) : st :=
  let open_close := reg c TEXT_DOCUMENT_DID_OPEN || reg c TEXT_DOCUMENT_DID_CLOSE in
  let will_save := py_and (cap_will_save (cl c)) (reg c TEXT_DOCUMENT_WILL_SAVE) in
  let will_save_wait_until :=
    py_and (cap_will_save_wait_until (cl c)) (reg c TEXT_DOCUMENT_WILL_SAVE_WAIT_UNTIL) in
  let save := if reg c TEXT_DOCUMENT_DID_SAVE
              then match opt c TEXT_DOCUMENT_DID_SAVE with Some i => VRef i | None => VBool true end
              else VBool false in
  set FSyncSave save
   (set FSyncWillSaveWaitUntil will_save_wait_until
     (set FSyncWillSave will_save
       (set FSyncChange (match sync_kind c with Some k => VNum k | None => VNone end)
         (set FSyncOpenClose (VBool open_close) s)))).

Definition with_notebook_document_sync (c : config) (s : st) : st :=
  if negb (notebook_document (cl c)) then s
  else set FNotebookSync (match nb_sync c with Some p => VNotebook p | None => VNone end) s.

Definition with_completion (c : config) (s : st) : st :=
  let value := provider_options c TEXT_DOCUMENT_COMPLETION (Some (VOpts None)) in
  match value with
  | None => s
  | Some _ =>
    let '(value, s) := if reg c COMPLETION_ITEM_RESOLVE then write_resolve value true s
                       else (value, s) in
    assign FCompletion value s
  end.

Definition with_hover c s := assign FHover (provider_options c TEXT_DOCUMENT_HOVER (Some (VBool true))) s.
Definition with_signature_help c s :=
  assign FSignatureHelp (provider_options c TEXT_DOCUMENT_SIGNATURE_HELP (Some (VOpts None))) s.
Definition with_declaration c s :=
  assign FDeclaration (provider_options c TEXT_DOCUMENT_DECLARATION (Some (VBool true))) s.
Definition with_definition c s :=
  assign FDefinition (provider_options c TEXT_DOCUMENT_DEFINITION (Some (VBool true))) s.
Definition with_type_definition c s :=
  assign FTypeDefinition (provider_options c TEXT_DOCUMENT_TYPE_DEFINITION (Some (VBool true))) s.

Definition with_inlay_hints (c : config) (s : st) : st :=
  let value := provider_options c TEXT_DOCUMENT_INLAY_HINT (Some (VOpts None)) in
  match value with
  | None => s
  | Some _ => let '(value, s) := write_resolve value (reg c INLAY_HINT_RESOLVE) s in
              assign FInlayHint value s
  end.

Definition with_implementation c s :=
  assign FImplementation (provider_options c TEXT_DOCUMENT_IMPLEMENTATION (Some (VBool true))) s.
Definition with_references c s :=
  assign FReferences (provider_options c TEXT_DOCUMENT_REFERENCES (Some (VBool true))) s.
Definition with_document_highlight c s :=
  assign FDocumentHighlight (provider_options c TEXT_DOCUMENT_DOCUMENT_HIGHLIGHT (Some (VBool true))) s.
Definition with_document_symbol c s :=
  assign FDocumentSymbol (provider_options c TEXT_DOCUMENT_DOCUMENT_SYMBOL (Some (VBool true))) s.

Definition with_code_action (c : config) (s : st) : st :=
  let value := provider_options c TEXT_DOCUMENT_CODE_ACTION (Some (VBool true)) in
  match value with
  | None => s
  | Some v =>
    let '(value, s) :=
      if reg c CODE_ACTION_RESOLVE then
        (* if value is True: value = CodeActionOptions() *)
        let value := match v with VBool true => Some (VOpts None) | _ => value end in
        write_resolve value true s
      else (value, s) in
    assign FCodeAction value s
  end.

Definition with_code_lens (c : config) (s : st) : st :=
  let value := provider_options c TEXT_DOCUMENT_CODE_LENS (Some (VOpts None)) in
  match value with
  | None => s
  | Some _ => let '(value, s) := write_resolve value (reg c CODE_LENS_RESOLVE) s in
              assign FCodeLens value s
  end.

Definition with_document_link (c : config) (s : st) : st :=
  let value := provider_options c TEXT_DOCUMENT_DOCUMENT_LINK (Some (VOpts None)) in
  match value with
  | None => s
  | Some _ => let '(value, s) := write_resolve value (reg c DOCUMENT_LINK_RESOLVE) s in
              assign FDocumentLink value s
  end.

Definition with_color c s :=
  assign FColor (provider_options c TEXT_DOCUMENT_DOCUMENT_COLOR (Some (VBool true))) s.
Definition with_document_formatting c s :=
  assign FFormatting (provider_options c TEXT_DOCUMENT_FORMATTING (Some (VBool true))) s.
Definition with_document_range_formatting c s :=
  assign FRangeFormatting (provider_options c TEXT_DOCUMENT_RANGE_FORMATTING (Some (VBool true))) s.
Definition with_document_on_type_formatting c s :=
  assign FOnTypeFormatting (provider_options c TEXT_DOCUMENT_ON_TYPE_FORMATTING None) s.

Definition with_rename (c : config) (s : st) : st :=
  let server_supports_rename := reg c TEXT_DOCUMENT_RENAME in
  if negb server_supports_rename then s
  else
    let client_prepare_support := cap_prepare_support (cl c) in
    if negb client_prepare_support then set FRename (VBool server_supports_rename) s
    else set FRename (VRename (reg c TEXT_DOCUMENT_PREPARE_RENAME)) s.

Definition with_folding_range c s :=
  assign FFoldingRange (provider_options c TEXT_DOCUMENT_FOLDING_RANGE (Some (VBool true))) s.
Definition with_execute_command (c : config) (s : st) : st :=
  set FExecuteCommand (VCommands (commands c)) s.
Definition with_selection_range c s :=
  assign FSelectionRange (provider_options c TEXT_DOCUMENT_SELECTION_RANGE (Some (VBool true))) s.
Definition with_call_hierarchy c s :=
  assign FCallHierarchy (provider_options c TEXT_DOCUMENT_PREPARE_CALL_HIERARCHY (Some (VBool true))) s.
Definition with_type_hierarchy c s :=
  assign FTypeHierarchy (provider_options c TEXT_DOCUMENT_PREPARE_TYPE_HIERARCHY (Some (VBool true))) s.

(* the `for provider in providers: ... break` loop *)
Fixpoint first_options (c : config) (providers : list method) : option value :=
  match providers with
  | [] => None
  | p :: r => match provider_options c p None with
              | Some v => Some v
              | None => first_options c r
              end
  end.

Definition with_semantic_tokens (c : config) (s : st) : st :=
  let providers := [TEXT_DOCUMENT_SEMANTIC_TOKENS_FULL; TEXT_DOCUMENT_SEMANTIC_TOKENS_FULL_DELTA;
                    TEXT_DOCUMENT_SEMANTIC_TOKENS_RANGE] in
  match first_options c providers with
  | Some (VRef i) =>
    if o_isreg (heap s i) then set FSemanticTokens (VRef i) s
    else
      let full_support :=
        if reg c TEXT_DOCUMENT_SEMANTIC_TOKENS_FULL_DELTA then SFDelta
        else if reg c TEXT_DOCUMENT_SEMANTIC_TOKENS_FULL then SFTrue else SFNone in
      let rng := reg c TEXT_DOCUMENT_SEMANTIC_TOKENS_RANGE in
      (* if options.full or options.range *)
      if match full_support with SFNone => rng | _ => true end
      then set FSemanticTokens (VSemTok i full_support rng) s
      else s
  | _ => s
  end.

Definition with_linked_editing_range c s :=
  assign FLinkedEditingRange (provider_options c TEXT_DOCUMENT_LINKED_EDITING_RANGE (Some (VBool true))) s.
Definition with_moniker c s :=
  assign FMoniker (provider_options c TEXT_DOCUMENT_MONIKER (Some (VBool true))) s.

Definition with_workspace_symbol (c : config) (s : st) : st :=
  let value := provider_options c WORKSPACE_SYMBOL (Some (VOpts None)) in
  match value with
  | None => s
  | Some _ => let '(value, s) := write_resolve value (reg c WORKSPACE_SYMBOL_RESOLVE) s in
              assign FWorkspaceSymbol value s
  end.

Definition operations : list (method * fileop * field) :=
  [ (WORKSPACE_WILL_CREATE_FILES, OpWillCreate, FWillCreate);
    (WORKSPACE_DID_CREATE_FILES, OpDidCreate, FDidCreate);
    (WORKSPACE_WILL_DELETE_FILES, OpWillDelete, FWillDelete);
    (WORKSPACE_DID_DELETE_FILES, OpDidDelete, FDidDelete);
    (WORKSPACE_WILL_RENAME_FILES, OpWillRename, FWillRename);
    (WORKSPACE_DID_RENAME_FILES, OpDidRename, FDidRename) ].

Definition truthy (x : option bool) : bool := match x with Some true => true | _ => false end.

Definition with_workspace_capabilities (c : config) (s : st) : st :=
  let s :=
    fold_left (fun s '(m, o, f) =>
                 if truthy (cap_fileop (cl c) o)
                 then set f (match provider_options c m None with Some v => v | None => VNone end) s
                 else s)
              operations s in
  set FWorkspaceFolders VFolders s.

Definition with_diagnostic_provider (c : config) (s : st) : st :=
  let value := provider_options c TEXT_DOCUMENT_DIAGNOSTIC (Some (VDiag false)) in
  match value with
  | None => s
  | Some _ => let '(value, s) := write_wsdiag value (reg c WORKSPACE_DIAGNOSTIC) s in
              assign FDiagnostic value s
  end.

Definition with_inline_value_provider c s :=
  assign FInlineValue (provider_options c TEXT_DOCUMENT_INLINE_VALUE (Some (VBool true))) s.

Definition supported_encoding (e : N) : bool := (e =? 8) || (e =? 16) || (e =? 32).

Definition with_position_encodings (c : config) (s : st) : st :=
  let s := set FPositionEncoding (VEnc 16) s in
  match general (cl c) with
  | None => s
  | Some g =>
    match position_encodings g with
    | None => s
    | Some encodings =>
      match find supported_encoding encodings with
      | Some e => set FPositionEncoding (VEnc e) s
      | None => s
      end
    end
  end.

(* ---- build(): the chain, as data, so that the generated table can be compared with it ---- *)
Inductive wname :=
| W_text_document_sync | W_notebook_document_sync | W_completion | W_hover | W_signature_help
| W_declaration | W_definition | W_type_definition | W_inlay_hints | W_implementation
| W_references | W_document_highlight | W_document_symbol | W_code_action | W_code_lens
| W_document_link | W_color | W_document_formatting | W_document_range_formatting
| W_document_on_type_formatting | W_rename | W_folding_range | W_execute_command
| W_selection_range | W_call_hierarchy | W_type_hierarchy | W_semantic_tokens
| W_linked_editing_range | W_moniker | W_workspace_symbol | W_workspace_capabilities
| W_diagnostic_provider | W_inline_value_provider | W_position_encodings.

Definition run_with (w : wname) : config -> st -> st :=
  match w with
  | W_text_document_sync => with_text_document_sync
  | W_notebook_document_sync => with_notebook_document_sync
  | W_completion => with_completion | W_hover => with_hover
  | W_signature_help => with_signature_help | W_declaration => with_declaration
  | W_definition => with_definition | W_type_definition => with_type_definition
  | W_inlay_hints => with_inlay_hints | W_implementation => with_implementation
  | W_references => with_references | W_document_highlight => with_document_highlight
  | W_document_symbol => with_document_symbol | W_code_action => with_code_action
  | W_code_lens => with_code_lens | W_document_link => with_document_link
  | W_color => with_color | W_document_formatting => with_document_formatting
  | W_document_range_formatting => with_document_range_formatting
  | W_document_on_type_formatting => with_document_on_type_formatting
  | W_rename => with_rename | W_folding_range => with_folding_range
  | W_execute_command => with_execute_command | W_selection_range => with_selection_range
  | W_call_hierarchy => with_call_hierarchy | W_type_hierarchy => with_type_hierarchy
  | W_semantic_tokens => with_semantic_tokens
  | W_linked_editing_range => with_linked_editing_range | W_moniker => with_moniker
  | W_workspace_symbol => with_workspace_symbol
  | W_workspace_capabilities => with_workspace_capabilities
  | W_diagnostic_provider => with_diagnostic_provider
  | W_inline_value_provider => with_inline_value_provider
  | W_position_encodings => with_position_encodings
  end.

(* which method constants each _with_* mentions (compared with the reflected table) *)
Definition with_mentions (w : wname) : list method :=
  match w with
  | W_text_document_sync => [TEXT_DOCUMENT_DID_OPEN; TEXT_DOCUMENT_DID_CLOSE; TEXT_DOCUMENT_WILL_SAVE;
                             TEXT_DOCUMENT_WILL_SAVE_WAIT_UNTIL; TEXT_DOCUMENT_DID_SAVE]
  | W_notebook_document_sync => []
  | W_completion => [TEXT_DOCUMENT_COMPLETION; COMPLETION_ITEM_RESOLVE]
  | W_hover => [TEXT_DOCUMENT_HOVER]
  | W_signature_help => [TEXT_DOCUMENT_SIGNATURE_HELP]
  | W_declaration => [TEXT_DOCUMENT_DECLARATION]
  | W_definition => [TEXT_DOCUMENT_DEFINITION]
  | W_type_definition => [TEXT_DOCUMENT_TYPE_DEFINITION]
  | W_inlay_hints => [TEXT_DOCUMENT_INLAY_HINT; INLAY_HINT_RESOLVE]
  | W_implementation => [TEXT_DOCUMENT_IMPLEMENTATION]
  | W_references => [TEXT_DOCUMENT_REFERENCES]
  | W_document_highlight => [TEXT_DOCUMENT_DOCUMENT_HIGHLIGHT]
  | W_document_symbol => [TEXT_DOCUMENT_DOCUMENT_SYMBOL]
  | W_code_action => [TEXT_DOCUMENT_CODE_ACTION; CODE_ACTION_RESOLVE]
  | W_code_lens => [TEXT_DOCUMENT_CODE_LENS; CODE_LENS_RESOLVE]
  | W_document_link => [TEXT_DOCUMENT_DOCUMENT_LINK; DOCUMENT_LINK_RESOLVE]
  | W_color => [TEXT_DOCUMENT_DOCUMENT_COLOR]
  | W_document_formatting => [TEXT_DOCUMENT_FORMATTING]
  | W_document_range_formatting => [TEXT_DOCUMENT_RANGE_FORMATTING]
  | W_document_on_type_formatting => [TEXT_DOCUMENT_ON_TYPE_FORMATTING]
  | W_rename => [TEXT_DOCUMENT_RENAME; TEXT_DOCUMENT_PREPARE_RENAME]
  | W_folding_range => [TEXT_DOCUMENT_FOLDING_RANGE]
  | W_execute_command => []
  | W_selection_range => [TEXT_DOCUMENT_SELECTION_RANGE]
  | W_call_hierarchy => [TEXT_DOCUMENT_PREPARE_CALL_HIERARCHY]
  | W_type_hierarchy => [TEXT_DOCUMENT_PREPARE_TYPE_HIERARCHY]
  | W_semantic_tokens => [TEXT_DOCUMENT_SEMANTIC_TOKENS_FULL; TEXT_DOCUMENT_SEMANTIC_TOKENS_FULL_DELTA;
                          TEXT_DOCUMENT_SEMANTIC_TOKENS_RANGE]
  | W_linked_editing_range => [TEXT_DOCUMENT_LINKED_EDITING_RANGE]
  | W_moniker => [TEXT_DOCUMENT_MONIKER]
  | W_workspace_symbol => [WORKSPACE_SYMBOL; WORKSPACE_SYMBOL_RESOLVE]
  | W_workspace_capabilities => [WORKSPACE_WILL_CREATE_FILES; WORKSPACE_DID_CREATE_FILES;
                                 WORKSPACE_WILL_DELETE_FILES; WORKSPACE_DID_DELETE_FILES;
                                 WORKSPACE_WILL_RENAME_FILES; WORKSPACE_DID_RENAME_FILES]
  | W_diagnostic_provider => [TEXT_DOCUMENT_DIAGNOSTIC; WORKSPACE_DIAGNOSTIC]
  | W_inline_value_provider => [TEXT_DOCUMENT_INLINE_VALUE]
  | W_position_encodings => []
  end.

Definition build_chain : list wname :=
  [ W_text_document_sync; W_notebook_document_sync; W_completion; W_hover; W_signature_help;
    W_declaration; W_definition; W_type_definition; W_inlay_hints; W_implementation;
    W_references; W_document_highlight; W_document_symbol; W_code_action; W_code_lens;
    W_document_link; W_color; W_document_formatting; W_document_range_formatting;
    W_document_on_type_formatting; W_rename; W_folding_range; W_execute_command;
    W_selection_range; W_call_hierarchy; W_type_hierarchy; W_semantic_tokens;
    W_linked_editing_range; W_moniker; W_workspace_symbol; W_workspace_capabilities;
    W_diagnostic_provider; W_inline_value_provider; W_position_encodings ].

(* types.ServerCapabilities(): every attribute None *)
Definition init (c : config) : st := {| prov := fun _ => VNone; heap := heap0 c |}.

Definition build (c : config) : st :=
  fold_left (fun s w => run_with w c s) build_chain (init c).

(* What goes on the wire: a reference is serialised as the object is at that moment (after
   every write of the builder). *)
Definition observe (s : st) (f : field) : value :=
  match prov s f with
  | VRef i => VObj i (o_resolve (heap s i)) (o_wsdiag (heap s i))
  | v => v
  end.

(* ------------------------------------------------------------------------------------------ *)
(* lsp_initialize: features = user features + built-in features; the workspace is created with
   server_capabilities.position_encoding. *)
Definition builtin (m : method) : bool :=
  match m with
  | TEXT_DOCUMENT_DID_OPEN | TEXT_DOCUMENT_DID_CLOSE | TEXT_DOCUMENT_DID_CHANGE
  | NOTEBOOK_DOCUMENT_DID_OPEN | NOTEBOOK_DOCUMENT_DID_CHANGE | NOTEBOOK_DOCUMENT_DID_CLOSE
  | WORKSPACE_EXECUTE_COMMAND | WORKSPACE_DID_CHANGE_WORKSPACE_FOLDERS => true
  | _ => false      (* initialize, shutdown, exit, $/setTrace, ... are MOther: never looked at *)
  end.

Definition with_builtins (c : config) : config :=
  {| reg := fun m => reg c m || builtin m; opt := opt c; heap0 := heap0 c;
     commands := commands c; sync_kind := sync_kind c; nb_sync := nb_sync c; cl := cl c |}.

Record init_result := { server_capabilities : st; workspace_encoding : value }.

Definition lsp_initialize (c : config) : init_result :=
  let caps := build (with_builtins c) in
  {| server_capabilities := caps; workspace_encoding := prov caps FPositionEncoding |}.

(* ------------------------------------------------------------------------------------------ *)
(* Driver-facing constructor: a configuration from finite data.  feats = (method code, object
   identity or 0) in registration order; objects are numbered from 1. *)
Definition default_obj : obj := {| o_resolve := None; o_wsdiag := None; o_isreg := false |}.
Definition config_of (feats : list (N * N)) (objs : list obj) (cmds : list N)
                     (sk nb : option N) (cli : client) : config :=
  {| reg := fun m => existsb (fun p => fst p =? method_code m) feats;
     opt := fun m => match find (fun p => fst p =? method_code m) feats with
                     | Some (_, k) => if k =? 0 then None else Some k
                     | None => None
                     end;
     heap0 := fun i => if i =? 0 then default_obj else nth (N.to_nat (i - 1)) objs default_obj;
     commands := cmds; sync_kind := sk; nb_sync := nb; cl := cli |}.
Definition fileop_table (a b c d e f : option bool) (o : fileop) : option bool :=
  match o with OpWillCreate => a | OpDidCreate => b | OpWillDelete => c | OpDidDelete => d
             | OpWillRename => e | OpDidRename => f end.

(* A session: the same server receives `initialize` several times.  lsp_initialize reads the
   registry, the server's settings and THIS request's client capabilities, builds the capabilities
   anew and replaces the workspace; it reads nothing an earlier initialize left behind.  So the
   k-th result is lsp_initialize of the k-th inputs - the model has no state in which an earlier
   initialize could survive (that the code has none either is what the session cases of the
   correspondence run check). *)
Definition session (cs : list config) : list init_result := map lsp_initialize cs.
