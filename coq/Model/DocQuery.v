(* Model of the read-only consumers of a converted position in
   pygls/workspace/text_document.py: TextDocument.offset_at_position and
   TextDocument.word_at_position (with the default RE_START_WORD / RE_END_WORD).
   Function for function; faithful, not idealised.  No proofs here.
   The document is given by its source text (TextDocument.lines = lsp_lines source). *)
From Pygls Require Export Base.PyStr Model.Codec.
Open Scope N_scope.

(* sum(self._position_codec.client_num_units(line) for line in <lines>) *)
Fixpoint sum_units (e : encoding) (ls : list (list N)) : N :=
  match ls with [] => 0 | x :: r => client_num_units e x + sum_units e r end.

(* TextDocument.offset_at_position:
     lines = self.lines
     row, col = position_from_client_units(lines, client_position)
     return col + sum(client_num_units(line) for line in lines[:row])          *)
Definition offset_at_position (e : encoding) (src : list N) (p : N * N) : N :=
  let ls := lsp_lines src in
  let '(row, col) := fst (position_from_client_units e ls p) in
  col + sum_units e (take row ls).

(* the character class [A-Za-z_0-9] *)
Definition is_word (c : N) : bool :=
  ((65 <=? c) && (c <=? 90)) || ((97 <=? c) && (c <=? 122)) || (c =? 95) || ((48 <=? c) && (c <=? 57)).

(* [A-Za-z_0-9]* matched greedily at the start of s: what it consumes / what is left *)
Fixpoint word_prefix (s : list N) : list N :=
  match s with [] => [] | c :: r => if is_word c then c :: word_prefix r else [] end.
Fixpoint skip_word (s : list N) : list N :=
  match s with [] => [] | c :: r => if is_word c then skip_word r else s end.

(* `$` (no MULTILINE): at the end of the string, or just before a final LF *)
Definition at_dollar (rest : list N) : bool :=
  match rest with [] => true | [c] => c =? 10 | _ => false end.

(* RE_START_WORD = "[A-Za-z_0-9]*$";  RE_START_WORD.findall(s)[0]: the scan tries each start
   position from the left; at a position the greedy run of word characters must end at `$`
   (giving back characters cannot help: `$` does not match before a word character).  The empty
   match at the end of the string always exists, so findall(...)[0] never raises. *)
Fixpoint start_word_first (s : list N) : list N :=
  match s with
  | [] => []
  | _ :: r => if at_dollar (skip_word s) then word_prefix s else start_word_first r
  end.

(* RE_END_WORD = "^[A-Za-z_0-9]*";  RE_END_WORD.findall(s)[-1]: `^` (no MULTILINE) matches at
   position 0 only, so findall has exactly one element: the greedy run at the start. *)
Definition end_word_last (s : list N) : list N := word_prefix s.

(* TextDocument.word_at_position with the default patterns:
     lines = self.lines
     if client_position.line >= len(lines): return ""
     row, col = position_from_client_units(lines, client_position)
     line = lines[row]
     return RE_START_WORD.findall(line[:col])[0] + RE_END_WORD.findall(line[col:])[-1]   *)
Definition word_at_position (e : encoding) (src : list N) (p : N * N) : list N :=
  let ls := lsp_lines src in
  if len ls <=? fst p then []
  else
    let '(row, col) := fst (position_from_client_units e ls p) in
    let line := nth (N.to_nat row) ls [] in
    start_word_first (take col line) ++ end_word_last (drop col line).
