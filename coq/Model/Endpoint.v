(* Model/Endpoint.v - the INCOMING side of the pygls JSON-RPC / LSP endpoint as a state machine.

   The model describes the code AFTER the repairs of DESIGN.md section 6 (rows 3, 4, 6, 8, 10, 11,
   19, 28) and is faithful to what stays broken (row 18: thread handler + awaitable writer).
   No proofs here.  `step` is total: an event that is not enabled is a no-op, so every `list ev`
   is a schedule and `run c evs = fold_left (step c) evs init`.

   Which Python each definition transliterates (paths relative to pygls/):
     recv                 io_.run_async / io_.run: the per-message try / except / finally
                          (`json.loads(body, object_hook=protocol.structure_message)`,
                          `protocol.handle_message`, `error_handler(exc, JsonRpcException)`)
     structure (in recv)  protocol/json_rpc.py JsonRPCProtocol.structure_message + _reject_request
                          (classification by members, `_result_types.pop`, -32602 / -32603 answer
                          to a request that cannot be deserialised, then re-raise)
     handle_message       JsonRPCProtocol.handle_message (version gate, shutdown gate, dispatch)
     handle_request       JsonRPCProtocol._handle_request (+ _get_handler: built-in first)
     on_exc               the three `except` branches of _handle_request
     execute_request      JsonRPCProtocol._execute_request
     request_callback     JsonRPCProtocol._execute_request_callback (pop in `finally`)
     exec_notification    JsonRPCProtocol._execute_notification
     notification_callback  JsonRPCProtocol._execute_notification_callback
     handle_notification  JsonRPCProtocol._handle_notification
     cancel_notification  JsonRPCProtocol._handle_cancel_notification (pop, then cancel)
     cancel_ref           asyncio.Task.cancel / concurrent.futures.Future.cancel (see DESIGN section 2)
     handle_response      JsonRPCProtocol._handle_response (minimal: see Model/Outgoing.v)
     send_response        JsonRPCProtocol._send_response
     send_data            JsonRPCProtocol._send_data
     write_call           `self.writer.write(data)` + `asyncio.ensure_future(res)` for awaitables
     hook                 server.JsonRPCServer._report_server_error (swallows what the hook raises)
                          around lsp/server.LanguageServer.report_server_error (default: nothing for
                          FeatureRequestError, else window/showMessage) or a user override
     chain                protocol/lsp_meta.call_user_feature (built-in, then the user feature
                          through _execute_notification, its exceptions swallowed)
     lsp_shutdown         protocol/language_server.LanguageServerProtocol.lsp_shutdown (snapshot)
     lsp_exit             LanguageServerProtocol.lsp_exit
     RCommand branch      LanguageServerProtocol.lsp_workspace__execute_command
     task_step            one `Task.__step` of a handler coroutine (asyncio, modelled)
     job_start/job_finish one work item of the thread pool (concurrent.futures, modelled)
     write_step           first step of the task created by ensure_future(writer.write(..)/close())
     user_send            JsonRPCProtocol.send_request with an explicit msg_id (minimal)

   Abstractions. A frame is described by what the code can observe of it: its class
   (request / notification / response / garbage), id with its JSON type, whether `jsonrpc` is "2.0",
   whether structuring succeeds (`POk`), fails validation (`PBad`, ClassValidationError) or fails
   otherwise (`PFail`), the method class, and - for handlers, which are user code - the behaviour
   the handler will show: kind (sync / async with n suspension points / thread, and whether a
   thread job completes inside `submit`, i.e. before the done-callback is attached), outcome, and
   reaction to a CancelledError thrown in at a suspension point. Values are integers. *)
From Coq Require Import ZArith NArith List Bool.
From Pygls Require Import Base.Assoc.
Import ListNotations.
Local Open Scope Z_scope.

(* ---------------------------------------------------------------- identifiers *)
Inductive id := IInt (z : Z) | IStr (s : list N).

Fixpoint str_eqb (a b : list N) : bool :=
  match a, b with
  | [], [] => true
  | x :: a', y :: b' => N.eqb x y && str_eqb a' b'
  | _, _ => false
  end.

(* Python dict key equality on ids: 1 != "1" *)
Definition id_eqb (a b : id) : bool :=
  match a, b with
  | IInt x, IInt y => Z.eqb x y
  | IStr x, IStr y => str_eqb x y
  | _, _ => false
  end.

(* ---------------------------------------------------------------- error codes *)
Definition code_method_not_found : Z := -32601.
Definition code_invalid_params : Z := -32602.
Definition code_internal : Z := -32603.
Definition code_cancelled : Z := -32800.

(* ---------------------------------------------------------------- handlers *)
Inductive site := Loop | Pool.
Inductive kind := HSync | HAsync (n : nat) | HThread (early : bool).
Inductive outcome := ORet (v : Z) | ORetUnser | ORaise | ORaiseRpc (code : Z).
Inductive creact := Propagate | Swallow.
Record behav := mkB { bkind : kind; bout : outcome; breact : creact }.

(* what a finished future holds *)
Inductive fres := RCancelled | RVal (v : Z) | RUnser | RExc | RRpc (code : Z).
Definition res_of (o : outcome) : fres :=
  match o with ORet v => RVal v | ORetUnser => RUnser | ORaise => RExc | ORaiseRpc c => RRpc c end.

(* an exception leaving a synchronously executed handler *)
Inductive exc := XExc | XRpc (code : Z).
Definition exc_of (o : outcome) : option exc :=
  match o with ORet _ | ORetUnser => None | ORaise => Some XExc | ORaiseRpc c => Some (XRpc c) end.

(* ---------------------------------------------------------------- frames received *)
Inductive pstat := POk | PBad | PFail.

Inductive rmethod :=
| RUnknown                                         (* neither built-in nor user feature *)
| RUser (b : behav)                                (* user feature *)
| RShutdown (u : option behav)                     (* built-in `shutdown` (+ chained user feature) *)
| RBuiltin (fails : bool) (u : option behav)       (* other built-in request, e.g. `initialize` *)
| RCommand (c : option behav) (u : option behav).  (* workspace/executeCommand: known command or not *)

Inductive nmethod :=
| NUnknown
| NUser (b : behav)
| NCancel (i : id)                                 (* $/cancelRequest *)
| NExit (u : option behav)                         (* built-in `exit` *)
| NBuiltin (fails : bool) (u : option behav).      (* other built-in notification *)

Inductive frame :=
| FGarbage                                         (* not JSON / not an object / no `jsonrpc` member *)
| FReq (ver_ok : bool) (i : id) (ps : pstat) (m : rmethod)
| FNotif (ver_ok : bool) (tag : nat) (ps : pstat) (m : nmethod)
| FResp (ver_ok : bool) (i : id) (iserr : bool) (ps : pstat).

(* ---------------------------------------------------------------- frames written *)
Inductive rval := VNull | VInt (v : Z) | VObj.
Inductive payload := PResult (v : rval) | PError (code : Z).
Inductive onmeth := NShowMessage | NOther (k : nat).   (* NOther: a notification sent by user code (Model/Outgoing.v) *)
Inductive oframe := OResp (i : id) (p : payload) | ONotif (m : onmeth) | OReq (i : id).

(* ---------------------------------------------------------------- logs *)
Inductive who := WReq (i : id) | WNot (tag : nat).
Inductive part := PBuiltin | PUser | PCommand.
Inductive phase := HStart | HEnd | HCancel.
Record hentry := mkH { h_who : who; h_part : part; h_phase : phase; h_site : site }.

(* `source` argument of report_server_error *)
Inductive esrc := EFeatureRequest | EFeatureNotification | EJsonRpc | EInternal.

(* ---------------------------------------------------------------- futures *)
Inductive cbkind := CReq (i : id) | CNot.          (* the done-callback attached to a future *)

Inductive tstate :=
| TLive (started : bool) (left : nat) (must_cancel : bool)
| TDoneCb (r : fres)                               (* done, done-callback queued with call_soon *)
| TFin (r : fres).                                 (* done-callback has run *)
Record task := mkT { t_who : who; t_part : part; t_cb : cbkind; t_b : behav; t_st : tstate }.

Inductive jstate := JQueued | JRunning | JDone (r : fres) | JCancelled.
Record job := mkJ { j_who : who; j_part : part; j_cb : cbkind; j_b : behav; j_st : jstate }.

Inductive ostate := OPending | OCancelled | ODone. (* future handed to a send_request caller *)

Inductive fref := FTask (t : nat) | FJob (j : nat) | FOut (o : nat).

Inductive wentry := WFrame (f : oframe) | WClose (rc : Z).

(* ---------------------------------------------------------------- configuration *)
Inductive wkind := WBlocking | WAwaitable.
Inductive hookkind := HookDefault | HookQuiet | HookRaises.
Record cfg := mkCfg { c_writer : wkind; c_hook : hookkind; c_wfail : option nat }.

(* ---------------------------------------------------------------- state *)
Record st := mkSt {
  shutdown : bool;                  (* protocol._shutdown *)
  futs : list (id * fref);          (* protocol._request_futures (both directions) *)
  rtypes : list (id * unit);        (* protocol._result_types *)
  tasks : list task;                (* handler tasks, in creation order *)
  jobs : list job;                  (* pool work items, in submission order *)
  wq : list wentry;                 (* tasks created by ensure_future(writer.write / close), FIFO *)
  outg : list ostate;               (* futures of outgoing requests *)
  out : list oframe;                (* frames that reached the transport, in order *)
  hlog : list hentry;               (* handler log *)
  errs : list esrc;                 (* calls of report_server_error *)
  nwrites : nat;                    (* executed writer.write calls *)
  closed : bool;                    (* writer.close() executed *)
  exitq : list Z;                   (* queued `sys.exit` callbacks of awaitable closes *)
  exit : option Z;                  (* SystemExit raised with this status *)
  storm : bool;                     (* a failing write inside the default hook: unbounded re-reporting *)
  undef : bool }.                   (* outside the model: a peer response named an incoming pool job *)

Definition init : st :=
  mkSt false [] [] [] [] [] [] [] [] [] 0%nat false [] None false false.

Definition set_shutdown v s := mkSt v (futs s) (rtypes s) (tasks s) (jobs s) (wq s) (outg s) (out s) (hlog s) (errs s) (nwrites s) (closed s) (exitq s) (exit s) (storm s) (undef s).
Definition set_futs v s := mkSt (shutdown s) v (rtypes s) (tasks s) (jobs s) (wq s) (outg s) (out s) (hlog s) (errs s) (nwrites s) (closed s) (exitq s) (exit s) (storm s) (undef s).
Definition set_rtypes v s := mkSt (shutdown s) (futs s) v (tasks s) (jobs s) (wq s) (outg s) (out s) (hlog s) (errs s) (nwrites s) (closed s) (exitq s) (exit s) (storm s) (undef s).
Definition set_tasks v s := mkSt (shutdown s) (futs s) (rtypes s) v (jobs s) (wq s) (outg s) (out s) (hlog s) (errs s) (nwrites s) (closed s) (exitq s) (exit s) (storm s) (undef s).
Definition set_jobs v s := mkSt (shutdown s) (futs s) (rtypes s) (tasks s) v (wq s) (outg s) (out s) (hlog s) (errs s) (nwrites s) (closed s) (exitq s) (exit s) (storm s) (undef s).
Definition set_wq v s := mkSt (shutdown s) (futs s) (rtypes s) (tasks s) (jobs s) v (outg s) (out s) (hlog s) (errs s) (nwrites s) (closed s) (exitq s) (exit s) (storm s) (undef s).
Definition set_outg v s := mkSt (shutdown s) (futs s) (rtypes s) (tasks s) (jobs s) (wq s) v (out s) (hlog s) (errs s) (nwrites s) (closed s) (exitq s) (exit s) (storm s) (undef s).
Definition set_out v s := mkSt (shutdown s) (futs s) (rtypes s) (tasks s) (jobs s) (wq s) (outg s) v (hlog s) (errs s) (nwrites s) (closed s) (exitq s) (exit s) (storm s) (undef s).
Definition set_hlog v s := mkSt (shutdown s) (futs s) (rtypes s) (tasks s) (jobs s) (wq s) (outg s) (out s) v (errs s) (nwrites s) (closed s) (exitq s) (exit s) (storm s) (undef s).
Definition set_errs v s := mkSt (shutdown s) (futs s) (rtypes s) (tasks s) (jobs s) (wq s) (outg s) (out s) (hlog s) v (nwrites s) (closed s) (exitq s) (exit s) (storm s) (undef s).
Definition set_nwrites v s := mkSt (shutdown s) (futs s) (rtypes s) (tasks s) (jobs s) (wq s) (outg s) (out s) (hlog s) (errs s) v (closed s) (exitq s) (exit s) (storm s) (undef s).
Definition set_closed v s := mkSt (shutdown s) (futs s) (rtypes s) (tasks s) (jobs s) (wq s) (outg s) (out s) (hlog s) (errs s) (nwrites s) v (exitq s) (exit s) (storm s) (undef s).
Definition set_exitq v s := mkSt (shutdown s) (futs s) (rtypes s) (tasks s) (jobs s) (wq s) (outg s) (out s) (hlog s) (errs s) (nwrites s) (closed s) v (exit s) (storm s) (undef s).
Definition set_exit v s := mkSt (shutdown s) (futs s) (rtypes s) (tasks s) (jobs s) (wq s) (outg s) (out s) (hlog s) (errs s) (nwrites s) (closed s) (exitq s) v (storm s) (undef s).
Definition set_storm v s := mkSt (shutdown s) (futs s) (rtypes s) (tasks s) (jobs s) (wq s) (outg s) (out s) (hlog s) (errs s) (nwrites s) (closed s) (exitq s) (exit s) v (undef s).
Definition set_undef v s := mkSt (shutdown s) (futs s) (rtypes s) (tasks s) (jobs s) (wq s) (outg s) (out s) (hlog s) (errs s) (nwrites s) (closed s) (exitq s) (exit s) (storm s) v.

Definition snoc {A : Type} (l : list A) (x : A) : list A := l ++ [x].

Fixpoint upd_nth {A : Type} (n : nat) (f : A -> A) (l : list A) : list A :=
  match l, n with
  | [], _ => []
  | x :: r, O => f x :: r
  | x :: r, S n' => x :: upd_nth n' f r
  end.

Definition add_out f s := set_out (snoc (out s) f) s.
Definition add_wq w s := set_wq (snoc (wq s) w) s.
Definition add_err e s := set_errs (snoc (errs s) e) s.
Definition log w p ph sv s := set_hlog (snoc (hlog s) (mkH w p ph sv)) s.

Definition set_task_st (t : nat) (x : tstate) s :=
  set_tasks (upd_nth t (fun tk => mkT (t_who tk) (t_part tk) (t_cb tk) (t_b tk) x) (tasks s)) s.
Definition set_job_st (j : nat) (x : jstate) s :=
  set_jobs (upd_nth j (fun jb => mkJ (j_who jb) (j_part jb) (j_cb jb) (j_b jb) x) (jobs s)) s.
Definition set_outg_st (o : nat) (x : ostate) s :=
  set_outg (upd_nth o (fun _ => x) (outg s)) s.

Definition fut_set (i : id) (r : fref) s := set_futs (Assoc.set id_eqb i r (futs s)) s.
Definition fut_pop (i : id) s := set_futs (Assoc.remove id_eqb i (futs s)) s.
Definition rtype_pop (i : id) s := set_rtypes (Assoc.remove id_eqb i (rtypes s)) s.

(* ---------------------------------------------------------------- writing *)
Definition failing (c : cfg) (n : nat) : bool :=
  match c_wfail c with Some k => Nat.leb k n | None => false end.

(* the body of one write: a closed or failing transport raises *)
Definition do_write (c : cfg) (f : oframe) (s : st) : st * bool :=
  if closed s then (s, false)
  else
    let s1 := set_nwrites (S (nwrites s)) s in
    if failing c (nwrites s) then (s1, false) else (add_out f s1, true).

(* `res = self.writer.write(data); if inspect.isawaitable(res): asyncio.ensure_future(res)`
   called on thread `sv`; false = an exception was raised inside _send_data's try block *)
Definition write_call (c : cfg) (sv : site) (f : oframe) (s : st) : st * bool :=
  match c_writer c with
  | WBlocking => do_write c f s
  | WAwaitable =>
      match sv with
      | Loop => (add_wq (WFrame f) s, true)
      | Pool => (s, false)            (* RuntimeError: no current event loop in this thread *)
      end
  end.

(* _report_server_error(error, source) called on thread `sv` *)
Definition hook (c : cfg) (sv : site) (src : esrc) (s : st) : st :=
  let s1 := add_err src s in
  match c_hook c with
  | HookQuiet => s1
  | HookRaises => s1                  (* the exception of the hook is swallowed *)
  | HookDefault =>
      match src with
      | EFeatureRequest => s1
      | _ =>                          (* window_show_message -> notify -> _send_data *)
          let (s2, ok) := write_call c sv (ONotif NShowMessage) s1 in
          if ok then s2 else set_storm true s2
      end
  end.

(* _send_data(data): returns false iff the Python returns False (serialisation failed) *)
Definition send_data (c : cfg) (sv : site) (f : oframe) (ser_ok : bool) (s : st) : st * bool :=
  if negb ser_ok then (hook c sv EInternal s, false)
  else
    let (s1, ok) := write_call c sv f s in
    (if ok then s1 else hook c sv EInternal s1, true).

Inductive reply := RpError (code : Z) | RpResult (v : rval) (ser_ok : bool).

(* _send_response(msg_id, result, error) *)
Definition send_response (c : cfg) (sv : site) (i : id) (r : reply) (s : st) : st :=
  match r with
  | RpError code => fst (send_data c sv (OResp i (PError code)) true s)
  | RpResult v ser_ok =>
      let s1 := rtype_pop i s in
      let (s2, ok) := send_data c sv (OResp i (PResult v)) ser_ok s1 in
      if ok then s2 else fst (send_data c sv (OResp i (PError code_internal)) true s2)
  end.

(* ---------------------------------------------------------------- callbacks *)
Definition request_callback (c : cfg) (sv : site) (i : id) (r : fres) (s : st) : st :=
  let s1 :=
    match r with
    | RCancelled => send_response c sv i (RpError code_cancelled) s
    | RVal v => send_response c sv i (RpResult (VInt v) true) s
    | RUnser => send_response c sv i (RpResult VObj false) s
    | RRpc code => hook c sv EFeatureRequest (send_response c sv i (RpError code) s)
    | RExc => hook c sv EFeatureRequest (send_response c sv i (RpError code_internal) s)
    end in
  fut_pop i s1.

Definition notification_callback (c : cfg) (sv : site) (r : fres) (s : st) : st :=
  match r with
  | RExc | RRpc _ => hook c sv EFeatureNotification s
  | _ => s
  end.

Definition run_cb (c : cfg) (sv : site) (cb : cbkind) (r : fres) (s : st) : st :=
  match cb with
  | CReq i => request_callback c sv i r s
  | CNot => notification_callback c sv r s
  end.

(* future.cancel() called on the loop thread *)
Definition cancel_ref (c : cfg) (r : fref) (s : st) : st :=
  match r with
  | FTask t =>
      match nth_error (tasks s) t with
      | Some tk =>
          match t_st tk with
          | TLive st l _ => set_task_st t (TLive st l true) s
          | _ => s
          end
      | None => s
      end
  | FJob j =>
      match nth_error (jobs s) j with
      | Some jb =>
          match j_st jb with
          | JQueued => run_cb c Loop (j_cb jb) RCancelled (set_job_st j JCancelled s)
          | _ => s
          end
      | None => s
      end
  | FOut o =>
      match nth_error (outg s) o with
      | Some OPending => set_outg_st o OCancelled s
      | _ => s
      end
  end.

(* ---------------------------------------------------------------- starting handlers *)
Definition new_task (w : who) (p : part) (cb : cbkind) (b : behav) (n : nat) (s : st) : st :=
  set_tasks (snoc (tasks s) (mkT w p cb b (TLive false n false))) s.

Definition new_job (w : who) (p : part) (cb : cbkind) (b : behav) (x : jstate) (s : st) : st :=
  set_jobs (snoc (jobs s) (mkJ w p cb b x)) s.

(* thread_pool.submit(handler, ..) followed by future.add_done_callback(cb); `reg` is what the
   caller does with the future in between (request: futs[id] = future) *)
Definition submit (c : cfg) (w : who) (p : part) (cb : cbkind) (b : behav) (early : bool)
                  (reg : nat -> st -> st) (s : st) : st :=
  let j := length (jobs s) in
  if early then
    (* the work item ran to completion before the callback is attached: the callback runs at
       once, on the calling (loop) thread *)
    let r := res_of (bout b) in
    let s1 := log w p HEnd Pool (log w p HStart Pool (new_job w p cb b (JDone r) s)) in
    run_cb c Loop cb r (reg j s1)
  else reg j (new_job w p cb b JQueued s).

(* _execute_request(msg_id, handler, params); Some x = the exception that leaves it *)
Definition execute_request (c : cfg) (i : id) (p : part) (b : behav) (s : st) : st * option exc :=
  match bkind b with
  | HAsync n =>
      let t := length (tasks s) in
      (fut_set i (FTask t) (new_task (WReq i) p (CReq i) b n s), None)
  | HThread early =>
      (submit c (WReq i) p (CReq i) b early (fun j => fut_set i (FJob j)) s, None)
  | HSync =>
      let s1 := log (WReq i) p HEnd Loop (log (WReq i) p HStart Loop s) in
      match bout b with
      | ORet v => (send_response c Loop i (RpResult (VInt v) true) s1, None)
      | ORetUnser => (send_response c Loop i (RpResult VObj false) s1, None)
      | ORaise => (s1, Some XExc)
      | ORaiseRpc code => (s1, Some (XRpc code))
      end
  end.

(* _execute_notification(handler, *params) *)
Definition exec_notification (c : cfg) (w : who) (p : part) (b : behav) (s : st) : st * option exc :=
  match bkind b with
  | HAsync n => (new_task w p CNot b n s, None)
  | HThread early => (submit c w p CNot b early (fun _ s' => s') s, None)
  | HSync => (log w p HEnd Loop (log w p HStart Loop s), exc_of (bout b))
  end.

(* call_user_feature: the user feature registered under a built-in's name runs after it, through
   _execute_notification; whatever it raises synchronously is only logged *)
Definition chain (c : cfg) (w : who) (u : option behav) (s : st) : st :=
  match u with
  | None => s
  | Some b => fst (exec_notification c w PUser b s)
  end.

(* the except branches of _handle_request *)
Definition on_exc (c : cfg) (i : id) (x : option exc) (s : st) : st :=
  match x with
  | None => s
  | Some XExc => hook c Loop EFeatureRequest (send_response c Loop i (RpError code_internal) s)
  | Some (XRpc code) => hook c Loop EFeatureRequest (send_response c Loop i (RpError code) s)
  end.

Definition lsp_shutdown (c : cfg) (s : st) : st :=
  set_shutdown true (fold_left (fun s' r => cancel_ref c r s') (values (futs s)) s).

Definition handle_request (c : cfg) (i : id) (m : rmethod) (s : st) : st :=
  match m with
  | RUnknown =>
      hook c Loop EFeatureRequest (send_response c Loop i (RpError code_method_not_found) s)
  | RUser b =>
      let (s1, x) := execute_request c i PUser b s in on_exc c i x s1
  | RShutdown u =>
      let s1 := log (WReq i) PBuiltin HStart Loop s in
      let s2 := log (WReq i) PBuiltin HEnd Loop (lsp_shutdown c s1) in
      send_response c Loop i (RpResult VNull true) (chain c (WReq i) u s2)
  | RBuiltin fails u =>
      let s1 := log (WReq i) PBuiltin HEnd Loop (log (WReq i) PBuiltin HStart Loop s) in
      if fails then on_exc c i (Some XExc) s1
      else send_response c Loop i (RpResult VObj true) (chain c (WReq i) u s1)
  | RCommand cmd u =>
      let s1 := log (WReq i) PBuiltin HStart Loop s in
      match cmd with
      | None => on_exc c i (Some XExc) (log (WReq i) PBuiltin HEnd Loop s1)   (* KeyError *)
      | Some b =>
          let (s2, x) := execute_request c i PCommand b s1 in
          let s3 := log (WReq i) PBuiltin HEnd Loop s2 in
          match x with
          | Some _ => on_exc c i x s3
          | None => chain c (WReq i) u s3
          end
      end
  end.

Definition cancel_notification (c : cfg) (i : id) (s : st) : st :=
  match Assoc.get id_eqb i (futs s) with
  | Some r => cancel_ref c r (fut_pop i s)
  | None => s
  end.

(* lsp_exit; the SystemExit of the blocking branch leaves every frame up to the event loop *)
Definition lsp_exit (c : cfg) (w : who) (u : option behav) (s : st) : st :=
  let rc := if shutdown s then 0 else 1 in
  let s1 := log w PBuiltin HStart Loop s in
  match c_writer c with
  | WBlocking => set_exit (Some rc) (set_closed true s1)
  | WAwaitable => chain c w u (log w PBuiltin HEnd Loop (add_wq (WClose rc) s1))
  end.

Definition handle_notification (c : cfg) (tag : nat) (m : nmethod) (s : st) : st :=
  match m with
  | NCancel i => cancel_notification c i s
  | NUnknown => s
  | NUser b =>
      let (s1, x) := exec_notification c (WNot tag) PUser b s in
      match x with
      | Some _ => hook c Loop EFeatureNotification s1
      | None => s1
      end
  | NExit u => lsp_exit c (WNot tag) u s
  | NBuiltin fails u =>
      let s1 := log (WNot tag) PBuiltin HEnd Loop (log (WNot tag) PBuiltin HStart Loop s) in
      if fails then hook c Loop EFeatureNotification s1 else chain c (WNot tag) u s1
  end.

(* _handle_response; the exceptions it lets escape are reported by the read loop *)
Definition handle_response (c : cfg) (i : id) (s : st) : st :=
  match Assoc.get id_eqb i (futs s) with
  | None => hook c Loop EJsonRpc s
  | Some r =>
      let s1 := fut_pop i s in
      match r with
      | FOut o =>
          match nth_error (outg s1) o with
          | Some OPending => set_outg_st o ODone s1
          | _ => hook c Loop EJsonRpc s1          (* InvalidStateError *)
          end
      | FTask _ => hook c Loop EJsonRpc s1         (* Task does not support set_result *)
      | FJob _ => set_undef true (hook c Loop EJsonRpc s1)
      end
  end.

Definition is_exit (m : nmethod) : bool := match m with NExit _ => true | _ => false end.

(* one frame through structure_message + handle_message inside the read loop's try *)
Definition recv (c : cfg) (f : frame) (s : st) : st :=
  match f with
  | FGarbage => hook c Loop EJsonRpc s
  | FReq ver_ok i ps m =>
      match ps with
      | PBad => hook c Loop EJsonRpc (send_response c Loop i (RpError code_invalid_params) s)
      | PFail => hook c Loop EJsonRpc (send_response c Loop i (RpError code_internal) s)
      | POk =>
          if negb ver_ok then hook c Loop EJsonRpc s
          else if shutdown s then s
          else handle_request c i m s
      end
  | FNotif ver_ok tag ps m =>
      match ps with
      | POk =>
          if negb ver_ok then hook c Loop EJsonRpc s
          else if shutdown s && negb (is_exit m) then s
          else handle_notification c tag m s
      | _ => hook c Loop EJsonRpc s
      end
  | FResp ver_ok i iserr ps =>
      (* an error response pops _result_types[id] if present, a result response needs it *)
      let known := Assoc.mem id_eqb i (rtypes s) in
      let s1 := rtype_pop i s in
      if negb iserr && negb known then hook c Loop EJsonRpc s1       (* KeyError *)
      else
        match ps with
        | POk =>
            if negb ver_ok then hook c Loop EJsonRpc s1
            else if shutdown s1 then s1
            else handle_response c i s1
        | _ => hook c Loop EJsonRpc s1
        end
  end.

(* ---------------------------------------------------------------- the other events *)
Definition task_finish (t : nat) (tk : task) (s : st) : st :=
  set_task_st t (TDoneCb (res_of (bout (t_b tk)))) (log (t_who tk) (t_part tk) HEnd Loop s).

Definition task_advance (t : nat) (tk : task) (started : bool) (lft : nat) (s : st) : st :=
  let s1 := if started then s else log (t_who tk) (t_part tk) HStart Loop s in
  match lft with
  | O => task_finish t tk s1
  | S l => set_task_st t (TLive true l false) s1
  end.

Definition task_step (t : nat) (s : st) : st :=
  match nth_error (tasks s) t with
  | None => s
  | Some tk =>
      match t_st tk with
      | TLive started lft mc =>
          if mc then
            if negb started then set_task_st t (TDoneCb RCancelled) s   (* the coroutine never starts *)
            else
              let s1 := log (t_who tk) (t_part tk) HCancel Loop s in
              match breact (t_b tk) with
              | Propagate => set_task_st t (TDoneCb RCancelled) s1
              | Swallow => task_advance t tk true lft s1
              end
          else task_advance t tk started lft s
      | _ => s
      end
  end.

Definition loop_cb (c : cfg) (t : nat) (s : st) : st :=
  match nth_error (tasks s) t with
  | Some tk =>
      match t_st tk with
      | TDoneCb r => run_cb c Loop (t_cb tk) r (set_task_st t (TFin r) s)
      | _ => s
      end
  | None => s
  end.

Definition job_start (j : nat) (s : st) : st :=
  match nth_error (jobs s) j with
  | Some jb =>
      match j_st jb with
      | JQueued => log (j_who jb) (j_part jb) HStart Pool (set_job_st j JRunning s)
      | _ => s
      end
  | None => s
  end.

Definition job_finish (c : cfg) (j : nat) (s : st) : st :=
  match nth_error (jobs s) j with
  | Some jb =>
      match j_st jb with
      | JRunning =>
          let r := res_of (bout (j_b jb)) in
          run_cb c Pool (j_cb jb) r (set_job_st j (JDone r) (log (j_who jb) (j_part jb) HEnd Pool s))
      | _ => s
      end
  | None => s
  end.

Definition write_step (c : cfg) (s : st) : st :=
  match wq s with
  | [] => s
  | WFrame f :: r => fst (do_write c f (set_wq r s))   (* a failure stays inside the write task *)
  | WClose rc :: r => set_exitq (snoc (exitq s) rc) (set_closed true (set_wq r s))
  end.

Definition exit_cb (s : st) : st :=
  match exitq s with
  | [] => s
  | rc :: r => set_exit (Some rc) (set_exitq r s)
  end.

(* send_request(method, params, msg_id=i) called on the loop thread *)
Definition user_send (c : cfg) (i : id) (s : st) : st :=
  let o := length (outg s) in
  let s1 := set_outg (snoc (outg s) OPending) s in
  let s2 := set_rtypes (Assoc.set id_eqb i tt (rtypes s1)) (fut_set i (FOut o) s1) in
  fst (send_data c Loop (OReq i) true s2).

Inductive ev :=
| Recv (f : frame)
| TaskStep (t : nat)
| LoopCb (t : nat)
| JobStart (j : nat)
| JobFinish (j : nat)
| WriteStep
| ExitCb
| UserSend (i : id).

Definition step (c : cfg) (s : st) (e : ev) : st :=
  match exit s with
  | Some _ => s                       (* the process is gone *)
  | None =>
      match e with
      | Recv f => recv c f s
      | TaskStep t => task_step t s
      | LoopCb t => loop_cb c t s
      | JobStart j => job_start j s
      | JobFinish j => job_finish c j s
      | WriteStep => write_step c s
      | ExitCb => exit_cb s
      | UserSend i => user_send c i s
      end
  end.

Definition run (c : cfg) (evs : list ev) : st := fold_left (step c) evs init.

(* ---------------------------------------------------------------- quiescence *)
Definition task_idle (tk : task) : bool := match t_st tk with TFin _ => true | _ => false end.
Definition job_idle (jb : job) : bool :=
  match j_st jb with JDone _ | JCancelled => true | _ => false end.

Definition quiescent (s : st) : bool :=
  forallb task_idle (tasks s) && forallb job_idle (jobs s) &&
  match wq s with [] => true | _ => false end &&
  match exitq s with [] => true | _ => false end.
