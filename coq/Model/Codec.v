(* Model of pygls/workspace/position_codec.py (PositionCodec), function for function.
   Positions are (line, character) pairs of N; lines are lists of code points that keep
   their terminator, as TextDocument.lines produces them. *)
From Pygls Require Export Base.PyStr.
Open Scope N_scope.

Inductive encoding := Utf8 | Utf16 | Utf32.
Notation pos := (N * N)%type (only parsing).

(* utf16_unit_offset: number of characters beyond the BMP *)
Definition count_astral (s : list N) : N := len (filter astral s).

(* client_num_units *)
Definition client_num_units (e : encoding) (s : list N) : N :=
  match e with
  | Utf32 => len s
  | Utf8 => len s + count_astral s * 2
  | Utf16 => len s + count_astral s
  end.

(* what the walking loop of position_from_client_units adds per character *)
Definition loop_width (e : encoding) (c : N) : N :=
  if astral c then match e with Utf32 => 1 | Utf8 => 6 | Utf16 => 2 end else 1.

(* the while loop: (client_index, utf32_index) walk; structural on the remaining characters *)
Fixpoint walk (e : encoding) (chars : list N) (target ci ui : N) : N :=
  match chars with
  | [] => ui
  | c :: r => if ci <? target then walk e r target (ci + loop_width e c) (ui + 1) else ui
  end.

Definition last_line (lines : list (list N)) : list N := last lines [].

(* position_from_client_units.  Second component: the Position object passed in, as it is
   after the call (the code must not modify it). *)
Definition position_from_client_units (e : encoding) (lines : list (list N)) (p : pos) : pos * pos :=
  let '(l, ch) := p in
  match lines with
  | [] => ((0, 0), p)
  | _ =>
    if len lines <=? l then ((len lines - 1, client_num_units e (last_line lines)), p)
    else
      let line := replace_crlf (nth (N.to_nat l) lines []) in
      if client_num_units e line =? 0 then ((l, 0), p)
      else
        let eol := client_num_units e (rstrip_eol line) in
        let character := N.min ch eol in
        ((l, walk e line character 0 0), p)
  end.

(* position_to_client_units: IndexError (line >= len lines) -> Position(len(lines), 0) *)
Definition position_to_client_units (e : encoding) (lines : list (list N)) (p : pos) : pos * pos :=
  let '(l, ch) := p in
  if len lines <=? l then ((len lines, 0), p)
  else ((l, client_num_units e (take ch (nth (N.to_nat l) lines []))), p).

Notation range := (pos * pos)%type (only parsing).
Definition range_from_client_units e lines (r : range) : range * range :=
  let '(s, t) := r in
  ((fst (position_from_client_units e lines s), fst (position_from_client_units e lines t)), r).
Definition range_to_client_units e lines (r : range) : range * range :=
  let '(s, t) := r in
  ((fst (position_to_client_units e lines s), fst (position_to_client_units e lines t)), r).
