(* Model of pygls/workspace/text_document.py (TextDocument: lines, source, version,
   _apply_incremental_change, _apply_full_change, _apply_none_change, apply_change), of the
   per-document effect of Workspace.update_text_document / put_text_document
   (pygls/workspace/workspace.py) and of the loops of
   LanguageServerProtocol.lsp_text_document__did_change / did_open (language_server.py).
   Function for function, branch for branch; faithful, not idealised.  No proofs here.

   Interface for clients of this file (C10 builds the workspace on it):
     doc                       the state of one TextDocument that was opened by the client
     open_doc e k text v       Workspace.put_text_document / _create_text_document
     apply_change d c          TextDocument.apply_change
     update_text_document d v c  Workspace.update_text_document, on the document it selects
     did_change d (v, cs)      lsp_text_document__did_change, on the document it selects
   A document that was never opened (TextDocument._source = None: `source` reads the file from
   disk) is outside this file: every document here has `_source` set by didOpen. *)
From Coq Require Export ZArith.
From Pygls Require Export Base.PyStr Model.Codec.
Open Scope N_scope.

(* lsprotocol.types.TextDocumentSyncKind *)
Inductive sync_kind := SyncNone | SyncFull | SyncIncremental.

(* TextDocumentContentChangeEvent =
     TextDocumentContentChangePartial (range, range_length [never read], text)
   | TextDocumentContentChangeWholeDocument (text) *)
Inductive change :=
| Partial (r : (N * N) * (N * N)) (text : list N)
| Whole (text : list N).

Definition change_text (c : change) : list N :=
  match c with Partial _ t => t | Whole t => t end.

(* TextDocument: _source, version, the sync kind flags and the position codec it was created with *)
Record doc := mkDoc {
  d_source : list N;
  d_version : option Z;
  d_kind : sync_kind;
  d_enc : encoding
}.

(* TextDocument.source (for an opened document): `self._source or ""` *)
Definition source (d : doc) : list N := d_source d.
(* TextDocument.lines: RE_LINE.findall(self.source) *)
Definition lines (d : doc) : list (list N) := lsp_lines (source d).

Definition set_source (d : doc) (s : list N) : doc :=
  mkDoc s (d_version d) (d_kind d) (d_enc d).
Definition set_version (d : doc) (v : option Z) : doc :=
  mkDoc (d_source d) v (d_kind d) (d_enc d).

(* the `for i, line in enumerate(lines)` loop of _apply_incremental_change; the result is what
   was written to the StringIO *)
Fixpoint rebuild (ls : list (list N)) (i sl sc el ec : N) (text : list N) : list N :=
  match ls with
  | [] => []
  | line :: rest =>
    (if i <? sl then line                                   (* if i < start_line: write, continue *)
     else if el <? i then line                              (* if i > end_line: write, continue *)
     else (if i =? sl then take sc line ++ text else [])    (* if i == start_line *)
          ++ (if i =? el then drop ec line else []))        (* if i == end_line *)
    ++ rebuild rest (i + 1) sl sc el ec text
  end.

(* TextDocument._apply_incremental_change, as a function of the source *)
Definition apply_incremental_change (e : encoding) (src : list N)
           (r : (N * N) * (N * N)) (text : list N) : list N :=
  let ls := lsp_lines src in
  let '((sl, sc), (el, ec)) := fst (range_from_client_units e ls r) in
  if sl =? len ls then src ++ text                          (* edit at the very end of the file *)
  else rebuild ls 0 sl sc el ec text.

(* _apply_full_change / _apply_none_change *)
Definition apply_full_change (d : doc) (c : change) : doc := set_source d (change_text c).
Definition apply_none_change (d : doc) (c : change) : doc := d.

Definition is_incremental (k : sync_kind) : bool :=
  match k with SyncIncremental => true | _ => false end.
Definition is_none (k : sync_kind) : bool :=
  match k with SyncNone => true | _ => false end.

(* TextDocument.apply_change *)
Definition apply_change (d : doc) (c : change) : doc :=
  let fallthrough :=
    if is_none (d_kind d) then apply_none_change d c else apply_full_change d c in
  match c with
  | Partial r text =>
    if is_incremental (d_kind d)
    then set_source d (apply_incremental_change (d_enc d) (source d) r text)
    else fallthrough                                        (* logs an error, then as below *)
  | Whole _ => fallthrough
  end.

(* Workspace.update_text_document: apply the change, then store the version *)
Definition update_text_document (d : doc) (v : Z) (c : change) : doc :=
  set_version (apply_change d c) (Some v).

(* lsp_text_document__did_change:
     for change in params.content_changes: workspace.update_text_document(text_document, change)
     if not params.content_changes:
         workspace.get_text_document(uri).version = text_document.version
   (for an opened document get_text_document returns the managed document) *)
Notation notif := (Z * list change)%type (only parsing).
Definition did_change (d : doc) (n : Z * list change) : doc :=
  let d' := fold_left (fun d c => update_text_document d (fst n) c) (snd n) d in
  match snd n with
  | [] => set_version d' (Some (fst n))
  | _ => d'
  end.

(* lsp_text_document__did_open -> Workspace.put_text_document -> _create_text_document *)
Definition open_doc (e : encoding) (k : sync_kind) (text : list N) (v : Z) : doc :=
  mkDoc text (Some v) k e.

(* a session on one document: didOpen, then the didChange notifications in order *)
Definition run (e : encoding) (k : sync_kind) (text : list N) (v0 : Z)
           (ns : list (Z * list change)) : doc :=
  fold_left did_change ns (open_doc e k text v0).
