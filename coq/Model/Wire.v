(* Model of the outbound path of pygls (target state of the repository):
     pygls/protocol/json_rpc.py  JsonRPCProtocol._send_data / _send_response / notify / send_request
     pygls/io_.py                StdoutWriter.write (write + flush) and the one-call writers
   function for function, branch for branch.  No proofs here.

   What is NOT modelled here: cattrs' unstructure and _serialize_message (an oracle: the argument of
   every function below is the JSON tree json.dumps sees once `default=` has been applied, or None
   when that serialisation raises), and the two in-flight tables send_request updates
   (Endpoint.v, C05/C16). *)
From Coq Require Export ZArith NArith List Bool.
From Pygls Require Export Base.Unicode Base.PyStr Base.Json.
Open Scope N_scope.

Module WLit.
  Import Coq.Strings.String.
  Definition lit := Lit.lit.
  Definition content_length := Eval vm_compute in lit "Content-Length: ".
  Definition content_type_key := Eval vm_compute in lit "Content-Type: ".
  Definition CONTENT_TYPE := Eval vm_compute in lit "application/vscode-jsonrpc".
  Definition charset_key := Eval vm_compute in lit "; charset=".
  Definition CHARSET := Eval vm_compute in lit "utf-8".
  Definition VERSION := Eval vm_compute in lit "2.0".
  Definition k_id := Eval vm_compute in lit "id".
  Definition k_jsonrpc := Eval vm_compute in lit "jsonrpc".
  Definition k_result := Eval vm_compute in lit "result".
  Definition k_error := Eval vm_compute in lit "error".
  Definition k_code := Eval vm_compute in lit "code".
  Definition k_message := Eval vm_compute in lit "message".
  Definition k_data := Eval vm_compute in lit "data".
  Definition k_method := Eval vm_compute in lit "method".
  Definition k_params := Eval vm_compute in lit "params".
  Definition unable := Eval vm_compute in lit "Unable to serialize the result".
End WLit.
Definition CRLF : list N := [13; 10].

(* ---- configuration: protocol.writer / protocol._include_headers ---- *)
Inductive wkind :=
| WNone      (* self.writer is None *)
| WPlain     (* any Writer whose write() is one call on the transport (asyncio StreamWriter, test writers) *)
| WStdout    (* pygls.io_.StdoutWriter over a BufferedWriter *)
| WAwait.    (* an AsyncWriter (WebSocketWriter): write() returns an awaitable *)
Record cfg := { writer : wkind; include_headers : bool }.

(* one call `self.writer.write(d)` made by the protocol *)
Inductive call := Write (d : list N).
(* what the writer object then does to the underlying transport *)
Inductive top := TWrite (d : list N) | TFlush.

(* the f-string of _send_data *)
Definition header (n : N) : list N :=
  WLit.content_length ++ digits n ++ CRLF ++
  WLit.content_type_key ++ WLit.CONTENT_TYPE ++ WLit.charset_key ++ WLit.CHARSET ++ CRLF ++ CRLF.

(* str.encode("utf-8"): strict, raises UnicodeEncodeError on a surrogate code point *)
Definition py_encode_utf8 (s : list N) : option (list N) :=
  if forallb (fun c => negb (is_surrogate c)) s then Some (utf8_enc_all s) else None.

(* bool(x) of a plain JSON-able Python value *)
Definition truthy (j : json) : bool :=
  match j with
  | JNull => false
  | JBool b => b
  | JInt z => negb (Z.eqb z 0)
  | JStr s => match s with [] => false | _ => true end
  | JArr l => match l with [] => false | _ => true end
  | JObj l => match l with [] => false | _ => true end
  end.

(* Argument of _send_data.  An attrs message object is always truthy; a raw value has bool(x). *)
Inductive pydata :=
| Tree (is_truthy : bool) (j : json)   (* json.dumps(data, default=...) yields dumps j *)
| Unser (is_truthy : bool).            (* json.dumps(data, default=...) raises *)

Inductive ret := RetNone | RetFalse.

(* _send_data *)
Definition send_data (c : cfg) (d : pydata) : list call * ret :=
  let t := match d with Tree t _ => t | Unser t => t end in
  if negb t then ([], RetNone)                                   (* if not data: return *)
  else match writer c with
  | WNone => ([], RetNone)                                       (* no available transport *)
  | _ =>
    match d with
    | Unser _ => ([], RetFalse)                                  (* first try: report, return False *)
    | Tree _ j =>
      let body := dumps j in
      let data := if include_headers c then header (len body) ++ body else body in
      match py_encode_utf8 data with
      | Some bytes => ([Write bytes], RetNone)                   (* ONE writer.write call *)
      | None => ([], RetNone)                                    (* second try: report *)
      end
    end
  end.

(* ---- the four message shapes, as converter.unstructure lays them out (None fields omitted,
        except `result` of the generic response class) ---- *)
Definition opt_field (k : list N) (v : json) : list (list N * json) :=
  match v with JNull => [] | _ => [(k, v)] end.

Definition error_tree (e : rerror) : json :=
  JObj ([(WLit.k_code, JInt (e_code e)); (WLit.k_message, JStr (e_message e))] ++
        opt_field WLit.k_data (e_data e)).

(* JsonRPCResponseMessage(id, jsonrpc, result) *)
Definition response_tree (id result : json) : json :=
  JObj [(WLit.k_id, id); (WLit.k_jsonrpc, JStr WLit.VERSION); (WLit.k_result, result)].
(* ResponseErrorMessage(error, jsonrpc, id) *)
Definition error_response_tree (id : json) (e : rerror) : json :=
  JObj ([(WLit.k_error, error_tree e); (WLit.k_jsonrpc, JStr WLit.VERSION)] ++ opt_field WLit.k_id id).
(* JsonRPCNotification(method, jsonrpc, params) *)
Definition notification_tree (method : list N) (params : json) : json :=
  JObj ([(WLit.k_method, JStr method); (WLit.k_jsonrpc, JStr WLit.VERSION)] ++
        opt_field WLit.k_params params).
(* JsonRPCRequestMessage(id, method, jsonrpc, params) *)
Definition request_tree (id : json) (method : list N) (params : json) : json :=
  JObj ([(WLit.k_id, id); (WLit.k_method, JStr method); (WLit.k_jsonrpc, JStr WLit.VERSION)] ++
        opt_field WLit.k_params params).

Definition msg (p : payload) (f : json -> json) : pydata :=
  match p with Some j => Tree true (f j) | None => Unser true end.

(* JsonRpcInternalError("Unable to serialize the result").to_response_error() *)
Definition internal_error : rerror :=
  {| e_code := (-32603)%Z; e_message := WLit.unable; e_data := JNull |}.

(* _send_response(msg_id, result, error) *)
Definition send_response (c : cfg) (id : json) (result : payload) (error : option rerror) : list call :=
  match error with
  | Some e => fst (send_data c (Tree true (error_response_tree id e)))
  | None =>
    let '(calls, r) := send_data c (msg result (response_tree id)) in
    match r with
    | RetFalse => calls ++ fst (send_data c (Tree true (error_response_tree id internal_error)))
    | RetNone => calls
    end
  end.

(* notify(method, params) *)
Definition notify (c : cfg) (method : list N) (params : payload) : list call :=
  fst (send_data c (msg params (notification_tree method))).

(* send_request(method, params, msg_id=id) *)
Definition send_request (c : cfg) (id : json) (method : list N) (params : payload) : list call :=
  fst (send_data c (msg params (request_tree id method))).

(* ---- one outgoing message (Base.Json.send), as the callers produce it ---- *)
Definition do_send (c : cfg) (s : send) : list call :=
  match s with
  | SResponse id r => send_response c id r None
  | SError id e => send_response c id None (Some e)
  | SNotify m p => notify c m p
  | SRequest id m p => send_request c id m p
  | SRaw d => fst (send_data c (match d with Some j => Tree (truthy j) j | None => Unser true end))
  end.

(* ---- writers (pygls/io_.py) ---- *)
(* StdoutWriter.write: self._stdout.write(data); self._stdout.flush() *)
Definition stdout_writer_write (d : list N) : list top := [TWrite d; TFlush].

Definition writer_write (w : wkind) (d : list N) : list top :=
  match w with
  | WNone => []
  | WStdout => stdout_writer_write d
  | WPlain => [TWrite d]
  | WAwait => [TWrite d]          (* ws.send(data): one message, scheduled with ensure_future *)
  end.

Definition call_ops (c : cfg) (k : call) : list top := match k with Write d => writer_write (writer c) d end.

(* everything one sending call does to the transport, in order *)
Definition send_ops (c : cfg) (s : send) : list top := flat_map (call_ops c) (do_send c s).

(* a sender = a thread / coroutine performing its sends one after the other *)
Definition sender_ops (c : cfg) (ss : list send) : list top := flat_map (send_ops c) ss.
Definition sender_calls (c : cfg) (ss : list send) : list call := flat_map (do_send c) ss.

(* the transport: a BufferedWriter in front of a pipe.  State = (bytes on the pipe, bytes buffered). *)
Definition top_step (st : list N * list N) (o : top) : list N * list N :=
  match o with
  | TWrite d => (fst st, snd st ++ d)
  | TFlush => (fst st ++ snd st, [])
  end.
Definition transport (ops : list top) : list N * list N := fold_left top_step ops ([], []).

(* the configuration the property speaks about: a transport is set and header blocks are emitted *)
Definition framed (c : cfg) : bool :=
  include_headers c && match writer c with WNone => false | _ => true end.

(* bytes handed to the transport, in order *)
Definition op_data (o : top) : list N := match o with TWrite d => d | TFlush => [] end.
Definition stream (ops : list top) : list N := flat_map op_data ops.

(* ---- calling contexts ----
   Where a sending call is made from: directly, from a synchronous request / notification handler
   running inside the read loop's handle_message, from a coroutine handler after an await, from a
   @thread handler on a pool thread, or by the protocol itself when it replies.  None of the functions
   above takes the context as an argument or reads state that depends on it (there is no "batching"
   or "inside a handler" flag on the protocol or on StdoutWriter): the operations of a send are the
   same list in every context.  The correspondence run observes the sends in each of these contexts
   under the real read loops and compares them with this one list. *)
Inductive ctx := Direct | InSyncHandler | InAsyncHandler | InThreadHandler | LoopReply.
Definition send_ops_in (x : ctx) (c : cfg) (s : send) : list top := send_ops c s.

(* ---- the protocol object over a session: JsonRPCProtocol.__init__ / set_writer / sends ----
   __init__: self.writer = None, self._include_headers = False.  set_writer(writer, h) assigns both
   and does nothing else.  A send without a writer writes nothing, now or later (_send_data returns
   after logging).  Writers are numbered in the order they are installed; the result lists every
   transport operation together with the writer object it was made on. *)
Record pstate := { p_writer : option (nat * wkind); p_headers : bool; p_next : nat }.
Definition p_init : pstate := {| p_writer := None; p_headers := false; p_next := 0 |}.
Definition p_cfg (st : pstate) : cfg :=
  {| writer := match p_writer st with Some (_, w) => w | None => WNone end;
     include_headers := p_headers st |}.
Definition tag_ops (i : nat) (ops : list top) : list (nat * top) := map (pair i) ops.
Definition p_step (st : pstate) (o : sop wkind) : pstate * list (nat * top) :=
  match o with
  | OSetWriter w h =>
      ({| p_writer := Some (p_next st, w); p_headers := h; p_next := S (p_next st) |}, [])
  | OSend s =>
      (st, match p_writer st with
           | Some (i, _) => tag_ops i (send_ops (p_cfg st) s)
           | None => []          (* send_ops (p_cfg st) s = [] as well: no transport *)
           end)
  end.
Fixpoint p_run (st : pstate) (ops : list (sop wkind)) : list (nat * top) :=
  match ops with
  | [] => []
  | o :: r => let '(st', out) := p_step st o in out ++ p_run st' r
  end.
(* what writer object number i received *)
Definition for_writer (i : nat) (out : list (nat * top)) : list top :=
  map snd (filter (fun p => Nat.eqb (fst p) i) out).
