(* C12, registration history: what lsp_initialize feeds the builder is the FeatureManager's
   registry as the accepted_calls registrations left it.  The registry and its step function are C19's
   model (Model/Features.v: feature / command / thread, run), imported, not copied.
   No proofs in this file. *)
From Coq Require Import NArith List Bool.
From Pygls Require Import Model.Features Model.Caps.
Import ListNotations.
Open Scope N_scope.

Section History.
  Variable nm : method -> name.          (* the LSP method string of a method *)
  Variable cid : name -> N.              (* the identity under which a command name is observed *)

  (* set({**fm.features, **fm.builtin_features}.keys()) is taken in lsp_initialize (with_builtins);
     fm.feature_options; list(fm.commands.keys()) *)
  Definition cfg_of_registry (r : registry) (h0 : N -> obj) (sk nb : option N) (cli : client) : config :=
    {| reg := fun m => amem (nm m) (Features.features r);
       opt := fun m => aget (nm m) (Features.feature_options r);
       heap0 := h0;
       Caps.commands := map cid (akeys (Features.commands r));
       sync_kind := sk; nb_sync := nb; cl := cli |}.

  Definition cfg_of_history (h : list op) (h0 : N -> obj) (sk nb : option N) (cli : client) : config :=
    cfg_of_registry (run empty_registry h) h0 sk nb cli.
End History.

(* the calls of a history that were accepted_calls *)
Fixpoint accepted_calls (r : registry) (xs : list op) : list op :=
  match xs with
  | [] => []
  | x :: t => match step_res r x with
              | Ok => x :: accepted_calls (step_reg r x) t
              | Error _ => accepted_calls r t
              end
  end.
Fixpoint results (r : registry) (xs : list op) : list bool :=      (* true = accepted_calls *)
  match xs with
  | [] => []
  | x :: t => match step_res r x with Ok => true | Error _ => false end :: results (step_reg r x) t
  end.

(* ---- driver-facing: concrete names ---- *)
Definition drv_nm (m : method) : name := Some [1000 + method_code m].
Definition drv_cmd_name (k : N) : name := Some [5000 + k].
Definition drv_cid (n : name) : N := match n with Some [c] => c - 5000 | _ => 0 end.
Definition drv_fn (k : N) : func := mkfunc k false (First false ANone) false None.
(* attempt = (kind 0 feature / 1 command, code, object id or 0, outcome of the type check 0..4) *)
Definition drv_chk (k : N) : optcheck :=
  match k with 0 => CkNoType | 1 => CkValid | 2 => CkWrong | 3 => CkUnknownMethod | _ => CkRaises end.
Fixpoint drv_ops (l : list (N * N * N * N)) (k : N) : list op :=
  match l with
  | [] => []
  | (kind, code, oid, chk) :: t =>
    (if kind =? 0
     then OpFeature (drv_nm (method_of_code code))
                    (if oid =? 0 then ONone else OObj oid true true (drv_chk chk)) (drv_fn k)
     else OpCommand (drv_cmd_name code) (drv_fn k)) :: drv_ops t (k + 1)
  end.
