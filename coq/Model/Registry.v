(* C13 - model of how pygls chooses types for, classifies and delivers JSON-RPC messages.
   Transliterated from (worktree = target state of /repo):
     pygls/protocol/json_rpc.py      structure_message, _reject_request, handle_message,
                                     _handle_response, notify, send_request, _send_response
     pygls/protocol/language_server.py  get_message_type, get_result_type
     pygls/protocol/__init__.py      _dict_to_object, _params_field_structure_hook,
                                     _result_field_structure_hook (default_converter)
     collections.namedtuple(..., rename=True), str.isidentifier / keyword.iskeyword (ASCII)
     scripts/generate_code.py        to_snake_case + the two replace calls (helper names)
   The lsprotocol/cattrs converter is an oracle: Section variable [structure].
   The method registry and the helper table are arguments (rows as in coq/Gen/*.v), so this
   file does not depend on the regenerated tables.  No proofs here. *)
From Pygls Require Export Base.JsonVal.
From Coq Require Import String.
Open Scope N_scope.

(* ---------- constants ---------- *)
Definition k_jsonrpc : list N := Eval vm_compute in lit "jsonrpc"%string.
Definition k_id : list N := Eval vm_compute in lit "id"%string.
Definition k_method : list N := Eval vm_compute in lit "method"%string.
Definition k_error : list N := Eval vm_compute in lit "error"%string.
Definition k_params : list N := Eval vm_compute in lit "params"%string.
Definition k_result : list N := Eval vm_compute in lit "result"%string.
Definition k_type_name : list N := Eval vm_compute in lit "type_name"%string.
Definition s_Object : list N := Eval vm_compute in lit "Object"%string.
Definition s_version : list N := Eval vm_compute in lit "2.0"%string.
Definition s_async : list N := Eval vm_compute in lit "_async"%string.
Definition s_JsonRPCRequestMessage : list N := Eval vm_compute in lit "JsonRPCRequestMessage"%string.
Definition s_JsonRPCNotification : list N := Eval vm_compute in lit "JsonRPCNotification"%string.
Definition s_JsonRPCResponseMessage : list N := Eval vm_compute in lit "JsonRPCResponseMessage"%string.
Definition s_ResponseErrorMessage : list N := Eval vm_compute in lit "ResponseErrorMessage"%string.

(* ---------- str.isidentifier, keyword.iskeyword (ASCII; Python 3.12 kwlist) ---------- *)
Definition is_alpha_us (c : N) : bool :=
  ((65 <=? c) && (c <=? 90)) || ((97 <=? c) && (c <=? 122)) || (c =? 95).
Definition is_digit (c : N) : bool := (48 <=? c) && (c <=? 57).
Definition is_identifier (s : list N) : bool :=
  match s with
  | [] => false
  | c :: r => is_alpha_us c && forallb (fun d => is_alpha_us d || is_digit d) r
  end.
Definition kwlist : list (list N) := Eval vm_compute in
  map lit ["False"; "None"; "True"; "and"; "as"; "assert"; "async"; "await"; "break"; "class";
           "continue"; "def"; "del"; "elif"; "else"; "except"; "finally"; "for"; "from";
           "global"; "if"; "import"; "in"; "is"; "lambda"; "nonlocal"; "not"; "or"; "pass";
           "raise"; "return"; "try"; "while"; "with"; "yield"]%string.
Definition is_keyword (s : list N) : bool := mem_str s kwlist.
Definition starts_underscore (s : list N) : bool :=
  match s with c :: _ => c =? 95 | [] => false end.

(* str(index) *)
Fixpoint dec_digits (fuel : nat) (n : N) (acc : list N) : list N :=
  match fuel with
  | O => acc
  | S f => let acc' := (48 + n mod 10) :: acc in
           if n / 10 =? 0 then acc' else dec_digits f (n / 10) acc'
  end.
Definition dec (n : N) : list N := dec_digits (S (N.to_nat (N.log2 n))) n [].

(* ---------- collections.namedtuple(typename, field_names, rename=True) ---------- *)
(* the rename loop: a name is replaced by _<index> when it is not an identifier, is a keyword,
   starts with an underscore or was seen before; the ORIGINAL name goes into `seen` *)
Definition keeps_name (n : list N) (seen : list (list N)) : bool :=
  is_identifier n && negb (is_keyword n) && negb (starts_underscore n) && negb (mem_str n seen).
Fixpoint rename_from (idx : N) (seen : list (list N)) (names : list (list N)) : list (list N) :=
  match names with
  | [] => []
  | n :: r => (if keeps_name n seen then n else 95 :: dec idx)
              :: rename_from (idx + 1) (n :: seen) r
  end.
Definition rename (names : list (list N)) : list (list N) := rename_from 0 [] names.
(* the validation loop accepts a type name iff it is an identifier and not a keyword *)
Definition typename_ok (t : list N) : bool := is_identifier t && negb (is_keyword t).
Definition mk_tuple (tn : list N) (kvs : list (list N * pval)) : pval :=
  PTuple tn (combine (rename (map fst kvs)) (map snd kvs)).

(* ---------- pygls.protocol._dict_to_object ---------- *)
Inductive sres (A : Type) := SOk (a : A) | SValErr | SOtherErr.
Arguments SOk {A} a.
Arguments SValErr {A}.
Arguments SOtherErr {A}.

(* what json.dumps can serialise: the values json.loads produces (no message objects inside) *)
Fixpoint plain (v : pval) : bool :=
  match v with
  | PList l => forallb plain l
  | PDict kvs => forallb (fun kv => plain (snd kv)) kvs
  | PTuple _ _ => false
  | PMsg _ _ => false
  | _ => true
  end.

(* json.loads(json.dumps(d), object_hook=lambda p: namedtuple(tn, p.keys(), rename=True)( *p.values() ))
   : every dict, at every depth (also inside lists), becomes a namedtuple called tn *)
Fixpoint hook_all (tn : list N) (v : pval) : pval :=
  match v with
  | PList l => PList (map (hook_all tn) l)
  | PDict kvs => mk_tuple tn (map (fun kv => (fst kv, hook_all tn (snd kv))) kvs)
  | other => other
  end.

(* str(type_name) when namedtuple accepts it *)
Definition type_name_of (v : pval) : option (list N) :=
  match v with
  | PStr s => if typename_ok s then Some s else None
  | _ => None        (* str() of a number / bool / None / list / dict is never a usable name *)
  end.

Definition dict_to_object (d : pval) : sres pval :=
  match d with
  | PDict kvs =>
    (* type_name = d.pop("type_name", "Object") *)
    let tn := match aget k_type_name kvs with
              | Some v => type_name_of v
              | None => Some s_Object
              end in
    let rest := adel k_type_name kvs in
    if negb (plain (PDict rest)) then SOtherErr               (* json.dumps: TypeError *)
    else match tn with
         | Some t => SOk (hook_all t (PDict rest))
         | None => SOtherErr                                  (* namedtuple: ValueError *)
         end
  | _ => SOk d                                                (* None, lists, scalars: unchanged *)
  end.

(* ---------- the method registry (rows of lsprotocol.METHOD_TO_TYPES) ---------- *)
Inductive direction := ClientToServer | ServerToClient | BothDir.
Record mrow := mk_mrow {
  m_name : list N;              (* method string *)
  m_request : bool;             (* the message class has an `id` field *)
  m_dir : direction;            (* lsprotocol.message_direction *)
  m_msg_type : list N;          (* METHOD_TO_TYPES[m][0].__name__ *)
  m_res_type : option (list N); (* METHOD_TO_TYPES[m][1] *)
  m_par_type : option (list N)  (* METHOD_TO_TYPES[m][2] *)
}.
Definition find_method (reg : list mrow) (m : list N) : option mrow :=
  find (fun r => str_eqb m (m_name r)) reg.
(* LanguageServerProtocol.get_message_type / get_result_type *)
Definition get_message_type (reg : list mrow) (m : list N) : option (list N) :=
  option_map m_msg_type (find_method reg m).
Definition get_result_type (reg : list mrow) (m : list N) : option (list N) :=
  match find_method reg m with Some r => m_res_type r | None => None end.

(* ---------- classification ---------- *)
Inductive kind := KRequest | KNotification | KResponse | KErrorResponse.

(* which branch of structure_message is taken: membership of "id" / "method" / "error" *)
Definition classify (has_id has_method has_error : bool) : kind :=
  if has_id then
    if has_error then KErrorResponse
    else if has_method then KRequest
    else KResponse
  else KNotification.

(* which class the converter is asked for *)
Inductive mtype :=
| TErrorResponse                 (* lsprotocol ResponseErrorMessage *)
| TGeneric (c : gclass)          (* JsonRPCRequestMessage / JsonRPCNotification / JsonRPCResponseMessage *)
| TRegistryMsg (r : mrow)        (* METHOD_TO_TYPES[method][0] *)
| TRegistryRes (ty : list N).    (* the result type recorded for the id when the request was sent *)

Definition mtype_name (t : mtype) : list N :=
  match t with
  | TErrorResponse => s_ResponseErrorMessage
  | TGeneric GRequest => s_JsonRPCRequestMessage
  | TGeneric GNotification => s_JsonRPCNotification
  | TGeneric GResponse => s_JsonRPCResponseMessage
  | TRegistryMsg r => m_msg_type r
  | TRegistryRes ty => ty
  end.

(* which attributes an instance of the class has (what handle_message's hasattr tests see) *)
Record shape := mk_shape { a_id : bool; a_method : bool; a_error : bool }.
Definition shape_of (t : mtype) : shape :=
  match t with
  | TErrorResponse => mk_shape true false true
  | TGeneric GRequest => mk_shape true true false
  | TGeneric GNotification => mk_shape false true false
  | TGeneric GResponse => mk_shape true false false
  | TRegistryMsg r => mk_shape (m_request r) true false
  | TRegistryRes _ => mk_shape true false false
  end.
(* the hasattr cascade of handle_message *)
Definition handle_branch (s : shape) : kind :=
  if a_method s then (if a_id s then KRequest else KNotification)
  else (if a_error s then KErrorResponse else KResponse).

(* ---------- protocol state: the two in-flight tables ---------- *)
Record pstate := mk_pstate {
  futs : list pval;                              (* _request_futures: ids with a pending future *)
  rtypes : list (pval * option (list N))         (* _result_types: id -> result type (None = generic) *)
}.
Definition st0 : pstate := mk_pstate [] [].
Fixpoint rt_get (i : pval) (l : list (pval * option (list N))) : option (option (list N)) :=
  match l with [] => None | (k, v) :: r => if id_eqb i k then Some v else rt_get i r end.
Fixpoint rt_del (i : pval) (l : list (pval * option (list N))) : list (pval * option (list N)) :=
  match l with [] => [] | (k, v) :: r => if id_eqb i k then r else (k, v) :: rt_del i r end.
Fixpoint rt_set (i : pval) (v : option (list N)) (l : list (pval * option (list N))) :=
  match l with
  | [] => [(i, v)]
  | (k, v') :: r => if id_eqb i k then (k, v) :: r else (k, v') :: rt_set i v r
  end.
Fixpoint fut_mem (i : pval) (l : list pval) : bool :=
  match l with [] => false | k :: r => id_eqb i k || fut_mem i r end.
Fixpoint fut_del (i : pval) (l : list pval) : list pval :=
  match l with [] => [] | k :: r => if id_eqb i k then r else k :: fut_del i r end.
Definition unhashable (v : pval) : bool :=
  match v with PList _ | PDict _ | PMsg _ _ => true | _ => false end.

(* ---------- the generic message classes and pygls' two structure hooks ---------- *)
Definition payload_key (c : gclass) : list N :=
  match c with GResponse => k_result | _ => k_params end.
Definition required (c : gclass) : list (list N) :=
  match c with
  | GRequest => [k_id; k_method; k_jsonrpc]
  | GNotification => [k_method; k_jsonrpc]
  | GResponse => [k_id; k_jsonrpc; k_result]
  end.
Definition optional (c : gclass) : list (list N) :=
  match c with GResponse => [] | _ => [k_params] end.
Definition field_or_null (k : list N) (data : list (list N * pval)) : list N * pval :=
  (k, match aget k data with Some v => v | None => PNull end).

(* _params_field_structure_hook / _result_field_structure_hook: convert the payload member,
   then cls( ** obj ): TypeError on an unexpected or a missing member *)
Definition generic_structure (c : gclass) (data : list (list N * pval)) : sres (list (list N * pval)) :=
  match (match aget (payload_key c) data with
         | Some v => match dict_to_object v with
                     | SOk v' => SOk (aset (payload_key c) v' data)
                     | SValErr => SValErr
                     | SOtherErr => SOtherErr
                     end
         | None => SOk data
         end) with
  | SOk data' =>
    if forallb (fun k => mem_str k (required c ++ optional c)) (akeys data')
       && forallb (fun k => amem k data') (required c)
    then SOk (map (fun k => field_or_null k data') (required c ++ optional c))
    else SOtherErr
  | SValErr => SValErr
  | SOtherErr => SOtherErr
  end.

Section Receive.
  (* the lsprotocol converter: structure (type name) (data) *)
  Variable obj : Type.
  Variable structure : list N -> pval -> sres obj.
  Variable reg : list mrow.

  (* result of structure_message *)
  Inductive smres :=
  | SMPlain                                               (* no "jsonrpc" member: returned as it is *)
  | SMGeneric (c : gclass) (fields : list (list N * pval))
  | SMTyped (t : mtype) (o : obj)
  | SMRaise (code : Z) (replies : list (pval * Z)).       (* JsonRpcInvalidParams / InternalError *)

  (* _reject_request: an object with id and method is answered before the error is re-raised *)
  Definition reject (data : list (list N * pval)) (code : Z) : smres :=
    SMRaise code (match aget k_id data with
                  | Some i => if amem k_method data then [(i, code)] else []
                  | None => []
                  end).

  Definition run_structure (t : mtype) (data : list (list N * pval)) : smres :=
    match t with
    | TGeneric c =>
      match generic_structure c data with
      | SOk fields => SMGeneric c fields
      | SValErr => reject data (-32602)
      | SOtherErr => reject data (-32603)
      end
    | _ =>
      match structure (mtype_name t) (PDict data) with
      | SOk o => SMTyped t o
      | SValErr => reject data (-32602)        (* except ClassValidationError *)
      | SOtherErr => reject data (-32603)      (* except Exception *)
      end
    end.

  (* self.get_message_type(method) or <generic class>; None = the lookup itself raises *)
  Definition message_type_for (mv : pval) (generic : gclass) : option mtype :=
    match mv with
    | PStr m => match find_method reg m with
                | Some r => Some (TRegistryMsg r)
                | None => Some (TGeneric generic)
                end
    | PList _ | PDict _ | PMsg _ _ => None          (* lru_cache: unhashable *)
    | _ => Some (TGeneric generic)
    end.

  Definition structure_message (st : pstate) (data : list (list N * pval)) : pstate * smres :=
    if negb (amem k_jsonrpc data) then (st, SMPlain)
    else
      match aget k_id data with
      | Some i =>
        if amem k_error data then
          (* dict.pop(key, default) hashes the key only when the dict is not empty *)
          if unhashable i && negb (match rtypes st with [] => true | _ => false end)
          then (st, reject data (-32603))
          else (mk_pstate (futs st) (rt_del i (rtypes st)), run_structure TErrorResponse data)
        else
          match aget k_method data with
          | Some mv =>
            match message_type_for mv GRequest with
            | Some t => (st, run_structure t data)
            | None => (st, reject data (-32603))
            end
          | None =>
            if unhashable i then (st, reject data (-32603))
            else
              match rt_get i (rtypes st) with
              | None => (st, reject data (-32603))                    (* KeyError *)
              | Some rt =>
                (mk_pstate (futs st) (rt_del i (rtypes st)),
                 run_structure (match rt with
                                | Some ty => TRegistryRes ty
                                | None => TGeneric GResponse
                                end) data)
              end
          end
      | None =>
        (* method = data.get("method", "") *)
        let mv := match aget k_method data with Some v => v | None => PStr [] end in
        match message_type_for mv GNotification with
        | Some t => (st, run_structure t data)
        | None => (st, reject data (-32603))
        end
      end.

  (* ---- json.loads(body, object_hook=structure_message): every object, innermost first ---- *)
  Inductive lres (A : Type) := LOk (a : A) | LRaise (code : Z) (replies : list (pval * Z)) | LUnmodelled.
  Arguments LOk {A} a.
  Arguments LRaise {A} code replies.
  Arguments LUnmodelled {A}.

  Fixpoint lseq {A} (l : list (lres A)) : lres (list A) :=
    match l with
    | [] => LOk []
    | LOk a :: r => match lseq r with
                    | LOk r' => LOk (a :: r')
                    | LRaise c p => LRaise c p
                    | LUnmodelled => LUnmodelled
                    end
    | LRaise c p :: _ => LRaise c p
    | LUnmodelled :: _ => LUnmodelled
    end.
  Definition lpair {A} (k : list N) (r : lres A) : lres (list N * A) :=
    match r with LOk a => LOk (k, a) | LRaise c p => LRaise c p | LUnmodelled => LUnmodelled end.

  (* an object below the top level: structured like a message when it has a "jsonrpc" member.
     Outcomes that need the converter, or that change the tables, are left unmodelled. *)
  Definition nested_object (st : pstate) (data : list (list N * pval)) : lres pval :=
    match structure_message st data with
    | (st', SMPlain) => LOk (PDict data)
    | (st', SMGeneric c fields) =>
      if (N.of_nat (List.length (rtypes st')) =? N.of_nat (List.length (rtypes st))) then LOk (PMsg c fields)
      else LUnmodelled
    | (_, SMTyped _ _) => LUnmodelled
    | (_, SMRaise code replies) => LRaise code replies
    end.

  Fixpoint hook_nested (st : pstate) (j : json) : lres pval :=
    match j with
    | JNull => LOk PNull
    | JBool b => LOk (PBool b)
    | JNum z => LOk (PNum z)
    | JFlt r => LOk (PFlt r)
    | JStr s => LOk (PStr s)
    | JArr l => match lseq (map (hook_nested st) l) with
                | LOk l' => LOk (PList l')
                | LRaise c p => LRaise c p
                | LUnmodelled => LUnmodelled
                end
    | JObj kvs =>
      match lseq (map (fun kv => lpair (fst kv) (hook_nested st (snd kv))) kvs) with
      | LOk members => nested_object st (py_dict members)
      | LRaise c p => LRaise c p
      | LUnmodelled => LUnmodelled
      end
    end.

  (* ---- handle_message ---- *)
  Inductive message :=
  | MGeneric (c : gclass) (fields : list (list N * pval))
  | MTyped (t : mtype) (o : obj).

  Inductive outcome :=
  | ODropped (reported : option Z)     (* nothing dispatched; the error hook saw this code
                                          (None: an exception that is not a JSON-RPC error) *)
  | ORejected (code : Z) (replies : list (pval * Z))   (* structure_message raised *)
  | ORequest (i : pval) (m : message)  (* _handle_request(message.id, message.method, message.params) *)
  | ONotification (m : message)        (* _handle_notification(message.method, message.params) *)
  | OResult (i : pval) (m : message) (known : bool)    (* future.set_result(message.result) if known *)
  | OError (i : pval) (m : message) (known : bool)     (* future.set_exception(from_error(message.error)) *)
  | OUnmodelled.

  Definition msg_shape (m : message) : shape :=
    match m with MGeneric c _ => shape_of (TGeneric c) | MTyped t _ => shape_of t end.

  (* data: the dict structure_message was given (its "id"/"jsonrpc" members are what the
     attributes of a typed message hold) *)
  Definition handle_message (st : pstate) (data : list (list N * pval)) (m : message) : pstate * outcome :=
    let version := match m with
                   | MGeneric _ fields => aget k_jsonrpc fields
                   | MTyped _ _ => aget k_jsonrpc data
                   end in
    match version with
    | Some (PStr v) =>
      if negb (str_eqb v s_version) then (st, ODropped (Some (-32600)%Z))
      else
        let i := match aget k_id data with Some i => i | None => PNull end in
        match handle_branch (msg_shape m) with
        | KRequest => (st, ORequest i m)
        | KNotification => (st, ONotification m)
        | KResponse =>
          if fut_mem i (futs st) then (mk_pstate (fut_del i (futs st)) (rtypes st), OResult i m true)
          else (st, OResult i m false)
        | KErrorResponse =>
          if fut_mem i (futs st) then (mk_pstate (fut_del i (futs st)) (rtypes st), OError i m true)
          else (st, OError i m false)
        end
    | Some _ => match m with
                | MGeneric _ _ => (st, ODropped (Some (-32600)%Z))   (* value != "2.0" *)
                | MTyped _ _ => (st, OUnmodelled)                   (* cattrs coerces to str *)
                end
    | None => (st, ODropped None)
    end.

  (* one frame: json.loads with the hook, then handle_message, inside run_async's try/except *)
  Definition receive (st : pstate) (wire : json) : pstate * outcome :=
    match wire with
    | JObj kvs =>
      match lseq (map (fun kv => lpair (fst kv) (hook_nested st (snd kv))) kvs) with
      | LOk members =>
        let data := py_dict members in
        match structure_message st data with
        | (st', SMPlain) => (st', ODropped None)            (* dict has no attribute jsonrpc *)
        | (st', SMGeneric c fields) => handle_message st' data (MGeneric c fields)
        | (st', SMTyped t o) => handle_message st' data (MTyped t o)
        | (st', SMRaise code replies) => (st', ORejected code replies)
        end
      | LRaise c p => (st, ORejected c p)
      | LUnmodelled => (st, OUnmodelled)
      end
    | _ =>
      match hook_nested st wire with
      | LOk _ => (st, ODropped None)                        (* list / scalar: AttributeError *)
      | LRaise c p => (st, ORejected c p)
      | LUnmodelled => (st, OUnmodelled)
      end
    end.

  (* a stream of frames as run / run_async take them off the reader: each body goes through
     json.loads + handle_message inside its own try / except / finally (content_length is reset
     whatever happened), so a frame that cannot be decoded or dispatched costs that frame only *)
  Inductive frame := FJson (j : json) | FGarbage.      (* FGarbage: json.loads raises *)
  Fixpoint receive_stream (st : pstate) (frames : list frame) : list outcome :=
    match frames with
    | [] => []
    | FGarbage :: r => ODropped None :: receive_stream st r
    | FJson j :: r => let (st', o) := receive st j in o :: receive_stream st' r
    end.
  Fixpoint state_after (st : pstate) (frames : list frame) : pstate :=
    match frames with
    | [] => st
    | FGarbage :: r => state_after st r
    | FJson j :: r => state_after (fst (receive st j)) r
    end.

  (* the value json.loads hands to structure_message at the top level, when nothing raises *)
  Definition hooked_members (st : pstate) (wire : json) : option (list (list N * pval)) :=
    match wire with
    | JObj kvs =>
      match lseq (map (fun kv => lpair (fst kv) (hook_nested st (snd kv))) kvs) with
      | LOk members => Some (py_dict members)
      | _ => None
      end
    | _ => None
    end.
End Receive.

Arguments SMPlain {obj}.
Arguments SMGeneric {obj} c fields.
Arguments SMTyped {obj} t o.
Arguments SMRaise {obj} code replies.
Arguments LOk {A} a.
Arguments LRaise {A} code replies.
Arguments LUnmodelled {A}.
Arguments MGeneric {obj} c fields.
Arguments MTyped {obj} t o.
Arguments ODropped {obj} reported.
Arguments ORejected {obj} code replies.
Arguments ORequest {obj} i m.
Arguments ONotification {obj} m.
Arguments OResult {obj} i m known.
Arguments OError {obj} i m known.
Arguments OUnmodelled {obj}.

(* ---------- the sending side ---------- *)
(* what is put on the wire, as far as pygls decides it: the class instantiated (None = generic)
   and therefore whether there is an id; SentRaise: the constructor call raises TypeError *)
Inductive sent :=
| SentRaise
| Sent (has_id : bool) (method : list N) (msg_type : option (list N)).

(* notify: notification_type = get_message_type(method) or JsonRPCNotification;
   notification_type(method=, params=, jsonrpc=) *)
Definition notify (reg : list mrow) (st : pstate) (m : list N) : pstate * sent :=
  match find_method reg m with
  | Some r => if m_request r then (st, SentRaise)           (* a request class needs id *)
              else (st, Sent false m (Some (m_msg_type r)))
  | None => (st, Sent false m None)
  end.

(* send_request: request_type(id=, method=, params=, jsonrpc=); then both tables are written *)
Definition send_request (reg : list mrow) (st : pstate) (m : list N) (i : pval) : pstate * sent :=
  let st' := mk_pstate (if fut_mem i (futs st) then futs st else futs st ++ [i])
                       (rt_set i (get_result_type reg m) (rtypes st)) in
  match find_method reg m with
  | Some r => if m_request r then (st', Sent true m (Some (m_msg_type r)))
              else (st, SentRaise)                          (* a notification class has no id *)
  | None => (st', Sent true m None)
  end.

(* _send_response(msg_id, result): response_type = self._result_types.pop(msg_id, generic) *)
Inductive sent_response := RespRaise | RespSent (res_type : option (list N)).
Definition send_response (st : pstate) (i : pval) : pstate * sent_response :=
  match rt_get i (rtypes st) with
  | None => (st, RespSent None)
  | Some (Some ty) => (mk_pstate (futs st) (rt_del i (rtypes st)), RespSent (Some ty))
  | Some None => (mk_pstate (futs st) (rt_del i (rtypes st)), RespRaise)   (* None(...) : TypeError *)
  end.

(* ---------- what else a requester does between a request and its reply ---------- *)
(* other requests (ESend), notifications - $/cancelRequest for the pending id included - (ENotify)
   and frames that arrive (ERecv: the dict structure_message is given); only the two tables matter *)
Inductive ev := ESend (m : list N) (i : pval) | ENotify (m : list N) | ERecv (data : list (list N * pval)).
Definition ev_step (obj : Type) (structure : list N -> pval -> sres obj) (reg : list mrow)
                   (st : pstate) (e : ev) : pstate :=
  match e with
  | ESend m i => fst (send_request reg st m i)
  | ENotify m => fst (notify reg st m)
  | ERecv data => fst (structure_message obj structure reg st data)
  end.

(* ---------- generated helper methods (rows of coq/Gen/Helpers.v) ---------- *)
Inductive hkind := HNotify | HSendRequest | HSendRequestAsync.
Inductive side := Server | Client.
Record hrow := mk_hrow {
  h_side : side;             (* BaseLanguageServer / BaseLanguageClient *)
  h_name : list N;           (* Python name of the helper *)
  h_method : list N;         (* the method literal it passes *)
  h_kind : hkind;            (* which protocol entry point it calls *)
  h_params : bool;           (* has a parameter `params` and passes it on unchanged *)
  h_callback : bool          (* has a parameter `callback` and passes it on unchanged *)
}.
Definition helper_call (reg : list mrow) (st : pstate) (h : hrow) (i : pval) : pstate * sent :=
  match h_kind h with
  | HNotify => notify reg st (h_method h)
  | _ => send_request reg st (h_method h) i
  end.

(* ---------- scripts/generate_code.py: the Python name of a helper ---------- *)
(* to_snake_case: "_" + c.lower() for upper-case c *)
Definition is_upper (c : N) : bool := (65 <=? c) && (c <=? 90).
Fixpoint to_snake_case (s : list N) : list N :=
  match s with
  | [] => []
  | c :: r => if is_upper c then 95 :: (c + 32) :: to_snake_case r else c :: to_snake_case r
  end.
(* .replace("/", "_") *)
Definition replace_slash (s : list N) : list N := map (fun c => if c =? 47 then 95 else c) s.
(* .replace("$_", "") *)
Fixpoint remove_dollar_us (s : list N) : list N :=
  match s with
  | [] => []
  | c :: r =>
    match r with
    | d :: r' => if (c =? 36) && (d =? 95) then remove_dollar_us r' else c :: remove_dollar_us r
    | [] => [c]
    end
  end.
Definition python_name (method : list N) : list N :=
  remove_dollar_us (replace_slash (to_snake_case method)).

(* ---------- pygls/protocol/lsp_meta.py: call_user_feature ---------- *)
(* A method pygls handles itself (lsp_initialize, lsp_text_document__did_open, ...): the built-in
   runs first, then the user's feature for the same method is called with THE SAME arguments.
   The built-ins read params and update the protocol's own state (workspace, trace, shutdown
   flag ...): in the model they are functions of params that return a new protocol state and
   cannot write to params. *)
Section BuiltIn.
  Variable obj bst : Type.
  Variable builtin : list N -> obj -> bst -> bst.
  Inductive call := CBuiltin (m : list N) (p : obj) | CUser (m : list N) (p : obj).
  Definition call_user_feature (has_builtin has_user : bool) (m : list N) (p : obj) (s : bst)
    : bst * list call :=
    let user := if has_user then [CUser m p] else [] in
    if has_builtin then (builtin m p s, CBuiltin m p :: user) else (s, user).
End BuiltIn.
Arguments CBuiltin {obj} m p.
Arguments CUser {obj} m p.
