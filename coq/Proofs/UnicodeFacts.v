From Coq Require Import ZArith NArith List Bool Lia ZifyBool ZifyN.
From Pygls Require Import Base.Unicode.
Ltac Zify.zify_post_hook ::= Z.to_euclidean_division_equations.
Open Scope N_scope.

Lemma utf8_enc_length c : N.of_nat (length (utf8_enc c)) = utf8_width c.
Proof.
  unfold utf8_enc, utf8_width.
  destruct (c <? 0x80); [reflexivity|].
  destruct (c <? 0x800); [reflexivity|].
  destruct (c <? 0x10000); reflexivity.
Qed.

Lemma utf16_enc_length c : N.of_nat (length (utf16_enc c)) = utf16_width c.
Proof. unfold utf16_enc, utf16_width. destruct (c <? 0x10000); reflexivity. Qed.

Lemma utf8_enc_nonempty c : utf8_enc c <> [].
Proof.
  unfold utf8_enc.
  destruct (c <? 0x80); [discriminate|].
  destruct (c <? 0x800); [discriminate|].
  destruct (c <? 0x10000); discriminate.
Qed.

Lemma utf8_enc_bytes c : is_cp c = true -> Forall (fun b => b < 256) (utf8_enc c).
Proof.
  unfold is_cp, utf8_enc. intros H.
  destruct (c <? 0x80) eqn:E1; [repeat constructor; lia|].
  destruct (c <? 0x800) eqn:E2; [repeat constructor; lia|].
  destruct (c <? 0x10000) eqn:E3; repeat constructor; lia.
Qed.

Lemma utf8_enc_ascii c : c < 128 -> utf8_enc c = [c].
Proof. intros H. unfold utf8_enc. replace (c <? 0x80) with true by lia. reflexivity. Qed.

Ltac settle b := let v := eval cbv in b in idtac.

Lemma utf8_dec1_enc c r : scalar c = true -> utf8_dec1 (utf8_enc c ++ r) = Some (c, r).
Proof.
  unfold scalar, is_cp, is_surrogate. intros H.
  unfold utf8_enc.
  destruct (c <? 0x80) eqn:E1.
  { cbn [app utf8_dec1]. rewrite E1. reflexivity. }
  destruct (c <? 0x800) eqn:E2.
  { cbn [app utf8_dec1]. unfold is_cont.
    replace (0xC0 + c / 0x40 <? 0x80) with false by lia.
    replace (0xC0 + c / 0x40 <? 0xC2) with false by lia.
    replace (0xC0 + c / 0x40 <? 0xE0) with true by lia.
    replace ((0x80 <=? 0x80 + c mod 0x40) && (0x80 + c mod 0x40 <? 0xC0)) with true by lia.
    f_equal. f_equal. lia. }
  destruct (c <? 0x10000) eqn:E3.
  { cbn [app utf8_dec1]. unfold is_cont, is_surrogate.
    replace (0xE0 + c / 0x1000 <? 0x80) with false by lia.
    replace (0xE0 + c / 0x1000 <? 0xC2) with false by lia.
    replace (0xE0 + c / 0x1000 <? 0xE0) with false by lia.
    replace (0xE0 + c / 0x1000 <? 0xF0) with true by lia.
    replace ((0x80 <=? 0x80 + (c / 0x40) mod 0x40) && (0x80 + (c / 0x40) mod 0x40 <? 0xC0)) with true by lia.
    replace ((0x80 <=? 0x80 + c mod 0x40) && (0x80 + c mod 0x40 <? 0xC0)) with true by lia.
    cbn [andb].
    replace ((0xE0 + c / 0x1000 - 0xE0) * 0x1000 + (0x80 + (c / 0x40) mod 0x40 - 0x80) * 0x40 +
             (0x80 + c mod 0x40 - 0x80)) with c by lia.
    replace (c <? 0x800) with false by lia.
    replace ((0xD800 <=? c) && (c <? 0xE000)) with false by lia.
    reflexivity. }
  { cbn [app utf8_dec1]. unfold is_cont, is_cp.
    replace (0xF0 + c / 0x40000 <? 0x80) with false by lia.
    replace (0xF0 + c / 0x40000 <? 0xC2) with false by lia.
    replace (0xF0 + c / 0x40000 <? 0xE0) with false by lia.
    replace (0xF0 + c / 0x40000 <? 0xF0) with false by lia.
    replace (0xF0 + c / 0x40000 <? 0xF5) with true by lia.
    replace ((0x80 <=? 0x80 + (c / 0x1000) mod 0x40) && (0x80 + (c / 0x1000) mod 0x40 <? 0xC0)) with true by lia.
    replace ((0x80 <=? 0x80 + (c / 0x40) mod 0x40) && (0x80 + (c / 0x40) mod 0x40 <? 0xC0)) with true by lia.
    replace ((0x80 <=? 0x80 + c mod 0x40) && (0x80 + c mod 0x40 <? 0xC0)) with true by lia.
    cbn [andb].
    replace ((0xF0 + c / 0x40000 - 0xF0) * 0x40000 + (0x80 + (c / 0x1000) mod 0x40 - 0x80) * 0x1000 +
             (0x80 + (c / 0x40) mod 0x40 - 0x80) * 0x40 + (0x80 + c mod 0x40 - 0x80)) with c by lia.
    replace (c <? 0x10000) with false by lia.
    replace (c <? 0x110000) with true by lia.
    reflexivity. }
Qed.

Lemma utf8_dec_fuel_step f bs : bs <> [] ->
  utf8_dec_fuel (S f) bs =
  match utf8_dec1 bs with
  | None => None
  | Some (c, r) => match utf8_dec_fuel f r with None => None | Some cs => Some (c :: cs) end
  end.
Proof. destruct bs; [congruence|reflexivity]. Qed.

Lemma utf8_dec_fuel_enc_all s : forall fuel,
  forallb scalar s = true -> (length s <= fuel)%nat ->
  utf8_dec_fuel fuel (utf8_enc_all s) = Some s.
Proof.
  induction s as [|c s IH]; intros fuel Hs Hf.
  - destruct fuel; reflexivity.
  - cbn [forallb] in Hs. apply andb_true_iff in Hs. destruct Hs as [Hc Hs].
    cbn [utf8_enc_all flat_map]. cbn [length] in Hf.
    destruct fuel as [|fuel]; [lia|].
    rewrite utf8_dec_fuel_step.
    2:{ intros E. apply app_eq_nil in E. destruct E as [E _]. now apply utf8_enc_nonempty in E. }
    rewrite utf8_dec1_enc by exact Hc.
    fold (utf8_enc_all s). rewrite IH by (auto; lia). reflexivity.
Qed.

Lemma utf8_enc_all_length_ge s : (length s <= length (utf8_enc_all s))%nat.
Proof.
  induction s as [|c s IH]; [apply le_n|].
  cbn [utf8_enc_all flat_map]. rewrite app_length. cbn [length].
  fold (utf8_enc_all s).
  pose proof (utf8_enc_nonempty c). destruct (utf8_enc c); [congruence|]. cbn [length]. lia.
Qed.

Theorem utf8_dec_enc_all s : forallb scalar s = true -> utf8_dec (utf8_enc_all s) = Some s.
Proof.
  intros Hs. unfold utf8_dec. apply utf8_dec_fuel_enc_all; [exact Hs|apply utf8_enc_all_length_ge].
Qed.

Lemma utf8_enc_all_ascii s : ascii_str s = true -> utf8_enc_all s = s.
Proof.
  induction s as [|c s IH]; [reflexivity|].
  unfold ascii_str. cbn [forallb]. intros H. apply andb_true_iff in H. destruct H as [Hc Hs].
  cbn [utf8_enc_all flat_map]. rewrite utf8_enc_ascii by lia. fold (utf8_enc_all s).
  rewrite IH by exact Hs. reflexivity.
Qed.
