(* Proofs/C06Sim3.v - the simulation of C06 (ii): cancellation, shutdown, starting handlers. *)
From Coq Require Import ZArith NArith List Bool Arith Lia.
From Pygls Require Import Base.Assoc Model.Endpoint Spec.EndpointSpec Spec.ContainSpec
  Proofs.EndpointInv Proofs.C06Lists Proofs.C06Sim Proofs.C06Sim2.
Import ListNotations.

(* ---------------------------------------------------------------- shapes: who owns which task / job *)
Definition shp (s : st) : list who * list who := (map t_who (tasks s), map j_who (jobs s)).

Lemma map_upd_nth_same : forall (A C : Type) (g : A -> C) (f : A -> A) t l,
  (forall y, g (f y) = g y) -> map g (upd_nth t f l) = map g l.
Proof.
  intros A C g f t l H. revert t. induction l as [|x r IH]; intros t; [destruct t; reflexivity|].
  destruct t; cbn [upd_nth map]; [rewrite H; reflexivity|rewrite IH; reflexivity].
Qed.


Section Shape.
Variable c : cfg.
Lemma shp_do_write : forall f s, shp (fst (do_write c f s)) = shp s.
Proof. intros. unfold do_write. destruct (closed s); [reflexivity|]. destruct (failing c (nwrites s)); reflexivity. Qed.
Lemma shp_write_call : forall sv f s, shp (fst (write_call c sv f s)) = shp s.
Proof. intros. unfold write_call. destruct (c_writer c); [apply shp_do_write|]. destruct sv; reflexivity. Qed.
Lemma shp_hook : forall sv src s, shp (hook c sv src s) = shp s.
Proof.
  intros. unfold hook. destruct (c_hook c); try reflexivity.
  destruct src; try reflexivity;
    match goal with |- context [write_call c sv ?f ?x] =>
      pose proof (shp_write_call sv f x) as H; destruct (write_call c sv f x) as [s2 ok]; cbn [fst] in H;
      destruct ok; exact H end.
Qed.
Lemma shp_send_data : forall sv f ok s, shp (fst (send_data c sv f ok s)) = shp s.
Proof.
  intros. unfold send_data. destruct ok; cbn [negb fst]; [|apply shp_hook].
  pose proof (shp_write_call sv f s) as H. destruct (write_call c sv f s) as [s1 b]. cbn [fst] in *.
  destruct b; [exact H|rewrite shp_hook; exact H].
Qed.
Lemma shp_send_response : forall sv i r s, shp (send_response c sv i r s) = shp s.
Proof.
  intros. unfold send_response. destruct r as [code|v ok]; [apply shp_send_data|].
  rewrite (send_data_eta c sv _ ok (rtype_pop i s)).
  pose proof (shp_send_data sv (OResp i (PResult v)) ok (rtype_pop i s)) as H.
  destruct ok; [exact H|]. rewrite shp_send_data. exact H.
Qed.
Lemma shp_run_cb : forall sv cb r s, shp (run_cb c sv cb r s) = shp s.
Proof.
  intros. unfold run_cb, request_callback, notification_callback.
  destruct cb; destruct r; try reflexivity; unfold fut_pop;
    change (shp (set_futs ?v ?x)) with (shp x); rewrite ?shp_hook, ?shp_send_response; reflexivity.
Qed.
Lemma shp_set_task_st : forall t x s, shp (set_task_st t x s) = shp s.
Proof. intros. unfold shp, set_task_st. cbn [tasks jobs set_tasks]. rewrite map_upd_nth_same; reflexivity. Qed.
Lemma shp_set_job_st : forall j x s, shp (set_job_st j x s) = shp s.
Proof. intros. unfold shp, set_job_st. cbn [tasks jobs set_jobs]. rewrite map_upd_nth_same; reflexivity. Qed.
Lemma shp_cancel_ref : forall r s, shp (cancel_ref c r s) = shp s.
Proof.
  intros. unfold cancel_ref. destruct r as [t|j|o].
  - destruct (nth_error (tasks s) t) as [tk|]; [|reflexivity]. destruct (t_st tk); try reflexivity. apply shp_set_task_st.
  - destruct (nth_error (jobs s) j) as [jb|]; [|reflexivity]. destruct (j_st jb); try reflexivity.
    rewrite shp_run_cb. apply shp_set_job_st.
  - destruct (nth_error (outg s) o) as [[| |]|]; reflexivity.
Qed.
End Shape.

Section Sim3.
Variable B : who -> bool.
Variable c : cfg.
Hypothesis CFG : cfg_ok c = true.

Notation R := (C06Sim.R B).
Notation gid := (good_id B).
Notation gt := (good_t B).
Notation gj := (good_j B).
Notation gf := (good_f B).

Lemma rank_map : forall (A C : Type) (q : C -> bool) (g : A -> C) l n,
  rank (fun x => q (g x)) l n = rank q (map g l) n.
Proof.
  intros A C q g l. induction l as [|x r IH]; intros n; [destruct n; reflexivity|].
  destruct n; cbn [rank map]; [reflexivity|rewrite IH; reflexivity].
Qed.

Lemma rank_gt : forall ts t, rank gt ts t = rank (fun w => negb (B w)) (map t_who ts) t.
Proof. intros. exact (rank_map _ _ (fun w => negb (B w)) t_who ts t). Qed.
Lemma rank_gj : forall js j, rank gj js j = rank (fun w => negb (B w)) (map j_who js) j.
Proof. intros. exact (rank_map _ _ (fun w => negb (B w)) j_who js j). Qed.

Lemma mref_shp : forall s1 s r, shp s1 = shp s -> mref B (tasks s1) (jobs s1) r = mref B (tasks s) (jobs s) r.
Proof.
  intros s1 s r H. unfold shp in H. inversion H as [[H1 H2]]. unfold mref. destruct r as [t|j|o]; [| |reflexivity].
  - f_equal. rewrite (rank_gt (tasks s1) t), (rank_gt (tasks s) t), H1. reflexivity.
  - f_equal. rewrite (rank_gj (jobs s1) j), (rank_gj (jobs s) j), H2. reflexivity.
Qed.

Lemma fut_ok_shp : forall s1 s p, shp s1 = shp s ->
  fut_ok B (tasks s) (jobs s) p -> fut_ok B (tasks s1) (jobs s1) p.
Proof.
  intros s1 s [i r] H F. unfold shp in H. inversion H as [[H1 H2]]. unfold fut_ok in *. cbn [fst snd] in *.
  destruct r as [t|j|o]; [| |exact F].
  - destruct F as (tk & N & G).
    assert (M : nth_error (map t_who (tasks s1)) t = Some (t_who tk)) by (rewrite H1; apply map_nth_error; exact N).
    rewrite nth_error_map in M. destruct (nth_error (tasks s1) t) as [tk1|]; [|discriminate].
    cbn in M. inversion M as [M1]. exists tk1. split; [reflexivity|]. unfold good_t in *. rewrite M1. exact G.
  - destruct F as (jb & N & G).
    assert (M : nth_error (map j_who (jobs s1)) j = Some (j_who jb)) by (rewrite H2; apply map_nth_error; exact N).
    rewrite nth_error_map in M. destruct (nth_error (jobs s1) j) as [jb1|]; [|discriminate].
    cbn in M. inversion M as [M1]. exists jb1. split; [reflexivity|]. unfold good_j in *. rewrite M1. exact G.
Qed.

(* ---------------------------------------------------------------- future.cancel() *)
Definition ref_side (g : bool) (s : st) (r : fref) : Prop :=
  match r with
  | FTask t => exists tk, nth_error (tasks s) t = Some tk /\ gt tk = g
  | FJob j => exists jb, nth_error (jobs s) j = Some jb /\ gj jb = g
  | FOut _ => g = true
  end.

Lemma fut_ok_side : forall s i r, fut_ok B (tasks s) (jobs s) (i, r) -> ref_side (gid i) s r.
Proof. intros s i r H. unfold fut_ok in H. cbn [fst snd] in H. destruct r; exact H. Qed.

Lemma cancel_ref_l : forall r s s', ref_side false s r -> R s s' -> R (cancel_ref c r s) s'.
Proof.
  intros r s s' S H. unfold cancel_ref. destruct r as [t|j|o]; cbn [ref_side] in S.
  - destruct S as (tk & N & G). rewrite N. destruct (t_st tk); try exact H.
    eapply R_set_task_st_l; eassumption.
  - destruct S as (jb & N & G). rewrite N. destruct (j_st jb); try exact H.
    apply (run_cb_l B c CFG).
    + pose proof (job_cb_side B _ _ _ _ H N) as K. rewrite G in K. exact K.
    + eapply R_set_job_st_l; eassumption.
  - discriminate.
Qed.

Lemma cancel_ref_b : forall r s s', ref_side true s r -> R s s' ->
  R (cancel_ref c r s) (cancel_ref c (mref B (tasks s) (jobs s) r) s').
Proof.
  intros r s s' S H. unfold cancel_ref. destruct r as [t|j|o]; cbn [ref_side mref] in *.
  - destruct S as (tk & N & G). rewrite N, (R_nth_task B _ _ _ _ H N G). destruct (t_st tk); try exact H.
    apply R_set_task_st_b; [|exact H]. intros tk0 N0. congruence.
  - destruct S as (jb & N & G). rewrite N, (R_nth_job B _ _ _ _ H N G). destruct (j_st jb); try exact H.
    apply (run_cb_b B c CFG).
    + pose proof (job_cb_side B _ _ _ _ H N) as K. rewrite G in K. exact K.
    + apply R_set_job_st_b; [|exact H]. intros jb0 N0. congruence.
  - rewrite (r_outg _ _ _ H). destruct (nth_error (outg s) o) as [[| |]|]; try exact H.
    apply R_set_outg_st_b. exact H.
Qed.

Lemma fold_cancel : forall l s s', R s s' -> Forall (fut_ok B (tasks s) (jobs s)) l ->
  R (fold_left (fun a r => cancel_ref c r a) (map snd l) s)
    (fold_left (fun a r => cancel_ref c r a) (map snd (map (fmap B (tasks s) (jobs s)) (filter gf l))) s').
Proof.
  induction l as [|[i r] l IH]; intros s s' H F; [exact H|].
  inversion F as [|? ? F1 F2]; subst. cbn [map snd fold_left filter].
  pose proof (fut_ok_side _ _ _ F1) as S.
  assert (F2' : Forall (fut_ok B (tasks (cancel_ref c r s)) (jobs (cancel_ref c r s))) l).
  { eapply Forall_impl; [|exact F2]. intros p Hp. apply (fut_ok_shp _ s); [apply shp_cancel_ref|exact Hp]. }
  assert (E : map (fmap B (tasks (cancel_ref c r s)) (jobs (cancel_ref c r s))) (filter gf l) =
              map (fmap B (tasks s) (jobs s)) (filter gf l)).
  { apply map_ext. intros [k v]. unfold fmap. cbn [fst snd]. rewrite (mref_shp _ s); [reflexivity|apply shp_cancel_ref]. }
  unfold good_f at 1. cbn [fst]. destruct (gid i) eqn:G.
  - cbn [map snd fmap fst fold_left]. rewrite <- E. apply IH; [|exact F2'].
    apply cancel_ref_b; assumption.
  - rewrite <- E. apply IH; [|exact F2']. apply cancel_ref_l; assumption.
Qed.

Lemma lsp_shutdown_b : forall s s', R s s' -> R (lsp_shutdown c s) (lsp_shutdown c s').
Proof.
  intros s s' H. unfold lsp_shutdown. apply R_set_shutdown_b. unfold values.
  rewrite (r_futs _ _ _ H). apply fold_cancel; [exact H|exact (r_fok _ _ _ H)].
Qed.
End Sim3.
