(* The wrappers around the read loops release the server whatever the loop did, and return
   when the loop ended normally; _send_data never raises whatever the writer does. *)
From Coq Require Import NArith List Bool.
From Pygls Require Import Base.Bytes Model.Framing Model.Wrappers Spec.FramingSpec
  Proofs.FramingProofs Proofs.FramingProofsFrames Proofs.FramingProofsCut.
Open Scope N_scope.

Definition repaired (w : wrapper) : bool :=
  match w with StartIoAsync | StartIoSync | TcpCallback | ClientTask => true | _ => false end.

(* whatever way the call of the loop ends - normally or with any exception - the finally clause
   has set the stop flag, shut the pool down and closed the asyncio server *)
Theorem wrapper_releases_any w l : repaired w = true -> released (fst (wrapper_run w l)) = true.
Proof. destruct w; try discriminate; intros _; reflexivity. Qed.

Theorem tcp_callback_closes_writer l :
  wr_closed (fst (wrapper_run TcpCallback l)) = true /\
  start_tcp_returns (fst (wrapper_run TcpCallback l)) = true.
Proof. split; reflexivity. Qed.

Theorem wrapper_returns_iff w l :
  repaired w = true ->
  (snd (wrapper_run w l) = Returns <->
   l = LNormal \/ ((w = StartIoAsync \/ w = StartIoSync) /\ (l = LRaised XBrokenPipe \/ l = LRaised XKeyboardInterrupt))).
Proof.
  destruct w; try discriminate; intros _; destruct l as [|[e| | | |]]; cbn; split; intros H;
    try reflexivity; try discriminate; auto;
    repeat match goal with
           | H : _ \/ _ |- _ => destruct H
           | H : _ /\ _ |- _ => destruct H
           end; try discriminate.
Qed.

(* wrapper_releases: the C15_framing result composed with the wrapper, for every stream of
   well-formed frames, every cut, reader kind and ending: exactly the complete frames (plus a
   blocking reader's truncated body), resources released, and the call returns *)
Theorem wrapper_releases w k e ms cut :
  repaired w = true -> msgs_ok k ms = true -> cut <= len (frames ms) ->
  exists s,
    serve w k e (take cut (frames ms)) = Some (cut_bodies (short_delivery k e) ms cut, (s, Returns)) /\
    released s = true /\ (w = TcpCallback -> start_tcp_returns s = true).
Proof.
  intros Hw H Hc. unfold serve. rewrite (loop_on_prefix k e ms cut H Hc). unfold cut_term, of_term.
  destruct w; try discriminate; eexists; (split; [reflexivity|split; [reflexivity|]]);
    intros E; try discriminate; reflexivity.
Qed.

(* ---- _send_data ---- *)

Theorem send_data_never_raises dumps write hook :
  dumps <> ORaisesBase -> write <> ORaisesBase -> hook <> ORaisesBase ->
  snd (send_data dumps write hook) <> SDRaises.
Proof. destruct dumps, write, hook; cbn; congruence. Qed.

(* and it attempts at most one write and calls the (guarded) hook at most once, exactly when
   serialising or writing failed *)
Theorem send_data_effects dumps write hook :
  fst (send_data dumps write hook) =
  (match dumps with OOk => [EvWrite] | _ => [] end) ++
  (match dumps, write with
   | ORaisesException, _ | OOk, ORaisesException => [EvHook]
   | _, _ => []
   end).
Proof. destruct dumps, write, hook; reflexivity. Qed.
