(* C13 - lemmas about Model/Registry.v and Spec/RegistrySpec.v *)
From Coq Require Import NArith ZArith List Bool Lia.
From Pygls Require Import Base.JsonVal Model.Registry Spec.RegistrySpec.
Open Scope N_scope.

(* ================= strings and association lists ================= *)
Lemma str_eqb_eq a b : str_eqb a b = true <-> a = b.
Proof.
  revert b. induction a as [|x a IH]; destruct b as [|y b]; cbn [str_eqb]; split; intro H;
    try reflexivity; try discriminate.
  - apply andb_true_iff in H as [H1 H2]. apply N.eqb_eq in H1. apply IH in H2. subst. reflexivity.
  - inversion H; subst. rewrite N.eqb_refl. cbn [andb]. apply IH. reflexivity.
Qed.
Lemma str_eqb_refl a : str_eqb a a = true.
Proof. apply str_eqb_eq. reflexivity. Qed.
Lemma str_eqb_neq a b : str_eqb a b = false <-> a <> b.
Proof.
  split; intro H.
  - intro E. apply str_eqb_eq in E. congruence.
  - destruct (str_eqb a b) eqn:E; [apply str_eqb_eq in E; contradiction|reflexivity].
Qed.
Lemma str_eqb_sym a b : str_eqb a b = str_eqb b a.
Proof.
  destruct (str_eqb a b) eqn:E.
  - apply str_eqb_eq in E. subst. symmetry. apply str_eqb_refl.
  - symmetry. apply str_eqb_neq. apply str_eqb_neq in E. congruence.
Qed.

Lemma mem_str_In k l : mem_str k l = true <-> In k l.
Proof.
  induction l as [|x l IH]; cbn [mem_str In]; [split; [discriminate|tauto]|].
  rewrite orb_true_iff, IH, str_eqb_eq. split; intros [H|H]; auto.
Qed.

Section AssocFacts.
  Context {V : Type}.
  Implicit Types l acc : list (list N * V).

  Lemma amem_mem_str k l : amem k l = mem_str k (map fst l).
  Proof.
    unfold amem. induction l as [|[k' v] l IH]; cbn [aget map fst mem_str]; [reflexivity|].
    destruct (str_eqb k k'); [reflexivity|exact IH].
  Qed.

  Lemma aset_notin k (v : V) acc : amem k acc = false -> aset k v acc = acc ++ [(k, v)].
  Proof.
    unfold amem. induction acc as [|[k' v'] acc IH]; cbn [aget aset app]; [reflexivity|].
    destruct (str_eqb k k'); [discriminate|]. intro H. rewrite IH by exact H. reflexivity.
  Qed.

  Lemma amem_app k (a b : list (list N * V)) : amem k (a ++ b) = amem k a || amem k b.
  Proof.
    unfold amem. induction a as [|[k' v'] a IH]; cbn [app aget]; [reflexivity|].
    destruct (str_eqb k k'); [reflexivity|exact IH].
  Qed.

  Lemma py_dict_from acc l :
    nodup_strs (map fst l) = true ->
    (forall k, mem_str k (map fst l) = true -> amem k acc = false) ->
    fold_left (fun d kv => aset (fst kv) (snd kv) d) l acc = acc ++ l.
  Proof.
    revert acc. induction l as [|[k v] l IH]; intros acc Hnd Hdis; cbn [fold_left].
    - rewrite app_nil_r. reflexivity.
    - cbn [map fst nodup_strs] in Hnd. apply andb_true_iff in Hnd as [Hk Hnd].
      cbn [fst snd]. rewrite aset_notin.
      2:{ apply Hdis. cbn [map fst mem_str]. rewrite str_eqb_refl. reflexivity. }
      rewrite IH; [rewrite <- app_assoc; reflexivity|exact Hnd|].
      intros k' Hk'. rewrite amem_app.
      assert (E : amem k' acc = false).
      { apply Hdis. cbn [map fst mem_str]. rewrite Hk'. apply orb_true_r. }
      rewrite E. cbn [orb]. unfold amem. cbn [aget].
      destruct (str_eqb k' k) eqn:E2; [|reflexivity].
      apply str_eqb_eq in E2. subst. rewrite Hk' in Hk. discriminate.
  Qed.

  Lemma py_dict_nodup l : nodup_strs (map fst l) = true -> py_dict l = l.
  Proof.
    intro H. unfold py_dict. rewrite py_dict_from; [reflexivity|exact H|reflexivity].
  Qed.

  (* membership of a key survives dict() *)
  Lemma aget_aset_eq k (v : V) l : aget k (aset k v l) = Some v.
  Proof.
    induction l as [|[k' v'] l IH]; cbn [aset aget].
    - rewrite str_eqb_refl. reflexivity.
    - destruct (str_eqb k k') eqn:E; cbn [aget]; rewrite E; [reflexivity|exact IH].
  Qed.
  Lemma aget_aset_neq k k' (v : V) l : str_eqb k k' = false -> aget k (aset k' v l) = aget k l.
  Proof.
    intro H. induction l as [|[k2 v2] l IH]; cbn [aset aget].
    - rewrite H. reflexivity.
    - destruct (str_eqb k' k2) eqn:E; cbn [aget].
      + apply str_eqb_eq in E. subst. rewrite H. reflexivity.
      + destruct (str_eqb k k2); [reflexivity|exact IH].
  Qed.
  Lemma amem_fold k l acc :
    amem k (fold_left (fun d kv => aset (fst kv) (snd kv) d) l acc) = amem k acc || amem k l.
  Proof.
    revert acc. induction l as [|[k' v] l IH]; intro acc; cbn [fold_left].
    - unfold amem at 3. cbn [aget]. rewrite orb_false_r. reflexivity.
    - rewrite IH. cbn [fst snd]. unfold amem. cbn [aget].
      destruct (str_eqb k k') eqn:E.
      + apply str_eqb_eq in E. subst. rewrite aget_aset_eq. cbn [orb]. symmetry. apply orb_true_r.
      + rewrite aget_aset_neq by exact E. reflexivity.
  Qed.
  Lemma amem_py_dict k l : amem k (py_dict l) = amem k l.
  Proof. unfold py_dict. rewrite amem_fold. reflexivity. Qed.
End AssocFacts.

Lemma amem_map {A B} (f : A -> B) k (l : list (list N * A)) :
  amem k (map (fun kv => (fst kv, f (snd kv))) l) = amem k l.
Proof.
  unfold amem. induction l as [|[k' v] l IH]; cbn [map aget fst snd]; [reflexivity|].
  destruct (str_eqb k k'); [reflexivity|exact IH].
Qed.
Lemma aget_map {A B} (f : A -> B) k (l : list (list N * A)) :
  aget k (map (fun kv => (fst kv, f (snd kv))) l) = option_map f (aget k l).
Proof.
  induction l as [|[k' v] l IH]; cbn [map aget fst snd]; [reflexivity|].
  destruct (str_eqb k k'); [reflexivity|exact IH].
Qed.

(* ================= an induction principle for json ================= *)
Section JsonInd.
  Variable P : json -> Prop.
  Hypothesis Hnull : P JNull.
  Hypothesis Hbool : forall b, P (JBool b).
  Hypothesis Hnum : forall z, P (JNum z).
  Hypothesis Hflt : forall r, P (JFlt r).
  Hypothesis Hstr : forall s, P (JStr s).
  Hypothesis Harr : forall l, Forall P l -> P (JArr l).
  Hypothesis Hobj : forall kvs, Forall (fun kv => P (snd kv)) kvs -> P (JObj kvs).
  Fixpoint json_ind' (j : json) : P j :=
    match j with
    | JNull => Hnull
    | JBool b => Hbool b
    | JNum z => Hnum z
    | JFlt r => Hflt r
    | JStr s => Hstr s
    | JArr l => Harr l ((fix go (l : list json) : Forall P l :=
                           match l with
                           | [] => Forall_nil _
                           | x :: r => Forall_cons _ (json_ind' x) (go r)
                           end) l)
    | JObj kvs => Hobj kvs ((fix go (l : list (list N * json)) : Forall (fun kv => P (snd kv)) l :=
                               match l with
                               | [] => Forall_nil _
                               | x :: r => Forall_cons _ (json_ind' (snd x)) (go r)
                               end) kvs)
    end.
End JsonInd.

(* ================= (i) classification ================= *)
Lemma classify_agrees_jsonrpc :
  forall i m e k, spec_kind i m e = Some k -> classify i m e = k.
Proof. intros [] [] [] k H; cbn in H; inversion H; reflexivity. Qed.

(* the registry's idea of a method agrees with the presence of an id *)
Definition consistent (t : mtype) (data : list (list N * pval)) : Prop :=
  match t with TRegistryMsg r => m_request r = amem k_id data | _ => True end.

Section Route.
  Variable obj : Type.
  Variable structure : list N -> pval -> sres obj.
  Variable reg : list mrow.

  Lemma run_structure_generic t data c fields :
    run_structure obj structure t data = SMGeneric c fields -> t = TGeneric c.
  Proof.
    unfold run_structure, reject. destruct t as [|c'|r|ty].
    - destruct (structure _ _); intro H; discriminate.
    - destruct (generic_structure c' data); intro H; inversion H; reflexivity.
    - destruct (structure _ _); intro H; discriminate.
    - destruct (structure _ _); intro H; discriminate.
  Qed.
  Lemma run_structure_typed t data t' o :
    run_structure obj structure t data = SMTyped t' o ->
    t' = t /\ (forall c, t <> TGeneric c) /\ structure (mtype_name t) (PDict data) = SOk o.
  Proof.
    unfold run_structure, reject. destruct t as [|c'|r|ty].
    - destruct (structure _ _) eqn:E; intro H; inversion H; subst. repeat split; congruence.
    - destruct (generic_structure c' data); intro H; discriminate.
    - destruct (structure _ _) eqn:E; intro H; inversion H; subst. repeat split; congruence.
    - destruct (structure _ _) eqn:E; intro H; inversion H; subst. repeat split; congruence.
  Qed.

  Lemma message_type_for_cases mv g t :
    message_type_for reg mv g = Some t -> t = TGeneric g \/ exists r, t = TRegistryMsg r.
  Proof.
    unfold message_type_for. destruct mv; intro H; try (inversion H; left; reflexivity); try discriminate.
    destruct (find_method reg s); inversion H; [right; eexists; reflexivity|left; reflexivity].
  Qed.

  (* the type structure_message asks the converter for, as a function of the three membership
     bits (and, for the class only, of the method name / the table entry of the id) *)
  Lemma structure_message_type st data st' (r : smres obj) t :
    structure_message obj structure reg st data = (st', r) ->
    (exists c fields, r = SMGeneric c fields /\ t = TGeneric c) \/ (exists o, r = SMTyped t o) ->
    match classify (amem k_id data) (amem k_method data) (amem k_error data) with
    | KErrorResponse => t = TErrorResponse
    | KRequest => t = TGeneric GRequest \/ exists r, t = TRegistryMsg r
    | KNotification => t = TGeneric GNotification \/ exists r, t = TRegistryMsg r
    | KResponse => t = TGeneric GResponse \/ exists ty, t = TRegistryRes ty
    end.
  Proof.
    unfold structure_message. intros H Hr.
    assert (Hrs : forall t0, r = run_structure obj structure t0 data -> t = t0).
    { intros t0 E. destruct Hr as [(c & fields & E1 & E2)|(o & E1)]; rewrite E1 in E; symmetry in E.
      - apply run_structure_generic in E. congruence.
      - apply run_structure_typed in E. destruct E as [E _]. exact E. }
    assert (Hrej : forall code, r <> reject obj data code).
    { intros code E. unfold reject in E. destruct Hr as [(c & fields & E1 & _)|(o & E1)]; congruence. }
    destruct (amem k_jsonrpc data); cbn [negb] in H.
    2:{ inversion H; subst. destruct Hr as [(c & fields & E1 & _)|(o & E1)]; discriminate. }
    unfold amem at 1. destruct (aget k_id data) as [i|] eqn:Ei; cbn [classify].
    - destruct (amem k_error data) eqn:Ee.
      + destruct (unhashable i && _); inversion H; subst.
        * exfalso. eapply Hrej. reflexivity.
        * apply Hrs. reflexivity.
      + unfold amem at 1. destruct (aget k_method data) as [mv|] eqn:Em.
        * destruct (message_type_for reg mv GRequest) as [t0|] eqn:Et; inversion H; subst.
          -- rewrite (Hrs t0 eq_refl). eapply message_type_for_cases. exact Et.
          -- exfalso. eapply Hrej. reflexivity.
        * destruct (unhashable i); [inversion H; subst; exfalso; eapply Hrej; reflexivity|].
          destruct (rt_get i (rtypes st)) as [rt|]; inversion H; subst.
          -- destruct rt as [ty|]; [right; exists ty|left]; apply Hrs; reflexivity.
          -- exfalso. eapply Hrej. reflexivity.
    - destruct (message_type_for reg _ GNotification) as [t0|] eqn:Et; inversion H; subst.
      + rewrite (Hrs t0 eq_refl). eapply message_type_for_cases. exact Et.
      + exfalso. eapply Hrej. reflexivity.
  Qed.

  (* handle_message's hasattr cascade lands where the three members say, for every class pygls
     can have chosen - provided the registry's kind of the method agrees with the id member *)
  Theorem route_is_classify st data st' (r : smres obj) t :
    structure_message obj structure reg st data = (st', r) ->
    (exists c fields, r = SMGeneric c fields /\ t = TGeneric c) \/ (exists o, r = SMTyped t o) ->
    consistent t data ->
    handle_branch (shape_of t) = classify (amem k_id data) (amem k_method data) (amem k_error data).
  Proof.
    intros H Hr Hc. pose proof (structure_message_type st data st' r t H Hr) as Ht.
    unfold classify in *.
    destruct (amem k_id data) eqn:Ei.
    - destruct (amem k_error data).
      + subst t. reflexivity.
      + destruct (amem k_method data).
        * destruct Ht as [->|[r0 ->]]; [reflexivity|]. cbn in Hc. cbn. rewrite Hc, Ei. reflexivity.
        * destruct Ht as [->|[ty ->]]; reflexivity.
    - destruct Ht as [->|[r0 ->]]; [reflexivity|]. cbn in Hc. cbn. rewrite Hc, Ei. reflexivity.
  Qed.

  (* two objects with the same three membership bits are routed alike *)
  Theorem classify_by_members_only st1 st2 d1 d2 st1' st2' (r1 r2 : smres obj) t1 t2 :
    structure_message obj structure reg st1 d1 = (st1', r1) ->
    structure_message obj structure reg st2 d2 = (st2', r2) ->
    ((exists c fields, r1 = SMGeneric c fields /\ t1 = TGeneric c) \/ (exists o, r1 = SMTyped t1 o)) ->
    ((exists c fields, r2 = SMGeneric c fields /\ t2 = TGeneric c) \/ (exists o, r2 = SMTyped t2 o)) ->
    consistent t1 d1 -> consistent t2 d2 ->
    amem k_id d1 = amem k_id d2 -> amem k_method d1 = amem k_method d2 ->
    amem k_error d1 = amem k_error d2 ->
    handle_branch (shape_of t1) = handle_branch (shape_of t2).
  Proof.
    intros H1 H2 R1 R2 C1 C2 Ei Em Ee.
    rewrite (route_is_classify _ _ _ _ _ H1 R1 C1), (route_is_classify _ _ _ _ _ H2 R2 C2).
    rewrite Ei, Em, Ee. reflexivity.
  Qed.
End Route.

(* ================= (iii) generic objects: members stay reachable by name ================= *)
Lemma aget_In {V} k (l : list (list N * V)) v : aget k l = Some v -> In (k, v) l.
Proof.
  induction l as [|[k' v'] l IH]; cbn [aget]; [discriminate|].
  destruct (str_eqb k k') eqn:E; intro H.
  - apply str_eqb_eq in E. inversion H; subst. left. reflexivity.
  - right. apply IH. exact H.
Qed.
Lemma adel_notin {V} k (l : list (list N * V)) : amem k l = false -> adel k l = l.
Proof.
  unfold amem. induction l as [|[k' v'] l IH]; cbn [aget adel]; [reflexivity|].
  destruct (str_eqb k k'); [discriminate|]. intro H. rewrite IH by exact H. reflexivity.
Qed.

Lemma map_fst_map {A B} (f : A -> B) (l : list (list N * A)) :
  map fst (map (fun kv => (fst kv, f (snd kv))) l) = map fst l.
Proof. induction l as [|[k v] l IH]; cbn [map fst]; [reflexivity|rewrite IH; reflexivity]. Qed.
Lemma map_snd_map {A B} (f : A -> B) (l : list (list N * A)) :
  map snd (map (fun kv => (fst kv, f (snd kv))) l) = map (fun kv => f (snd kv)) l.
Proof. induction l as [|[k v] l IH]; cbn [map snd fst]; [reflexivity|rewrite IH; reflexivity]. Qed.

Lemma embed_obj_nodup kvs :
  nodup_strs (map fst kvs) = true ->
  embed (JObj kvs) = PDict (map (fun kv => (fst kv, embed (snd kv))) kvs).
Proof.
  intro H. cbn [embed]. rewrite py_dict_nodup; [reflexivity|]. rewrite map_fst_map. exact H.
Qed.

Lemma good_key_not_underscore k x : good_key k = true -> str_eqb k (95 :: x) = false.
Proof.
  unfold good_key. intro H. apply andb_true_iff in H as [H Hu]. apply andb_true_iff in H as [Hi _].
  destruct k as [|c r]; [discriminate|]. cbn [starts_underscore] in Hu. cbn [str_eqb].
  apply negb_true_iff in Hu. rewrite Hu. reflexivity.
Qed.

(* the field that namedtuple(rename=True) makes of a good member name is that name *)
Lemma aget_renamed k (f : json -> pval) kvs : forall idx seen v,
  good_key k = true -> mem_str k seen = false -> aget k kvs = Some v ->
  aget k (combine (rename_from idx seen (map fst kvs)) (map (fun kv => f (snd kv)) kvs)) = Some (f v).
Proof.
  induction kvs as [|[k0 v0] kvs IH]; intros idx seen v Hg Hs H; cbn [aget] in H; [discriminate|].
  cbn [map fst snd rename_from combine aget].
  destruct (str_eqb k k0) eqn:E.
  - apply str_eqb_eq in E. subst k0. inversion H; subst v0.
    assert (K : keeps_name k seen = true).
    { unfold keeps_name. unfold good_key in Hg. rewrite Hg, Hs. reflexivity. }
    rewrite K. rewrite str_eqb_refl. reflexivity.
  - assert (N0 : str_eqb k (if keeps_name k0 seen then k0 else 95 :: dec idx) = false).
    { destruct (keeps_name k0 seen); [exact E|apply good_key_not_underscore; exact Hg]. }
    rewrite N0. apply IH; [exact Hg| |exact H].
    cbn [mem_str]. rewrite E, Hs. reflexivity.
Qed.

Lemma wf_jget1 j s j' : wf_json j = true -> jget1 j s = Some j' -> wf_json j' = true.
Proof.
  destruct j; destruct s; cbn [jget1 wf_json]; intros Hw H; try discriminate.
  - apply nth_error_In in H. rewrite forallb_forall in Hw. apply Hw. exact H.
  - apply andb_true_iff in Hw as [_ Hw]. apply aget_In in H. rewrite forallb_forall in Hw.
    apply (Hw _ H).
Qed.

Lemma step_preserved tn j s j' :
  wf_json j = true -> good_step s = true -> jget1 j s = Some j' ->
  pget1 (hook_all tn (embed j)) s = Some (hook_all tn (embed j')).
Proof.
  destruct j; destruct s; cbn [jget1]; intros Hw Hg H; try discriminate.
  - cbn [embed hook_all pget1]. rewrite map_map.
    exact (map_nth_error (fun x => hook_all tn (embed x)) i l H).
  - cbn [wf_json] in Hw. apply andb_true_iff in Hw as [Hn _].
    rewrite (embed_obj_nodup _ Hn). cbn [hook_all]. unfold mk_tuple. cbn [pget1].
    rewrite map_fst_map, map_snd_map, map_fst_map. rewrite map_map. cbn [snd fst].
    unfold rename. cbn [good_step] in Hg.
    apply (aget_renamed k (fun j => hook_all tn (embed j)) kvs 0 [] j' Hg eq_refl H).
Qed.

Lemma paths_preserved tn p : forall j v,
  wf_json j = true -> forallb good_step p = true -> jget j p = Some v ->
  pget (hook_all tn (embed j)) p = Some (hook_all tn (embed v)).
Proof.
  induction p as [|s p IH]; intros j v Hw Hg H; cbn [jget pget] in *.
  - inversion H; subst. reflexivity.
  - cbn [forallb] in Hg. apply andb_true_iff in Hg as [Hs Hg].
    destruct (jget1 j s) as [j'|] eqn:E; [|discriminate].
    rewrite (step_preserved tn j s j' Hw Hs E). apply IH; [eapply wf_jget1; eassumption|exact Hg|exact H].
Qed.

Lemma hook_all_scalar tn v : is_scalar v = true -> hook_all tn (embed v) = embed v.
Proof. destruct v; cbn; intro H; try reflexivity; discriminate. Qed.

Lemma plain_embed : forall j, wf_json j = true -> plain (embed j) = true.
Proof.
  apply (json_ind' (fun j => wf_json j = true -> plain (embed j) = true)); try (intros; reflexivity).
  - intros l IH Hw. cbn [embed plain]. cbn [wf_json] in Hw. rewrite forallb_forall in Hw.
    rewrite forallb_forall. intros x Hx. apply in_map_iff in Hx as (y & <- & Hy).
    rewrite Forall_forall in IH. apply IH; [exact Hy|apply Hw; exact Hy].
  - intros kvs IH Hw. cbn [wf_json] in Hw. apply andb_true_iff in Hw as [Hn Hw].
    rewrite (embed_obj_nodup _ Hn). cbn [plain]. rewrite forallb_forall in Hw. rewrite forallb_forall.
    intros x Hx. apply in_map_iff in Hx as (y & <- & Hy). cbn [snd].
    rewrite Forall_forall in IH. apply IH; [exact Hy|apply Hw; exact Hy].
Qed.

(* arrays without objects are handed over unchanged and need no names *)
Lemma existsb_false_In {A} (f : A -> bool) l x : existsb f l = false -> In x l -> f x = false.
Proof.
  intros H Hx. destruct (f x) eqn:E; [|reflexivity].
  assert (existsb f l = true) by (apply existsb_exists; exists x; auto). congruence.
Qed.
Lemma no_object_paths p : forall j v,
  has_object j = false -> jget j p = Some v -> pget (embed j) p = Some (embed v).
Proof.
  induction p as [|s p IH]; intros j v Ho H; cbn [jget pget] in *.
  - inversion H; subst. reflexivity.
  - destruct j; destruct s; cbn [jget1] in H; try discriminate.
    destruct (nth_error l i) as [j'|] eqn:E; [|discriminate].
    cbn [embed pget1]. rewrite (map_nth_error embed _ _ E). apply IH; [|exact H].
    cbn [has_object] in Ho. eapply existsb_false_In; [exact Ho|]. eapply nth_error_In. exact E.
Qed.

(* the object _dict_to_object builds, inside the guard *)
Definition the_object (payload : json) : pval :=
  match payload with
  | JObj _ => hook_all s_Object (embed payload)
  | _ => embed payload
  end.

Lemma dict_to_object_guarded payload :
  wf_json payload = true -> generic_guard payload = true ->
  dict_to_object (embed payload) = SOk (the_object payload).
Proof.
  intros Hw Hg. unfold generic_guard in Hg.
  apply andb_true_iff in Hg as [Hg _]. apply andb_true_iff in Hg as [Htn _].
  apply negb_true_iff in Htn.
  destruct payload; try reflexivity.
  pose proof Hw as Hw'. cbn [wf_json] in Hw'. apply andb_true_iff in Hw' as [Hn _].
  cbn [the_object]. rewrite (embed_obj_nodup _ Hn). unfold dict_to_object. cbn [has_type_name] in Htn.
  assert (A : amem k_type_name (map (fun kv => (fst kv, embed (snd kv))) kvs) = false)
    by (rewrite amem_map; exact Htn).
  unfold amem in A.
  destruct (aget k_type_name (map (fun kv => (fst kv, embed (snd kv))) kvs)) eqn:E; [discriminate|].
  rewrite adel_notin by (unfold amem; rewrite E; reflexivity).
  rewrite <- (embed_obj_nodup _ Hn). rewrite (plain_embed _ Hw). reflexivity.
Qed.

Lemma the_object_paths payload p v :
  wf_json payload = true -> generic_guard payload = true ->
  forallb good_step p = true -> jget payload p = Some v -> is_scalar v = true ->
  pget (the_object payload) p = Some (embed v).
Proof.
  intros Hw Hg Hp H Hs. unfold generic_guard in Hg.
  apply andb_true_iff in Hg as [_ Harr]. apply negb_true_iff in Harr.
  destruct payload.
  1-5: (destruct p as [|stp p']; cbn [jget] in H;
        [inversion H; subst; reflexivity|cbn [jget1] in H; destruct stp; discriminate]).
  - cbn [the_object]. apply no_object_paths; [|exact H]. cbn [array_with_objects] in Harr. exact Harr.
  - cbn [the_object]. rewrite (paths_preserved s_Object p (JObj kvs) v Hw Hp H).
    rewrite hook_all_scalar by exact Hs. reflexivity.
Qed.

Theorem generic_paths_preserved payload p v :
  wf_json payload = true -> generic_guard payload = true ->
  forallb good_step p = true -> jget payload p = Some v -> is_scalar v = true ->
  exists o, dict_to_object (embed payload) = SOk o /\ pget o p = Some (embed v).
Proof.
  intros Hw Hg Hp H Hs. exists (the_object payload). split.
  - apply dict_to_object_guarded; assumption.
  - apply the_object_paths; assumption.
Qed.

(* ---- the executable reference spec_leaves lists exactly such paths ---- *)
Lemma nodup_aget {V} (l : list (list N * V)) k v :
  nodup_strs (map fst l) = true -> In (k, v) l -> aget k l = Some v.
Proof.
  induction l as [|[k' v'] l IH]; cbn [map fst nodup_strs aget In]; [tauto|].
  intros Hn [E|Hin].
  - inversion E; subst. rewrite str_eqb_refl. reflexivity.
  - apply andb_true_iff in Hn as [Hk Hn]. destruct (str_eqb k k') eqn:E.
    + apply str_eqb_eq in E. subst k'. apply negb_true_iff in Hk.
      assert (mem_str k (map fst l) = true).
      { apply mem_str_In. apply in_map_iff. exists (k, v). split; [reflexivity|exact Hin]. }
      congruence.
    + apply IH; assumption.
Qed.

Lemma leaves_arr l : forall i p leaf,
  In (p, leaf)
     ((fix go (i : nat) (l : list json) : list (list step * json) :=
         match l with
         | [] => []
         | x :: r => map (fun pl => (Idx i :: fst pl, snd pl)) (spec_leaves x) ++ go (S i) r
         end) i l) ->
  exists n x p', p = Idx (i + n) :: p' /\ nth_error l n = Some x /\ In (p', leaf) (spec_leaves x).
Proof.
  induction l as [|a l IH]; intros i p leaf H; [contradiction|].
  apply in_app_or in H as [H|H].
  - apply in_map_iff in H as ([p' lf] & E & Hin). cbn [fst snd] in E. inversion E; subst.
    exists 0%nat, a, p'. rewrite Nat.add_0_r. split; [reflexivity|split; [reflexivity|exact Hin]].
  - apply IH in H as (n & x & p' & -> & Hn & Hin). exists (S n), x, p'.
    rewrite Nat.add_succ_r. split; [reflexivity|split; [exact Hn|exact Hin]].
Qed.
Lemma leaves_obj kvs : forall p leaf,
  In (p, leaf)
     ((fix go (kvs : list (list N * json)) : list (list step * json) :=
         match kvs with
         | [] => []
         | kv :: r =>
           (if good_key (fst kv)
            then map (fun pl => (Key (fst kv) :: fst pl, snd pl)) (spec_leaves (snd kv))
            else []) ++ go r
         end) kvs) ->
  exists k x p', p = Key k :: p' /\ In (k, x) kvs /\ good_key k = true /\ In (p', leaf) (spec_leaves x).
Proof.
  induction kvs as [|[k0 x0] kvs IH]; intros p leaf H; [contradiction|].
  apply in_app_or in H as [H|H].
  - cbn [fst snd] in H. destruct (good_key k0) eqn:G; [|contradiction].
    apply in_map_iff in H as ([p' lf] & E & Hin). cbn [fst snd] in E. inversion E; subst.
    exists k0, x0, p'. split; [reflexivity|split; [left; reflexivity|split; [exact G|exact Hin]]].
  - apply IH in H as (k & x & p' & -> & Hk & G & Hin). exists k, x, p'.
    split; [reflexivity|split; [right; exact Hk|split; [exact G|exact Hin]]].
Qed.

Lemma spec_leaves_sound : forall j, wf_json j = true -> forall p leaf,
  In (p, leaf) (spec_leaves j) ->
  jget j p = Some leaf /\ forallb good_step p = true /\ is_scalar leaf = true.
Proof.
  apply (json_ind' (fun j => wf_json j = true -> forall p leaf, In (p, leaf) (spec_leaves j) ->
           jget j p = Some leaf /\ forallb good_step p = true /\ is_scalar leaf = true)).
  1-5: (intros; cbn [spec_leaves In] in *;
        match goal with H : _ \/ False |- _ => destruct H as [H|[]]; inversion H; subst end;
        repeat split; reflexivity).
  - intros l IH Hw p leaf H. cbn [spec_leaves] in H.
    apply leaves_arr in H as (n & x & p' & -> & Hn & Hin). cbn [Nat.add] in *.
    rewrite Forall_forall in IH. cbn [wf_json] in Hw. rewrite forallb_forall in Hw.
    pose proof (nth_error_In _ _ Hn) as Hx.
    destruct (IH x Hx (Hw x Hx) p' leaf Hin) as (A & B & C).
    cbn [jget jget1 forallb good_step]. rewrite Hn. repeat split; assumption.
  - intros kvs IH Hw p leaf H. cbn [spec_leaves] in H.
    apply leaves_obj in H as (k & x & p' & -> & Hk & G & Hin).
    rewrite Forall_forall in IH. cbn [wf_json] in Hw. apply andb_true_iff in Hw as [Hn Hw].
    rewrite forallb_forall in Hw.
    destruct (IH (k, x) Hk (Hw (k, x) Hk) p' leaf Hin) as (A & B & C).
    cbn [jget jget1 forallb good_step]. rewrite (nodup_aget kvs k x Hn Hk). rewrite G.
    repeat split; assumption.
Qed.

(* (iii) as the correspondence run judges it: every leaf the reference lists is found, by name,
   in the object the handler / requester gets *)
Theorem generic_leaves_reachable payload :
  wf_json payload = true -> generic_guard payload = true ->
  exists o, dict_to_object (embed payload) = SOk o /\
            forall p leaf, In (p, leaf) (spec_leaves payload) -> pget o p = Some (embed leaf).
Proof.
  intros Hw Hg. exists (the_object payload). split; [apply dict_to_object_guarded; assumption|].
  intros p leaf Hin. destruct (spec_leaves_sound payload Hw p leaf Hin) as (A & B & C).
  apply the_object_paths; assumption.
Qed.

(* ================= (ii) registry methods: the converter's object, nothing added ================= *)
Lemma lseq_ok {A B} (f : A -> lres B) (g : A -> B) l :
  Forall (fun x => f x = LOk (g x)) l -> lseq (map f l) = LOk (map g l).
Proof.
  induction 1 as [|x l Hx _ IH]; cbn [map lseq]; [reflexivity|]. rewrite Hx, IH. reflexivity.
Qed.

Section Typed.
  Variable obj : Type.
  Variable structure : list N -> pval -> sres obj.
  Variable reg : list mrow.

  (* without a "jsonrpc" member anywhere inside, the object_hook pass is plain json.loads *)
  Lemma hook_nested_embed st : forall j,
    deep_jsonrpc j = false -> hook_nested obj structure reg st j = LOk (embed j).
  Proof.
    apply (json_ind' (fun j => deep_jsonrpc j = false ->
                               hook_nested obj structure reg st j = LOk (embed j)));
      try (intros; reflexivity).
    - intros l IH Hd. cbn [hook_nested embed]. cbn [deep_jsonrpc] in Hd.
      rewrite (lseq_ok (hook_nested obj structure reg st) embed); [reflexivity|].
      rewrite Forall_forall in *. intros x Hx. apply IH; [exact Hx|].
      eapply existsb_false_In; eassumption.
    - intros kvs IH Hd. cbn [hook_nested]. cbn [deep_jsonrpc] in Hd.
      apply orb_false_iff in Hd as [Hj Hd].
      rewrite (lseq_ok (fun kv => lpair (fst kv) (hook_nested obj structure reg st (snd kv)))
                       (fun kv => (fst kv, embed (snd kv)))).
      + unfold nested_object, structure_message.
        rewrite amem_py_dict, amem_map, Hj. reflexivity.
      + rewrite Forall_forall in *. intros x Hx. rewrite (IH x Hx); [reflexivity|].
        exact (existsb_false_In (fun kv => deep_jsonrpc (snd kv)) kvs x Hd Hx).
  Qed.

  Lemma members_embed st kvs :
    nested_jsonrpc (JObj kvs) = false ->
    lseq (map (fun kv => lpair (fst kv) (hook_nested obj structure reg st (snd kv))) kvs)
    = LOk (map (fun kv => (fst kv, embed (snd kv))) kvs).
  Proof.
    intro Hd. cbn [nested_jsonrpc] in Hd.
    apply (lseq_ok (fun kv => lpair (fst kv) (hook_nested obj structure reg st (snd kv)))
                   (fun kv => (fst kv, embed (snd kv)))).
    rewrite Forall_forall. intros x Hx. rewrite hook_nested_embed; [reflexivity|].
    exact (existsb_false_In (fun kv => deep_jsonrpc (snd kv)) kvs x Hd Hx).
  Qed.

  (* A request / notification for a registry method: the handler is given exactly what the
     lsprotocol converter makes of the wire JSON for METHOD_TO_TYPES[method][0]. *)
  Theorem handler_gets_structure st kvs data m r o :
    nested_jsonrpc (JObj kvs) = false ->
    embed (JObj kvs) = PDict data ->
    aget k_jsonrpc data = Some (PStr s_version) ->
    amem k_error data = false ->
    aget k_method data = Some (PStr m) ->
    find_method reg m = Some r ->
    m_request r = amem k_id data ->
    structure (m_msg_type r) (embed (JObj kvs)) = SOk o ->
    receive obj structure reg st (JObj kvs) =
      (st, if m_request r
           then ORequest (match aget k_id data with Some i => i | None => PNull end)
                         (MTyped (TRegistryMsg r) o)
           else ONotification (MTyped (TRegistryMsg r) o)).
  Proof.
    intros Hn He Hv Herr Hm Hf Hc Hs. unfold receive. rewrite (members_embed st kvs Hn).
    rewrite He in Hs. cbn [embed] in He. inversion He as [Hd]. rewrite Hd.
    unfold structure_message.
    assert (Hj : amem k_jsonrpc data = true) by (unfold amem; rewrite Hv; reflexivity).
    rewrite Hj. cbn [negb]. rewrite Herr, Hm. unfold amem in Hc.
    destruct (aget k_id data) as [i|] eqn:Ei.
    - unfold message_type_for. rewrite Hf. unfold run_structure. cbn [mtype_name]. rewrite Hs.
      unfold handle_message. rewrite Hv, str_eqb_refl. cbn [negb]. rewrite Ei.
      cbn [msg_shape shape_of handle_branch a_method a_id]. rewrite Hc. reflexivity.
    - unfold message_type_for. rewrite Hf. unfold run_structure. cbn [mtype_name]. rewrite Hs.
      unfold handle_message. rewrite Hv, str_eqb_refl. cbn [negb]. rewrite Ei.
      cbn [msg_shape shape_of handle_branch a_method a_id]. rewrite Hc. reflexivity.
  Qed.

  (* ---- the result type is the one of the REQUESTED method ---- *)
  Definition valid_id (i : pval) : bool := match i with PNum _ | PStr _ => true | _ => false end.
  Lemma id_eqb_refl i : valid_id i = true -> id_eqb i i = true.
  Proof. destruct i; cbn; intro H; try discriminate; [apply Z.eqb_refl|apply str_eqb_refl]. Qed.
  Lemma id_eqb_eq a b : id_eqb a b = true -> a = b.
  Proof.
    destruct a; destruct b; cbn; intro H; try discriminate.
    - apply Z.eqb_eq in H. subst. reflexivity.
    - apply str_eqb_eq in H. subst. reflexivity.
  Qed.
  Lemma rt_get_set_eq i v l : valid_id i = true -> rt_get i (rt_set i v l) = Some v.
  Proof.
    intro Hv. induction l as [|[k v'] l IH]; cbn [rt_set rt_get].
    - rewrite id_eqb_refl by exact Hv. reflexivity.
    - destruct (id_eqb i k) eqn:E; cbn [rt_get]; rewrite E; [reflexivity|exact IH].
  Qed.
  Lemma rt_get_set_neq i j v l : id_eqb i j = false -> rt_get i (rt_set j v l) = rt_get i l.
  Proof.
    intro Hn. induction l as [|[k v'] l IH]; cbn [rt_set rt_get].
    - rewrite Hn. reflexivity.
    - destruct (id_eqb j k) eqn:E; cbn [rt_get].
      + apply id_eqb_eq in E. subst k. rewrite Hn. reflexivity.
      + destruct (id_eqb i k); [reflexivity|exact IH].
  Qed.
  Lemma rt_get_del_neq i j l : id_eqb i j = false -> rt_get i (rt_del j l) = rt_get i l.
  Proof.
    intro Hn. induction l as [|[k v'] l IH]; cbn [rt_del rt_get]; [reflexivity|].
    destruct (id_eqb j k) eqn:E; cbn [rt_get].
    - apply id_eqb_eq in E. subst k. rewrite Hn. reflexivity.
    - destruct (id_eqb i k); [reflexivity|exact IH].
  Qed.

  Theorem result_type_of_requested_method st m i st' has_id m' ty :
    valid_id i = true ->
    send_request reg st m i = (st', Sent has_id m' ty) ->
    rt_get i (rtypes st') = Some (get_result_type reg m).
  Proof.
    intros Hv H. unfold send_request in H.
    destruct (find_method reg m) as [r|].
    - destruct (m_request r); inversion H; subst. cbn [rtypes]. apply rt_get_set_eq. exact Hv.
    - inversion H; subst. cbn [rtypes]. apply rt_get_set_eq. exact Hv.
  Qed.

  (* a response (id, no method, no error) is structured with the recorded type *)
  Theorem response_uses_recorded_type st data i rt :
    amem k_jsonrpc data = true -> aget k_id data = Some i -> valid_id i = true ->
    amem k_error data = false -> aget k_method data = None ->
    rt_get i (rtypes st) = Some rt ->
    structure_message obj structure reg st data =
      (mk_pstate (futs st) (rt_del i (rtypes st)),
       run_structure obj structure
         (match rt with Some ty => TRegistryRes ty | None => TGeneric GResponse end) data).
  Proof.
    intros Hj Hi Hv He Hm Hr. unfold structure_message. rewrite Hj, Hi, He, Hm, Hr. cbn [negb].
    destruct i; try discriminate; reflexivity.
  Qed.

  (* other traffic (sends and receives under other ids) does not touch the entry *)
  Definition other_id (i : pval) (e : ev) : bool :=
    match e with
    | ESend _ j => negb (id_eqb i j)
    | ENotify _ => true        (* a notification - $/cancelRequest for i included - answers nothing *)
    | ERecv data => match aget k_id data with Some j => negb (id_eqb i j) | None => true end
    end.

  Lemma ev_step_other i st e :
    other_id i e = true -> rt_get i (rtypes (ev_step obj structure reg st e)) = rt_get i (rtypes st).
  Proof.
    destruct e as [m j|m|data]; cbn [other_id ev_step]; intro H.
    - apply negb_true_iff in H. unfold send_request.
      destruct (find_method reg m) as [r|]; [destruct (m_request r)|]; cbn [fst rtypes];
        try reflexivity; apply rt_get_set_neq; exact H.
    - unfold notify. destruct (find_method reg m) as [r|]; [destruct (m_request r)|]; reflexivity.
    - unfold structure_message.
      destruct (negb (amem k_jsonrpc data)); [reflexivity|].
      destruct (aget k_id data) as [j|].
      + apply negb_true_iff in H.
        destruct (amem k_error data).
        * destruct (unhashable j && _); cbn [fst rtypes]; [reflexivity|apply rt_get_del_neq; exact H].
        * destruct (aget k_method data) as [mv|].
          -- destruct (message_type_for reg mv GRequest); reflexivity.
          -- destruct (unhashable j); [reflexivity|].
             destruct (rt_get j (rtypes st)); cbn [fst rtypes]; [apply rt_get_del_neq; exact H|reflexivity].
      + destruct (message_type_for reg _ GNotification); reflexivity.
  Qed.

  Theorem rtype_survives_other_ids i evs : forall st,
    forallb (other_id i) evs = true ->
    rt_get i (rtypes (fold_left (ev_step obj structure reg) evs st)) = rt_get i (rtypes st).
  Proof.
    induction evs as [|e evs IH]; intros st H; cbn [fold_left]; [reflexivity|].
    cbn [forallb] in H. apply andb_true_iff in H as [He H].
    rewrite IH by exact H. apply ev_step_other. exact He.
  Qed.

  (* together (the C05 linkage): whatever happens under other ids in between, the reply to
     the request sent for method m under id i is structured as METHOD_TO_TYPES[m][1]
     (or as the generic response class when m is not in the registry) *)
  Theorem reply_structured_as_requested st m i st1 has_id m' ty evs data :
    valid_id i = true ->
    send_request reg st m i = (st1, Sent has_id m' ty) ->
    forallb (other_id i) evs = true ->
    amem k_jsonrpc data = true -> aget k_id data = Some i ->
    amem k_error data = false -> aget k_method data = None ->
    snd (structure_message obj structure reg (fold_left (ev_step obj structure reg) evs st1) data) =
      run_structure obj structure
        (match get_result_type reg m with Some t => TRegistryRes t | None => TGeneric GResponse end) data.
  Proof.
    intros Hv Hs Ho Hj Hi He Hm.
    pose proof (result_type_of_requested_method st m i st1 has_id m' ty Hv Hs) as R.
    rewrite <- (rtype_survives_other_ids i evs st1 Ho) in R.
    rewrite (response_uses_recorded_type _ data i _ Hj Hi Hv He Hm R). reflexivity.
  Qed.
End Typed.

(* ================= (iv) the finite statement about the regenerated tables ================= *)
Lemma find_method_some reg x m : find_method reg x = Some m -> In m reg /\ x = m_name m.
Proof.
  unfold find_method. intro H. apply find_some in H as [Hin E]. apply str_eqb_eq in E. auto.
Qed.
Lemma side_eqb_eq a b : side_eqb a b = true -> a = b.
Proof. destruct a; destruct b; cbn; intro H; try discriminate; reflexivity. Qed.
Lemma hkind_eqb_eq a b : hkind_eqb a b = true -> a = b.
Proof. destruct a; destruct b; cbn; intro H; try discriminate; reflexivity. Qed.

(* what the table says about one helper *)
Definition helper_sound (reg : list mrow) (h : hrow) : Prop :=
  exists m, In m reg /\ h_method h = m_name m            (* it names a registry method *)
    /\ kind_ok m (h_kind h) = true                       (* notify iff notification *)
    /\ dir_ok (h_side h) (m_dir m) = true                (* on a side that sends it *)
    /\ h_name h = expected_name m (h_kind h)             (* snake_case name (+ _async) *)
    /\ h_params h = true                                 (* params passed on unchanged *)
    /\ (h_kind h = HSendRequest -> h_callback h = true). (* callback passed on unchanged *)

Lemma helper_ok_sound reg h : helper_ok reg h = true -> helper_sound reg h.
Proof.
  unfold helper_ok. destruct (find_method reg (h_method h)) as [m|] eqn:F; [|discriminate].
  intro H. repeat (apply andb_true_iff in H as [H ?]).
  apply find_method_some in F as [Hin E]. exists m.
  repeat split; try assumption.
  - apply str_eqb_eq. assumption.
  - intro K. rewrite K in *. assumption.
Qed.

Lemma has_helper_sound hs s m k :
  has_helper hs s m k = true ->
  exists h, In h hs /\ h_side h = s /\ h_kind h = k /\ h_method h = m_name m.
Proof.
  unfold has_helper. intro H. apply existsb_exists in H as (h & Hin & H).
  repeat (apply andb_true_iff in H as [H ?]). exists h.
  repeat split; [assumption|apply side_eqb_eq; assumption|apply hkind_eqb_eq; assumption|
                 apply str_eqb_eq; assumption].
Qed.

Definition method_has_helpers (hs : list hrow) (s : side) (m : mrow) : Prop :=
  if m_request m
  then (exists h, In h hs /\ h_side h = s /\ h_kind h = HSendRequest /\ h_method h = m_name m) /\
       (exists h, In h hs /\ h_side h = s /\ h_kind h = HSendRequestAsync /\ h_method h = m_name m)
  else exists h, In h hs /\ h_side h = s /\ h_kind h = HNotify /\ h_method h = m_name m.

Lemma method_covered_sound hs s m :
  method_covered hs s m = true -> dir_ok s (m_dir m) = true -> method_has_helpers hs s m.
Proof.
  unfold method_covered, method_has_helpers. intros H D. rewrite D in H.
  destruct (m_request m).
  - apply andb_true_iff in H as [H1 H2]. split; apply has_helper_sound; assumption.
  - apply has_helper_sound. assumption.
Qed.

Theorem helpers_ok_sound reg hs :
  helpers_ok reg hs = true ->
  (forall h, In h hs -> helper_sound reg h) /\
  (forall m s, In m reg -> dir_ok s (m_dir m) = true -> method_has_helpers hs s m) /\
  (forall h, In h hs -> h_kind h = HSendRequestAsync ->
     exists h', In h' hs /\ h_side h' = h_side h /\ h_method h' = h_method h /\
                h_kind h' = HSendRequest /\ h_name h = h_name h' ++ s_async).
Proof.
  unfold helpers_ok. intro H.
  apply andb_true_iff in H as [H _]. apply andb_true_iff in H as [H _].
  apply andb_true_iff in H as [H Hcov]. apply andb_true_iff in H as [_ Hok].
  assert (A : forall h, In h hs -> helper_sound reg h).
  { intros h Hin. apply helper_ok_sound. rewrite forallb_forall in Hok. apply Hok. exact Hin. }
  assert (B : forall m s, In m reg -> dir_ok s (m_dir m) = true -> method_has_helpers hs s m).
  { intros m s Hin D. rewrite forallb_forall in Hcov. specialize (Hcov m Hin).
    apply andb_true_iff in Hcov as [C1 C2].
    destruct s; apply method_covered_sound; assumption. }
  split; [exact A|split; [exact B|]].
  intros h Hin K. destruct (A h Hin) as (m & Hm & Em & Kd & D & Nm & _).
  rewrite K in Kd, Nm. cbn [kind_ok] in Kd.
  pose proof (B m (h_side h) Hm D) as C. unfold method_has_helpers in C. rewrite Kd in C.
  destruct C as [(h' & Hin' & S' & K' & M') _]. exists h'.
  destruct (A h' Hin') as (m2 & _ & Em2 & _ & _ & Nm2 & _).
  rewrite K' in Nm2. unfold expected_name in *.
  repeat split; try assumption; [congruence|].
  rewrite Nm, Nm2, app_nil_r. rewrite <- Em2, M'. reflexivity.
Qed.

(* ---- the reference the correspondence run uses for a helper (spec_trip: from its NAME) is
        what the model computes from the row (model_trip: from what it CALLS) ---- *)
Lemma nodup_names_unique reg : forall m m',
  nodup_strs (map m_name reg) = true -> In m reg -> In m' reg -> m_name m = m_name m' -> m = m'.
Proof.
  induction reg as [|r reg IH]; intros m m' Hn Hm Hm' E; [contradiction|].
  cbn [map nodup_strs] in Hn. apply andb_true_iff in Hn as [Hr Hn]. apply negb_true_iff in Hr.
  assert (X : forall x, In x reg -> m_name x <> m_name r).
  { intros x Hx Ex. assert (mem_str (m_name r) (map m_name reg) = true).
    { apply mem_str_In. rewrite <- Ex. apply in_map. exact Hx. } congruence. }
  destruct Hm as [->|Hm]; destruct Hm' as [->|Hm'].
  - reflexivity.
  - exfalso. apply (X m' Hm'). congruence.
  - exfalso. apply (X m Hm). congruence.
  - apply IH; assumption.
Qed.

Theorem trip_reference_agrees reg h i :
  registry_ok reg = true -> helper_ok reg h = true -> valid_id i = true ->
  model_trip reg h i = spec_trip reg (h_side h) (h_name h).
Proof.
  intros Hreg Hok Hv. unfold registry_ok in Hreg. apply andb_true_iff in Hreg as [Hnd Hres].
  unfold helper_ok in Hok.
  destruct (find_method reg (h_method h)) as [m|] eqn:F; [|discriminate].
  apply andb_true_iff in Hok as [Hok Hsp].
  apply andb_true_iff in Hok as [Hok _]. apply andb_true_iff in Hok as [Hok _].
  apply andb_true_iff in Hok as [Hok _]. apply andb_true_iff in Hok as [Hok _].
  destruct (spec_helper reg (h_side h) (h_name h)) as [[m' k']|] eqn:Sp; [|discriminate].
  apply andb_true_iff in Hsp as [Em' _]. apply str_eqb_eq in Em'.
  pose proof (find_method_some _ _ _ F) as [Hin Em].
  assert (Hin' : In m' reg).
  { unfold spec_helper in Sp. apply find_some in Sp as [Hf _]. apply in_flat_map in Hf as (x & Hx & Hf).
    cbn [In] in Hf. destruct Hf as [E|[E|[E|[]]]]; inversion E; subst; exact Hx. }
  assert (m' = m) by (apply (nodup_names_unique reg); [exact Hnd|exact Hin'|exact Hin|congruence]).
  subst m'. unfold spec_trip. rewrite Sp.
  rewrite forallb_forall in Hres. specialize (Hres m Hin). apply Bool.eqb_prop in Hres.
  rename Hok into Kd.
  unfold model_trip, helper_call.
  destruct (h_kind h); cbn [kind_ok] in Kd.
  - apply negb_true_iff in Kd. unfold notify. rewrite F, Kd. rewrite F.
    cbn [shape_of handle_branch a_method a_id rtypes st0 rt_get]. rewrite Kd.
    rewrite Kd in Hres. destruct (m_res_type m); [discriminate|]. rewrite Em. reflexivity.
  - unfold send_request. rewrite F, Kd. rewrite F.
    cbn [shape_of handle_branch a_method a_id rtypes st0 rt_set rt_get]. rewrite Kd.
    rewrite (id_eqb_refl i Hv). unfold get_result_type. rewrite F. rewrite Em. reflexivity.
  - unfold send_request. rewrite F, Kd. rewrite F.
    cbn [shape_of handle_branch a_method a_id rtypes st0 rt_set rt_get]. rewrite Kd.
    rewrite (id_eqb_refl i Hv). unfold get_result_type. rewrite F. rewrite Em. reflexivity.
Qed.

(* ================= (iii) at the wire: what the handler of an unknown method is given ========== *)
Lemma akeys_aset_mem {V} k (v : V) l : amem k l = true -> akeys (aset k v l) = akeys l.
Proof.
  unfold amem, akeys. induction l as [|[k' v'] l IH]; cbn [aget aset map fst]; [discriminate|].
  destruct (str_eqb k k') eqn:E; cbn [map fst]; [reflexivity|]. intro H. rewrite IH by exact H. reflexivity.
Qed.
Lemma amem_aset {V} k k' (v : V) l : amem k (aset k' v l) = amem k l || str_eqb k k'.
Proof.
  unfold amem. destruct (str_eqb k k') eqn:E.
  - apply str_eqb_eq in E. subst. rewrite aget_aset_eq. symmetry. apply orb_true_r.
  - rewrite aget_aset_neq by exact E. rewrite orb_false_r. reflexivity.
Qed.

(* pygls' structure hook for the generic classes: the payload member goes through
   _dict_to_object, every other member is passed on as it is *)
Lemma generic_structure_ok c data pv o :
  aget (payload_key c) data = Some pv -> dict_to_object pv = SOk o ->
  forallb (fun k => mem_str k (required c ++ optional c)) (akeys data) = true ->
  forallb (fun k => amem k data) (required c) = true ->
  generic_structure c data =
    SOk (map (fun k => field_or_null k (aset (payload_key c) o data)) (required c ++ optional c)).
Proof.
  intros Hp Hd Hk Hr. unfold generic_structure. rewrite Hp, Hd.
  rewrite akeys_aset_mem by (unfold amem; rewrite Hp; reflexivity). rewrite Hk. cbn [andb].
  assert (R : forallb (fun k => amem k (aset (payload_key c) o data)) (required c) = true).
  { rewrite forallb_forall in *. intros k Hin. rewrite amem_aset, (Hr k Hin). reflexivity. }
  rewrite R. reflexivity.
Qed.

Section GenericWire.
  Variable obj : Type.
  Variable structure : list N -> pval -> sres obj.
  Variable reg : list mrow.

  (* A request / notification for a method that is not in the registry, made of the members
     JSON-RPC names: the handler is given _dict_to_object(params) - so, by (iii), every
     identifier-named path of the wire params is reachable by name in what it holds. *)
  Theorem generic_handler_gets_object st kvs data m pv o :
    nested_jsonrpc (JObj kvs) = false ->
    embed (JObj kvs) = PDict data ->
    aget k_jsonrpc data = Some (PStr s_version) -> amem k_error data = false ->
    aget k_method data = Some (PStr m) -> find_method reg m = None ->
    aget k_params data = Some pv -> dict_to_object pv = SOk o ->
    forallb (fun k => mem_str k [k_id; k_method; k_jsonrpc; k_params]) (akeys data) = true ->
    receive obj structure reg st (JObj kvs) =
      (st, match aget k_id data with
           | Some i => ORequest i (MGeneric GRequest
                         [(k_id, i); (k_method, PStr m); (k_jsonrpc, PStr s_version); (k_params, o)])
           | None => ONotification (MGeneric GNotification
                         [(k_method, PStr m); (k_jsonrpc, PStr s_version); (k_params, o)])
           end).
  Proof.
    intros Hn He Hv Herr Hm Hf Hp Hd Hk. unfold receive. rewrite (members_embed obj structure reg st kvs Hn).
    cbn [embed] in He. inversion He as [Hdat]. rewrite Hdat.
    unfold structure_message.
    assert (Hj : amem k_jsonrpc data = true) by (unfold amem; rewrite Hv; reflexivity).
    assert (Hmm : amem k_method data = true) by (unfold amem; rewrite Hm; reflexivity).
    rewrite Hj. cbn [negb]. rewrite Herr, Hm.
    destruct (aget k_id data) as [i|] eqn:Ei.
    - unfold message_type_for. rewrite Hf. unfold run_structure.
      rewrite (generic_structure_ok GRequest data pv o Hp Hd).
      + cbn [required optional app map payload_key]. unfold field_or_null.
        rewrite aget_aset_eq.
        rewrite !aget_aset_neq by reflexivity. rewrite Ei, Hm, Hv.
        unfold handle_message. cbn [aget]. 
        change (str_eqb k_jsonrpc k_id) with false. change (str_eqb k_jsonrpc k_method) with false.
        change (str_eqb k_jsonrpc k_jsonrpc) with true. cbn iota.
        rewrite str_eqb_refl. cbn [negb]. rewrite Ei. reflexivity.
      + exact Hk.
      + cbn [required forallb]. unfold amem at 1. rewrite Ei, Hmm, Hj. reflexivity.
    - unfold message_type_for. rewrite Hf. unfold run_structure.
      assert (Hk' : forallb (fun k => mem_str k (required GNotification ++ optional GNotification))
                            (akeys data) = true).
      { rewrite forallb_forall in *. intros k Hin. specialize (Hk k Hin).
        cbn [required optional app mem_str] in *.
        destruct (str_eqb k k_id) eqn:E; [|exact Hk].
        apply str_eqb_eq in E. subst k. exfalso.
        unfold akeys in Hin. apply in_map_iff in Hin as ([k' v'] & E' & Hin). cbn [fst] in E'. subst k'.
        assert (aget k_id data <> None).
        { clear - Hin. induction data as [|[k2 v2] l IH]; [contradiction|]. cbn [aget].
          destruct (str_eqb k_id k2) eqn:E2; [discriminate|].
          destruct Hin as [E|Hin]; [inversion E; subst; rewrite str_eqb_refl in E2; discriminate|].
          apply IH. exact Hin. }
        congruence. }
      rewrite (generic_structure_ok GNotification data pv o Hp Hd Hk').
      + cbn [required optional app map payload_key]. unfold field_or_null.
        rewrite aget_aset_eq.
        rewrite !aget_aset_neq by reflexivity. rewrite Hm, Hv.
        unfold handle_message. cbn [aget].
        change (str_eqb k_jsonrpc k_method) with false.
        change (str_eqb k_jsonrpc k_jsonrpc) with true. cbn iota.
        rewrite str_eqb_refl. cbn [negb]. rewrite Ei. reflexivity.
      + cbn [required forallb]. rewrite Hmm, Hj. reflexivity.
  Qed.
End GenericWire.

(* ================= (i) presence of the id member, not its value ================= *)
(* Whatever value the id member holds - 0, "", null, a big number, a string that looks like a
   number - the three membership bits, hence the branch of structure_message and the route of
   handle_message, are the same. *)
Lemma bits_with_id (v : pval) data :
  amem k_id (aset k_id v data) = true /\
  amem k_method (aset k_id v data) = amem k_method data /\
  amem k_error (aset k_id v data) = amem k_error data.
Proof.
  rewrite !amem_aset. rewrite str_eqb_refl, orb_true_r.
  change (str_eqb k_method k_id) with false. change (str_eqb k_error k_id) with false.
  rewrite !orb_false_r. repeat split; reflexivity.
Qed.

Theorem id_presence_not_value (v : pval) data :
  classify (amem k_id (aset k_id v data)) (amem k_method (aset k_id v data))
           (amem k_error (aset k_id v data))
  = classify true (amem k_method data) (amem k_error data).
Proof. destruct (bits_with_id v data) as (A & B & C). rewrite A, B, C. reflexivity. Qed.

Section IdValue.
  Variable obj : Type.
  Variable structure : list N -> pval -> sres obj.
  Variable reg : list mrow.

  Theorem route_independent_of_id_value st1 st2 data (v1 v2 : pval) st1' st2' (r1 r2 : smres obj) t1 t2 :
    structure_message obj structure reg st1 (aset k_id v1 data) = (st1', r1) ->
    structure_message obj structure reg st2 (aset k_id v2 data) = (st2', r2) ->
    ((exists c fields, r1 = SMGeneric c fields /\ t1 = TGeneric c) \/ (exists o, r1 = SMTyped t1 o)) ->
    ((exists c fields, r2 = SMGeneric c fields /\ t2 = TGeneric c) \/ (exists o, r2 = SMTyped t2 o)) ->
    consistent t1 (aset k_id v1 data) -> consistent t2 (aset k_id v2 data) ->
    handle_branch (shape_of t1) = handle_branch (shape_of t2).
  Proof.
    intros H1 H2 R1 R2 C1 C2.
    destruct (bits_with_id v1 data) as (A1 & B1 & D1). destruct (bits_with_id v2 data) as (A2 & B2 & D2).
    eapply (classify_by_members_only obj structure reg _ _ _ _ _ _ _ _ _ _ H1 H2 R1 R2 C1 C2).
    - rewrite A1, A2. reflexivity.
    - rewrite B1, B2. reflexivity.
    - rewrite D1, D2. reflexivity.
  Qed.
End IdValue.

(* ================= built-ins do not write to params ================= *)
(* whatever the built-in of the method does, the user's feature is called exactly once, after it,
   with the object handle_message took from the structured message *)
Theorem user_feature_gets_params obj bst (builtin : list N -> obj -> bst -> bst) hb m p s :
  snd (call_user_feature obj bst builtin hb true m p s)
  = (if hb then [CBuiltin m p] else []) ++ [CUser m p].
Proof. unfold call_user_feature. destruct hb; reflexivity. Qed.

(* ================= streams: what preceded a frame does not matter ================= *)
Section Stream.
  Variable obj : Type.
  Variable structure : list N -> pval -> sres obj.
  Variable reg : list mrow.

  Lemma receive_stream_app st a b :
    receive_stream obj structure reg st (a ++ b)
    = receive_stream obj structure reg st a
      ++ receive_stream obj structure reg (state_after obj structure reg st a) b.
  Proof.
    revert st. induction a as [|f a IH]; intro st; cbn [app receive_stream state_after]; [reflexivity|].
    destruct f as [j|].
    - destruct (receive obj structure reg st j) as [st' o] eqn:E. cbn [fst app]. rewrite IH. reflexivity.
    - cbn [app]. rewrite IH. reflexivity.
  Qed.
  Lemma receive_stream_length st a :
    length (receive_stream obj structure reg st a) = length a.
  Proof.
    revert st. induction a as [|f a IH]; intro st; cbn [receive_stream length]; [reflexivity|].
    destruct f as [j|]; [destruct (receive obj structure reg st j)|]; cbn [length]; rewrite IH; reflexivity.
  Qed.

  (* A well-formed typed request / notification is delivered with the converter's object at its
     place in the stream, whatever frames - good, rejected or undecodable - came before it. *)
  Theorem stream_frame_delivered st pre post kvs data m r o :
    nested_jsonrpc (JObj kvs) = false ->
    embed (JObj kvs) = PDict data ->
    aget k_jsonrpc data = Some (PStr s_version) -> amem k_error data = false ->
    aget k_method data = Some (PStr m) -> find_method reg m = Some r ->
    m_request r = amem k_id data ->
    structure (m_msg_type r) (embed (JObj kvs)) = SOk o ->
    nth_error (receive_stream obj structure reg st (pre ++ FJson (JObj kvs) :: post)) (length pre)
    = Some (if m_request r
            then ORequest (match aget k_id data with Some i => i | None => PNull end)
                          (MTyped (TRegistryMsg r) o)
            else ONotification (MTyped (TRegistryMsg r) o)).
  Proof.
    intros Hn He Hv Herr Hm Hf Hc Hs. rewrite receive_stream_app.
    rewrite nth_error_app2 by (rewrite receive_stream_length; apply Nat.le_refl).
    rewrite receive_stream_length, Nat.sub_diag. cbn [receive_stream].
    rewrite (handler_gets_structure obj structure reg _ kvs data m r o Hn He Hv Herr Hm Hf Hc Hs).
    reflexivity.
  Qed.
End Stream.

(* ================= histories: the reference of a trip is unaffected by what the requester does
   in between under other ids (cancel notification for the pending id, a second request, other
   notifications, stray frames) ================= *)
Theorem trip_after_history obj structure reg h i evs :
  forallb (other_id i) evs = true ->
  model_trip_after obj structure reg h i evs = model_trip reg h i.
Proof.
  intro H. unfold model_trip_after, model_trip.
  destruct (helper_call reg st0 h i) as [st [|has_id m [ty|]]]; try reflexivity.
  destruct (find_method reg m); [|reflexivity].
  rewrite (rtype_survives_other_ids obj structure reg i evs st H). reflexivity.
Qed.
