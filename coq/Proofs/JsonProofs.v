(* Facts about Base/Json.v (json.dumps with ensure_ascii) and the JSON reader of Spec/WireSpec.v. *)
From Coq Require Import ZArith NArith List Bool Lia ZifyBool ZifyN ZifyNat.
From Pygls Require Import Base.Unicode Base.Json Spec.WireSpec Proofs.UnicodeFacts.
Ltac Zify.zify_post_hook ::= Z.to_euclidean_division_equations.
Open Scope N_scope.

(* ---------- induction principle for the nested type ---------- *)
Section JsonInd.
  Variable P : json -> Prop.
  Hypothesis Hnull : P JNull.
  Hypothesis Hbool : forall b, P (JBool b).
  Hypothesis Hint : forall z, P (JInt z).
  Hypothesis Hstr : forall s, P (JStr s).
  Hypothesis Harr : forall l, Forall P l -> P (JArr l).
  Hypothesis Hobj : forall l, Forall (fun kv => P (snd kv)) l -> P (JObj l).
  Fixpoint json_ind' (j : json) : P j :=
    match j with
    | JNull => Hnull
    | JBool b => Hbool b
    | JInt z => Hint z
    | JStr s => Hstr s
    | JArr l => Harr l ((fix go (l : list json) : Forall P l :=
                          match l with [] => Forall_nil _ | x :: r => Forall_cons _ (json_ind' x) (go r) end) l)
    | JObj l => Hobj l ((fix go (l : list (list N * json)) : Forall (fun kv => P (snd kv)) l :=
                          match l with [] => Forall_nil _ | x :: r => Forall_cons _ (json_ind' (snd x)) (go r) end) l)
    end.
End JsonInd.

(* ---------- decimal digits ---------- *)
Lemma digits_aux_app f : forall n acc, digits_aux f n acc = digits_aux f n [] ++ acc.
Proof.
  induction f as [|f IH]; intros n acc; cbn [digits_aux]; [reflexivity|].
  destruct (n <? 10); [reflexivity|].
  rewrite (IH (n / 10) ((48 + n mod 10) :: acc)), (IH (n / 10) [48 + n mod 10]).
  rewrite <- app_assoc. reflexivity.
Qed.

Definition dval (s : list N) : N := fold_left (fun a d => 10 * a + (d - 48)) s 0.

Lemma dval_snoc s d : dval (s ++ [d]) = 10 * dval s + (d - 48).
Proof. unfold dval. rewrite fold_left_app. reflexivity. Qed.

Lemma digits_aux_val f : forall n, n < 2 ^ N.of_nat f -> dval (digits_aux f n []) = n.
Proof.
  induction f as [|f IH]; intros n Hn.
  - cbn in Hn. assert (n = 0) by lia. subst. reflexivity.
  - cbn [digits_aux]. destruct (n <? 10) eqn:E.
    + unfold dval. cbn [fold_left]. lia.
    + rewrite digits_aux_app, dval_snoc. rewrite IH.
      * lia.
      * rewrite Nat2N.inj_succ, N.pow_succ_r' in Hn. lia.
Qed.

Lemma digits_aux_digits f : forall n acc, Forall (fun d => 48 <= d <= 57) acc ->
  Forall (fun d => 48 <= d <= 57) (digits_aux f n acc).
Proof.
  induction f as [|f IH]; intros n acc Ha; cbn [digits_aux]; [exact Ha|].
  destruct (n <? 10) eqn:E.
  - constructor; [lia|exact Ha].
  - apply IH. constructor; [lia|exact Ha].
Qed.

Lemma digits_aux_nonempty f : forall n acc, digits_aux (S f) n acc <> [].
Proof.
  induction f as [|f IH]; intros n acc.
  - cbn [digits_aux]. destruct (n <? 10); discriminate.
  - change (digits_aux (S (S f)) n acc) with
      (if n <? 10 then (48 + n) :: acc else digits_aux (S f) (n / 10) ((48 + n mod 10) :: acc)).
    destruct (n <? 10); [discriminate|apply IH].
Qed.

Lemma digits_fuel n : n < 2 ^ N.of_nat (S (N.to_nat (N.size n))).
Proof.
  rewrite Nat2N.inj_succ, N2Nat.id, N.pow_succ_r'.
  destruct n as [|p]; [cbn; lia|].
  pose proof (N.size_gt (Npos p)). lia.
Qed.

Lemma digits_val n : dval (digits n) = n.
Proof. unfold digits. apply digits_aux_val, digits_fuel. Qed.

Lemma digits_are_digits n : Forall (fun d => 48 <= d <= 57) (digits n).
Proof. unfold digits. apply digits_aux_digits. constructor. Qed.

Lemma digits_nonempty n : digits n <> [].
Proof. unfold digits. apply digits_aux_nonempty. Qed.

Lemma parse_dec_digits n : parse_dec (digits n) = Some n.
Proof.
  unfold parse_dec. pose proof (digits_nonempty n) as Hne. pose proof (digits_are_digits n) as Hd.
  destruct (digits n) as [|d ds] eqn:E; [congruence|].
  replace (forallb is_digit (d :: ds)) with true.
  - f_equal. rewrite <- E. apply digits_val.
  - symmetry. apply forallb_forall. intros x Hx. rewrite Forall_forall in Hd.
    specialize (Hd x Hx). unfold is_digit. lia.
Qed.

(* ---------- dumps is ASCII ---------- *)
Notation ascii := (Forall (fun b : N => b < 128)).

Lemma hex_digit_range d : d < 16 -> 48 <= hex_digit d <= 102.
Proof. intros H. unfold hex_digit. destruct (d <? 10) eqn:E; lia. Qed.

Lemma u_escape_ascii c : c < 0x10000 -> ascii (u_escape c).
Proof.
  intros H. unfold u_escape.
  pose proof (hex_digit_range (c / 4096)). pose proof (hex_digit_range ((c / 256) mod 16)).
  pose proof (hex_digit_range ((c / 16) mod 16)). pose proof (hex_digit_range (c mod 16)).
  repeat constructor; lia.
Qed.

Lemma esc_char_ascii c : ascii (esc_char c).
Proof.
  unfold esc_char.
  repeat match goal with |- ascii (if ?cnd then _ else _) => destruct cnd eqn:? end;
    try (repeat constructor; lia).
  - apply u_escape_ascii. lia.
  - apply Forall_app. split; apply u_escape_ascii; lia.
Qed.

Lemma escape_ascii s : ascii (escape s).
Proof.
  induction s as [|c s IH]; [constructor|].
  unfold escape. cbn [flat_map]. apply Forall_app. split; [apply esc_char_ascii|exact IH].
Qed.

Lemma quote_ascii s : ascii (quote s).
Proof.
  unfold quote. constructor; [lia|]. apply Forall_app. split; [apply escape_ascii|repeat constructor; lia].
Qed.

Lemma digits_ascii n : ascii (digits n).
Proof. eapply Forall_impl; [|apply digits_are_digits]. cbn. intros; lia. Qed.

Lemma dec_z_ascii z : ascii (dec_z z).
Proof.
  destruct z; cbn [dec_z]; [repeat constructor; lia|apply digits_ascii|].
  constructor; [lia|apply digits_ascii].
Qed.

Lemma join_ascii sep parts : ascii sep -> Forall ascii parts -> ascii (join sep parts).
Proof.
  intros Hs Hp. induction Hp as [|p r Hp Hr IH]; [constructor|].
  cbn [join]. destruct r as [|q r']; [exact Hp|].
  apply Forall_app. split; [exact Hp|]. apply Forall_app. split; [exact Hs|exact IH].
Qed.

Lemma lit_item_sep_ascii : ascii Lit.item_sep. Proof. repeat constructor; lia. Qed.
Lemma lit_key_sep_ascii : ascii Lit.key_sep. Proof. repeat constructor; lia. Qed.

Theorem dumps_ascii j : ascii (dumps j).
Proof.
  induction j as [| b | z | s | l IH | l IH] using json_ind'.
  - repeat constructor; lia.
  - destruct b; repeat constructor; lia.
  - apply dec_z_ascii.
  - apply quote_ascii.
  - cbn [dumps]. constructor; [lia|]. apply Forall_app. split; [|repeat constructor; lia].
    apply join_ascii; [apply lit_item_sep_ascii|].
    induction IH as [|x r Hx Hr IHr]; [constructor|]. cbn [map]. constructor; assumption.
  - cbn [dumps]. constructor; [lia|]. apply Forall_app. split; [|repeat constructor; lia].
    apply join_ascii; [apply lit_item_sep_ascii|].
    induction IH as [|x r Hx Hr IHr]; [constructor|]. cbn [map]. constructor; [|assumption].
    apply Forall_app. split; [apply quote_ascii|].
    apply Forall_app. split; [apply lit_key_sep_ascii|exact Hx].
Qed.

Lemma ascii_ascii_str s : ascii s -> ascii_str s = true.
Proof.
  intros H. unfold ascii_str. apply forallb_forall. rewrite Forall_forall in H.
  intros x Hx. specialize (H x Hx). lia.
Qed.

(* character count = byte count, and the UTF-8 encoding is the text itself *)
Lemma ascii_utf8 s : ascii s -> utf8_enc_all s = s.
Proof. intros H. apply utf8_enc_all_ascii, ascii_ascii_str, H. Qed.

(* ---------- unescape after escape ---------- *)
Lemma hex_val_digit d : d < 16 -> hex_val (hex_digit d) = Some d.
Proof.
  intros H. unfold hex_val, hex_digit. destruct (d <? 10) eqn:E.
  - replace ((48 <=? 48 + d) && (48 + d <=? 57)) with true by lia. f_equal. lia.
  - replace ((48 <=? 87 + d) && (87 + d <=? 57)) with false by lia.
    replace ((97 <=? 87 + d) && (87 + d <=? 102)) with true by lia. f_equal. lia.
Qed.

Lemma hex4_u_escape c : c < 0x10000 ->
  hex4 (hex_digit (c / 4096)) (hex_digit ((c / 256) mod 16)) (hex_digit ((c / 16) mod 16))
       (hex_digit (c mod 16)) = Some c.
Proof.
  intros H. unfold hex4. rewrite !hex_val_digit by lia. f_equal. lia.
Qed.

(* does the text start with the escape of a low surrogate? *)
Definition starts_low (x : list N) : bool :=
  match x with
  | b1 :: u1 :: a2 :: b2 :: c2 :: d2 :: _ =>
    (b1 =? 92) && (u1 =? 117) &&
    match hex4 a2 b2 c2 d2 with Some v => is_low v | None => true end
  | _ => false
  end.

Lemma unescape_u_lone a b c d u x :
  hex4 a b c d = Some u -> is_high u && starts_low x = false ->
  unescape (92 :: 117 :: a :: b :: c :: d :: x) =
  match unescape x with Some t => Some (u :: t) | None => None end.
Proof.
  intros Hh Hc. cbn [unescape]. cbn. rewrite Hh.
  destruct (is_high u) eqn:Eh; [|reflexivity].
  cbn [andb] in Hc. unfold starts_low in Hc.
  destruct x as [|b1 [|u1 [|a2 [|b2 [|c2 [|d2 r3]]]]]]; try reflexivity.
  destruct ((b1 =? 92) && (u1 =? 117)) eqn:E1; [|reflexivity].
  cbn [andb] in Hc. destruct (hex4 a2 b2 c2 d2) as [v|]; [|discriminate].
  rewrite Hc. reflexivity.
Qed.

Lemma unescape_u_pair a b c d u a2 b2 c2 d2 v x :
  hex4 a b c d = Some u -> is_high u = true -> hex4 a2 b2 c2 d2 = Some v -> is_low v = true ->
  unescape (92 :: 117 :: a :: b :: c :: d :: 92 :: 117 :: a2 :: b2 :: c2 :: d2 :: x) =
  match unescape x with Some t => Some (join_pair u v :: t) | None => None end.
Proof.
  intros Hh Hu Hl Hv.
  remember (92 :: 117 :: a2 :: b2 :: c2 :: d2 :: x) as y eqn:Ey.
  cbn [unescape]. cbn. rewrite Hh, Hu. subst y.
  change ((92 =? 92) && (117 =? 117)) with true. cbv iota. rewrite Hl, Hv. reflexivity.
Qed.

Lemma unescape_simple e x c :
  (e, c) = (34, 34) \/ (e, c) = (92, 92) \/ (e, c) = (98, 8) \/ (e, c) = (102, 12) \/
  (e, c) = (110, 10) \/ (e, c) = (114, 13) \/ (e, c) = (116, 9) ->
  unescape (92 :: e :: x) = match unescape x with Some t => Some (c :: t) | None => None end.
Proof.
  intros H. repeat (destruct H as [H|H]; [inversion H; subst; reflexivity|]). inversion H; subst; reflexivity.
Qed.

Lemma unescape_plain c x : 32 <= c -> c <> 34 -> c <> 92 ->
  unescape (c :: x) = match unescape x with Some t => Some (c :: t) | None => None end.
Proof.
  intros H1 H2 H3. cbn [unescape].
  replace (c =? 92) with false by lia. replace ((c <? 32) || (c =? 34)) with false by lia. reflexivity.
Qed.

Lemma starts_low_u_escape c x : c < 0x10000 -> starts_low (u_escape c ++ x) = is_low c.
Proof.
  intros H. unfold u_escape. cbn [app starts_low]. rewrite hex4_u_escape by exact H. reflexivity.
Qed.

Lemma starts_low_not_u b1 u1 x : u1 <> 117 -> starts_low (b1 :: u1 :: x) = false.
Proof.
  intros H. unfold starts_low. destruct x as [|a2 [|b2 [|c2 [|d2 r3]]]]; try reflexivity.
  replace (u1 =? 117) with false by lia. rewrite andb_false_r. reflexivity.
Qed.

Lemma starts_low_not_bs b1 x : b1 <> 92 -> starts_low (b1 :: x) = false.
Proof.
  intros H. unfold starts_low. destruct x as [|u1 [|a2 [|b2 [|c2 [|d2 r3]]]]]; try reflexivity.
  replace (b1 =? 92) with false by lia. reflexivity.
Qed.

(* the escape of a string starts with a low-surrogate escape only if the string starts with one *)
Lemma starts_low_escape s :
  starts_low (escape s) = match s with d :: _ => is_low d | [] => false end.
Proof.
  destruct s as [|d r]; [reflexivity|].
  unfold escape. cbn [flat_map]. fold (escape r). unfold esc_char, is_low.
  destruct (d =? 34) eqn:E1. { cbn [app]. rewrite starts_low_not_u by lia. lia. }
  destruct (d =? 92) eqn:E2. { cbn [app]. rewrite starts_low_not_u by lia. lia. }
  destruct (d =? 10) eqn:E3. { cbn [app]. rewrite starts_low_not_u by lia. lia. }
  destruct (d =? 13) eqn:E4. { cbn [app]. rewrite starts_low_not_u by lia. lia. }
  destruct (d =? 9) eqn:E5. { cbn [app]. rewrite starts_low_not_u by lia. lia. }
  destruct (d =? 12) eqn:E6. { cbn [app]. rewrite starts_low_not_u by lia. lia. }
  destruct (d =? 8) eqn:E7. { cbn [app]. rewrite starts_low_not_u by lia. lia. }
  destruct ((32 <=? d) && (d <=? 126)) eqn:E8.
  { cbn [app]. rewrite starts_low_not_bs by lia. lia. }
  destruct (d <? 0x10000) eqn:E9.
  { rewrite starts_low_u_escape by lia. reflexivity. }
  rewrite <- app_assoc. rewrite starts_low_u_escape by lia.
  unfold is_low. lia.
Qed.

Lemma unescape_esc_char c r : is_cp c = true ->
  is_high c && (match r with d :: _ => is_low d | [] => false end) = false ->
  unescape (esc_char c ++ escape r) = match unescape (escape r) with Some t => Some (c :: t) | None => None end.
Proof.
  unfold is_cp. intros Hc Hp. unfold esc_char.
  destruct (c =? 34) eqn:E1. { replace c with 34 by lia. apply unescape_simple. tauto. }
  destruct (c =? 92) eqn:E2. { replace c with 92 by lia. apply unescape_simple. tauto. }
  destruct (c =? 10) eqn:E3. { replace c with 10 by lia. apply unescape_simple. tauto. }
  destruct (c =? 13) eqn:E4. { replace c with 13 by lia. apply unescape_simple. tauto. }
  destruct (c =? 9) eqn:E5. { replace c with 9 by lia. apply unescape_simple. tauto. }
  destruct (c =? 12) eqn:E6. { replace c with 12 by lia. apply unescape_simple. tauto. }
  destruct (c =? 8) eqn:E7. { replace c with 8 by lia. apply unescape_simple. tauto. }
  destruct ((32 <=? c) && (c <=? 126)) eqn:E8.
  { cbn [app]. apply unescape_plain; lia. }
  destruct (c <? 0x10000) eqn:E9.
  { unfold u_escape. cbn [app]. apply unescape_u_lone.
    - apply hex4_u_escape. lia.
    - rewrite starts_low_escape. exact Hp. }
  set (n := c - 0x10000).
  unfold u_escape. cbn [app].
  rewrite (unescape_u_pair _ _ _ _ (0xD800 + (n / 1024) mod 1024) _ _ _ _ (0xDC00 + n mod 1024)).
  - replace (join_pair (0xD800 + (n / 1024) mod 1024) (0xDC00 + n mod 1024)) with c; [reflexivity|].
    unfold join_pair. subst n. lia.
  - apply hex4_u_escape. lia.
  - unfold is_high. lia.
  - apply hex4_u_escape. lia.
  - unfold is_low. lia.
Qed.

Theorem escape_roundtrip s :
  forallb is_cp s = true -> pairfree s = true -> unescape (escape s) = Some s.
Proof.
  induction s as [|c r IH]; intros Hcp Hpf; [reflexivity|].
  cbn [forallb] in Hcp. apply andb_true_iff in Hcp. destruct Hcp as [Hc Hr].
  unfold escape. cbn [flat_map]. fold (escape r).
  rewrite unescape_esc_char.
  - rewrite IH; [reflexivity|exact Hr|].
    cbn [pairfree] in Hpf. destruct r as [|d r']; [reflexivity|].
    apply andb_true_iff in Hpf. tauto.
  - exact Hc.
  - cbn [pairfree] in Hpf. destruct r as [|d r']; [apply andb_false_r|].
    apply andb_true_iff in Hpf. destruct Hpf as [Hpf _]. apply negb_true_iff in Hpf. exact Hpf.
Qed.

(* scalar strings (well-formed Unicode text) are always pair free *)
Lemma scalar_pairfree s : forallb scalar s = true -> pairfree s = true.
Proof.
  induction s as [|c r IH]; intros H; [reflexivity|].
  cbn [forallb] in H. apply andb_true_iff in H. destruct H as [Hc Hr].
  cbn [pairfree]. destruct r as [|d r']; [reflexivity|].
  rewrite (IH Hr). unfold scalar, is_cp, is_surrogate in Hc. unfold is_high. lia.
Qed.

(* the hypothesis is necessary: a high surrogate followed by a low one does not survive JSON *)
Lemma escape_roundtrip_needs_pairfree :
  unescape (escape [0xD800; 0xDC00]) = Some [0x10000].
Proof. vm_compute. reflexivity. Qed.

(* ---------- tier 2: the reader recovers every value from its dumps ---------- *)
Lemma hex_digit_plain d : d < 16 -> hex_digit d <> 34 /\ hex_digit d <> 92.
Proof. intros H. unfold hex_digit. destruct (d <? 10) eqn:E; lia. Qed.

Lemma scan_plain c x : c <> 34 -> c <> 92 ->
  scan_string (c :: x) =
  match scan_string x with Some (t, r) => Some (c :: t, r) | None => None end.
Proof.
  intros H1 H2. cbn [scan_string]. replace (c =? 34) with false by lia.
  replace (c =? 92) with false by lia. reflexivity.
Qed.

Lemma scan_bs e x :
  scan_string (92 :: e :: x) =
  match scan_string x with Some (t, r) => Some (92 :: e :: t, r) | None => None end.
Proof. reflexivity. Qed.

Lemma scan_u_escape c x : c < 0x10000 ->
  scan_string (u_escape c ++ x) =
  match scan_string x with Some (t, r) => Some (u_escape c ++ t, r) | None => None end.
Proof.
  intros H. unfold u_escape. cbn [app]. rewrite scan_bs.
  pose proof (hex_digit_plain (c / 4096)) as [? ?]; [lia|].
  pose proof (hex_digit_plain ((c / 256) mod 16)) as [? ?]; [lia|].
  pose proof (hex_digit_plain ((c / 16) mod 16)) as [? ?]; [lia|].
  pose proof (hex_digit_plain (c mod 16)) as [? ?]; [lia|].
  rewrite !scan_plain by assumption.
  destruct (scan_string x) as [[t r]|]; reflexivity.
Qed.

Lemma scan_esc_char c x :
  scan_string (esc_char c ++ x) =
  match scan_string x with Some (t, r) => Some (esc_char c ++ t, r) | None => None end.
Proof.
  unfold esc_char.
  destruct (c =? 34) eqn:E1; [apply scan_bs|]. destruct (c =? 92) eqn:E2; [apply scan_bs|].
  destruct (c =? 10); [apply scan_bs|]. destruct (c =? 13); [apply scan_bs|].
  destruct (c =? 9); [apply scan_bs|]. destruct (c =? 12); [apply scan_bs|].
  destruct (c =? 8); [apply scan_bs|].
  destruct ((32 <=? c) && (c <=? 126)) eqn:E8.
  { cbn [app]. apply scan_plain; lia. }
  destruct (c <? 0x10000) eqn:E9.
  { apply scan_u_escape. lia. }
  rewrite <- app_assoc. rewrite scan_u_escape by lia. rewrite scan_u_escape by lia.
  destruct (scan_string x) as [[t r]|]; [rewrite <- app_assoc|]; reflexivity.
Qed.

Lemma scan_string_escape s rest : scan_string (escape s ++ 34 :: rest) = Some (escape s, rest).
Proof.
  induction s as [|c s IH]; [reflexivity|].
  unfold escape. cbn [flat_map]. fold (escape s). rewrite <- app_assoc, scan_esc_char, IH. reflexivity.
Qed.

Lemma read_string_escape s rest : str_ok s = true ->
  read_string (escape s ++ 34 :: rest) = Some (s, rest).
Proof.
  intros H. unfold str_ok in H. apply andb_true_iff in H. destruct H as [H1 H2].
  unfold read_string. rewrite scan_string_escape, escape_roundtrip by assumption. reflexivity.
Qed.

(* integers *)
Definition follow_ok (rest : list N) : bool :=
  match rest with
  | [] => true
  | c :: _ => negb (is_digit c) && negb (c =? 46) && negb (c =? 101) && negb (c =? 69)
  end.

Lemma span_digits_stop rest : follow_ok rest = true -> span_digits rest = ([], rest).
Proof.
  destruct rest as [|c r]; [reflexivity|]. cbn [follow_ok span_digits]. intros H.
  destruct (is_digit c); [discriminate|reflexivity].
Qed.

Lemma span_digits_app ds rest : Forall (fun d => 48 <= d <= 57) ds -> follow_ok rest = true ->
  span_digits (ds ++ rest) = (ds, rest).
Proof.
  intros H F. induction H as [|d ds Hd Hds IH]; [apply span_digits_stop, F|].
  cbn [app span_digits]. unfold is_digit at 1. replace ((48 <=? d) && (d <=? 57)) with true by lia.
  rewrite IH. reflexivity.
Qed.

Lemma digits_aux_head f : forall n acc, 0 < n -> n < 2 ^ N.of_nat f ->
  exists d t, digits_aux f n acc = d :: t /\ d <> 48.
Proof.
  induction f as [|f IH]; intros n acc Hp Hn.
  - cbn in Hn. lia.
  - cbn [digits_aux]. destruct (n <? 10) eqn:E.
    + exists (48 + n), acc. split; [reflexivity|lia].
    + apply IH; [lia|]. rewrite Nat2N.inj_succ, N.pow_succ_r' in Hn. lia.
Qed.

Lemma digits_head n : 0 < n -> exists d t, digits n = d :: t /\ d <> 48.
Proof. intros H. unfold digits. apply digits_aux_head; [exact H|apply digits_fuel]. Qed.

Lemma digits_first_ok n : exists d t, digits n = d :: t /\ 48 <= d <= 57.
Proof.
  pose proof (digits_nonempty n) as Hne. pose proof (digits_are_digits n) as Hd.
  destruct (digits n) as [|d t]; [congruence|]. exists d, t. split; [reflexivity|]. inversion Hd; assumption.
Qed.

Lemma read_int_digits (neg : bool) n rest : follow_ok rest = true -> (neg = true -> 0 < n) ->
  read_int ((if neg then [45] else []) ++ digits n ++ rest) =
  Some (if neg then (- Z.of_N n)%Z else Z.of_N n, rest).
Proof.
  intros F Hneg. unfold read_int.
  destruct (digits_first_ok n) as (d & t & Ed & Hd).
  assert (Hh : head_is 45 ((if neg then [45] else []) ++ digits n ++ rest) = neg).
  { destruct neg; [reflexivity|]. rewrite Ed. cbn [app head_is]. lia. }
  rewrite Hh.
  assert (Es : (if neg then tl ((if neg then [45] else []) ++ digits n ++ rest)
                else (if neg then [45] else []) ++ digits n ++ rest) = digits n ++ rest).
  { destruct neg; reflexivity. }
  replace (if neg then (true, tl ((if neg then [45] else []) ++ digits n ++ rest))
           else (false, (if neg then [45] else []) ++ digits n ++ rest))
    with (neg, digits n ++ rest) by (destruct neg; reflexivity).
  rewrite span_digits_app by (try apply digits_are_digits; exact F).
  rewrite Ed. rewrite <- Ed at 1.
  assert (Hz : (d =? 48) && negb match t with [] => true | _ :: _ => false end = false).
  { destruct (N.eq_dec n 0) as [->|Hn0].
    - vm_compute in Ed. injection Ed as <- <-. reflexivity.
    - destruct (digits_head n) as (d' & t' & Ed' & Hd'); [lia|]. rewrite Ed in Ed'. injection Ed' as -> ->.
      replace (d' =? 48) with false by lia. reflexivity. }
  rewrite Hz.
  assert (Hf : head_is 46 rest || head_is 101 rest || head_is 69 rest = false).
  { destruct rest as [|c r]; [reflexivity|]. cbn [follow_ok] in F. cbn [head_is]. lia. }
  rewrite Hf. rewrite parse_dec_digits.
  destruct neg; [|reflexivity]. specialize (Hneg eq_refl). replace (n =? 0) with false by lia. reflexivity.
Qed.

Lemma read_int_dec_z z rest : follow_ok rest = true -> read_int (dec_z z ++ rest) = Some (z, rest).
Proof.
  intros F. destruct z as [|p|p]; cbn [dec_z].
  - apply (read_int_digits false 0 rest F). discriminate.
  - exact (read_int_digits false (Npos p) rest F ltac:(discriminate)).
  - exact (read_int_digits true (Npos p) rest F ltac:(lia)).
Qed.


(* values *)
Definition is_ws (c : N) : bool := (c =? 32) || (c =? 9) || (c =? 10) || (c =? 13).

Lemma skip_ws_nonws c t : is_ws c = false -> skip_ws (c :: t) = c :: t.
Proof. unfold is_ws. intros H. cbn [skip_ws]. rewrite H. reflexivity. Qed.

Lemma skip_ws_idem s : skip_ws (skip_ws s) = skip_ws s.
Proof.
  induction s as [|c s IH]; [reflexivity|]. cbn [skip_ws].
  destruct ((c =? 32) || (c =? 9) || (c =? 10) || (c =? 13)) eqn:E; [exact IH|].
  cbn [skip_ws]. rewrite E. reflexivity.
Qed.

Lemma read_value_eq f fuel s :
  read_value (f :: fuel) s =
    match skip_ws s with
    | [] => None
    | c :: r =>
      if c =? 34 then
        match read_string r with Some (t, rest) => Some (JStr t, rest) | None => None end
      else if c =? 91 then
        if head_is 93 (skip_ws r) then Some (JArr [], tl (skip_ws r))
        else match read_elems fuel r with Some (l, rest) => Some (JArr l, rest) | None => None end
      else if c =? 123 then
        if head_is 125 (skip_ws r) then Some (JObj [], tl (skip_ws r))
        else match read_members fuel r with Some (l, rest) => Some (JObj l, rest) | None => None end
      else if c =? 110 then
        match strip_prefix lit_null (c :: r) with Some rest => Some (JNull, rest) | None => None end
      else if c =? 116 then
        match strip_prefix lit_true (c :: r) with Some rest => Some (JBool true, rest) | None => None end
      else if c =? 102 then
        match strip_prefix lit_false (c :: r) with Some rest => Some (JBool false, rest) | None => None end
      else
        match read_int (c :: r) with Some (z, rest) => Some (JInt z, rest) | None => None end
    end.
Proof. reflexivity. Qed.

Lemma read_elems_eq f fuel s :
  read_elems (f :: fuel) s =
    match read_value fuel s with
    | None => None
    | Some (v, r) =>
      if head_is 93 (skip_ws r) then Some ([v], tl (skip_ws r))
      else if head_is 44 (skip_ws r) then
        match read_elems fuel (tl (skip_ws r)) with
        | Some (l, rest) => Some (v :: l, rest)
        | None => None
        end
      else None
    end.
Proof. reflexivity. Qed.

Lemma read_members_eq f fuel s :
  read_members (f :: fuel) s =
    if head_is 34 (skip_ws s) then
      match read_string (tl (skip_ws s)) with
      | None => None
      | Some (k, r1) =>
        if head_is 58 (skip_ws r1) then
          match read_value fuel (tl (skip_ws r1)) with
          | None => None
          | Some (v, r) =>
            if head_is 125 (skip_ws r) then Some ([(k, v)], tl (skip_ws r))
            else if head_is 44 (skip_ws r) then
              match read_members fuel (tl (skip_ws r)) with
              | Some (l, rest) => Some ((k, v) :: l, rest)
              | None => None
              end
            else None
          end
        else None
      end
    else None.
Proof. reflexivity. Qed.

Lemma read_value_skip fuel s : read_value fuel (skip_ws s) = read_value fuel s.
Proof. destruct fuel as [|f fuel]; [reflexivity|]. rewrite !read_value_eq, skip_ws_idem. reflexivity. Qed.

Lemma read_value_ws fuel s : read_value fuel (32 :: s) = read_value fuel s.
Proof. rewrite <- (read_value_skip fuel (32 :: s)). change (skip_ws (32 :: s)) with (skip_ws s). apply read_value_skip. Qed.

Lemma read_elems_ws fuel s : read_elems fuel (32 :: s) = read_elems fuel s.
Proof. destruct fuel as [|f fuel]; [reflexivity|]. rewrite !read_elems_eq, read_value_ws. reflexivity. Qed.

Lemma read_members_ws fuel s : read_members fuel (32 :: s) = read_members fuel s.
Proof. destruct fuel as [|f fuel]; [reflexivity|]. rewrite !read_members_eq. reflexivity. Qed.

Definition value_start (c : N) : Prop :=
  c = 34 \/ c = 91 \/ c = 123 \/ c = 110 \/ c = 116 \/ c = 102 \/ c = 45 \/ 48 <= c <= 57.

Lemma dec_z_start z : exists c t, dec_z z = c :: t /\ (c = 45 \/ 48 <= c <= 57).
Proof.
  destruct z as [|p|p]; cbn [dec_z].
  - exists 48, []. split; [reflexivity|lia].
  - destruct (digits_first_ok (Npos p)) as (d & t & E & H). exists d, t. split; [exact E|lia].
  - exists 45, (digits (Npos p)). split; [reflexivity|lia].
Qed.

Lemma dumps_start j : exists c t, dumps j = c :: t /\ value_start c.
Proof.
  unfold value_start. destruct j as [| [|] | z | s | l | l]; cbn [dumps].
  - exists 110, [117; 108; 108]. split; [reflexivity|lia].
  - exists 116, [114; 117; 101]. split; [reflexivity|lia].
  - exists 102, [97; 108; 115; 101]. split; [reflexivity|lia].
  - destruct (dec_z_start z) as (c & t & E & H). exists c, t. split; [exact E|lia].
  - eexists 34, _. split; [reflexivity|lia].
  - eexists 91, _. split; [reflexivity|lia].
  - eexists 123, _. split; [reflexivity|lia].
Qed.

Lemma value_start_facts c : value_start c ->
  is_ws c = false /\ c <> 93 /\ c <> 125 /\ c <> 44 /\ c <> 58.
Proof. unfold value_start, is_ws. intros H. repeat split; lia. Qed.

Definition reads (j : json) : Prop :=
  forall fuel rest, (length (dumps j) <= length fuel)%nat -> follow_ok rest = true ->
    read_value fuel (dumps j ++ rest) = Some (j, rest).

Lemma reads_null : reads JNull.
Proof.
  intros fuel rest Hf F. destruct fuel as [|f fuel]; [cbn in Hf; lia|].
  rewrite read_value_eq. reflexivity.
Qed.

Lemma reads_bool b : reads (JBool b).
Proof.
  intros fuel rest Hf F. destruct fuel as [|f fuel]; [destruct b; cbn in Hf; lia|].
  rewrite read_value_eq. destruct b; reflexivity.
Qed.

Lemma reads_int z : reads (JInt z).
Proof.
  intros fuel rest Hf F. destruct (dec_z_start z) as (c & t & E & Hc).
  destruct fuel as [|f fuel]; [cbn [dumps] in Hf; rewrite E in Hf; cbn in Hf; lia|].
  rewrite read_value_eq. cbn [dumps].
  assert (Es : dec_z z ++ rest = c :: t ++ rest) by (rewrite E; reflexivity).
  rewrite Es. rewrite skip_ws_nonws by (unfold is_ws; lia).
  replace (c =? 34) with false by lia. replace (c =? 91) with false by lia.
  replace (c =? 123) with false by lia. replace (c =? 110) with false by lia.
  replace (c =? 116) with false by lia. replace (c =? 102) with false by lia.
  rewrite <- Es. rewrite read_int_dec_z by exact F. reflexivity.
Qed.

Lemma reads_str s : str_ok s = true -> reads (JStr s).
Proof.
  intros Hs fuel rest Hf F. destruct fuel as [|f fuel]; [cbn in Hf; lia|].
  rewrite read_value_eq. cbn [dumps]. unfold quote. cbn [app]. rewrite <- app_assoc. cbn [app].
  rewrite skip_ws_nonws by reflexivity. change (34 =? 34) with true. cbv iota.
  rewrite read_string_escape by exact Hs. reflexivity.
Qed.

Lemma join_cons2 sep p q r : join sep (p :: q :: r) = p ++ sep ++ join sep (q :: r).
Proof. reflexivity. Qed.

Lemma follow_ok_close c rest : c = 93 \/ c = 125 \/ c = 44 -> follow_ok (c :: rest) = true.
Proof. intros H. cbn [follow_ok]. unfold is_digit. lia. Qed.

Lemma head_is_start c s rest k : value_start c -> k = 93 \/ k = 125 ->
  head_is k (skip_ws ((c :: s) ++ rest)) = false.
Proof.
  intros H Hk. cbn [app]. destruct (value_start_facts c H) as (Hw & ? & ? & ? & ?).
  rewrite skip_ws_nonws by exact Hw. cbn [head_is]. lia.
Qed.

Lemma read_elems_join l : forall fuel rest, l <> [] ->
  Forall (fun x => json_wf x = true -> reads x) l -> forallb json_wf l = true ->
  (length (join Lit.item_sep (map dumps l)) + 1 <= length fuel)%nat ->
  read_elems fuel (join Lit.item_sep (map dumps l) ++ 93 :: rest) = Some (l, rest).
Proof.
  induction l as [|x l IH]; intros fuel rest Hne HF Hwf Hf; [congruence|].
  inversion HF as [|? ? Hx HFl]; subst.
  cbn [forallb] in Hwf. apply andb_true_iff in Hwf. destruct Hwf as [Hwx Hwl].
  destruct fuel as [|f fuel]; [cbn [length] in Hf; lia|].
  rewrite read_elems_eq. destruct l as [|y l'].
  - cbn [map join] in Hf |- *.
    rewrite (Hx Hwx fuel (93 :: rest)); [reflexivity| cbn [length] in Hf; lia | apply follow_ok_close; lia].
  - cbn [map] in Hf |- *. rewrite join_cons2 in Hf |- *.
    rewrite !app_length in Hf. cbn [length Lit.item_sep] in Hf.
    rewrite <- !app_assoc. cbn [Lit.item_sep app].
    rewrite (Hx Hwx fuel); [| lia | apply follow_ok_close; lia].
    rewrite skip_ws_nonws by reflexivity. cbn [head_is tl].
    change (44 =? 93) with false. change (44 =? 44) with true. cbv iota.
    rewrite read_elems_ws.
    change (dumps y :: map dumps l') with (map dumps (y :: l')).
    rewrite (IH fuel rest); [reflexivity|discriminate|exact HFl|exact Hwl|].
    cbn [map]. lia.
Qed.

Lemma reads_arr l : Forall (fun x => json_wf x = true -> reads x) l -> forallb json_wf l = true ->
  reads (JArr l).
Proof.
  intros HF Hwf fuel rest Hf F. destruct fuel as [|f fuel]; [cbn in Hf; lia|].
  rewrite read_value_eq. cbn [dumps] in Hf |- *. cbn [app]. rewrite skip_ws_nonws by reflexivity.
  change (91 =? 34) with false. change (91 =? 91) with true. cbv iota.
  rewrite <- app_assoc. cbn [app].
  destruct l as [|x l'].
  - reflexivity.
  - destruct (dumps_start x) as (c & t & E & Hc).
    assert (Hh : head_is 93 (skip_ws (join Lit.item_sep (map dumps (x :: l')) ++ 93 :: rest)) = false).
    { destruct l' as [|y l'']; cbn [map]; [cbn [join]|rewrite join_cons2]; rewrite E.
      - apply head_is_start; [exact Hc|lia].
      - rewrite <- app_assoc. apply head_is_start; [exact Hc|lia]. }
    rewrite Hh. rewrite read_elems_join; [reflexivity|discriminate|exact HF|exact Hwf|].
    cbn [length] in Hf. rewrite app_length in Hf. cbn [length] in Hf. lia.
Qed.

Definition member (kv : list N * json) : list N := quote (fst kv) ++ Lit.key_sep ++ dumps (snd kv).

Lemma member_eq k v tail :
  member (k, v) ++ tail = 34 :: escape k ++ 34 :: 58 :: 32 :: dumps v ++ tail.
Proof.
  unfold member, quote. cbn [fst snd app Lit.key_sep]. rewrite <- !app_assoc. cbn [app]. reflexivity.
Qed.

Lemma read_member f fuel k v tail : str_ok k = true -> json_wf v = true -> reads v ->
  (length (dumps v) <= length fuel)%nat -> follow_ok tail = true ->
  read_members (f :: fuel) (member (k, v) ++ tail) =
    if head_is 125 (skip_ws tail) then Some ([(k, v)], tl (skip_ws tail))
    else if head_is 44 (skip_ws tail) then
      match read_members fuel (tl (skip_ws tail)) with
      | Some (l, rest) => Some ((k, v) :: l, rest)
      | None => None
      end
    else None.
Proof.
  intros Hk Hv Hr Hf F. rewrite read_members_eq, member_eq.
  rewrite skip_ws_nonws by reflexivity. cbn [head_is tl]. change (34 =? 34) with true. cbv iota.
  rewrite read_string_escape by exact Hk.
  rewrite skip_ws_nonws by reflexivity. cbn [head_is tl]. change (58 =? 58) with true. cbv iota.
  rewrite read_value_ws. rewrite (Hr fuel tail Hf F). reflexivity.
Qed.

Lemma member_length kv : (5 <= length (member kv))%nat.
Proof.
  destruct kv as [k v]. unfold member, quote. cbn [fst snd]. rewrite !app_length. cbn [length].
  rewrite app_length. cbn [length Lit.key_sep].
  destruct (dumps_start v) as (c & t & E & _). rewrite E. cbn [length]. lia.
Qed.

Lemma read_members_join l : forall fuel rest, l <> [] ->
  Forall (fun kv => json_wf (snd kv) = true -> reads (snd kv)) l ->
  forallb (fun kv => str_ok (fst kv) && json_wf (snd kv)) l = true ->
  (length (join Lit.item_sep (map member l)) + 1 <= length fuel)%nat ->
  read_members fuel (join Lit.item_sep (map member l) ++ 125 :: rest) = Some (l, rest).
Proof.
  induction l as [|[k v] l IH]; intros fuel rest Hne HF Hwf Hf; [congruence|].
  inversion HF as [|? ? Hx HFl]; subst. cbn [snd] in Hx.
  cbn [forallb fst snd] in Hwf. apply andb_true_iff in Hwf. destruct Hwf as [Hwx Hwl].
  apply andb_true_iff in Hwx. destruct Hwx as [Hk Hv].
  destruct fuel as [|f fuel]; [cbn [length] in Hf; lia|].
  assert (Hvl : (length (dumps v) + 4 <= length (member (k, v)))%nat).
  { unfold member, quote. cbn [fst snd]. rewrite !app_length. cbn [length Lit.key_sep].
    rewrite app_length. cbn [length]. lia. }
  destruct l as [|y l'].
  - cbn [map join] in Hf |- *.
    rewrite read_member; [reflexivity|exact Hk|exact Hv|exact (Hx Hv)| cbn [length] in Hf; lia |].
    apply follow_ok_close; lia.
  - cbn [map] in Hf |- *. rewrite join_cons2 in Hf |- *.
    rewrite !app_length in Hf. cbn [length Lit.item_sep] in Hf.
    rewrite <- !app_assoc. cbn [Lit.item_sep app].
    rewrite read_member; [|exact Hk|exact Hv|exact (Hx Hv)|lia|apply follow_ok_close; lia].
    rewrite skip_ws_nonws by reflexivity. cbn [head_is tl].
    change (44 =? 125) with false. change (44 =? 44) with true. cbv iota.
    rewrite read_members_ws.
    change (member y :: map member l') with (map member (y :: l')).
    rewrite (IH fuel rest); [reflexivity|discriminate|exact HFl|exact Hwl|].
    cbn [map]. lia.
Qed.

Lemma reads_obj l : Forall (fun kv => json_wf (snd kv) = true -> reads (snd kv)) l ->
  forallb (fun kv => str_ok (fst kv) && json_wf (snd kv)) l = true -> reads (JObj l).
Proof.
  intros HF Hwf fuel rest Hf F. destruct fuel as [|f fuel]; [cbn in Hf; lia|].
  rewrite read_value_eq. cbn [dumps] in Hf |- *. fold member in Hf |- *.
  change (fun kv : list N * json => quote (fst kv) ++ Lit.key_sep ++ dumps (snd kv)) with member in *.
  cbn [app]. rewrite skip_ws_nonws by reflexivity.
  change (123 =? 34) with false. change (123 =? 91) with false. change (123 =? 123) with true. cbv iota.
  rewrite <- app_assoc. cbn [app].
  destruct l as [|[k v] l'].
  - reflexivity.
  - assert (Hh : head_is 125 (skip_ws (join Lit.item_sep (map member ((k, v) :: l')) ++ 125 :: rest)) = false).
    { destruct l' as [|y l'']; cbn [map]; [cbn [join]|rewrite join_cons2; rewrite <- app_assoc];
        rewrite member_eq; rewrite skip_ws_nonws by reflexivity; reflexivity. }
    rewrite Hh. rewrite read_members_join; [reflexivity|discriminate|exact HF|exact Hwf|].
    cbn [length] in Hf. rewrite app_length in Hf. cbn [length] in Hf. lia.
Qed.

Theorem read_value_dumps j : json_wf j = true -> reads j.
Proof.
  induction j as [| b | z | s | l IH | l IH] using json_ind'; intros Hwf.
  - apply reads_null.
  - apply reads_bool.
  - apply reads_int.
  - apply reads_str. exact Hwf.
  - apply reads_arr; [exact IH|exact Hwf].
  - apply reads_obj; [exact IH|exact Hwf].
Qed.

(* loads (dumps j) = Some j *)
Theorem loads_dumps j : json_wf j = true -> loads_chars (dumps j) = Some j.
Proof.
  intros H. unfold loads_chars.
  pose proof (read_value_dumps j H (dumps j) [] (le_n _) eq_refl) as E.
  rewrite app_nil_r in E. rewrite E. reflexivity.
Qed.
