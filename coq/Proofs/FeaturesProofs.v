(* Proofs about Model/Features.v: atomicity of refused calls, uniqueness of handlers, exact effect
   of accepted calls, frame lemmas for dispatch, refinement to Spec/FeaturesSpec.v, and the
   registration-shape lemmas used by C14 (site_iff_thread, inject_iff_asked). *)
From Coq Require Import NArith List Bool Lia.
From Pygls Require Import Model.Features Spec.FeaturesSpec.
Import ListNotations.
Open Scope N_scope.

(* ------------------------------------------------------------------ names and dictionaries *)
Lemma str_eqb_eq : forall a b, str_eqb a b = true <-> a = b.
Proof.
  induction a as [|x a IH]; destruct b as [|y b]; cbn [str_eqb]; split; intro H;
    try reflexivity; try discriminate.
  - apply andb_true_iff in H. destruct H as [H1 H2]. apply N.eqb_eq in H1. apply IH in H2. congruence.
  - inversion H; subst. rewrite N.eqb_refl. cbn [andb]. apply IH. reflexivity.
Qed.

Lemma name_eqb_eq : forall a b, name_eqb a b = true <-> a = b.
Proof.
  intros [a|] [b|]; cbn [name_eqb]; split; intro H; try reflexivity; try discriminate.
  - apply str_eqb_eq in H. congruence.
  - inversion H; subst. apply str_eqb_eq. reflexivity.
Qed.

Lemma name_eqb_refl : forall a, name_eqb a a = true.
Proof. intro a. apply name_eqb_eq. reflexivity. Qed.

Lemma name_eqb_neq : forall a b, a <> b -> name_eqb a b = false.
Proof.
  intros a b H. destruct (name_eqb a b) eqn:E; [|reflexivity]. apply name_eqb_eq in E. contradiction.
Qed.

Lemma name_eqb_sym : forall a b, name_eqb a b = name_eqb b a.
Proof.
  intros a b. destruct (name_eqb a b) eqn:E.
  - apply name_eqb_eq in E. subst. symmetry. apply name_eqb_refl.
  - destruct (name_eqb b a) eqn:E2; [|reflexivity]. apply name_eqb_eq in E2. subst.
    rewrite name_eqb_refl in E. discriminate.
Qed.

Section Assoc.
  Context {V : Type}.
  Implicit Types (l : list (name * V)) (k : name) (v : V).

  Lemma aget_none_notin : forall k l, aget k l = None <-> ~ In k (akeys l).
  Proof.
    intros k l. induction l as [|[k' v'] t IH]; cbn [aget akeys map fst In].
    - split; [intros _ []|reflexivity].
    - destruct (name_eqb k k') eqn:E.
      + apply name_eqb_eq in E. subst. split; [discriminate|]. intro H. exfalso. apply H. left. reflexivity.
      + split.
        * intros H [H1|H1]; [subst; rewrite name_eqb_refl in E; discriminate|]. apply IH in H. contradiction.
        * intro H. apply IH. intro H1. apply H. right. exact H1.
  Qed.

  Lemma aget_some_in : forall k l v, aget k l = Some v -> In (k, v) l.
  Proof.
    intros k l. induction l as [|[k' v'] t IH]; cbn [aget]; intros v H; [discriminate|].
    destruct (name_eqb k k') eqn:E.
    - apply name_eqb_eq in E. inversion H; subst. left. reflexivity.
    - right. apply IH. exact H.
  Qed.

  Lemma aget_some_key : forall k l v, aget k l = Some v -> In k (akeys l).
  Proof.
    intros k l v H. apply aget_some_in in H. unfold akeys. apply in_map_iff. exists (k, v). split; auto.
  Qed.

  Lemma in_nodup_aget : forall k v l, NoDup (akeys l) -> In (k, v) l -> aget k l = Some v.
  Proof.
    intros k v l. induction l as [|[k' v'] t IH]; cbn [akeys map fst In aget]; intros ND H; [contradiction|].
    inversion ND as [|? ? Hn ND']; subst.
    destruct H as [H|H].
    - inversion H; subst. rewrite name_eqb_refl. reflexivity.
    - destruct (name_eqb k k') eqn:E.
      + apply name_eqb_eq in E. subst. exfalso. apply Hn. unfold akeys in *. apply in_map_iff.
        exists (k', v). split; auto.
      + apply IH; assumption.
  Qed.

  Lemma aget_aset_eq : forall k v l, aget k (aset k v l) = Some v.
  Proof.
    intros k v l. induction l as [|[k' v'] t IH]; cbn [aset aget].
    - rewrite name_eqb_refl. reflexivity.
    - destruct (name_eqb k k') eqn:E; cbn [aget]; rewrite E; [reflexivity|exact IH].
  Qed.

  Lemma aget_aset_neq : forall k k' v l, k <> k' -> aget k' (aset k v l) = aget k' l.
  Proof.
    intros k k' v l Hne. induction l as [|[k2 v2] t IH]; cbn [aset aget].
    - rewrite (name_eqb_neq k' k) by congruence. reflexivity.
    - destruct (name_eqb k k2) eqn:E; cbn [aget].
      + apply name_eqb_eq in E. subst k2. rewrite (name_eqb_neq k' k) by congruence. reflexivity.
      + destruct (name_eqb k' k2); [reflexivity|exact IH].
  Qed.

  Lemma aset_absent : forall k v l, aget k l = None -> aset k v l = l ++ [(k, v)].
  Proof.
    intros k v l. induction l as [|[k' v'] t IH]; cbn [aget aset app]; intro H; [reflexivity|].
    destruct (name_eqb k k'); [discriminate|]. rewrite IH by exact H. reflexivity.
  Qed.

  Lemma akeys_aset_present : forall k v v0 l, aget k l = Some v0 -> akeys (aset k v l) = akeys l.
  Proof.
    intros k v v0 l. induction l as [|[k' v'] t IH]; cbn [aget aset akeys map fst]; intro H; [discriminate|].
    destruct (name_eqb k k') eqn:E; cbn [map fst]; [reflexivity|].
    f_equal. apply IH. exact H.
  Qed.

  Lemma akeys_app : forall l1 l2, akeys (l1 ++ l2) = akeys l1 ++ akeys l2.
  Proof. intros. unfold akeys. apply map_app. Qed.

  Lemma nodup_snoc : forall (k : name) (ks : list name), NoDup ks -> ~ In k ks -> NoDup (ks ++ [k]).
  Proof.
    intros k ks ND Hn. induction ND as [|x t Hx ND IH]; cbn [app].
    - constructor; [intros []|constructor].
    - constructor.
      + intro H. apply in_app_or in H. destruct H as [H|[H|[]]]; [contradiction|].
        subst. apply Hn. left. reflexivity.
      + apply IH. intro H. apply Hn. right. exact H.
  Qed.

  (* replacing the value of a present key, seen through a map over the entries *)
  Lemma map_aset_present : forall {W} (g : name * V -> W) k v l,
      NoDup (akeys l) -> In k (akeys l) ->
      map g (aset k v l) = map (fun p => if name_eqb k (fst p) then g (fst p, v) else g p) l.
  Proof.
    intros W g k v l. induction l as [|[k' v'] t IH]; cbn [akeys map fst aset In]; intros ND Hin; [contradiction|].
    inversion ND as [|? ? Hn ND']; subst.
    destruct (name_eqb k k') eqn:E; cbn [map fst]; rewrite ?E.
    - f_equal. apply name_eqb_eq in E. subst k'.
      apply map_ext_in. intros [k2 v2] H2. cbn [fst].
      rewrite name_eqb_neq; [reflexivity|]. intro; subst k2. apply Hn.
      unfold akeys. apply in_map_iff. exists (k, v2). split; auto.
    - f_equal. apply IH; [assumption|]. destruct Hin as [H|H]; [|exact H].
      subst. rewrite name_eqb_refl in E. discriminate.
  Qed.
End Assoc.

(* ------------------------------------------------------------------ str.strip() == "" *)
Lemma py_lstrip_nil_iff : forall s, py_lstrip s = [] <-> forallb py_isspace s = true.
Proof.
  induction s as [|c r IH]; cbn [py_lstrip forallb]; [split; reflexivity|].
  destruct (py_isspace c); cbn [andb]; [exact IH|]. split; discriminate.
Qed.

Lemma name_invalid_blank : forall n, name_invalid n = blank n.
Proof.
  intros [s|]; cbn [name_invalid blank]; [|reflexivity]. unfold py_strip.
  destruct (forallb py_isspace s) eqn:E.
  - apply py_lstrip_nil_iff in E. rewrite E. reflexivity.
  - destruct (py_lstrip s) as [|c t] eqn:L.
    + apply py_lstrip_nil_iff in L. congruence.
    + (* the stripped string starts with a non-space, so it survives the right strip *)
      assert (Hc : py_isspace c = false).
      { clear E. revert c t L. induction s as [|x r IH]; cbn [py_lstrip]; intros c t L; [discriminate|].
        destruct (py_isspace x) eqn:Ex; [eapply IH; exact L|]. inversion L; subst. exact Ex. }
      destruct (rev (py_lstrip (rev (c :: t)))) eqn:R; [|reflexivity]. exfalso.
      assert (R' : py_lstrip (rev (c :: t)) = []).
      { rewrite <- (rev_involutive (py_lstrip (rev (c :: t)))). rewrite R. reflexivity. }
      apply py_lstrip_nil_iff in R'. rewrite forallb_forall in R'.
      specialize (R' c). rewrite Hc in R'. assert (false = true) by (apply R', in_rev; rewrite rev_involutive; left; reflexivity).
      discriminate.
Qed.

(* ------------------------------------------------------------------ the invariant *)
Definition wf (r : registry) : Prop :=
  NoDup (akeys (features r)) /\ NoDup (akeys (commands r)) /\ NoDup (akeys (feature_options r)) /\
  (forall n, In n (akeys (feature_options r)) -> In n (akeys (features r))) /\
  (forall n, In n (akeys (features r)) \/ In n (akeys (commands r)) -> name_invalid n = false).

Lemma wf_empty : wf empty_registry.
Proof.
  unfold wf, empty_registry; cbn.
  split; [constructor|]. split; [constructor|]. split; [constructor|]. split; [intros ? []|].
  intros m [[]|[]].
Qed.

Lemma amem_false : forall {V} k (l : list (name * V)), amem k l = false -> aget k l = None.
Proof. intros V k l. unfold amem. destruct (aget k l); [discriminate|reflexivity]. Qed.

Lemma amem_true : forall {V} k (l : list (name * V)), amem k l = true -> exists v, aget k l = Some v.
Proof. intros V k l. unfold amem. destruct (aget k l) as [v|]; [eauto|discriminate]. Qed.

(* exact effect of an accepted feature registration *)
Lemma feature_ok_exact : forall r n o f r' f',
    feature r n o f = (r', f', Ok) ->
    name_invalid n = false /\ aget n (features r) = None /\ options_check o = None /\
    f' = assign_help_attrs f n RFeature /\
    features r' = features r ++ [(n, wrap_with_server f')] /\
    commands r' = commands r /\
    feature_options r' = (if opt_truthy o then aset n (opt_id o) (feature_options r) else feature_options r).
Proof.
  intros r n o f r' f' H. unfold feature in H.
  destruct (name_invalid n) eqn:E1; [discriminate|].
  destruct (amem n (features r)) eqn:E2; [discriminate|].
  destruct (options_check o) eqn:E3; [discriminate|].
  apply amem_false in E2.
  destruct (opt_truthy o) eqn:E4; cbn [features commands feature_options] in H; inversion H; subst;
    cbn [features commands feature_options]; rewrite (aset_absent n _ _ E2);
    repeat split; try reflexivity; assumption.
Qed.

Lemma command_ok_exact : forall r n f r' f',
    command r n f = (r', f', Ok) ->
    name_invalid n = false /\ aget n (commands r) = None /\
    f' = assign_help_attrs f n RCommand /\
    commands r' = commands r ++ [(n, wrap_with_server f')] /\
    features r' = features r /\ feature_options r' = feature_options r.
Proof.
  intros r n f r' f' H. unfold command in H.
  destruct (name_invalid n) eqn:E1; [discriminate|].
  destruct (amem n (commands r)) eqn:E2; [discriminate|].
  apply amem_false in E2. inversion H; subst; cbn [features commands feature_options].
  rewrite (aset_absent n _ _ E2). repeat split; try reflexivity; assumption.
Qed.

Definition reg_table (k : regtype) (r : registry) : list (name * entry) :=
  match k with RFeature => features r | RCommand => commands r end.

Lemma akeys_mark_aliases : forall i l, akeys (mark_aliases i l) = akeys l.
Proof.
  intros i l. unfold akeys, mark_aliases. rewrite map_map. apply map_ext. intros [k e]. cbn [fst snd].
  destruct (is_function i e); reflexivity.
Qed.

Lemma aget_mark_aliases : forall i n l,
    aget n (mark_aliases i l) =
    option_map (fun e => if is_function i e then assign_thread_attr_e e else e) (aget n l).
Proof.
  intros i n l. induction l as [|[k e] t IH]; cbn [mark_aliases map aget fst snd option_map]; [reflexivity|].
  destruct (is_function i e) eqn:F; cbn [aget]; destruct (name_eqb n k); cbn [option_map]; rewrite ?F;
    try reflexivity; exact IH.
Qed.

Lemma reg_table_mark_function : forall t i r,
    reg_table t (mark_function i r) = mark_aliases i (reg_table t r).
Proof. intros [|] i r; reflexivity. Qed.

Lemma mark_registered_keys : forall r t n e, aget n (reg_table t r) = Some e ->
    akeys (features (mark_registered r t n e)) = akeys (features r) /\
    akeys (commands (mark_registered r t n e)) = akeys (commands r) /\
    feature_options (mark_registered r t n e) = feature_options r.
Proof.
  intros r t n e H. unfold mark_registered. destruct (e_inject e).
  - destruct t; cbn [reg_table features commands feature_options] in *;
      rewrite (akeys_aset_present _ _ _ _ H); auto.
  - cbn [mark_function features commands feature_options]. rewrite !akeys_mark_aliases. auto.
Qed.

Lemma aget_mark_registered_self : forall r t n e, aget n (reg_table t r) = Some e ->
    aget n (reg_table t (mark_registered r t n e)) = Some (assign_thread_attr_e e).
Proof.
  intros r t n e H. unfold mark_registered. destruct (e_inject e) eqn:I.
  - destruct t; cbn [reg_table features commands]; apply aget_aset_eq.
  - rewrite reg_table_mark_function, aget_mark_aliases, H. cbn [option_map].
    unfold is_function. rewrite I, N.eqb_refl. reflexivity.
Qed.

(* exact effect of an accepted thread() *)
Lemma thread_ok_exact : forall r f r' f',
    thread r f = (r', f', Ok) ->
    f_async f = false /\
    match f_reg f with
    | Some (t, n) => exists e, aget n (reg_table t r) = Some e /\ r' = mark_registered r t n e /\
                               f' = (if is_function (f_id f) e then assign_thread_attr_f f else f)
    | None => r' = mark_function (f_id f) r /\ f' = assign_thread_attr_f f
    end.
Proof.
  intros r f r' f' H. unfold thread in H.
  destruct (f_async f) eqn:E1; [discriminate|]. split; [reflexivity|].
  destruct (f_reg f) as [[t n]|].
  - fold (reg_table t r) in H. destruct (aget n (reg_table t r)) as [e|] eqn:E2; [|discriminate].
    inversion H; subst. exists e. auto.
  - inversion H; subst. auto.
Qed.

Theorem reject_is_identity : forall r x r' f' e, step r x = (r', f', Error e) -> r' = r.
Proof.
  intros r x r' f' e H. destruct x as [n o f|n f|f]; cbn [step] in H.
  - unfold feature in H. destruct (name_invalid n); [congruence|].
    destruct (amem n (features r)); [congruence|].
    destruct (options_check o); [congruence|]. destruct (opt_truthy o); congruence.
  - unfold command in H. destruct (name_invalid n); [congruence|].
    destruct (amem n (commands r)); congruence.
  - unfold thread in H. destruct (f_async f); [congruence|].
    destruct (f_reg f) as [[t n]|]; try congruence.
    destruct (aget n _); congruence.
Qed.

Definition op_fn (x : op) : func :=
  match x with OpFeature _ _ f => f | OpCommand _ f => f | OpThread f => f end.

(* a refused call leaves no trace on the function object either *)
Theorem reject_keeps_function : forall r x r' f' e, step r x = (r', f', Error e) -> f' = op_fn x.
Proof.
  intros r x r' f' e H. destruct x as [n o f|n f|f]; cbn [step op_fn] in *.
  - unfold feature in H. destruct (name_invalid n); [congruence|].
    destruct (amem n (features r)); [congruence|].
    destruct (options_check o); [congruence|]. destruct (opt_truthy o); congruence.
  - unfold command in H. destruct (name_invalid n); [congruence|].
    destruct (amem n (commands r)); congruence.
  - unfold thread in H. destruct (f_async f); [congruence|].
    destruct (f_reg f) as [[t n]|]; try congruence.
    destruct (aget n _); congruence.
Qed.

Lemma step_result_cases : forall r x, exists r' f' res, step r x = (r', f', res).
Proof. intros r x. destruct (step r x) as [[r' f'] res]. eauto. Qed.

Theorem wf_step : forall r x, wf r -> wf (step_reg r x).
Proof.
  intros r x W. unfold step_reg. destruct (step r x) as [[r' f'] res] eqn:S. cbn [fst].
  destruct res as [|e]; [|apply reject_is_identity in S; subst; exact W].
  destruct W as (W1 & W2 & W3 & W4 & W5).
  destruct x as [n o f|n f|f]; cbn [step] in S.
  - apply feature_ok_exact in S. destruct S as (Hv & Hf & _ & _ & HF & HC & HO).
    assert (Hn : ~ In n (akeys (features r))) by (apply aget_none_notin; exact Hf).
    assert (Hno : aget n (feature_options r) = None).
    { apply aget_none_notin. intro H. apply Hn, W4, H. }
    unfold wf. rewrite HF, HC, HO, akeys_app. cbn [akeys map fst].
    split; [apply nodup_snoc; assumption|]. split; [assumption|].
    destruct (opt_truthy o).
    + rewrite (aset_absent _ _ _ Hno), akeys_app. cbn [akeys map fst].
      split; [apply nodup_snoc; [assumption|apply aget_none_notin; exact Hno]|].
      split.
      * intros m H. apply in_or_app. apply in_app_or in H. destruct H as [H|H]; [left; apply W4, H|right; exact H].
      * intros m [H|H]; [|apply W5; right; exact H].
        apply in_app_or in H. destruct H as [H|[H|[]]]; [apply W5; left; exact H|subst; exact Hv].
    + split; [assumption|]. split.
      * intros m H. apply in_or_app. left. apply W4, H.
      * intros m [H|H]; [|apply W5; right; exact H].
        apply in_app_or in H. destruct H as [H|[H|[]]]; [apply W5; left; exact H|subst; exact Hv].
  - apply command_ok_exact in S. destruct S as (Hv & Hf & _ & HC & HF & HO).
    assert (Hn : ~ In n (akeys (commands r))) by (apply aget_none_notin; exact Hf).
    unfold wf. rewrite HF, HC, HO, akeys_app. cbn [akeys map fst].
    split; [assumption|]. split; [apply nodup_snoc; assumption|]. split; [assumption|].
    split; [assumption|].
    intros m [H|H]; [apply W5; left; exact H|].
    apply in_app_or in H. destruct H as [H|[H|[]]]; [apply W5; right; exact H|subst; exact Hv].
  - apply thread_ok_exact in S. destruct S as (_ & HR).
    destruct (f_reg f) as [[t n]|].
    + destruct HR as (e & He & -> & _). destruct (mark_registered_keys _ _ _ _ He) as (K1 & K2 & K3).
      unfold wf. rewrite K1, K2, K3. repeat split; assumption.
    + destruct HR as [-> _]. unfold wf. cbn [mark_function features commands feature_options].
      rewrite !akeys_mark_aliases. repeat split; assumption.
Qed.

Theorem wf_run : forall xs r, wf r -> wf (run r xs).
Proof.
  induction xs as [|x t IH]; intros r W; cbn [run]; [exact W|]. apply IH, wf_step, W.
Qed.

(* ------------------------------------------------------------------ at most one handler per name *)
Theorem at_most_one_handler : forall xs n e1 e2,
    let r := run empty_registry xs in
    (In (n, e1) (features r) -> In (n, e2) (features r) -> e1 = e2) /\
    (In (n, e1) (commands r) -> In (n, e2) (commands r) -> e1 = e2) /\
    NoDup (akeys (features r)) /\ NoDup (akeys (commands r)).
Proof.
  intros xs n e1 e2 r. destruct (wf_run xs _ wf_empty) as (W1 & W2 & _). fold r in W1, W2.
  repeat split; try assumption; intros H1 H2.
  - apply (in_nodup_aget _ _ _ W1) in H1. apply (in_nodup_aget _ _ _ W1) in H2. congruence.
  - apply (in_nodup_aget _ _ _ W2) in H1. apply (in_nodup_aget _ _ _ W2) in H2. congruence.
Qed.

(* a name that is registered is never blank *)
Theorem registered_names_valid : forall xs n,
    let r := run empty_registry xs in
    In n (akeys (features r)) \/ In n (akeys (commands r)) -> name_invalid n = false.
Proof. intros xs n r. destruct (wf_run xs _ wf_empty) as (_ & _ & _ & _ & W5). apply W5. Qed.

(* ------------------------------------------------------------------ an accepted call adds exactly that name *)
Theorem accept_feature_frame : forall r n o f r' f',
    step r (OpFeature n o f) = (r', f', Ok) ->
    aget n (features r) = None /\
    aget n (features r') = Some (wrap_with_server (assign_help_attrs f n RFeature)) /\
    (forall m, m <> n -> aget m (features r') = aget m (features r)) /\
    (forall m, m <> n -> aget m (feature_options r') = aget m (feature_options r)) /\
    commands r' = commands r /\
    akeys (features r') = akeys (features r) ++ [n].
Proof.
  intros r n o f r' f' H. cbn [step] in H.
  pose proof H as H0. unfold feature in H0.
  destruct (name_invalid n); [discriminate|]. destruct (amem n (features r)) eqn:E2; [discriminate|].
  destruct (options_check o); [discriminate|]. apply amem_false in E2.
  apply feature_ok_exact in H. destruct H as (_ & _ & _ & Hf' & HF & HC & HO). subst f'.
  split; [exact E2|]. split.
  - rewrite HF, <- (aset_absent n _ _ E2). apply aget_aset_eq.
  - split; [|split; [|split]].
    + intros m Hm. rewrite HF, <- (aset_absent n _ _ E2). apply aget_aset_neq. congruence.
    + intros m Hm. rewrite HO. destruct (opt_truthy o); [apply aget_aset_neq; congruence|reflexivity].
    + exact HC.
    + rewrite HF, akeys_app. reflexivity.
Qed.

Theorem accept_command_frame : forall r n f r' f',
    step r (OpCommand n f) = (r', f', Ok) ->
    aget n (commands r) = None /\
    aget n (commands r') = Some (wrap_with_server (assign_help_attrs f n RCommand)) /\
    (forall m, m <> n -> aget m (commands r') = aget m (commands r)) /\
    features r' = features r /\ feature_options r' = feature_options r /\
    akeys (commands r') = akeys (commands r) ++ [n].
Proof.
  intros r n f r' f' H. cbn [step] in H. apply command_ok_exact in H.
  destruct H as (_ & E2 & Hf' & HC & HF & HO). subst f'.
  split; [exact E2|]. split; [|split; [|split; [|split]]].
  - rewrite HC, <- (aset_absent n _ _ E2). apply aget_aset_eq.
  - intros m Hm. rewrite HC, <- (aset_absent n _ _ E2). apply aget_aset_neq. congruence.
  - exact HF.
  - exact HO.
  - rewrite HC, akeys_app. reflexivity.
Qed.

(* thread(): no name appears or disappears; only the marker of (at most) one entry is set *)
Definition same_but_thread (a b : option entry) : Prop :=
  match a, b with
  | None, None => True
  | Some x, Some y => e_fid x = e_fid y /\ e_async x = e_async y /\ e_inject x = e_inject y /\
                      (e_thread x = true -> e_thread y = true)
  | _, _ => False
  end.

Lemma same_but_thread_refl : forall a, same_but_thread a a.
Proof. intros [x|]; cbn; auto. Qed.

Lemma same_but_thread_mark : forall i a,
    same_but_thread a (option_map (fun e => if is_function i e then assign_thread_attr_e e else e) a).
Proof. intros i [e|]; cbn; [|exact I]. destruct (is_function i e); cbn; auto. Qed.

Lemma same_but_thread_aset : forall n e (l : list (name * entry)) m, aget n l = Some e ->
    same_but_thread (aget m l) (aget m (aset n (assign_thread_attr_e e) l)).
Proof.
  intros n e l m He. destruct (name_eqb n m) eqn:E.
  - apply name_eqb_eq in E. subst m. rewrite aget_aset_eq, He. cbn. auto.
  - rewrite aget_aset_neq; [apply same_but_thread_refl|]. intro; subst. rewrite name_eqb_refl in E. discriminate.
Qed.

(* an accepted thread() adds and removes no name, touches no options, and can only SET markers:
   that of the callable registered under the function's last registration name - which, when that
   callable is the function object itself, is the marker of every registration of that object *)
Theorem accept_thread_frame : forall r f r' f',
    step r (OpThread f) = (r', f', Ok) ->
    akeys (features r') = akeys (features r) /\ akeys (commands r') = akeys (commands r) /\
    feature_options r' = feature_options r /\
    (forall m, same_but_thread (aget m (features r)) (aget m (features r'))) /\
    (forall m, same_but_thread (aget m (commands r)) (aget m (commands r'))).
Proof.
  intros r f r' f' H. cbn [step] in H. apply thread_ok_exact in H. destruct H as (_ & HR).
  destruct (f_reg f) as [[t n]|].
  - destruct HR as (e & He & -> & _). destruct (mark_registered_keys _ _ _ _ He) as (K1 & K2 & K3).
    repeat split; try assumption; intro m; unfold mark_registered; destruct (e_inject e);
      try (cbn [mark_function features commands]; rewrite aget_mark_aliases; apply same_but_thread_mark);
      destruct t; cbn [reg_table features commands] in *;
      try apply same_but_thread_refl; apply same_but_thread_aset; exact He.
  - destruct HR as [-> _]. cbn [mark_function features commands feature_options].
    rewrite !akeys_mark_aliases. repeat split; intro m; rewrite aget_mark_aliases; apply same_but_thread_mark.
Qed.

(* ------------------------------------------------------------------ histories *)
(* a trace = the registry and the outcome after each call; `chain r tr`: every element of tr is
   one `step` (some call, any arguments) from the registry before it *)
Inductive chain : registry -> list (registry * result) -> Prop :=
  | chain_nil : forall r, chain r []
  | chain_cons : forall r x r' f' res tr,
      step r x = (r', f', res) -> chain r' tr -> chain r ((r', res) :: tr).

Fixpoint triples (r : registry) (tr : list (registry * result)) : list (registry * registry * result) :=
  match tr with
  | [] => []
  | (r', res) :: t => (r, r', res) :: triples r' t
  end.

Lemma last_default : forall {A} (l : list A) d d', l <> [] -> last l d = last l d'.
Proof.
  intros A l. induction l as [|a t IH]; intros d d' H; [contradiction|].
  destruct t as [|b t]; [reflexivity|]. cbn [last]. apply IH. discriminate.
Qed.

Lemma last_reg_cons : forall r r' res tr, last_reg r ((r', res) :: tr) = last_reg r' tr.
Proof.
  intros r r' res tr. unfold last_reg. destruct tr as [|p t]; [reflexivity|].
  change (last ((r', res) :: p :: t) (r, Ok)) with (last (p :: t) (r, Ok)).
  f_equal. apply last_default. discriminate.
Qed.

Lemma chain_app : forall r tr1 tr2,
    chain r tr1 -> chain (last_reg r tr1) tr2 -> chain r (tr1 ++ tr2).
Proof.
  intros r tr1 tr2 H. revert tr2. induction H as [r|r x r' f' res tr S C IH]; intros tr2 H2; cbn [app].
  - exact H2.
  - econstructor; [exact S|]. apply IH. rewrite last_reg_cons in H2. exact H2.
Qed.

Lemma register_step : forall r a f, register r a f = step r (register_op a f).
Proof. intros r a f. unfold register, register_op. destruct (a_kind a); reflexivity. Qed.

Lemma attempt_trace_chain : forall r a, chain r (attempt_trace r a).
Proof.
  intros r a. unfold attempt_trace. destruct (a_thr a).
  - destruct (register r a (a_fn a)) as [[r1 f1] res1] eqn:E. rewrite register_step in E.
    econstructor; [exact E|constructor].
  - destruct (register r a (a_fn a)) as [[r1 f1] res1] eqn:E. rewrite register_step in E.
    destruct res1 as [|e].
    + destruct (thread r1 f1) as [[r2 f2] res2] eqn:E2.
      econstructor; [exact E|]. econstructor; [exact (E2 : step r1 (OpThread f1) = _)|constructor].
    + econstructor; [exact E|constructor].
  - destruct (thread r (a_fn a)) as [[r1 f1] res1] eqn:E.
    destruct res1 as [|e].
    + destruct (register r1 a f1) as [[r2 f2] res2] eqn:E2. rewrite register_step in E2.
      econstructor; [exact (E : step r (OpThread (a_fn a)) = _)|]. econstructor; [exact E2|constructor].
    + econstructor; [exact (E : step r (OpThread (a_fn a)) = _)|constructor].
Qed.

Theorem run_attempts_chain : forall l r, chain r (run_attempts r l).
Proof.
  induction l as [|a t IH]; intro r; cbn [run_attempts]; [constructor|].
  apply chain_app; [apply attempt_trace_chain|apply IH].
Qed.

(* in every history, every refused call leaves the registry as it was *)
Theorem history_atomic : forall r tr, chain r tr ->
    Forall (fun t => let '(before, after, res) := t in forall e, res = Error e -> after = before)
           (triples r tr).
Proof.
  intros r tr H. induction H as [r|r x r' f' res tr S C IH]; cbn [triples]; constructor; [|exact IH].
  intros e He. subst res. eapply reject_is_identity. exact S.
Qed.

Theorem history_wf : forall r tr, wf r -> chain r tr ->
    Forall (fun t => let '(_, after, _) := t in wf after) (triples r tr).
Proof.
  intros r tr W H. induction H as [r|r x r' f' res tr S C IH]; cbn [triples]; [constructor|].
  assert (W' : wf r').
  { pose proof (wf_step r x W) as W'. unfold step_reg in W'. rewrite S in W'. exact W'. }
  constructor; [exact W'|apply IH, W'].
Qed.

Lemma chain_last_wf : forall r tr, wf r -> chain r tr -> wf (last_reg r tr).
Proof.
  intros r tr W H. induction H as [r|r x r' f' res tr S C IH]; [exact W|].
  rewrite last_reg_cons. apply IH.
  pose proof (wf_step r x W) as W'. unfold step_reg in W'. rewrite S in W'. exact W'.
Qed.

(* ------------------------------------------------------------------ readers of the registry *)
Section Observers.
  Variable A : Type.
  Variable obs : registry -> A.     (* ANY function of the registry: capabilities, dispatch, ... *)

  Theorem observer_unchanged : forall r x r' f' e,
      step r x = (r', f', Error e) -> obs r' = obs r.
  Proof. intros r x r' f' e H. apply reject_is_identity in H. subst. reflexivity. Qed.

  Theorem history_observer_unchanged : forall r tr, chain r tr ->
      Forall (fun t => let '(before, after, res) := t in is_error res = true -> obs after = obs before)
             (triples r tr).
  Proof.
    intros r tr H. pose proof (history_atomic r tr H) as HA.
    induction HA as [|[[b a] res] t Hh Ht IH]; constructor; [|exact IH].
    intro He. destruct res as [|e]; [discriminate|]. rewrite (Hh e eq_refl). reflexivity.
  Qed.
End Observers.

(* the advertised capabilities are a function `caps` of the registry: whatever it is, a refused
   call - in any history of decorated definitions - does not change them *)
Theorem caps_unchanged : forall (A : Type) (caps : registry -> A) (l : list attempt),
    Forall (fun t => let '(before, after, res) := t in is_error res = true -> caps after = caps before)
           (triples empty_registry (run_attempts empty_registry l)).
Proof. intros A caps l. apply history_observer_unchanged, run_attempts_chain. Qed.

(* the same for the concrete readers: _get_handler (built-ins first), the users' handlers a message
   reaches, workspace/executeCommand *)
Theorem dispatch_unchanged : forall (builtins : list name) (l : list attempt),
    Forall (fun t => let '(before, after, res) := t in
                     is_error res = true ->
                     forall n, get_handler builtins after n = get_handler builtins before n /\
                               dispatch builtins after n = dispatch builtins before n /\
                               exec_command after n = exec_command before n)
           (triples empty_registry (run_attempts empty_registry l)).
Proof.
  intros bi l.
  pose proof (history_atomic _ _ (run_attempts_chain l empty_registry)) as HA.
  induction HA as [|[[b a] res] t Hh Ht IH]; constructor; [|exact IH].
  intros He n. destruct res as [|e]; [discriminate|]. rewrite (Hh e eq_refl). auto.
Qed.

Theorem builtin_always_wins : forall bi r n, mem_name n bi = true -> get_handler bi r n = HBuiltin.
Proof. intros bi r n H. unfold get_handler. rewrite H. reflexivity. Qed.

(* an accepted registration changes dispatch for that name only *)
Theorem dispatch_frame_feature : forall bi r n o f r' f',
    step r (OpFeature n o f) = (r', f', Ok) ->
    (forall m, m <> n -> get_handler bi r' m = get_handler bi r m /\ dispatch bi r' m = dispatch bi r m) /\
    (forall m, exec_command r' m = exec_command r m) /\
    (mem_name n bi = false ->
     get_handler bi r' n = HUser (wrap_with_server (assign_help_attrs f n RFeature))).
Proof.
  intros bi r n o f r' f' H. apply accept_feature_frame in H.
  destruct H as (_ & Hn & Hm & _ & HC & _). repeat split.
  - unfold get_handler. rewrite (Hm m H). reflexivity.
  - unfold dispatch, get_handler. rewrite (Hm m H). reflexivity.
  - intro m. unfold exec_command. rewrite HC. reflexivity.
  - intro Hb. unfold get_handler. rewrite Hb, Hn. reflexivity.
Qed.

Theorem dispatch_frame_command : forall bi r n f r' f',
    step r (OpCommand n f) = (r', f', Ok) ->
    (forall m, get_handler bi r' m = get_handler bi r m /\ dispatch bi r' m = dispatch bi r m) /\
    (forall m, m <> n -> exec_command r' m = exec_command r m) /\
    exec_command r' n = [wrap_with_server (assign_help_attrs f n RCommand)].
Proof.
  intros bi r n f r' f' H. apply accept_command_frame in H.
  destruct H as (_ & Hn & Hm & HF & _ & _). repeat split.
  - unfold get_handler. rewrite HF. reflexivity.
  - unfold dispatch, get_handler. rewrite HF. reflexivity.
  - intros m Hne. unfold exec_command. rewrite (Hm m Hne). reflexivity.
  - unfold exec_command. rewrite Hn. reflexivity.
Qed.

(* ------------------------------------------------------------------ refinement to the reference *)
Lemma taken_map : forall (g : name * entry -> sreg), (forall p, g_name (g p) = fst p) ->
    forall n l, taken n (map g l) = amem n l.
Proof.
  intros g Hg n l. unfold taken, amem. induction l as [|[k e] t IH]; cbn [map existsb aget]; [reflexivity|].
  rewrite Hg. cbn [fst]. destruct (name_eqb n k); [reflexivity|]. cbn [orb]. exact IH.
Qed.

Lemma taken_abs_features : forall r n, taken n (s_features (abs r)) = amem n (features r).
Proof. intros r n. unfold abs. cbn [s_features]. apply taken_map. intros [k e]. reflexivity. Qed.

Lemma taken_abs_commands : forall r n, taken n (s_commands (abs r)) = amem n (commands r).
Proof. intros r n. unfold abs. cbn [s_commands]. apply taken_map. intros [k e]. reflexivity. Qed.

Lemma options_check_right_type : forall o, oracle_agrees o = true ->
    (match options_check o with None => true | Some _ => false end) = right_type o.
Proof.
  intros [|i t nom chk]; cbn [oracle_agrees options_check opt_truthy right_type]; [reflexivity|].
  intro H. apply andb_true_iff in H. destruct H as [Ht He]. subst t. apply eqb_prop in He. subst nom.
  destruct chk; reflexivity.
Qed.

Lemma has_ls_asks : forall p, has_ls_param_or_annotation p = asks_server p.
Proof. intros [|[|] [| |]]; reflexivity. Qed.

(* the registered callable, read as a registration of the reference *)
Lemma wrap_view : forall f, func_ok f = true ->
    let w := wrap_with_server f in
    e_fid w = f_id f /\ e_async w = f_async f /\ e_inject w = asks_server (f_params f) /\
    e_thread w = f_thread f.
Proof.
  intros f H. unfold wrap_with_server. rewrite has_ls_asks. unfold func_ok in H.
  destruct (asks_server (f_params f)); cbn [negb].
  - destruct (f_async f) eqn:A; cbn [e_fid e_async e_inject e_thread]; repeat split.
    destruct (f_thread f); [discriminate|reflexivity].
  - cbn [e_fid e_async e_inject e_thread]. repeat split.
Qed.

Lemma abs_feature_ext : forall r1 r2 l,
    (forall k, In k (akeys l) -> aget k (feature_options r1) = aget k (feature_options r2)) ->
    map (abs_feature r1) l = map (abs_feature r2) l.
Proof.
  intros r1 r2 l H. apply map_ext_in. intros [k e] Hin. cbn [abs_feature]. rewrite H; [reflexivity|].
  unfold akeys. apply in_map_iff. exists (k, e). split; auto.
Qed.

Lemma mark_abs : forall (g : name * entry -> sreg) n e l,
    (forall k e', g (k, assign_thread_attr_e e') = mark_reg (g (k, e')) /\ g_name (g (k, e')) = k) ->
    NoDup (akeys l) -> aget n l = Some e ->
    map g (aset n (assign_thread_attr_e e) l) = mark n (map g l).
Proof.
  intros g n e l Hg ND He.
  rewrite (map_aset_present g n _ l ND (aget_some_key _ _ _ He)).
  unfold mark. rewrite map_map. apply map_ext_in. intros [k e'] Hin. cbn [fst].
  rewrite (proj2 (Hg k e')).
  destruct (name_eqb n k) eqn:E; [|reflexivity].
  apply name_eqb_eq in E. subst k.
  apply (in_nodup_aget _ _ _ ND) in Hin. rewrite He in Hin. inversion Hin; subst.
  apply (proj1 (Hg n e')).
Qed.

Lemma taken_table : forall r t n, taken n (table t (abs r)) = amem n (reg_table t r).
Proof. intros r [|] n; [apply taken_abs_features|apply taken_abs_commands]. Qed.

Lemma sfind_map : forall (g : name * entry -> sreg) n e l,
    (forall p, g_name (g p) = fst p) -> aget n l = Some e ->
    exists k, sfind n (map g l) = Some (g (k, e)) /\ k = n.
Proof.
  intros g n e l Hg. induction l as [|[k e'] t IH]; cbn [aget map]; intro H; [discriminate|].
  unfold sfind. cbn [find]. rewrite Hg. cbn [fst].
  destruct (name_eqb n k) eqn:E.
  - inversion H; subst. apply name_eqb_eq in E. subst. exists k. auto.
  - apply IH in H. exact H.
Qed.

Lemma sfind_table : forall r t n e, aget n (reg_table t r) = Some e ->
    exists g, sfind n (table t (abs r)) = Some g /\ g_inject g = e_inject e /\ g_fid g = e_fid e.
Proof.
  intros r [|] n e H; cbn [reg_table table] in *; unfold abs; cbn [s_features s_commands].
  - destruct (sfind_map (abs_feature r) n e (features r)) as (k & Hk & ->); [intros [? ?]; reflexivity|exact H|].
    eexists. split; [exact Hk|]. split; reflexivity.
  - destruct (sfind_map abs_command n e (commands r)) as (k & Hk & ->); [intros [? ?]; reflexivity|exact H|].
    eexists. split; [exact Hk|]. split; reflexivity.
Qed.

Lemma abs_mark_function : forall i r,
    abs (mark_function i r) =
    mkss (mark_fn i (s_features (abs r))) (mark_fn i (s_commands (abs r))).
Proof.
  intros i r. unfold abs, mark_function, mark_aliases, mark_fn.
  cbn [features commands feature_options s_features s_commands].
  rewrite !map_map. f_equal; apply map_ext; intros [k e]; cbn [fst snd];
    unfold is_function; destruct (negb (e_inject e) && (e_fid e =? i)) eqn:F; cbn [abs_feature abs_command g_inject g_fid];
    rewrite ?F; reflexivity.
Qed.

Theorem step_refines : forall r x, wf r -> op_ok x = true ->
    abs (step_reg r x) = fst (spec_step (abs r) x) /\
    is_error (step_res r x) = snd (spec_step (abs r) x).
Proof.
  intros r x W Hok. destruct W as (W1 & W2 & W3 & W4 & W5).
  unfold step_reg, step_res, spec_step. destruct x as [n o f|n f|f]; cbn [step must_refuse].
  - (* feature *)
    cbn [op_ok] in Hok. apply andb_true_iff in Hok. destruct Hok as [Hor Hfn].
    rewrite <- name_invalid_blank, taken_abs_features, <- (options_check_right_type o Hor).
    unfold feature.
    destruct (name_invalid n) eqn:E1; cbn [orb fst snd is_error]; [split; reflexivity|].
    destruct (amem n (features r)) eqn:E2; cbn [orb fst snd is_error]; [split; reflexivity|].
    destruct (options_check o) eqn:E3; cbn [negb fst snd is_error]; [split; reflexivity|].
    split; [|destruct (opt_truthy o); reflexivity].
    apply amem_false in E2.
    assert (Hn : ~ In n (akeys (features r))) by (apply aget_none_notin; exact E2).
    assert (Hno : aget n (feature_options r) = None).
    { apply aget_none_notin. intro H. apply Hn, W4, H. }
    assert (Hfn' : func_ok (assign_help_attrs f n RFeature) = true) by exact Hfn.
    destruct (wrap_view _ Hfn') as (V1 & V2 & V3 & V4). cbn [assign_help_attrs f_id f_async f_params f_thread] in V1, V2, V3, V4.
    unfold abs. cbn [s_features s_commands].
    destruct (opt_truthy o) eqn:E4; cbn [features commands feature_options];
      rewrite (aset_absent n _ _ E2), map_app; cbn [map abs_feature feature_options]; f_equal; f_equal.
    + apply abs_feature_ext. intros k Hk. cbn [feature_options]. apply aget_aset_neq. intro; subst. contradiction.
    + f_equal. rewrite aget_aset_eq, V1, V2, V3, V4. unfold new_reg.
      destruct o as [|i t nom chk]; [discriminate|]. reflexivity.
    + f_equal. rewrite Hno, V1, V2, V3, V4. unfold new_reg.
      destruct o as [|i t nom chk]; [reflexivity|]. cbn [opt_truthy] in E4. subst t.
      cbn [oracle_agrees andb] in Hor. discriminate.
  - (* command *)
    cbn [op_ok] in Hok.
    rewrite <- name_invalid_blank, taken_abs_commands. unfold command.
    destruct (name_invalid n) eqn:E1; cbn [orb fst snd is_error]; [split; reflexivity|].
    destruct (amem n (commands r)) eqn:E2; cbn [orb fst snd is_error]; [split; reflexivity|].
    split; [|reflexivity].
    apply amem_false in E2.
    assert (Hfn' : func_ok (assign_help_attrs f n RCommand) = true) by exact Hok.
    destruct (wrap_view _ Hfn') as (V1 & V2 & V3 & V4). cbn [assign_help_attrs f_id f_async f_params f_thread] in V1, V2, V3, V4.
    unfold abs. cbn [s_features s_commands features commands feature_options].
    rewrite (aset_absent n _ _ E2), map_app. cbn [map abs_command]. f_equal. f_equal. f_equal.
    rewrite V1, V2, V3, V4. reflexivity.
  - (* thread *)
    unfold thread. destruct (f_async f) eqn:E1; cbn [orb fst snd is_error]; [split; reflexivity|].
    destruct (f_reg f) as [[t n]|].
    + fold (reg_table t r). rewrite taken_table. unfold amem.
      destruct (aget n (reg_table t r)) as [e|] eqn:E2; cbn [negb fst snd is_error]; [|split; reflexivity].
      destruct (sfind_table r t n e E2) as (g & Hg & G1 & G2). rewrite Hg, G1.
      unfold mark_registered. destruct (e_inject e) eqn:I.
      * split; [|destruct t; reflexivity].
        destruct t; cbn [reg_table] in E2; cbn [fst]; unfold abs;
          cbn [s_features s_commands features commands feature_options]; f_equal.
        -- apply (mark_abs (abs_feature (mkreg (aset n (assign_thread_attr_e e) (features r)) (commands r) (feature_options r)))); try assumption.
           intros k e'. split; reflexivity.
        -- apply (mark_abs abs_command); try assumption. intros k e'. split; reflexivity.
      * cbn [fst snd]. rewrite G2. split; [apply abs_mark_function|reflexivity].
    + cbn [fst snd is_error]. split; [apply abs_mark_function|reflexivity].
Qed.

Definition view (p : registry * result) : sstate * bool := (abs (fst p), is_error (snd p)).

Lemma step_view : forall r x r' f' res, wf r -> op_ok x = true -> step r x = (r', f', res) ->
    view (r', res) = spec_step (abs r) x.
Proof.
  intros r x r' f' res W Hok S. destruct (step_refines r x W Hok) as [H1 H2].
  unfold step_reg, step_res in *. rewrite S in *. cbn [fst snd] in *. unfold view. cbn [fst snd].
  rewrite H1, H2. destruct (spec_step (abs r) x). reflexivity.
Qed.

Lemma fresh_func_ok : forall f, fresh f = true -> func_ok f = true /\ f_thread f = false /\ f_reg f = None.
Proof.
  intros f H. unfold fresh in H. apply andb_true_iff in H. destruct H as [H1 H2].
  destruct (f_thread f) eqn:T; [discriminate|]. destruct (f_reg f); [discriminate|].
  unfold func_ok. rewrite T, andb_false_r. auto.
Qed.

Lemma register_op_ok : forall a f, attempt_ok a = true -> func_ok f = true -> op_ok (register_op a f) = true.
Proof.
  intros a f Ha Hf. unfold attempt_ok in Ha. apply andb_true_iff in Ha. destruct Ha as [_ Ha].
  unfold register_op. destruct (a_kind a); cbn [op_ok]; [rewrite Ha, Hf; reflexivity|exact Hf].
Qed.

Lemma register_ok_fn : forall r a f r' f', step r (register_op a f) = (r', f', Ok) -> f' = spec_fn (register_op a f).
Proof.
  intros r a f r' f' H. unfold register_op in *. destruct (a_kind a); cbn [step spec_fn] in *.
  - apply feature_ok_exact in H. tauto.
  - apply command_ok_exact in H. tauto.
Qed.

Theorem attempt_refines : forall r a, wf r -> attempt_ok a = true ->
    map view (attempt_trace r a) = spec_attempt_trace (abs r) a.
Proof.
  intros r a W Ha. pose proof Ha as Ha0. unfold attempt_ok in Ha0. apply andb_true_iff in Ha0.
  destruct Ha0 as [Hfr _]. destruct (fresh_func_ok _ Hfr) as (Hfo & Hth & Hrg).
  unfold attempt_trace, spec_attempt_trace. destruct (a_thr a).
  - (* no thread decorator *)
    destruct (register r a (a_fn a)) as [[r1 f1] res1] eqn:E. rewrite register_step in E.
    cbn [map]. rewrite (step_view _ _ _ _ _ W (register_op_ok a _ Ha Hfo) E). reflexivity.
  - (* thread above: register, then thread *)
    destruct (register r a (a_fn a)) as [[r1 f1] res1] eqn:E. rewrite register_step in E.
    pose proof (step_view _ _ _ _ _ W (register_op_ok a _ Ha Hfo) E) as V1.
    destruct (spec_step (abs r) (register_op a (a_fn a))) as [s1 b1] eqn:S1.
    unfold view in V1. cbn [fst snd] in V1. inversion V1 as [[Hs Hb]].
    destruct res1 as [|e]; cbn [is_error] in *.
    + assert (W1 : wf r1).
      { pose proof (wf_step r (register_op a (a_fn a)) W) as W'. unfold step_reg in W'. rewrite E in W'. exact W'. }
      pose proof (register_ok_fn _ _ _ _ _ E) as Hf1. subst f1.
      destruct (thread r1 (spec_fn (register_op a (a_fn a)))) as [[r2 f2] res2] eqn:E2.
      assert (Hok2 : op_ok (OpThread (spec_fn (register_op a (a_fn a)))) = true).
      { cbn [op_ok]. unfold func_ok, register_op. destruct (a_kind a); cbn [spec_fn assign_help_attrs f_async f_thread];
          rewrite Hth, andb_false_r; reflexivity. }
      pose proof (step_view r1 (OpThread _) _ _ _ W1 Hok2 E2) as V2.
      cbn [map]. rewrite V2. unfold view. cbn [fst snd is_error].
      destruct (spec_step (abs r1) (OpThread (spec_fn (register_op a (a_fn a))))). reflexivity.
    + cbn [map]. unfold view. cbn [fst snd is_error]. reflexivity.
  - (* thread below: thread, then register *)
    destruct (thread r (a_fn a)) as [[r1 f1] res1] eqn:E.
    pose proof (step_view r (OpThread (a_fn a)) _ _ _ W Hfo E) as V1.
    destruct (spec_step (abs r) (OpThread (a_fn a))) as [s1 b1] eqn:S1.
    unfold view in V1. cbn [fst snd] in V1. inversion V1 as [[Hs Hb]].
    destruct res1 as [|e]; cbn [is_error] in *.
    + assert (W1 : wf r1).
      { pose proof (wf_step r (OpThread (a_fn a)) W) as W'. unfold step_reg in W'. cbn [step] in W'.
        rewrite E in W'. exact W'. }
      pose proof (thread_ok_exact _ _ _ _ E) as (Has & HR). rewrite Hrg in HR. destruct HR as [_ Hf1].
      subst f1. cbn [spec_fn].
      destruct (register r1 a (assign_thread_attr_f (a_fn a))) as [[r2 f2] res2] eqn:E2.
      rewrite register_step in E2.
      assert (Hfo2 : func_ok (assign_thread_attr_f (a_fn a)) = true).
      { unfold func_ok. cbn [assign_thread_attr_f f_async f_thread]. rewrite Has. reflexivity. }
      pose proof (step_view r1 _ _ _ _ W1 (register_op_ok a _ Ha Hfo2) E2) as V2.
      cbn [map]. rewrite V2. unfold view. cbn [fst snd is_error].
      destruct (spec_step (abs r1) (register_op a (assign_thread_attr_f (a_fn a)))). reflexivity.
    + cbn [map]. unfold view. cbn [fst snd is_error]. reflexivity.
Qed.

Lemma last_map_view : forall tr r,
    fst (last (map view tr) (abs r, false)) = abs (last_reg r tr).
Proof.
  intros tr r. unfold last_reg.
  change (abs r, false) with (view (r, Ok)).
  generalize (r, Ok) as d. induction tr as [|p t IH]; intro d; [reflexivity|].
  destruct t as [|q t]; [reflexivity|].
  change (last (map view (p :: q :: t)) (view d)) with (last (map view (q :: t)) (view d)).
  change (last (p :: q :: t) d) with (last (q :: t) d). apply IH.
Qed.

(* the executable reference run by the correspondence harness is the abstraction of the model,
   call by call, for every history of decorated definitions inside the guard *)
Theorem attempts_refine : forall l r, wf r -> forallb attempt_ok l = true ->
    map view (run_attempts r l) = spec_run_attempts (abs r) l.
Proof.
  induction l as [|a t IH]; intros r W H; cbn [run_attempts spec_run_attempts map]; [reflexivity|].
  cbn [forallb] in H. apply andb_true_iff in H. destruct H as [Ha Ht].
  rewrite map_app, (attempt_refines r a W Ha), <- (attempt_refines r a W Ha), last_map_view.
  rewrite (IH _ (chain_last_wf _ _ W (attempt_trace_chain r a)) Ht). reflexivity.
Qed.

(* the code refuses exactly the calls the reference says must be refused (inside the guard) *)
Theorem refused_iff_must_refuse : forall r x, wf r -> op_ok x = true ->
    is_error (step_res r x) = must_refuse (abs r) x.
Proof.
  intros r x W H. rewrite (proj2 (step_refines r x W H)). unfold spec_step.
  destruct (must_refuse (abs r) x); [reflexivity|].
  destruct x as [n o f|n f|f]; try reflexivity. destruct (f_reg f) as [[t n]|]; [|reflexivity].
  destruct (sfind n (table t (abs r))) as [g|]; [|reflexivity]. destruct (g_inject g); reflexivity.
Qed.

(* ------------------------------------------------------------------ the unrepaired order of writes *)
(* feature() as it was before repair 1: the registry is written, THEN the options are checked *)
Definition feature_unrepaired (r : registry) (n : name) (o : optarg) (f : func) : registry * func * result :=
  if name_invalid n then (r, f, Error EValidation)
  else if amem n (features r) then (r, f, Error EDuplicate)
  else
    let f1 := assign_help_attrs f n RFeature in
    let r1 := mkreg (aset n (wrap_with_server f1) (features r)) (commands r) (feature_options r) in
    match options_check o with
    | Some e => (r1, f1, Error e)
    | None =>
      ((if opt_truthy o then mkreg (features r1) (commands r1) (aset n (opt_id o) (feature_options r1)) else r1),
       f1, Ok)
    end.

Definition hover : name := Some [104; 111; 118; 101; 114].
Definition plain_fn (i : N) : func := mkfunc i false (First false ANone) false None.

Theorem unrepaired_not_atomic :
  exists r n o f r' f' e, feature_unrepaired r n o f = (r', f', Error e) /\ r' <> r /\
                          get_handler [] r' n <> get_handler [] r n.
Proof.
  exists empty_registry, hover, (OObj 1 true false CkRaises), (plain_fn 1).
  eexists. eexists. eexists. split; [vm_compute; reflexivity|]. split; vm_compute; discriminate.
Qed.

(* ------------------------------------------------------------------ registration shapes (C14) *)
Definition accepted (tr : list (registry * result)) : bool :=
  forallb (fun p => negb (is_error (snd p))) tr.

Lemma wrap_async : forall f, e_async (wrap_with_server f) = f_async f.
Proof.
  intro f. unfold wrap_with_server. destruct (negb (has_ls_param_or_annotation (f_params f))); [reflexivity|].
  destruct (f_async f) eqn:E; cbn [e_async]; congruence.
Qed.

Lemma wrap_inject : forall f, e_inject (wrap_with_server f) = asks_server (f_params f).
Proof.
  intro f. unfold wrap_with_server. rewrite has_ls_asks. destruct (asks_server (f_params f)); cbn [negb]; [|reflexivity].
  destruct (f_async f); reflexivity.
Qed.

Lemma wrap_fid : forall f, e_fid (wrap_with_server f) = f_id f.
Proof.
  intro f. unfold wrap_with_server. destruct (negb (has_ls_param_or_annotation (f_params f))); [reflexivity|].
  destruct (f_async f); reflexivity.
Qed.

Lemma wrap_thread_sync : forall f, f_async f = false -> e_thread (wrap_with_server f) = f_thread f.
Proof.
  intros f H. unfold wrap_with_server. rewrite H. destruct (negb (has_ls_param_or_annotation (f_params f))); reflexivity.
Qed.

Lemma wrap_thread_unmarked : forall f, f_thread f = false -> e_thread (wrap_with_server f) = false.
Proof.
  intros f H. unfold wrap_with_server. rewrite H. destruct (negb (has_ls_param_or_annotation (f_params f))); [reflexivity|].
  destruct (f_async f); reflexivity.
Qed.

Lemma register_ok_entry : forall r a f r' f',
    step r (register_op a f) = (r', f', Ok) ->
    let f1 := assign_help_attrs f (a_name a) (a_kind a) in
    f' = f1 /\ aget (a_name a) (reg_table (a_kind a) r') = Some (wrap_with_server f1).
Proof.
  intros r a f r' f' H. unfold register_op in H. destruct (a_kind a) eqn:K; cbn [reg_table].
  - pose proof (accept_feature_frame _ _ _ _ _ _ H) as (_ & Hn & _). cbn [step] in H.
    apply feature_ok_exact in H. split; [tauto|exact Hn].
  - pose proof (accept_command_frame _ _ _ _ _ H) as (_ & Hn & _). cbn [step] in H.
    apply command_ok_exact in H. split; [tauto|exact Hn].
Qed.

(* For EVERY registry, name, options and function: when a decorated definition of a fresh
   function is accepted, the registered callable calls that function, runs on the pool iff a
   thread decorator was used (above or below), as a loop task iff it is a coroutine function, and
   gets the server iff its first parameter asks for it. *)
Theorem shape_general : forall r a,
    fresh (a_fn a) = true -> accepted (attempt_trace r a) = true ->
    exists e, aget (a_name a) (reg_table (a_kind a) (last_reg r (attempt_trace r a))) = Some e /\
              e_fid e = f_id (a_fn a) /\
              e_inject e = asks_server (f_params (a_fn a)) /\
              (exec_site e = Pool <-> a_thr a <> TNone) /\
              (exec_site e = LoopTask <-> f_async (a_fn a) = true).
Proof.
  intros r a Hfr Hacc. destruct (fresh_func_ok _ Hfr) as (_ & Hth & Hrg).
  unfold attempt_trace in *. destruct (a_thr a) eqn:T.
  - destruct (register r a (a_fn a)) as [[r1 f1] res1] eqn:E. rewrite register_step in E.
    cbn [accepted forallb snd] in Hacc. destruct res1; [|discriminate].
    destruct (register_ok_entry _ _ _ _ _ E) as [_ He]. unfold last_reg. cbn [last fst].
    eexists. split; [exact He|]. rewrite wrap_fid, wrap_inject. cbn [assign_help_attrs f_id f_params].
    repeat split; try reflexivity; unfold exec_site; rewrite wrap_async, wrap_thread_unmarked by exact Hth;
      cbn [assign_help_attrs f_async]; destruct (f_async (a_fn a)); try discriminate; try congruence; auto.
  - destruct (register r a (a_fn a)) as [[r1 f1] res1] eqn:E. rewrite register_step in E.
    destruct res1 as [|e1]; [|cbn in Hacc; discriminate].
    destruct (register_ok_entry _ _ _ _ _ E) as [Hf1 He]. cbn zeta in Hf1, He.
    destruct (thread r1 f1) as [[r2 f2] res2] eqn:E2.
    cbn [accepted forallb snd is_error negb andb] in Hacc. destruct res2; [|discriminate].
    apply thread_ok_exact in E2. destruct E2 as (Has & HR). subst f1.
    cbn [assign_help_attrs f_reg f_async] in HR, Has.
    destruct HR as (e & He' & -> & _). rewrite He in He'. inversion He'; subst e. clear He'.
    unfold last_reg. cbn [last fst].
    exists (assign_thread_attr_e (wrap_with_server (assign_help_attrs (a_fn a) (a_name a) (a_kind a)))).
    split; [apply aget_mark_registered_self; exact He|].
    cbn [assign_thread_attr_e e_fid e_inject]. rewrite wrap_fid, wrap_inject.
    cbn [assign_help_attrs f_id f_params]. repeat split; try reflexivity; try discriminate;
      unfold exec_site; cbn [assign_thread_attr_e e_async e_thread]; rewrite wrap_async;
      cbn [assign_help_attrs f_async]; rewrite Has; try reflexivity; discriminate.
  - destruct (thread r (a_fn a)) as [[r1 f1] res1] eqn:E.
    destruct res1 as [|e1]; [|cbn in Hacc; discriminate].
    apply thread_ok_exact in E. destruct E as (Has & HR). rewrite Hrg in HR. cbv beta iota in HR.
    destruct HR as [Hr1 Hf1]. subst f1.
    destruct (register r1 a (assign_thread_attr_f (a_fn a))) as [[r2 f2] res2] eqn:E2. rewrite register_step in E2.
    cbn [accepted forallb snd is_error negb andb] in Hacc. destruct res2; [|discriminate].
    destruct (register_ok_entry _ _ _ _ _ E2) as [_ He]. cbn zeta in He.
    unfold last_reg. cbn [last fst]. eexists. split; [exact He|].
    rewrite wrap_fid, wrap_inject. cbn [assign_help_attrs assign_thread_attr_f f_id f_params].
    repeat split; try reflexivity; try discriminate; unfold exec_site; rewrite wrap_async, wrap_thread_sync;
      cbn [assign_help_attrs assign_thread_attr_f f_async f_thread]; rewrite ?Has; try reflexivity; discriminate.
Qed.

Theorem site_iff_thread : forall r a e,
    fresh (a_fn a) = true -> accepted (attempt_trace r a) = true ->
    aget (a_name a) (reg_table (a_kind a) (last_reg r (attempt_trace r a))) = Some e ->
    (exec_site e = Pool <-> a_thr a <> TNone) /\ (exec_site e = LoopTask <-> f_async (a_fn a) = true).
Proof.
  intros r a e Hf Ha He. destruct (shape_general r a Hf Ha) as (e' & He' & _ & _ & H1 & H2).
  rewrite He in He'. inversion He'; subst. split; assumption.
Qed.

Theorem inject_iff_asked : forall r a e,
    fresh (a_fn a) = true -> accepted (attempt_trace r a) = true ->
    aget (a_name a) (reg_table (a_kind a) (last_reg r (attempt_trace r a))) = Some e ->
    e_inject e = asks_server (f_params (a_fn a)) /\ e_fid e = f_id (a_fn a).
Proof.
  intros r a e Hf Ha He. destruct (shape_general r a Hf Ha) as (e' & He' & H0 & H1 & _).
  rewrite He in He'. inversion He'; subst. split; assumption.
Qed.

(* a decorated definition is refused only for the name, the options or thread-on-a-coroutine;
   with a valid fresh name and no options: exactly when thread meets a coroutine function *)

(* --- the whole finite product of shapes, evaluated (DESIGN C14: kind x {sync, async} x
   {none, above, below} x first-parameter shapes), on the empty registry *)
Definition all_params : list fparams :=
  [NoFirst; First false ANone; First false AServer; First false AOther;
   First true ANone; First true AServer; First true AOther].

Definition shape_attempts : list attempt :=
  flat_map (fun k => flat_map (fun asy => flat_map (fun t => map (fun p =>
    mkattempt k hover ONone (mkfunc 7 asy p false None) t) all_params)
    [TNone; TAbove; TBelow]) [false; true]) [RFeature; RCommand].

Definition site_eqb (a b : site) : bool :=
  match a, b with LoopInline, LoopInline | LoopTask, LoopTask | Pool, Pool => true | _, _ => false end.

Definition expected_site (a : attempt) : site :=
  if f_async (a_fn a) then LoopTask else match a_thr a with TNone => LoopInline | _ => Pool end.

(* thread + coroutine is the only shape refused; every other shape registers an entry with the
   expected site / injection *)
Definition shape_entry (a : attempt) : option entry :=
  let tr := attempt_trace empty_registry a in
  if accepted tr then aget (a_name a) (reg_table (a_kind a) (last_reg empty_registry tr)) else None.

Definition shape_site_ok (a : attempt) : bool :=
  match shape_entry a with
  | Some e => site_eqb (exec_site e) (expected_site a)
  | None => f_async (a_fn a) && match a_thr a with TNone => false | _ => true end
  end.

Definition shape_inject_ok (a : attempt) : bool :=
  match shape_entry a with
  | Some e => eqb (e_inject e) (asks_server (f_params (a_fn a))) && (e_fid e =? f_id (a_fn a))
  | None => f_async (a_fn a) && match a_thr a with TNone => false | _ => true end
  end.

Theorem site_iff_thread_product :
  length shape_attempts = 84%nat /\ forallb shape_site_ok shape_attempts = true.
Proof. vm_compute. split; reflexivity. Qed.

Theorem inject_iff_asked_product : forallb shape_inject_ok shape_attempts = true.
Proof. vm_compute. reflexivity. Qed.

(* ================================================================== the two-phase API *)
(* creating a decorator and defining a function never touch the registry and are never refused;
   an application is exactly one `step` *)
Lemma wstep_cases : forall w x w' res, wstep w x = (w', res) ->
    (w_reg w' = w_reg w /\ (res = Ok \/ (res = Error EKey /\ w' = w)) /\
     match x with WApply _ _ => res = Error EKey | _ => res = Ok end) \/
    (exists i j d f f', x = WApply i j /\ nth_error (w_decs w) i = Some d /\ nth_error (w_fns w) j = Some f /\
                        step (w_reg w) (op_of d f) = (w_reg w', f', res) /\
                        w_decs w' = w_decs w /\ w_fns w' = set_nth j f' (w_fns w)).
Proof.
  intros w x w' res H. destruct x as [f|d|i j]; cbn [wstep make_decorator] in H.
  - inversion H; subst. left. cbn [w_reg]. auto.
  - inversion H; subst. left. cbn [w_reg]. auto.
  - destruct (nth_error (w_decs w) i) as [d|] eqn:Ed.
    + destruct (nth_error (w_fns w) j) as [f|] eqn:Ef.
      * destruct (step (w_reg w) (op_of d f)) as [[r f'] res'] eqn:S. inversion H; subst.
        right. exists i, j, d, f, f'. cbn [w_reg w_decs w_fns]. auto 10.
      * inversion H; subst. left. auto.
    + inversion H; subst. left. auto.
Qed.

Theorem creation_changes_nothing : forall w d,
    w_reg (fst (wstep w (WMake d))) = w_reg w /\ snd (wstep w (WMake d)) = Ok.
Proof. intros w d. cbn. auto. Qed.

Theorem world_reject_is_identity : forall w x w' e,
    wstep w x = (w', Error e) -> w_reg w' = w_reg w /\ w_fns w' = w_fns w /\ w_decs w' = w_decs w.
Proof.
  intros w x w' e H. destruct (wstep_cases _ _ _ _ H) as [(Hr & [Hk|[_ ->]] & _)|(i & j & d & f & f' & -> & Hd & Hf & S & Hds & Hfs)];
    try discriminate; auto.
  pose proof (reject_is_identity _ _ _ _ _ S) as R. pose proof (reject_keeps_function _ _ _ _ _ S) as F.
  split; [exact R|]. split; [|exact Hds]. rewrite Hfs, F.
  assert (op_fn (op_of d f) = f) by (destruct d; reflexivity). rewrite H0.
  clear -Hf. revert j Hf. induction (w_fns w) as [|a t IH]; intros [|j] Hf; cbn in *; try discriminate.
  - inversion Hf; reflexivity.
  - f_equal. apply IH. exact Hf.
Qed.

Lemma wstep_wf : forall w x w' res, wf (w_reg w) -> wstep w x = (w', res) -> wf (w_reg w').
Proof.
  intros w x w' res W H. destruct (wstep_cases _ _ _ _ H) as [(Hr & _)|(i & j & d & f & f' & _ & _ & _ & S & _)].
  - rewrite Hr. exact W.
  - pose proof (wf_step (w_reg w) (op_of d f) W) as W'. unfold step_reg in W'. rewrite S in W'. exact W'.
Qed.

Lemma wrun_wf : forall xs w, wf (w_reg w) -> Forall (fun p => wf (w_reg (fst p))) (wrun w xs).
Proof.
  induction xs as [|x t IH]; intros w W; cbn [wrun]; [constructor|].
  destruct (wstep w x) as [w' res] eqn:S. pose proof (wstep_wf _ _ _ _ W S) as W'.
  constructor; [exact W'|apply IH, W'].
Qed.

(* every interleaving of definitions, creations and applications: each name keeps at most one
   handler *)
Theorem world_at_most_one_handler : forall xs,
    Forall (fun p => let r := w_reg (fst p) in
                     NoDup (akeys (features r)) /\ NoDup (akeys (commands r)) /\
                     forall n e1 e2,
                       (In (n, e1) (features r) -> In (n, e2) (features r) -> e1 = e2) /\
                       (In (n, e1) (commands r) -> In (n, e2) (commands r) -> e1 = e2))
           (wrun empty_world xs).
Proof.
  intro xs. pose proof (wrun_wf xs empty_world wf_empty) as H.
  induction H as [|p t Hp Ht IH]; constructor; [|exact IH].
  destruct Hp as (W1 & W2 & _). cbn zeta. split; [exact W1|]. split; [exact W2|].
  intros n e1 e2. split; intros H1 H2.
  - apply (in_nodup_aget _ _ _ W1) in H1. apply (in_nodup_aget _ _ _ W1) in H2. congruence.
  - apply (in_nodup_aget _ _ _ W2) in H1. apply (in_nodup_aget _ _ _ W2) in H2. congruence.
Qed.

Fixpoint wtriples (w : world) (tr : list (world * result)) : list (world * world * result) :=
  match tr with
  | [] => []
  | (w', res) :: t => (w, w', res) :: wtriples w' t
  end.

(* every interleaving: a refused call (necessarily an application) leaves the registry - hence
   every function of it - and the function objects as they were; a creation changes nothing *)
Theorem world_history_atomic : forall (A : Type) (obs : registry -> A) xs w,
    Forall (fun t => let '(before, after, res) := t in
                     is_error res = true ->
                     w_reg after = w_reg before /\ w_fns after = w_fns before /\
                     obs (w_reg after) = obs (w_reg before))
           (wtriples w (wrun w xs)).
Proof.
  intros A obs xs. induction xs as [|x t IH]; intro w; cbn [wrun wtriples]; [constructor|].
  destruct (wstep w x) as [w' res] eqn:S. cbn [wtriples]. constructor; [|apply IH].
  intro He. destruct res as [|e]; [discriminate|].
  destruct (world_reject_is_identity _ _ _ _ S) as (H1 & H2 & _). rewrite H1. auto.
Qed.

Theorem world_creation_silent : forall xs w,
    Forall (fun p => let '(before, after, res, x) := p in
                     match x with
                     | WApply _ _ => True
                     | _ => res = Ok /\ w_reg after = w_reg before
                     end)
           (combine (wtriples w (wrun w xs)) xs).
Proof.
  induction xs as [|x t IH]; intro w; cbn [wrun wtriples combine]; [constructor|].
  destruct (wstep w x) as [w' res] eqn:S. cbn [wtriples combine]. constructor; [|apply IH].
  destruct x as [f|d|i j]; [| |exact I]; cbn in S; inversion S; subst; cbn; auto.
Qed.

Lemma mstep_frame : forall ws k x k', k' <> k ->
    nth_error (fst (mstep ws k x)) k' = nth_error ws k'.
Proof.
  intros ws k x k' Hne. unfold mstep. destruct (nth_error ws k) as [w|] eqn:E; [|reflexivity].
  destruct (wstep w x) as [w' res]. cbn [fst].
  clear E. revert k k' Hne. induction ws as [|a t IH]; intros [|k] [|k'] Hne; cbn; try reflexivity.
  - contradiction.
  - apply IH. congruence.
Qed.

(* ------------------------------------------------------------------ refinement, two-phase *)
Lemma step_fn_spec : forall r x r' f' res, step r x = (r', f', res) ->
    f' = if is_error res then op_fn x else spec_fn_w (abs r) x.
Proof.
  intros r x r' f' res S. destruct res as [|e]; cbn [is_error]; [|eapply reject_keeps_function; exact S].
  destruct x as [n o f|n f|f]; cbn [step spec_fn_w spec_fn] in *.
  - apply feature_ok_exact in S. tauto.
  - apply command_ok_exact in S. tauto.
  - apply thread_ok_exact in S. destruct S as (_ & HR).
    destruct (f_reg f) as [[t n]|].
    + destruct HR as (e & He & _ & ->). destruct (sfind_table r t n e He) as (g & Hg & G1 & G2).
      rewrite Hg, G1, G2. reflexivity.
    + destruct HR as [_ ->]. reflexivity.
Qed.

Lemma step_func_ok : forall r x r' f' res,
    func_ok (op_fn x) = true -> step r x = (r', f', res) -> func_ok f' = true.
Proof.
  intros r x r' f' res H S. destruct res as [|e].
  - destruct x as [n o f|n f|f]; cbn [step op_fn] in *.
    + apply feature_ok_exact in S. destruct S as (_ & _ & _ & -> & _). exact H.
    + apply command_ok_exact in S. destruct S as (_ & _ & -> & _). exact H.
    + apply thread_ok_exact in S. destruct S as (A & HR).
      assert (Hm : func_ok (assign_thread_attr_f f) = true).
      { unfold func_ok. cbn [assign_thread_attr_f f_async f_thread]. rewrite A. reflexivity. }
      destruct (f_reg f) as [[t n]|].
      * destruct HR as (e & _ & _ & ->). destruct (is_function (f_id f) e); assumption.
      * destruct HR as [_ ->]. exact Hm.
  - rewrite (reject_keeps_function _ _ _ _ _ S). exact H.
Qed.

Definition world_ok (w : world) : Prop :=
  wf (w_reg w) /\ Forall (fun f => func_ok f = true) (w_fns w) /\ Forall (fun d => dec_ok d = true) (w_decs w).

Lemma Forall_set_nth : forall {A} (P : A -> Prop) j x l, Forall P l -> P x -> Forall P (set_nth j x l).
Proof.
  intros A P j x l H Hx. revert j. induction H as [|a t Ha Ht IH]; intros [|j]; cbn [set_nth]; constructor; auto.
Qed.

Lemma Forall_snoc : forall {A} (P : A -> Prop) x l, Forall P l -> P x -> Forall P (l ++ [x]).
Proof. intros A P x l H Hx. apply Forall_app. split; [exact H|constructor; [exact Hx|constructor]]. Qed.

Lemma nth_error_Forall : forall {A} (P : A -> Prop) l i x, Forall P l -> nth_error l i = Some x -> P x.
Proof. intros A P l i x H E. rewrite Forall_forall in H. apply H. eapply nth_error_In. exact E. Qed.

Lemma op_of_ok : forall d f, dec_ok d = true -> func_ok f = true -> op_ok (op_of d f) = true.
Proof. intros [n o| n|] f Hd Hf; cbn [op_of op_ok dec_ok] in *; rewrite ?Hd, ?Hf; reflexivity. Qed.

Lemma op_fn_op_of : forall d f, op_fn (op_of d f) = f.
Proof. intros [| |] f; reflexivity. Qed.

Theorem wstep_refines : forall w x w' res,
    world_ok w -> wop_ok x = true -> wstep w x = (w', res) ->
    world_ok w' /\ spec_wstep (abs_world w) x = (abs_world w', is_error res).
Proof.
  intros w x w' res (W & Hf & Hd) Hx S. destruct x as [f|d|i j]; cbn [wstep make_decorator] in S.
  - inversion S; subst. split; [|reflexivity]. unfold world_ok. cbn [w_reg w_fns w_decs].
    split; [exact W|]. split; [apply Forall_snoc; assumption|exact Hd].
  - inversion S; subst. split; [|reflexivity]. unfold world_ok. cbn [w_reg w_fns w_decs].
    split; [exact W|]. split; [exact Hf|apply Forall_snoc; assumption].
  - cbn [spec_wstep abs_world sw_decs sw_fns sw_state].
    destruct (nth_error (w_decs w) i) as [d|] eqn:Ed; [|inversion S; subst; split; [split; auto|reflexivity]].
    destruct (nth_error (w_fns w) j) as [f|] eqn:Ef; [|inversion S; subst; split; [split; auto|reflexivity]].
    destruct (step (w_reg w) (op_of d f)) as [[r f'] res'] eqn:St. inversion S; subst. clear S.
    pose proof (nth_error_Forall _ _ _ _ Hd Ed) as Hdo. pose proof (nth_error_Forall _ _ _ _ Hf Ef) as Hfo.
    pose proof (op_of_ok d f Hdo Hfo) as Hop.
    destruct (step_refines (w_reg w) (op_of d f) W Hop) as [R1 R2].
    unfold step_reg, step_res in R1, R2. rewrite St in R1, R2. cbn [fst snd] in R1, R2.
    pose proof (step_fn_spec _ _ _ _ _ St) as Hf'.
    assert (Hfok : func_ok f' = true).
    { eapply step_func_ok; [|exact St]. rewrite op_fn_op_of. exact Hfo. }
    split.
    + unfold world_ok. cbn [w_reg w_fns w_decs]. split.
      * pose proof (wf_step (w_reg w) (op_of d f) W) as W'. unfold step_reg in W'. rewrite St in W'. exact W'.
      * split; [apply Forall_set_nth; assumption|exact Hd].
    + destruct (spec_step (abs (w_reg w)) (op_of d f)) as [s' b] eqn:Sp. cbn [fst snd] in R1, R2. subst s' b.
      unfold abs_world. cbn [w_reg w_decs w_fns]. f_equal. f_equal.
      rewrite Hf'. destruct (is_error res); [|reflexivity].
      rewrite op_fn_op_of. clear -Ef. revert j Ef. induction (w_fns w) as [|a t IH]; intros [|j] Ef; cbn in *; try discriminate.
      * inversion Ef; reflexivity.
      * f_equal. apply IH. exact Ef.
Qed.

Definition wview (p : world * result) : sworld * bool := (abs_world (fst p), is_error (snd p)).

(* the executable reference for interleavings is the abstraction of the model, call by call *)
Theorem wrun_refines : forall xs w, world_ok w -> forallb wop_ok xs = true ->
    map wview (wrun w xs) = spec_wrun (abs_world w) xs.
Proof.
  induction xs as [|x t IH]; intros w W H; cbn [wrun spec_wrun map]; [reflexivity|].
  cbn [forallb] in H. apply andb_true_iff in H. destruct H as [Hx Ht].
  destruct (wstep w x) as [w' res] eqn:S.
  destruct (wstep_refines _ _ _ _ W Hx S) as [W' R]. rewrite R. cbn [map]. unfold wview at 1. cbn [fst snd].
  f_equal. apply IH; assumption.
Qed.

Lemma world_ok_empty : world_ok empty_world.
Proof. unfold world_ok, empty_world. cbn. split; [exact wf_empty|split; constructor]. Qed.

(* ================================================================== function objects offered again *)
(* a taken name is refused whatever function object (registered or not, the very one already
   stored or another) and whatever options are offered; the call is the identity *)
Theorem taken_feature_refused : forall r n o f,
    name_invalid n = false -> amem n (features r) = true ->
    step r (OpFeature n o f) = (r, f, Error EDuplicate).
Proof. intros r n o f Hv Ht. cbn [step]. unfold feature. rewrite Hv, Ht. reflexivity. Qed.

Theorem taken_command_refused : forall r n f,
    name_invalid n = false -> amem n (commands r) = true ->
    step r (OpCommand n f) = (r, f, Error EDuplicate).
Proof. intros r n f Hv Ht. cbn [step]. unfold command. rewrite Hv, Ht. reflexivity. Qed.

(* thread(): entries of OTHER function objects are untouched.  (Hypothesis: the callable stored
   under the function's reg_name belongs to that function - true in every reachable state.) *)
Theorem accept_thread_frame_other : forall r f r' f',
    step r (OpThread f) = (r', f', Ok) ->
    (forall t n e0, f_reg f = Some (t, n) -> aget n (reg_table t r) = Some e0 -> e_fid e0 = f_id f) ->
    forall t m e, aget m (reg_table t r) = Some e -> e_fid e <> f_id f ->
                  aget m (reg_table t r') = Some e.
Proof.
  intros r f r' f' H Hown t m e Hm Hne. cbn [step] in H. apply thread_ok_exact in H. destruct H as (_ & HR).
  assert (Hnf : forall i, i = f_id f -> is_function i e = false).
  { intros i ->. unfold is_function. destruct (e_fid e =? f_id f) eqn:E; [apply N.eqb_eq in E; contradiction|].
    apply andb_false_r. }
  destruct (f_reg f) as [[t0 n]|] eqn:R.
  - destruct HR as (e0 & He0 & -> & _). pose proof (Hown _ _ _ eq_refl He0) as Hid.
    unfold mark_registered. destruct (e_inject e0).
    + destruct t0, t; cbn [reg_table features commands] in *; try exact Hm;
        (rewrite aget_aset_neq; [exact Hm|]); intro; subst m; rewrite He0 in Hm; inversion Hm; subst; contradiction.
    + rewrite reg_table_mark_function, aget_mark_aliases, Hm. cbn [option_map]. rewrite (Hnf _ Hid). reflexivity.
  - destruct HR as [-> _]. rewrite reg_table_mark_function, aget_mark_aliases, Hm. cbn [option_map].
    rewrite (Hnf _ eq_refl). reflexivity.
Qed.

(* ... and a wrapper object (server injected) that is not the one registered under reg_name keeps
   its marker even when it wraps the same function: thread() above two stacked registrations of a
   server-taking function reaches the LAST registration only *)
Theorem accept_thread_frame_wrapper : forall r f r' f' t m e,
    step r (OpThread f) = (r', f', Ok) ->
    aget m (reg_table t r) = Some e -> e_inject e = true -> f_reg f <> Some (t, m) ->
    aget m (reg_table t r') = Some e.
Proof.
  intros r f r' f' t m e H Hm Hi Hne. cbn [step] in H. apply thread_ok_exact in H. destruct H as (_ & HR).
  assert (Hnf : forall i, is_function i e = false) by (intro i; unfold is_function; rewrite Hi; reflexivity).
  destruct (f_reg f) as [[t0 n]|] eqn:R.
  - destruct HR as (e0 & He0 & -> & _). unfold mark_registered. destruct (e_inject e0).
    + destruct t0, t; cbn [reg_table features commands] in *; try exact Hm;
        (rewrite aget_aset_neq; [exact Hm|]); intro; subst m; apply Hne; reflexivity.
    + rewrite reg_table_mark_function, aget_mark_aliases, Hm. cbn [option_map]. rewrite Hnf. reflexivity.
  - destruct HR as [-> _]. rewrite reg_table_mark_function, aget_mark_aliases, Hm. cbn [option_map].
    rewrite Hnf. reflexivity.
Qed.

(* one function object under two names is one object: marking it marks both registrations *)
Theorem mark_function_marks_every_alias : forall i r t m e,
    aget m (reg_table t r) = Some e -> is_function i e = true ->
    aget m (reg_table t (mark_function i r)) = Some (assign_thread_attr_e e).
Proof.
  intros i r t m e H F. rewrite reg_table_mark_function, aget_mark_aliases, H. cbn [option_map]. rewrite F. reflexivity.
Qed.
