(* Proofs/C06Sim2.v - the simulation of C06 (ii), function by function: writing, the hook,
   replies, callbacks, cancellation. *)
From Coq Require Import ZArith NArith List Bool Arith Lia.
From Pygls Require Import Base.Assoc Model.Endpoint Spec.EndpointSpec Spec.ContainSpec
  Proofs.EndpointInv Proofs.C06Lists Proofs.C06Sim.
Import ListNotations.

Section Sim2.
Variable B : who -> bool.
Variable c : cfg.
Hypothesis CFG : cfg_ok c = true.

Notation R := (C06Sim.R B).
Notation gid := (good_id B).
Notation gt := (good_t B).
Notation gj := (good_j B).

Lemma wfail_none : c_wfail c = None.
Proof. unfold cfg_ok in CFG. destruct (c_wfail c); [discriminate|reflexivity]. Qed.
Lemma failing_false : forall n, failing c n = false.
Proof. intro n. unfold failing. rewrite wfail_none. reflexivity. Qed.
Lemma default_blocking : c_hook c = HookDefault -> c_writer c = WBlocking.
Proof. intro H. unfold cfg_ok in CFG. rewrite wfail_none, H in CFG. destruct (c_writer c); [reflexivity|discriminate]. Qed.

Lemma own_vis : forall f, own B f = true -> vis B f = false.
Proof. intros f H. unfold vis. rewrite H. reflexivity. Qed.
Lemma vis_own : forall f, vis B f = true -> own B f = false.
Proof. intros f H. unfold vis in H. destruct (own B f); [discriminate|reflexivity]. Qed.

(* ---------------------------------------------------------------- writing *)
Lemma do_write_l : forall f s s', vis B f = false -> R s s' -> R (fst (do_write c f s)) s'.
Proof.
  intros f s s' V H. unfold do_write. destruct (closed s); [exact H|]. rewrite failing_false. cbn [fst].
  apply R_add_out_l; [exact V|]. apply R_nwrites_l. exact H.
Qed.
Lemma do_write_r : forall f s s', no_show f = false -> R s s' -> R s (fst (do_write c f s')).
Proof.
  intros f s s' V H. unfold do_write. destruct (closed s'); [exact H|]. rewrite failing_false. cbn [fst].
  apply R_add_out_r; [exact V|]. apply R_nwrites_r. exact H.
Qed.
Lemma do_write_b : forall f s s', vis B f = true -> R s s' ->
  R (fst (do_write c f s)) (fst (do_write c f s')) /\ snd (do_write c f s) = snd (do_write c f s').
Proof.
  intros f s s' V H. unfold do_write. rewrite (r_closed _ _ _ H). destruct (closed s); [split; [exact H|reflexivity]|].
  rewrite !failing_false. cbn [fst snd]. split; [|reflexivity].
  apply R_add_out_b; [exact V|]. apply R_nwrites_l, R_nwrites_r. exact H.
Qed.

Lemma write_call_l : forall sv f s s', own B f = true -> R s s' -> R (fst (write_call c sv f s)) s'.
Proof.
  intros sv f s s' O H. unfold write_call. destruct (c_writer c).
  - apply do_write_l; [apply own_vis; exact O|exact H].
  - destruct sv; cbn [fst]; [|exact H]. apply R_add_wq_l; [|exact H]. cbn [good_w]. rewrite O. reflexivity.
Qed.
Lemma write_call_b : forall sv f s s', vis B f = true -> R s s' ->
  R (fst (write_call c sv f s)) (fst (write_call c sv f s')) /\ snd (write_call c sv f s) = snd (write_call c sv f s').
Proof.
  intros sv f s s' V H. unfold write_call. destruct (c_writer c).
  - apply do_write_b; assumption.
  - destruct sv; cbn [fst snd]; split; try reflexivity; [|exact H].
    apply R_add_wq_b; [|exact H]. cbn [good_w]. rewrite (vis_own _ V). reflexivity.
Qed.

(* ---------------------------------------------------------------- the hook: never seen by R *)
Lemma hook_l : forall sv src s s', R s s' -> R (hook c sv src s) s'.
Proof.
  intros sv src s s' H. unfold hook. pose proof (R_add_err_l B src _ _ H) as H1.
  destruct (c_hook c) eqn:K; try exact H1.
  destruct src; try exact H1; unfold write_call; rewrite (default_blocking K);
    pose proof (do_write_l (ONotif NShowMessage) _ _ eq_refl H1) as H2;
    destruct (do_write c (ONotif NShowMessage) (add_err _ s)) as [s2 ok]; cbn [fst] in H2;
    destruct ok; [exact H2|apply R_storm_l; exact H2|exact H2|apply R_storm_l; exact H2|exact H2|apply R_storm_l; exact H2].
Qed.
Lemma hook_r : forall sv src s s', R s s' -> R s (hook c sv src s').
Proof.
  intros sv src s s' H. unfold hook. pose proof (R_add_err_r B src _ _ H) as H1.
  destruct (c_hook c) eqn:K; try exact H1.
  destruct src; try exact H1; unfold write_call; rewrite (default_blocking K);
    pose proof (do_write_r (ONotif NShowMessage) _ _ eq_refl H1) as H2;
    destruct (do_write c (ONotif NShowMessage) (add_err _ s')) as [s2 ok]; cbn [fst] in H2;
    destruct ok; [exact H2|apply R_storm_r; exact H2|exact H2|apply R_storm_r; exact H2|exact H2|apply R_storm_r; exact H2].
Qed.
Lemma hook_b : forall sv src s s', R s s' -> R (hook c sv src s) (hook c sv src s').
Proof. intros. apply hook_l, hook_r. assumption. Qed.

(* ---------------------------------------------------------------- _send_data / _send_response *)
Lemma send_data_eta : forall sv f ok s, send_data c sv f ok s = (fst (send_data c sv f ok s), ok).
Proof.
  intros sv f ok s. unfold send_data. destruct ok; cbn [negb]; [|reflexivity].
  destruct (write_call c sv f s) as [s1 b]. reflexivity.
Qed.

Lemma send_data_l : forall sv f ok s s', own B f = true -> R s s' -> R (fst (send_data c sv f ok s)) s'.
Proof.
  intros sv f ok s s' O H. unfold send_data. destruct ok; cbn [negb fst]; [|apply hook_l; exact H].
  pose proof (write_call_l sv f _ _ O H) as H1. destruct (write_call c sv f s) as [s1 b]. cbn [fst] in *.
  destruct b; [exact H1|apply hook_l; exact H1].
Qed.
Lemma send_data_b : forall sv f ok s s', vis B f = true -> R s s' ->
  R (fst (send_data c sv f ok s)) (fst (send_data c sv f ok s')).
Proof.
  intros sv f ok s s' V H. unfold send_data. destruct ok; cbn [negb fst]; [|apply hook_b; exact H].
  destruct (write_call_b sv f _ _ V H) as [H1 H2].
  destruct (write_call c sv f s) as [s1 b]. destruct (write_call c sv f s') as [s1' b']. cbn [fst snd] in *. subst b'.
  destruct b; [exact H1|apply hook_b; exact H1].
Qed.

Lemma own_resp : forall i p, gid i = false -> own B (OResp i p) = true.
Proof. intros i p G. cbn [own]. apply gid_false. exact G. Qed.
Lemma vis_resp : forall i p, gid i = true -> vis B (OResp i p) = true.
Proof. intros i p G. unfold vis. cbn [own no_show]. apply gid_true in G. rewrite G. reflexivity. Qed.

Lemma send_response_l : forall sv i r s s', gid i = false -> R s s' -> R (send_response c sv i r s) s'.
Proof.
  intros sv i r s s' G H. unfold send_response. destruct r as [code|v ok].
  - apply send_data_l; [apply own_resp; exact G|exact H].
  - pose proof (R_rtype_pop_l B i _ _ G H) as H0.
    rewrite (send_data_eta sv _ ok (rtype_pop i s)).
    pose proof (send_data_l sv (OResp i (PResult v)) ok _ _ (own_resp i _ G) H0) as H1.
    destruct ok; [exact H1|]. apply send_data_l; [apply own_resp; exact G|exact H1].
Qed.
Lemma send_response_b : forall sv i r s s', gid i = true -> R s s' ->
  R (send_response c sv i r s) (send_response c sv i r s').
Proof.
  intros sv i r s s' G H. unfold send_response. destruct r as [code|v ok].
  - apply send_data_b; [apply vis_resp; exact G|exact H].
  - pose proof (R_rtype_pop_b B i _ _ H) as H0.
    rewrite (send_data_eta sv _ ok (rtype_pop i s)), (send_data_eta sv _ ok (rtype_pop i s')).
    pose proof (send_data_b sv (OResp i (PResult v)) ok _ _ (vis_resp i _ G) H0) as H1.
    destruct ok; [exact H1|]. apply send_data_b; [apply vis_resp; exact G|exact H1].
Qed.

(* ---------------------------------------------------------------- callbacks *)
Lemma request_callback_l : forall sv i r s s', gid i = false -> R s s' -> R (request_callback c sv i r s) s'.
Proof.
  intros sv i r s s' G H. unfold request_callback. apply R_fut_pop_l; [exact G|].
  destruct r; try apply hook_l; apply send_response_l; assumption.
Qed.
Lemma request_callback_b : forall sv i r s s', gid i = true -> R s s' ->
  R (request_callback c sv i r s) (request_callback c sv i r s').
Proof.
  intros sv i r s s' G H. unfold request_callback. apply R_fut_pop_b; [exact G|].
  destruct r; try apply hook_b; apply send_response_b; assumption.
Qed.
Lemma notification_callback_l : forall sv r s s', R s s' -> R (notification_callback c sv r s) s'.
Proof. intros sv r s s' H. unfold notification_callback. destruct r; try exact H; apply hook_l; exact H. Qed.
Lemma notification_callback_b : forall sv r s s', R s s' ->
  R (notification_callback c sv r s) (notification_callback c sv r s').
Proof. intros sv r s s' H. unfold notification_callback. destruct r; try exact H; apply hook_b; exact H. Qed.

Definition cb_side (g : bool) (cb : cbkind) : Prop := match cb with CReq i => gid i = g | CNot => True end.

Lemma run_cb_l : forall sv cb r s s', cb_side false cb -> R s s' -> R (run_cb c sv cb r s) s'.
Proof.
  intros sv cb r s s' K H. unfold run_cb. destruct cb as [i|].
  - apply request_callback_l; assumption.
  - apply notification_callback_l; assumption.
Qed.
Lemma run_cb_b : forall sv cb r s s', cb_side true cb -> R s s' -> R (run_cb c sv cb r s) (run_cb c sv cb r s').
Proof.
  intros sv cb r s s' K H. unfold run_cb. destruct cb as [i|].
  - apply request_callback_b; assumption.
  - apply notification_callback_b; assumption.
Qed.

Lemma cb_side_of : forall w cb g, cb_ok w cb -> negb (B w) = g -> cb_side g cb.
Proof. intros w cb g K E. destruct cb as [i|]; [|exact I]. cbn in K. rewrite K in E. exact E. Qed.

Lemma task_cb_side : forall s s' t tk, R s s' -> nth_error (tasks s) t = Some tk -> cb_side (gt tk) (t_cb tk).
Proof.
  intros s s' t tk H N. apply (cb_side_of (t_who tk)); [|reflexivity].
  pose proof (r_tcb _ _ _ H) as F. rewrite Forall_forall in F. apply F. eapply nth_error_In. exact N.
Qed.
Lemma job_cb_side : forall s s' j jb, R s s' -> nth_error (jobs s) j = Some jb -> cb_side (gj jb) (j_cb jb).
Proof.
  intros s s' j jb H N. apply (cb_side_of (j_who jb)); [|reflexivity].
  pose proof (r_jcb _ _ _ H) as F. rewrite Forall_forall in F. apply F. eapply nth_error_In. exact N.
Qed.
End Sim2.
