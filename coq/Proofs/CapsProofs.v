(* C12 proofs.  Structure:
   1. a summary (wval / wheap) of what each _with_* does to the capabilities record and to the
      registered option objects, proved against the model function by function (run_with_sem);
   2. build = the fold of the summaries over the chain (build_sem);
   3. the registered objects after build, under "no object is shared" (final_heap_at);
   4. refinement: observe (build c) f = spec_caps c f for every slot (refinement);
   5. corollaries: per-slot iff, commands, sync, encoding, non-interference, workspace hand-over. *)
From Coq Require Import NArith List Bool Lia.
From Pygls Require Import Model.Caps Spec.CapsSpec.
Import ListNotations.
Open Scope N_scope.

(* value a resolve-derived provider ends up with, and the write it performs *)
Definition resolve_forced_val (c : config) (m r : method) : option value :=
  match provider_options c m (Some (VOpts None)) with
  | Some (VOpts _) => Some (VOpts (Some (reg c r)))
  | ov => ov
  end.

Definition mutation (c : config) (m : method) (f : obj -> obj) (h : N -> obj) : N -> obj :=
  match registered_options c m with Some i => upd i f h | None => h end.

Definition cond (b : bool) (f : obj -> obj) : obj -> obj := if b then f else fun o => o.

Definition at_field (f g : field) (ov : option value) : option value := if field_eqb f g then ov else None.

Definition wval (w : wname) (c : config) (h : N -> obj) (f : field) : option value :=
  match w with
  | W_text_document_sync =>
    match f with
    | FSyncOpenClose => Some (VBool (reg c TEXT_DOCUMENT_DID_OPEN || reg c TEXT_DOCUMENT_DID_CLOSE))
    | FSyncChange => Some (match sync_kind c with Some k => VNum k | None => VNone end)
    | FSyncWillSave => Some (py_and (cap_will_save (cl c)) (reg c TEXT_DOCUMENT_WILL_SAVE))
    | FSyncWillSaveWaitUntil =>
        Some (py_and (cap_will_save_wait_until (cl c)) (reg c TEXT_DOCUMENT_WILL_SAVE_WAIT_UNTIL))
    | FSyncSave => Some (if reg c TEXT_DOCUMENT_DID_SAVE
                         then match opt c TEXT_DOCUMENT_DID_SAVE with Some i => VRef i | None => VBool true end
                         else VBool false)
    | _ => None
    end
  | W_notebook_document_sync =>
    at_field f FNotebookSync
      (if notebook_document (cl c) then Some (match nb_sync c with Some p => VNotebook p | None => VNone end) else None)
  | W_completion =>
    at_field f FCompletion
      (match provider_options c TEXT_DOCUMENT_COMPLETION (Some (VOpts None)) with
       | Some (VOpts r) => Some (VOpts (if reg c COMPLETION_ITEM_RESOLVE then Some true else r))
       | ov => ov end)
  | W_hover => at_field f FHover (provider_options c TEXT_DOCUMENT_HOVER (Some (VBool true)))
  | W_signature_help => at_field f FSignatureHelp (provider_options c TEXT_DOCUMENT_SIGNATURE_HELP (Some (VOpts None)))
  | W_declaration => at_field f FDeclaration (provider_options c TEXT_DOCUMENT_DECLARATION (Some (VBool true)))
  | W_definition => at_field f FDefinition (provider_options c TEXT_DOCUMENT_DEFINITION (Some (VBool true)))
  | W_type_definition => at_field f FTypeDefinition (provider_options c TEXT_DOCUMENT_TYPE_DEFINITION (Some (VBool true)))
  | W_inlay_hints => at_field f FInlayHint (resolve_forced_val c TEXT_DOCUMENT_INLAY_HINT INLAY_HINT_RESOLVE)
  | W_implementation => at_field f FImplementation (provider_options c TEXT_DOCUMENT_IMPLEMENTATION (Some (VBool true)))
  | W_references => at_field f FReferences (provider_options c TEXT_DOCUMENT_REFERENCES (Some (VBool true)))
  | W_document_highlight => at_field f FDocumentHighlight (provider_options c TEXT_DOCUMENT_DOCUMENT_HIGHLIGHT (Some (VBool true)))
  | W_document_symbol => at_field f FDocumentSymbol (provider_options c TEXT_DOCUMENT_DOCUMENT_SYMBOL (Some (VBool true)))
  | W_code_action =>
    at_field f FCodeAction
      (match provider_options c TEXT_DOCUMENT_CODE_ACTION (Some (VBool true)) with
       | Some (VBool true) => if reg c CODE_ACTION_RESOLVE then Some (VOpts (Some true)) else Some (VBool true)
       | ov => ov end)
  | W_code_lens => at_field f FCodeLens (resolve_forced_val c TEXT_DOCUMENT_CODE_LENS CODE_LENS_RESOLVE)
  | W_document_link => at_field f FDocumentLink (resolve_forced_val c TEXT_DOCUMENT_DOCUMENT_LINK DOCUMENT_LINK_RESOLVE)
  | W_color => at_field f FColor (provider_options c TEXT_DOCUMENT_DOCUMENT_COLOR (Some (VBool true)))
  | W_document_formatting => at_field f FFormatting (provider_options c TEXT_DOCUMENT_FORMATTING (Some (VBool true)))
  | W_document_range_formatting => at_field f FRangeFormatting (provider_options c TEXT_DOCUMENT_RANGE_FORMATTING (Some (VBool true)))
  | W_document_on_type_formatting => at_field f FOnTypeFormatting (provider_options c TEXT_DOCUMENT_ON_TYPE_FORMATTING None)
  | W_rename =>
    at_field f FRename
      (if reg c TEXT_DOCUMENT_RENAME
       then Some (if cap_prepare_support (cl c) then VRename (reg c TEXT_DOCUMENT_PREPARE_RENAME) else VBool true)
       else None)
  | W_folding_range => at_field f FFoldingRange (provider_options c TEXT_DOCUMENT_FOLDING_RANGE (Some (VBool true)))
  | W_execute_command => at_field f FExecuteCommand (Some (VCommands (commands c)))
  | W_selection_range => at_field f FSelectionRange (provider_options c TEXT_DOCUMENT_SELECTION_RANGE (Some (VBool true)))
  | W_call_hierarchy => at_field f FCallHierarchy (provider_options c TEXT_DOCUMENT_PREPARE_CALL_HIERARCHY (Some (VBool true)))
  | W_type_hierarchy => at_field f FTypeHierarchy (provider_options c TEXT_DOCUMENT_PREPARE_TYPE_HIERARCHY (Some (VBool true)))
  | W_semantic_tokens =>
    at_field f FSemanticTokens
      (match first_options c [TEXT_DOCUMENT_SEMANTIC_TOKENS_FULL; TEXT_DOCUMENT_SEMANTIC_TOKENS_FULL_DELTA;
                              TEXT_DOCUMENT_SEMANTIC_TOKENS_RANGE] with
       | Some (VRef i) =>
         if o_isreg (h i) then Some (VRef i)
         else
           let full := if reg c TEXT_DOCUMENT_SEMANTIC_TOKENS_FULL_DELTA then SFDelta
                       else if reg c TEXT_DOCUMENT_SEMANTIC_TOKENS_FULL then SFTrue else SFNone in
           let rng := reg c TEXT_DOCUMENT_SEMANTIC_TOKENS_RANGE in
           if match full with SFNone => rng | _ => true end then Some (VSemTok i full rng) else None
       | _ => None
       end)
  | W_linked_editing_range => at_field f FLinkedEditingRange (provider_options c TEXT_DOCUMENT_LINKED_EDITING_RANGE (Some (VBool true)))
  | W_moniker => at_field f FMoniker (provider_options c TEXT_DOCUMENT_MONIKER (Some (VBool true)))
  | W_workspace_symbol => at_field f FWorkspaceSymbol (resolve_forced_val c WORKSPACE_SYMBOL WORKSPACE_SYMBOL_RESOLVE)
  | W_workspace_capabilities =>
    let op m o := if truthy (cap_fileop (cl c) o)
                  then Some (match provider_options c m None with Some v => v | None => VNone end) else None in
    match f with
    | FWorkspaceFolders => Some VFolders
    | FWillCreate => op WORKSPACE_WILL_CREATE_FILES OpWillCreate
    | FDidCreate => op WORKSPACE_DID_CREATE_FILES OpDidCreate
    | FWillDelete => op WORKSPACE_WILL_DELETE_FILES OpWillDelete
    | FDidDelete => op WORKSPACE_DID_DELETE_FILES OpDidDelete
    | FWillRename => op WORKSPACE_WILL_RENAME_FILES OpWillRename
    | FDidRename => op WORKSPACE_DID_RENAME_FILES OpDidRename
    | _ => None
    end
  | W_diagnostic_provider =>
    at_field f FDiagnostic
      (match provider_options c TEXT_DOCUMENT_DIAGNOSTIC (Some (VDiag false)) with
       | Some (VDiag _) => Some (VDiag (reg c WORKSPACE_DIAGNOSTIC))
       | ov => ov end)
  | W_inline_value_provider => at_field f FInlineValue (provider_options c TEXT_DOCUMENT_INLINE_VALUE (Some (VBool true)))
  | W_position_encodings =>
    at_field f FPositionEncoding
      (Some (VEnc (match bind (general (cl c)) position_encodings with
                   | Some l => match find supported_encoding l with Some e => e | None => 16 end
                   | None => 16 end)))
  end.

Definition wheap (w : wname) (c : config) (h : N -> obj) : N -> obj :=
  match w with
  | W_completion => mutation c TEXT_DOCUMENT_COMPLETION (cond (reg c COMPLETION_ITEM_RESOLVE) (obj_set_resolve (Some true))) h
  | W_inlay_hints => mutation c TEXT_DOCUMENT_INLAY_HINT (obj_set_resolve (Some (reg c INLAY_HINT_RESOLVE))) h
  | W_code_action => mutation c TEXT_DOCUMENT_CODE_ACTION (cond (reg c CODE_ACTION_RESOLVE) (obj_set_resolve (Some true))) h
  | W_code_lens => mutation c TEXT_DOCUMENT_CODE_LENS (obj_set_resolve (Some (reg c CODE_LENS_RESOLVE))) h
  | W_document_link => mutation c TEXT_DOCUMENT_DOCUMENT_LINK (obj_set_resolve (Some (reg c DOCUMENT_LINK_RESOLVE))) h
  | W_workspace_symbol => mutation c WORKSPACE_SYMBOL (obj_set_resolve (Some (reg c WORKSPACE_SYMBOL_RESOLVE))) h
  | W_diagnostic_provider => mutation c TEXT_DOCUMENT_DIAGNOSTIC (obj_set_wsdiag (Some (reg c WORKSPACE_DIAGNOSTIC))) h
  | _ => h
  end.

Lemma upd_id : forall i h j, upd i (fun o => o) h j = h j.
Proof. intros. unfold upd. destruct (j =? i); reflexivity. Qed.



Ltac case_cfg :=
  repeat match goal with
   | |- context [reg ?c ?m] => destruct (reg c m)
   | |- context [opt ?c ?m] => destruct (opt c m)
   | |- context [notebook_document ?x] => destruct (notebook_document x)
   | |- context [cap_prepare_support ?x] => destruct (cap_prepare_support x)
  end.
Ltac with_tac :=
  unfold at_field, resolve_forced_val, mutation, registered_options, cond; unfold provider_options;
  case_cfg; cbn [write_resolve write_wsdiag assign set prov heap negb];
  try match goal with |- context [field_eqb ?f ?F] => destruct (field_eqb f F) end;
  try reflexivity; try (symmetry; apply upd_id).

Lemma run_with_sem : forall w c s,
  (forall f, prov (run_with w c s) f = match wval w c (heap s) f with Some v => v | None => prov s f end) /\
  (forall j, heap (run_with w c s) j = wheap w c (heap s) j).
Proof.
  intros w c s.
  destruct w; (split; [intro f|intro j]); try reflexivity;
  cbn [run_with wval wheap].
  all: try solve [ unfold with_hover, with_signature_help, with_declaration, with_definition,
        with_type_definition, with_implementation, with_references, with_document_highlight,
        with_document_symbol, with_color, with_document_formatting, with_document_range_formatting,
        with_document_on_type_formatting, with_folding_range, with_execute_command, with_selection_range,
        with_call_hierarchy, with_type_hierarchy, with_linked_editing_range, with_moniker,
        with_inline_value_provider, assign, set, at_field; cbn [prov];
        destruct (field_eqb f _); reflexivity ].
  all: try solve [ destruct f; reflexivity ].
  all: try solve [ unfold with_notebook_document_sync, with_completion, with_inlay_hints, with_code_action, with_code_lens,
      with_document_link, with_rename, with_workspace_symbol, with_diagnostic_provider; with_tac ].
  - (* semantic tokens *)
    unfold with_semantic_tokens, at_field. cbn [first_options]. unfold provider_options.
    case_cfg; cbn [set prov]; 
    repeat match goal with |- context [o_isreg ?x] => destruct (o_isreg x) end; cbn [set prov];
    try match goal with |- context [field_eqb ?f ?F] => destruct (field_eqb f F) end; reflexivity.
  - unfold with_semantic_tokens. cbn [first_options]. unfold provider_options.
    case_cfg; repeat match goal with |- context [o_isreg ?x] => destruct (o_isreg x) end; reflexivity.
  - unfold with_workspace_capabilities. cbn [fold_left operations].
    generalize (truthy (cap_fileop (cl c) OpWillCreate)) (truthy (cap_fileop (cl c) OpDidCreate))
               (truthy (cap_fileop (cl c) OpWillDelete)) (truthy (cap_fileop (cl c) OpDidDelete))
               (truthy (cap_fileop (cl c) OpWillRename)) (truthy (cap_fileop (cl c) OpDidRename)).
    intros b1 b2 b3 b4 b5 b6.
    destruct b1, b2, b3, b4, b5, b6; destruct f; reflexivity.
  - unfold with_workspace_capabilities. cbn [fold_left operations].
    repeat match goal with |- context [truthy ?x] => destruct (truthy x) end; reflexivity.
  - unfold with_position_encodings, at_field, bind.
    destruct (general (cl c)) as [g|]; [destruct (position_encodings g) as [l|]; [destruct (find supported_encoding l)|]|];
    cbn [set prov]; destruct (field_eqb f FPositionEncoding); reflexivity.
  - unfold with_position_encodings.
    destruct (general (cl c)) as [g|]; [destruct (position_encodings g) as [l|]; [destruct (find supported_encoding l)|]|];
    reflexivity.
Qed.

(* ---- 2. build is the fold of the summaries ------------------------------------------------- *)
Fixpoint sem_prov (l : list wname) (c : config) (p : field -> value) (h : N -> obj) (f : field) : value :=
  match l with
  | [] => p f
  | w :: r => sem_prov r c (fun g => match wval w c h g with Some v => v | None => p g end) (wheap w c h) f
  end.
Fixpoint sem_heap (l : list wname) (c : config) (h : N -> obj) : N -> obj :=
  match l with [] => h | w :: r => sem_heap r c (wheap w c h) end.

Lemma wheap_ext : forall w c h h', (forall j, h j = h' j) -> forall j, wheap w c h j = wheap w c h' j.
Proof.
  intros w c h h' E j.
  destruct w; cbn [wheap]; try apply E;
  unfold mutation; destruct (registered_options c _); try apply E;
  unfold upd; destruct (j =? _); rewrite E; reflexivity.
Qed.

Lemma wval_ext : forall w c h h' f, (forall j, h j = h' j) -> wval w c h f = wval w c h' f.
Proof.
  intros w c h h' f E. destruct w; try reflexivity.
  cbn [wval]. destruct (first_options c _) as [[]|]; try reflexivity. rewrite E. reflexivity.
Qed.

Lemma sem_heap_ext : forall l c h h', (forall j, h j = h' j) -> forall j, sem_heap l c h j = sem_heap l c h' j.
Proof.
  induction l as [|w r IH]; intros c h h' E j; cbn [sem_heap]; [apply E|].
  apply IH. intro k. apply wheap_ext. exact E.
Qed.

Lemma sem_prov_ext : forall l c p p' h h' f, (forall g, p g = p' g) -> (forall j, h j = h' j) ->
  sem_prov l c p h f = sem_prov l c p' h' f.
Proof.
  induction l as [|w r IH]; intros c p p' h h' f Ep Eh; cbn [sem_prov]; [apply Ep|].
  apply IH.
  - intro g. rewrite (wval_ext w c h h' g Eh). destruct (wval w c h' g); [reflexivity|apply Ep].
  - intro j. apply wheap_ext. exact Eh.
Qed.

Lemma fold_sem : forall l c s,
  (forall f, prov (fold_left (fun s w => run_with w c s) l s) f = sem_prov l c (prov s) (heap s) f) /\
  (forall j, heap (fold_left (fun s w => run_with w c s) l s) j = sem_heap l c (heap s) j).
Proof.
  induction l as [|w r IH]; intros c s; cbn [fold_left sem_prov sem_heap]; [split; reflexivity|].
  destruct (IH c (run_with w c s)) as [Hp Hh]. destruct (run_with_sem w c s) as [Rp Rh].
  split.
  - intro f. rewrite Hp. apply sem_prov_ext; assumption.
  - intro j. rewrite Hh. apply sem_heap_ext; assumption.
Qed.

Definition final_heap (c : config) : N -> obj := sem_heap build_chain c (heap0 c).

Lemma build_prov : forall c f, prov (build c) f = sem_prov build_chain c (fun _ => VNone) (heap0 c) f.
Proof. intros. unfold build. apply (proj1 (fold_sem build_chain c (init c))). Qed.
Lemma build_heap : forall c j, heap (build c) j = final_heap c j.
Proof. intros. unfold build. apply (proj2 (fold_sem build_chain c (init c))). Qed.

(* ---- 3. the registered option objects after build ------------------------------------------ *)
Lemma mutation_same : forall c m f h i, registered_options c m = Some i -> mutation c m f h i = f (h i).
Proof. intros. unfold mutation. rewrite H. unfold upd. rewrite N.eqb_refl. reflexivity. Qed.

Lemma no_shared_sound : forall c, no_shared_object c = true ->
  forall m2 m1, In m2 derived_member_methods -> In m1 option_readers ->
    method_code m1 <> method_code m2 -> shares c m1 m2 = false.
Proof.
  intros c H m2 m1 H2 H1 Hne. unfold no_shared_object in H.
  rewrite forallb_forall in H. specialize (H m2 H2). rewrite forallb_forall in H. specialize (H m1 H1).
  apply orb_true_iff in H. destruct H as [H|H].
  - apply N.eqb_eq in H. contradiction.
  - apply negb_true_iff in H. exact H.
Qed.

Lemma mutation_unshared : forall c m m' f h i,
  no_shared_object c = true -> In m' derived_member_methods -> In m option_readers ->
  method_code m <> method_code m' -> registered_options c m = Some i ->
  mutation c m' f h i = h i.
Proof.
  intros c m m' f h i Hns H2 H1 Hne Hro.
  pose proof (no_shared_sound c Hns m' m H2 H1 Hne) as Hs. unfold shares in Hs. rewrite Hro in Hs.
  unfold mutation. destruct (registered_options c m') as [j|]; [|reflexivity].
  unfold upd. rewrite Hs. reflexivity.
Qed.

(* what build writes into the object registered for m (and into no other, when nothing is shared) *)
Definition own_effect (c : config) (m : method) (o : obj) : obj :=
  match m with
  | TEXT_DOCUMENT_COMPLETION => cond (reg c COMPLETION_ITEM_RESOLVE) (obj_set_resolve (Some true)) o
  | TEXT_DOCUMENT_INLAY_HINT => obj_set_resolve (Some (reg c INLAY_HINT_RESOLVE)) o
  | TEXT_DOCUMENT_CODE_ACTION => cond (reg c CODE_ACTION_RESOLVE) (obj_set_resolve (Some true)) o
  | TEXT_DOCUMENT_CODE_LENS => obj_set_resolve (Some (reg c CODE_LENS_RESOLVE)) o
  | TEXT_DOCUMENT_DOCUMENT_LINK => obj_set_resolve (Some (reg c DOCUMENT_LINK_RESOLVE)) o
  | WORKSPACE_SYMBOL => obj_set_resolve (Some (reg c WORKSPACE_SYMBOL_RESOLVE)) o
  | TEXT_DOCUMENT_DIAGNOSTIC => obj_set_wsdiag (Some (reg c WORKSPACE_DIAGNOSTIC)) o
  | _ => o
  end.

Ltac in_list := solve [repeat (first [apply in_eq | apply in_cons])].
Ltac step_heap c Hns Hro :=
  match type of Hro with registered_options _ ?m = _ =>
    first [ rewrite (mutation_same c m _ _ _ Hro)
          | rewrite (mutation_unshared c m _ _ _ _ Hns) by first [exact Hro | in_list | (cbn; discriminate)] ]
  end.

Lemma final_heap_at : forall c m i,
  no_shared_object c = true -> In m option_readers -> registered_options c m = Some i ->
  final_heap c i = own_effect c m (heap0 c i).
Proof.
  intros c m i Hns Hin Hro.
  unfold final_heap. cbv [sem_heap build_chain wheap].
  cbn in Hin.
  repeat (destruct Hin as [<-|Hin]; [do 7 step_heap c Hns Hro; reflexivity|]).
  contradiction.
Qed.

(* ---- 4. refinement ---------------------------------------------------------------------------- *)
Lemma mutation_isreg : forall c m f h i, (forall o, o_isreg (f o) = o_isreg o) ->
  o_isreg (mutation c m f h i) = o_isreg (h i).
Proof.
  intros. unfold mutation. destruct (registered_options c m); [|reflexivity].
  unfold upd. destruct (i =? n); [apply H|reflexivity].
Qed.

Lemma find_supported : forall l, find supported_encoding l = first_supported l.
Proof. induction l as [|e r IH]; cbn [find first_supported]; [reflexivity|]. unfold supported_encoding at 1. rewrite IH. reflexivity. Qed.

Ltac case_cfg_eq :=
  repeat match goal with
   | |- context [reg ?c ?m] => destruct (reg c m) eqn:?
   | |- context [opt ?c ?m] => destruct (opt c m) eqn:?
   | |- context [o_isreg ?x] => destruct (o_isreg x) eqn:?
   | |- context [notebook_document ?x] => destruct (notebook_document x) eqn:?
   | |- context [cap_prepare_support ?x] => destruct (cap_prepare_support x) eqn:?
   | |- context [cap_will_save ?x] => destruct (cap_will_save x) as [[]|] eqn:?
   | |- context [cap_will_save_wait_until ?x] => destruct (cap_will_save_wait_until x) as [[]|] eqn:?
   | |- context [cap_fileop ?x ?o] => destruct (cap_fileop x o) as [[]|] eqn:?
   | |- context [sync_kind ?x] => destruct (sync_kind x) eqn:?
   | |- context [nb_sync ?x] => destruct (nb_sync x) eqn:?
  end.
Ltac rewrite_regs :=
  repeat match goal with H : reg ?c ?m = _ |- context [reg ?c ?m] => rewrite H end.
Ltac heap_tac c Hns :=
  repeat match goal with
  | Ho : opt c ?M = Some ?n |- context [heap (build c) ?n] =>
     rewrite !(build_heap c n);
     rewrite (final_heap_at c M n Hns ltac:(in_list)
                ltac:(unfold registered_options;
                      match goal with H : reg c M = true |- _ => rewrite H end; exact Ho))
  end;
  cbn [own_effect o_resolve o_wsdiag obj_set_resolve obj_set_wsdiag]; unfold cond; rewrite_regs;
  cbn [o_resolve o_wsdiag obj_set_resolve obj_set_wsdiag].

Ltac abstract_isreg c :=
  match goal with |- context [mutation c TEXT_DOCUMENT_DOCUMENT_LINK ?f ?h] =>
    let H5 := fresh "H5" in
    assert (Hisreg : forall i, o_isreg (mutation c TEXT_DOCUMENT_DOCUMENT_LINK f h i) = o_isreg (heap0 c i))
      by (intro i; rewrite !mutation_isreg by (intro o; unfold cond; try destruct (reg c _); reflexivity);
          reflexivity);
    set (H5 := mutation c TEXT_DOCUMENT_DOCUMENT_LINK f h) in *; clearbody H5
  end.
Ltac cfg_then_isreg :=
  repeat match goal with
   | |- context [reg ?c ?m] => destruct (reg c m) eqn:?
   | |- context [opt ?c ?m] => destruct (opt c m) eqn:?
  end; cbn [negb]; try reflexivity;
  try match goal with H : forall i, o_isreg (_ i) = _ |- _ => rewrite ?H end; case_cfg_eq.

Opaque build.
Theorem refinement : forall c f, guard c = true -> observe (build c) f = spec_caps c f.
Proof.
  intros c f G. unfold guard in G. apply andb_true_iff in G as [Hns Hrn]. apply negb_true_iff in Hrn.
  unfold observe. rewrite build_prov.
  destruct f;
  lazy [sem_prov build_chain wval wheap at_field field_eqb field_code N.eqb Pos.eqb];
  cbn [spec_caps row fileop_row];
  unfold spec_row, spec_gated_flag, spec_semantic_tokens, resolve_forced_val, provider_options,
         registered_options, as_registered, with_resolve, gate_on, truthy, py_and;
  cbn [first_options]; unfold provider_options.
  31: { (* FSemanticTokens: isinstance is read before the later writes; the class never changes *)
    abstract_isreg c.
    cfg_then_isreg; try reflexivity; try congruence; heap_tac c Hns; try reflexivity; congruence. }
  all: try solve [case_cfg_eq; cbn [negb]; try reflexivity; heap_tac c Hns; reflexivity].
  (* FRename: the registered options are not looked at; excluded by the guard *)
  unfold rename_has_options in Hrn. revert Hrn.
  case_cfg_eq; cbn [negb andb]; intro Hrn; try reflexivity; discriminate.
Qed.

(* ---- 5. corollaries ------------------------------------------------------------------------- *)
(* Without any guard: the slot, its form and the registered object in it are as the reference says;
   only the derived members of a shared object and the rename options can differ. *)
Theorem refinement_shape : forall c f, shape (observe (build c) f) = shape (spec_caps c f).
Proof.
  intros c f. unfold observe. rewrite build_prov.
  destruct f;
  lazy [sem_prov build_chain wval wheap at_field field_eqb field_code N.eqb Pos.eqb];
  cbn [spec_caps row fileop_row];
  unfold spec_row, spec_gated_flag, spec_semantic_tokens, resolve_forced_val, provider_options,
         registered_options, as_registered, with_resolve, gate_on, truthy, py_and;
  cbn [first_options]; unfold provider_options.
  31: { abstract_isreg c. cfg_then_isreg; reflexivity. }
  all: solve [case_cfg_eq; cbn [negb shape]; reflexivity].
Qed.

Ltac compute_field :=
  unfold observe; rewrite build_prov;
  lazy [sem_prov build_chain wval wheap at_field field_eqb field_code N.eqb Pos.eqb].

Lemma shape_none : forall v, shape v = VNone <-> v = VNone.
Proof. intro v; destruct v; cbn; split; intro H; try discriminate; reflexivity. Qed.

Lemma observe_none_iff : forall c f, observe (build c) f = VNone <-> spec_caps c f = VNone.
Proof. intros. rewrite <- (shape_none (observe _ _)), <- (shape_none (spec_caps _ _)), refinement_shape. tauto. Qed.

Lemma spec_row_present : forall c m k,
  spec_row c m k <> VNone <-> reg c m = true /\ (k = KMandatory -> opt c m <> None).
Proof.
  intros c m k. unfold spec_row, as_registered, with_resolve.
  destruct (reg c m); cbn [negb].
  - destruct k as [| |r|r d|]; destruct (opt c m); try destruct (reg c r); try destruct d;
    (split; [intros _; split; [reflexivity|intros; discriminate] | intros _; discriminate]) ||
    (split; [intro H; exfalso; apply H; reflexivity | intros [_ H]; exfalso; apply (H eq_refl); reflexivity]).
  - split; [intro H; exfalso; apply H; reflexivity | intros [H _]; discriminate].
Qed.

Lemma spec_caps_row : forall c f m k, row f = Some (m, k) -> spec_caps c f = spec_row c m k.
Proof. intros c f m k H. destruct f; try discriminate H; injection H as <- <-; reflexivity. Qed.

(* field_iff: one statement for all 26 plain provider rows *)
Theorem field_iff : forall c f m k, row f = Some (m, k) ->
  (observe (build c) f <> VNone <-> reg c m = true /\ (k = KMandatory -> opt c m <> None)).
Proof.
  intros c f m k H. rewrite observe_none_iff, (spec_caps_row c f m k H). apply spec_row_present.
Qed.

Lemma shape_obj_inv : forall v i, shape v = VObj i None None -> exists r w, v = VObj i r w.
Proof. intros v i H. destruct v; cbn in H; try discriminate. injection H as ->. eauto. Qed.

(* the registered option object itself is what is advertised *)
Theorem field_registered_options : forall c f m k i, row f = Some (m, k) ->
  reg c m = true -> opt c m = Some i -> exists r w, observe (build c) f = VObj i r w.
Proof.
  intros c f m k i H Hr Ho. apply shape_obj_inv. rewrite refinement_shape, (spec_caps_row c f m k H).
  unfold spec_row, as_registered, with_resolve. rewrite Hr, Ho. cbn [negb].
  destruct k as [| |r|r d|]; try destruct (reg c r); reflexivity.
Qed.

Theorem fileop_iff : forall c f m o, fileop_row f = Some (m, o) ->
  (observe (build c) f <> VNone <->
   cap_fileop (cl c) o = Some true /\ reg c m = true /\ opt c m <> None).
Proof.
  intros c f m o H. rewrite observe_none_iff.
  assert (E : spec_caps c f = if gate_on (cap_fileop (cl c) o) then spec_row c m KMandatory else VNone)
    by (destruct f; try discriminate H; injection H as <- <-; reflexivity).
  rewrite E. unfold gate_on. destruct (cap_fileop (cl c) o) as [[]|].
  - rewrite spec_row_present. split; [intros [A B]; auto | intros (_ & A & B); auto].
  - split; [intro A; exfalso; apply A; reflexivity | intros (A & _); discriminate].
  - split; [intro A; exfalso; apply A; reflexivity | intros (A & _); discriminate].
Qed.

Theorem semantic_tokens_iff : forall c,
  observe (build c) FSemanticTokens <> VNone <->
  exists m, In m [TEXT_DOCUMENT_SEMANTIC_TOKENS_FULL; TEXT_DOCUMENT_SEMANTIC_TOKENS_FULL_DELTA;
                  TEXT_DOCUMENT_SEMANTIC_TOKENS_RANGE] /\ reg c m = true /\ opt c m <> None.
Proof.
  intro c. rewrite observe_none_iff. cbn [spec_caps]. unfold spec_semantic_tokens, registered_options, as_registered.
  split.
  - intro H.
    destruct (reg c TEXT_DOCUMENT_SEMANTIC_TOKENS_FULL) eqn:R1;
      [destruct (opt c TEXT_DOCUMENT_SEMANTIC_TOKENS_FULL) eqn:O1;
        [exists TEXT_DOCUMENT_SEMANTIC_TOKENS_FULL; cbn; rewrite O1; intuition congruence|]|];
    (destruct (reg c TEXT_DOCUMENT_SEMANTIC_TOKENS_FULL_DELTA) eqn:R2;
      [destruct (opt c TEXT_DOCUMENT_SEMANTIC_TOKENS_FULL_DELTA) eqn:O2;
        [exists TEXT_DOCUMENT_SEMANTIC_TOKENS_FULL_DELTA; cbn; rewrite O2; intuition congruence|]|]);
    (destruct (reg c TEXT_DOCUMENT_SEMANTIC_TOKENS_RANGE) eqn:R3;
      [destruct (opt c TEXT_DOCUMENT_SEMANTIC_TOKENS_RANGE) eqn:O3;
        [exists TEXT_DOCUMENT_SEMANTIC_TOKENS_RANGE; cbn; rewrite O3; intuition congruence|]|]);
    exfalso; apply H; reflexivity.
  - intros (m & Hin & Hr & Ho) H. cbn in Hin.
    destruct Hin as [<-|[<-|[<-|[]]]]; rewrite ?Hr in H;
    repeat match type of H with
    | context [reg c ?x] => destruct (reg c x)
    | context [opt c ?x] => destruct (opt c x)
    | context [o_isreg ?x] => destruct (o_isreg x)
    end; try discriminate; apply Ho; reflexivity.
Qed.

Theorem rename_rule : forall c,
  observe (build c) FRename =
  if reg c TEXT_DOCUMENT_RENAME
  then if cap_prepare_support (cl c) then VRename (reg c TEXT_DOCUMENT_PREPARE_RENAME) else VBool true
  else VNone.
Proof. intro c. compute_field. destruct (reg c TEXT_DOCUMENT_RENAME); [destruct (cap_prepare_support (cl c))|]; reflexivity. Qed.

Theorem diagnostic_iff : forall c, observe (build c) FDiagnostic <> VNone <-> reg c TEXT_DOCUMENT_DIAGNOSTIC = true.
Proof.
  intro c. rewrite observe_none_iff. cbn [spec_caps].
  destruct (reg c TEXT_DOCUMENT_DIAGNOSTIC); [destruct (opt c TEXT_DOCUMENT_DIAGNOSTIC)|];
  split; intro H; try reflexivity; try discriminate; exfalso; apply H; reflexivity.
Qed.

(* slots whose value never contains a registered object: exact, no guard *)
Theorem commands_exact : forall c, observe (build c) FExecuteCommand = VCommands (commands c).
Proof. intro c. compute_field. reflexivity. Qed.

Theorem sync_kind_reported : forall c,
  observe (build c) FSyncChange = match sync_kind c with Some k => VNum k | None => VNone end.
Proof. intro c. compute_field. destruct (sync_kind c); reflexivity. Qed.

Theorem sync_open_close : forall c,
  observe (build c) FSyncOpenClose = VBool (reg c TEXT_DOCUMENT_DID_OPEN || reg c TEXT_DOCUMENT_DID_CLOSE).
Proof. intro c. compute_field. reflexivity. Qed.

Theorem sync_will_save : forall c,
  observe (build c) FSyncWillSave = spec_gated_flag c (cap_will_save (cl c)) TEXT_DOCUMENT_WILL_SAVE /\
  observe (build c) FSyncWillSaveWaitUntil =
    spec_gated_flag c (cap_will_save_wait_until (cl c)) TEXT_DOCUMENT_WILL_SAVE_WAIT_UNTIL.
Proof.
  intro c. split; compute_field; unfold py_and, spec_gated_flag.
  - destruct (cap_will_save (cl c)) as [[]|]; reflexivity.
  - destruct (cap_will_save_wait_until (cl c)) as [[]|]; reflexivity.
Qed.

Theorem sync_save : forall c,
  shape (observe (build c) FSyncSave) =
  if reg c TEXT_DOCUMENT_DID_SAVE
  then match opt c TEXT_DOCUMENT_DID_SAVE with Some i => VObj i None None | None => VBool true end
  else VBool false.
Proof.
  intro c. rewrite refinement_shape. cbn [spec_caps]. unfold as_registered.
  destruct (reg c TEXT_DOCUMENT_DID_SAVE); [destruct (opt c TEXT_DOCUMENT_DID_SAVE)|]; reflexivity.
Qed.

Theorem notebook_sync_rule : forall c,
  observe (build c) FNotebookSync =
  if notebook_document (cl c) then match nb_sync c with Some p => VNotebook p | None => VNone end else VNone.
Proof.
  intro c. compute_field. destruct (notebook_document (cl c)); [destruct (nb_sync c)|]; reflexivity.
Qed.

Theorem workspace_folders_always : forall c, observe (build c) FWorkspaceFolders = VFolders.
Proof. intro c. compute_field. reflexivity. Qed.

(* position encoding *)
Lemma first_supported_some : forall l e, first_supported l = Some e <-> first_supported_is l e.
Proof.
  unfold first_supported_is, supported.
  induction l as [|x r IH]; intro e; cbn [first_supported].
  - split; [discriminate|]. intros (pre & post & H & _). destruct pre; discriminate.
  - destruct ((x =? 8) || (x =? 16) || (x =? 32)) eqn:Hx.
    + split.
      * intro H. injection H as <-. exists [], r. split; [reflexivity|]. split; [|intros ? []].
        rewrite !orb_true_iff, !N.eqb_eq in Hx. tauto.
      * intros (pre & post & H & Hs & Hpre). destruct pre as [|y pre]; cbn in H; injection H as -> ->; [reflexivity|].
        exfalso. apply (Hpre y (or_introl eq_refl)). rewrite !orb_true_iff, !N.eqb_eq in Hx. tauto.
    + rewrite IH. split.
      * intros (pre & post & -> & Hs & Hpre). exists (x :: pre), post. split; [reflexivity|]. split; [exact Hs|].
        intros y [<-|Hy]; [|apply Hpre; exact Hy].
        rewrite !orb_false_iff, !N.eqb_neq in Hx. tauto.
      * intros (pre & post & H & Hs & Hpre). destruct pre as [|y pre]; cbn in H; injection H as -> ->.
        -- exfalso. rewrite !orb_false_iff, !N.eqb_neq in Hx. tauto.
        -- exists pre, post. split; [reflexivity|]. split; [exact Hs|]. intros z Hz. apply Hpre. right. exact Hz.
Qed.

Lemma first_supported_none : forall l, first_supported l = None <-> forall x, In x l -> ~ supported x.
Proof.
  unfold supported. induction l as [|x r IH]; cbn [first_supported].
  - split; [intros _ ? []|reflexivity].
  - destruct ((x =? 8) || (x =? 16) || (x =? 32)) eqn:Hx.
    + split; [discriminate|]. intro H. exfalso. apply (H x (or_introl eq_refl)).
      rewrite !orb_true_iff, !N.eqb_eq in Hx. tauto.
    + rewrite IH. split.
      * intros H y [<-|Hy]; [|apply H; exact Hy]. rewrite !orb_false_iff, !N.eqb_neq in Hx. tauto.
      * intros H y Hy. apply H. right. exact Hy.
Qed.

Theorem encoding_advertised : forall c, observe (build c) FPositionEncoding = VEnc (spec_encoding c).
Proof.
  intro c. compute_field. unfold spec_encoding, bind.
  destruct (general (cl c)) as [g|]; [|reflexivity]. destruct (position_encodings g) as [l|]; [|reflexivity].
  rewrite find_supported. reflexivity.
Qed.

Theorem encoding_first_supported : forall c,
  match bind (general (cl c)) position_encodings with
  | Some l => first_supported_is l (spec_encoding c) \/
              ((forall x, In x l -> ~ supported x) /\ spec_encoding c = 16)
  | None => spec_encoding c = 16
  end.
Proof.
  intro c. unfold spec_encoding. destruct (bind (general (cl c)) position_encodings) as [l|]; [|reflexivity].
  destruct (first_supported l) as [e|] eqn:E.
  - left. apply first_supported_some. exact E.
  - right. split; [apply first_supported_none; exact E|reflexivity].
Qed.

(* initialize: built-ins join the feature set; the workspace gets the advertised encoding *)
Lemma guard_with_builtins : forall c, guard (with_builtins c) = guard c.
Proof.
  intro c. unfold guard, no_shared_object, rename_has_options, shares, registered_options.
  cbn. rewrite ?orb_false_r. reflexivity.
Qed.

Theorem workspace_uses_advertised : forall c,
  workspace_encoding (lsp_initialize c) = observe (server_capabilities (lsp_initialize c)) FPositionEncoding /\
  workspace_encoding (lsp_initialize c) = spec_workspace_encoding c.
Proof.
  intro c. unfold lsp_initialize, spec_workspace_encoding. cbn [workspace_encoding server_capabilities].
  rewrite encoding_advertised.
  pose proof (encoding_advertised (with_builtins c)) as H. unfold observe in H.
  destruct (prov (build (with_builtins c)) FPositionEncoding); try discriminate H; injection H as ->.
  split; reflexivity.
Qed.

Theorem initialize_refinement : forall c f, guard c = true ->
  observe (server_capabilities (lsp_initialize c)) f = spec_caps (with_builtins c) f.
Proof. intros c f G. apply refinement. rewrite guard_with_builtins. exact G. Qed.

Theorem initialize_open_close : forall c,
  observe (server_capabilities (lsp_initialize c)) FSyncOpenClose = VBool true.
Proof. intro c. unfold lsp_initialize; cbn [server_capabilities]. rewrite sync_open_close. cbn. rewrite orb_true_r. reflexivity. Qed.

(* ---- non-interference ------------------------------------------------------------------------ *)
(* the reference for slot f looks only at methods the oracle table maps to f *)
Lemma spec_local : forall m' c1 c2 f,
  agree_except m' c1 c2 -> provider_of m' <> Some f -> spec_caps c1 f = spec_caps c2 f.
Proof.
  intros m' c1 c2 f (Hm & Hh & Hc & Hs & Hn & Hcl) Hne.
  assert (Hm1 : forall M, provider_of M = Some f -> reg c1 M = reg c2 M)
    by (intros M HM; apply Hm; intro E; apply Hne; rewrite <- E; exact HM).
  assert (Hm2 : forall M, provider_of M = Some f -> opt c1 M = opt c2 M)
    by (intros M HM; apply Hm; intro E; apply Hne; rewrite <- E; exact HM).
  clear Hm Hne.
  destruct f; cbn [spec_caps row fileop_row];
  unfold spec_row, spec_gated_flag, spec_semantic_tokens, registered_options, as_registered, with_resolve,
         spec_encoding;
  rewrite ?Hc, ?Hs, ?Hn, ?Hcl;
  repeat match goal with
  | |- context [reg c1 ?M] => rewrite (Hm1 M eq_refl)
  | |- context [opt c1 ?M] => rewrite (Hm2 M eq_refl)
  end;
  try reflexivity;
  repeat match goal with
  | |- context [reg c2 ?M] => destruct (reg c2 M)
  | |- context [opt c2 ?M] => destruct (opt c2 M)
  | |- context [gate_on ?x] => destruct (gate_on x)
  | |- context [cap_prepare_support ?x] => destruct (cap_prepare_support x)
  end; cbn [negb]; rewrite ?Hh; try reflexivity.
Qed.

Theorem non_interference : forall m' c1 c2 f,
  agree_except m' c1 c2 -> provider_of m' <> Some f -> guard c1 = true -> guard c2 = true ->
  observe (build c1) f = observe (build c2) f.
Proof.
  intros m' c1 c2 f Ha Hne G1 G2. rewrite !refinement by assumption. eapply spec_local; eassumption.
Qed.

(* without the guard: everything but the two derived members of a shared object *)
Theorem non_interference_shape : forall m' c1 c2 f,
  agree_except m' c1 c2 -> provider_of m' <> Some f ->
  shape (observe (build c1) f) = shape (observe (build c2) f).
Proof.
  intros m' c1 c2 f Ha Hne. rewrite !refinement_shape. f_equal. eapply spec_local; eassumption.
Qed.

(* registering a method that bears no capability changes nothing at all *)
Corollary non_capability_method_irrelevant : forall n c1 c2 f,
  agree_except (MOther n) c1 c2 -> guard c1 = true -> guard c2 = true ->
  observe (build c1) f = observe (build c2) f.
Proof. intros n c1 c2 f Ha. apply (non_interference (MOther n)); [exact Ha|discriminate]. Qed.

(* ---- the driver's numbering of methods ------------------------------------------------------ *)
Lemma method_of_code_code : forall m, method_of_code (method_code m) = m.
Proof.
  destruct m; try reflexivity.
  unfold method_code, method_of_code, other_base.
  replace (100 + n <? 100) with false by (symmetry; apply N.ltb_ge; lia).
  f_equal. lia.
Qed.

Lemma method_code_inj : forall a b, method_code a = method_code b -> a = b.
Proof. intros a b H. rewrite <- (method_of_code_code a), <- (method_of_code_code b), H. reflexivity. Qed.

(* ---- sessions: several initializes of one server --------------------------------------------- *)
(* the k-th initialize result and workspace hand-over depend on the k-th inputs only *)
Theorem session_independent : forall cs1 cs2 c k d,
  nth_error cs1 k = Some c -> nth_error cs2 k = Some c ->
  nth k (session cs1) d = lsp_initialize c /\ nth k (session cs2) d = lsp_initialize c.
Proof.
  intros cs1 cs2 c k d H1 H2. unfold session.
  split; apply nth_error_nth; rewrite nth_error_map; [rewrite H1|rewrite H2]; reflexivity.
Qed.

Theorem session_workspace : forall cs r, In r (session cs) ->
  workspace_encoding r = observe (server_capabilities r) FPositionEncoding.
Proof.
  intros cs r H. unfold session in H. apply in_map_iff in H. destruct H as (c & <- & _).
  apply workspace_uses_advertised.
Qed.
