(* C10: the workspace model (Model/Workspace.v) refines the reference fold (Spec/WorkspaceSpec.v)
   on well-formed histories.  Per-operation refinement under the well-formedness of the operation
   and two invariants of well-formed histories (stated on the observation), then induction. *)
From Coq Require Import ZArith NArith List Bool Lia.
From Pygls Require Import Base.PyStr Base.AssocWs Model.Codec Model.Doc Model.Workspace Spec.WorkspaceSpec.
Import ListNotations.
Open Scope N_scope.

(* R s t: the state s shows the observation t *)
Notation R s t := (obs_eq (observe s) t).

(* invariants of well-formed histories *)
Definition inv_cells (t : obs) : Prop :=          (* the cell index only knows open documents *)
  forall u, o_doc t u = None -> o_cell t u = None.
Definition inv_nodup (t : obs) : Prop :=          (* the cells of a notebook are distinct documents *)
  forall n nb, o_nb t n = Some nb -> nodupb (cell_docs (n_cells nb)) = true.

Lemma obs_eq_refl t : obs_eq t t.
Proof. split; reflexivity. Qed.

(* ---------------- booleans ---------------- *)

Lemma memb_in u l : memb u l = true <-> In u l.
Proof.
  unfold memb. rewrite existsb_exists. split.
  - intros (x & Hx & E). apply N.eqb_eq in E. subst. exact Hx.
  - intros H. exists u. split; [exact H|apply N.eqb_refl].
Qed.

Lemma memb_false u l : memb u l = false <-> ~ In u l.
Proof.
  split.
  - intros H Hi. apply memb_in in Hi. congruence.
  - intros H. destruct (memb u l) eqn:E; [|reflexivity]. apply memb_in in E. contradiction.
Qed.

Lemma memb_cons u x l : memb u (x :: l) = (u =? x) || memb u l.
Proof. reflexivity. Qed.

(* ---------------- text documents: put / remove ---------------- *)

Lemma R_put_some cf s t it n :
  R s t -> R (put_text_document cf s it (Some n)) (open_item cf (Some n) t it).
Proof.
  intros [H1 H2 H3 H4 H5]. destruct it as [[[u lang] v] text].
  split; cbn in *; intros; unfold upd; try rewrite aget_aset; try rewrite H1; try rewrite H3; auto.
Qed.

Lemma R_put_none cf s t it :
  R s t -> R (put_text_document cf s it None) (open_item cf None t it).
Proof.
  intros [H1 H2 H3 H4 H5]. destruct it as [[[u lang] v] text].
  split; cbn in *; intros; unfold upd; try rewrite aget_aset; try rewrite H1; auto.
Qed.

Lemma R_remove s t u : R s t -> R (remove_text_document s u) (close_doc t u).
Proof.
  intros [H1 H2 H3 H4 H5].
  split; cbn in *; intros; unfold upd; try rewrite aget_adel; try rewrite H1; try rewrite H3; auto.
Qed.

Lemma R_fold_put cf n items : forall s t,
  R s t ->
  R (fold_left (fun s it => put_text_document cf s it (Some n)) items s)
    (fold_left (open_item cf (Some n)) items t).
Proof.
  induction items as [|it r IH]; intros s t H; [exact H|].
  cbn [fold_left]. apply IH. apply R_put_some. exact H.
Qed.

Lemma R_fold_remove cs : forall s t,
  R s t -> R (fold_left remove_text_document cs s) (fold_left close_doc cs t).
Proof.
  induction cs as [|c r IH]; intros s t H; [exact H|].
  cbn [fold_left]. apply IH. apply R_remove. exact H.
Qed.

Lemma R_with_nbs s t n x :
  R s t -> R (with_nbs s (match x with Some nb => aset n nb (w_nbs s) | None => adel n (w_nbs s) end))
             (o_with_nb t (upd (o_nb t) n x)).
Proof.
  intros [H1 H2 H3 H4 H5].
  split; cbn in *; intros; unfold upd; auto.
  destruct x; [rewrite aget_aset|rewrite aget_adel]; rewrite H2; reflexivity.
Qed.

(* the invariants under open / close *)

Lemma inv_cells_open cf owner t it : inv_cells t -> inv_cells (open_item cf owner t it).
Proof.
  intros Hi. destruct it as [[[u lang] v] text]. intros x. destruct owner; cbn; unfold upd.
  - destruct (x =? u); [discriminate|apply Hi].
  - destruct (x =? u); [discriminate|apply Hi].
Qed.

Lemma inv_cells_close t u : inv_cells t -> inv_cells (close_doc t u).
Proof.
  intros Hi x. cbn. unfold upd. destruct (x =? u); [reflexivity|apply Hi].
Qed.

Lemma inv_cells_fold_open cf owner items : forall t,
  inv_cells t -> inv_cells (fold_left (open_item cf owner) items t).
Proof.
  induction items as [|it r IH]; intros t H; [exact H|]. apply IH. apply inv_cells_open. exact H.
Qed.

Lemma inv_cells_fold_close cs : forall t,
  inv_cells t -> inv_cells (fold_left close_doc cs t).
Proof.
  induction cs as [|c r IH]; intros t H; [exact H|]. apply IH. apply inv_cells_close. exact H.
Qed.

Lemma o_nb_open cf owner t it : o_nb (open_item cf owner t it) = o_nb t.
Proof. destruct it as [[[u lang] v] text], owner; reflexivity. Qed.

Lemma o_nb_fold_open cf owner items : forall t,
  o_nb (fold_left (open_item cf owner) items t) = o_nb t.
Proof.
  induction items as [|it r IH]; intros t; [reflexivity|]. cbn [fold_left]. rewrite IH. apply o_nb_open.
Qed.

Lemma o_nb_fold_close cs : forall t, o_nb (fold_left close_doc cs t) = o_nb t.
Proof.
  induction cs as [|c r IH]; intros t; [reflexivity|]. cbn [fold_left]. rewrite IH. reflexivity.
Qed.

(* ---------------- text changes reach the document they name ---------------- *)

Definition same_but_docs (s s' : ws) : Prop :=
  w_nbs s' = w_nbs s /\ w_cells s' = w_cells s /\ w_folders s' = w_folders s /\ w_errs s' = w_errs s.

Lemma update_all_open u v cs : forall s d l,
  aget u (w_docs s) = Some (d, l) ->
  exists s', update_all s u v cs = (s', false) /\ same_but_docs s s' /\
    forall x, aget x (w_docs s') =
              if x =? u then Some (fold_left (fun d c => update_text_document d v c) cs d, l)
              else aget x (w_docs s).
Proof.
  induction cs as [|c r IH]; intros s d l Hd.
  - exists s. split; [reflexivity|]. split; [repeat split|].
    intros x. destruct (x =? u) eqn:E; [|reflexivity]. apply N.eqb_eq in E. subst x. exact Hd.
  - cbn [update_all]. unfold ws_update_text_document. rewrite Hd.
    set (s1 := with_docs s (aset u (update_text_document d v c, l) (w_docs s))).
    destruct (IH s1 (update_text_document d v c) l) as (s' & E & (F1 & F2 & F3 & F4) & G).
    { unfold s1. cbn. apply aget_aset_eq. }
    exists s'. split; [exact E|]. split; [repeat split; assumption|].
    intros x. rewrite G. cbn [fold_left]. destruct (x =? u) eqn:Ex; [reflexivity|].
    unfold s1. cbn. rewrite aget_aset, Ex. reflexivity.
Qed.

Lemma is_some_text_entry t e x : is_some (o_doc (text_entry t e) x) = is_some (o_doc t x).
Proof.
  destruct e as [[u v] cs]. unfold text_entry.
  destruct (o_doc t u) as [[d l]|] eqn:E; [|reflexivity].
  cbn. unfold upd. destruct (x =? u) eqn:Ex; [|reflexivity].
  apply N.eqb_eq in Ex. subst x. rewrite E. reflexivity.
Qed.

Lemma R_text_entry s t u v cs :
  R s t -> is_some (o_doc t u) = true ->
  exists s', update_all s u v cs = (s', false) /\ R s' (text_entry t (u, v, cs)).
Proof.
  intros [H1 H2 H3 H4 H5] Ho. cbn in *. unfold text_entry.
  destruct (o_doc t u) as [[d l]|] eqn:E; [|discriminate].
  destruct (update_all_open u v cs s d l) as (s' & E' & (F1 & F2 & F3 & F4) & G).
  { rewrite H1. exact E. }
  exists s'. split; [exact E'|].
  split; cbn; intros; try rewrite F1; try rewrite F2; try rewrite F3; try rewrite F4; auto.
  rewrite G. unfold upd. rewrite H1. reflexivity.
Qed.

Lemma R_text_entries es : forall s t,
  R s t ->
  exists s', text_content s es = (s', snd (text_entries t es)) /\ R s' (fst (text_entries t es)).
Proof.
  induction es as [|[[u v] cs] r IH]; intros s t HR.
  - exists s. split; [reflexivity|exact HR].
  - cbn [text_content text_entries].
    destruct (o_doc t u) as [[d l]|] eqn:Eo.
    + destruct (R_text_entry s t u v cs HR) as (s1 & E1 & R1); [rewrite Eo; reflexivity|].
      rewrite E1. apply IH. exact R1.
    + destruct cs as [|c cs'].
      * cbn [update_all]. assert (Et : text_entry t (u, v, []) = t) by (unfold text_entry; rewrite Eo; reflexivity).
        rewrite Et. apply IH. exact HR.
      * cbn [update_all]. unfold ws_update_text_document.
        rewrite (eq_doc _ _ HR u : aget u (w_docs s) = _), Eo.
        exists s. split; [reflexivity|exact HR].
Qed.

Lemma text_entries_frame es : forall t,
  o_nb (fst (text_entries t es)) = o_nb t /\
  (forall x, is_some (o_doc (fst (text_entries t es)) x) = is_some (o_doc t x)) /\
  (inv_cells t -> inv_cells (fst (text_entries t es))).
Proof.
  induction es as [|[[u v] cs] r IH]; intros t; [repeat split; auto|].
  cbn [text_entries].
  assert (Hgo : o_nb (fst (text_entries (text_entry t (u, v, cs)) r)) = o_nb t /\
    (forall x, is_some (o_doc (fst (text_entries (text_entry t (u, v, cs)) r)) x) = is_some (o_doc t x)) /\
    (inv_cells t -> inv_cells (fst (text_entries (text_entry t (u, v, cs)) r)))).
  { destruct (IH (text_entry t (u, v, cs))) as (A & B & C). split; [|split].
    - rewrite A. destruct (o_doc t u) as [[d l]|] eqn:E; unfold text_entry; rewrite E; reflexivity.
    - intros x. rewrite B. apply is_some_text_entry.
    - intros Hi. apply C. intros x Hx. assert (Hs := is_some_text_entry t (u, v, cs) x).
      rewrite Hx in Hs. cbn in Hs. destruct (o_doc t x) eqn:E; [discriminate|].
      unfold text_entry. destruct (o_doc t u) as [[d l]|]; cbn; apply Hi; exact E. }
  destruct (o_doc t u) as [[d l]|]; [exact Hgo|]. destruct cs; [exact Hgo|]. repeat split; auto.
Qed.

Lemma inv_cells_text_entry t e : inv_cells t -> inv_cells (text_entry t e).
Proof.
  intros Hi x Hx. assert (Hs := is_some_text_entry t e x). rewrite Hx in Hs. cbn in Hs.
  destruct (o_doc t x) eqn:E; [discriminate|].
  destruct e as [[u v] cs]. unfold text_entry. destruct (o_doc t u) as [[d l]|]; cbn; apply Hi; exact E.
Qed.

Lemma inv_cells_fold_text es : forall t, inv_cells t -> inv_cells (fold_left text_entry es t).
Proof.
  induction es as [|e r IH]; intros t H; [exact H|]. apply IH. apply inv_cells_text_entry. exact H.
Qed.

Lemma o_nb_text_entry t e : o_nb (text_entry t e) = o_nb t.
Proof. destruct e as [[u v] cs]. unfold text_entry. destruct (o_doc t u) as [[d l]|]; reflexivity. Qed.

Lemma o_nb_fold_text es : forall t, o_nb (fold_left text_entry es t) = o_nb t.
Proof.
  induction es as [|e r IH]; intros t; [reflexivity|]. cbn [fold_left]. rewrite IH. apply o_nb_text_entry.
Qed.

(* ---------------- cell data: the last cell with that document = every such cell ---------------- *)

Lemma cell_docs_data_all cells d : cell_docs (data_all cells d) = cell_docs cells.
Proof.
  unfold cell_docs, data_all. rewrite map_map. apply map_ext. intros c.
  destruct (c_doc c =? c_doc d); reflexivity.
Qed.

Lemma cell_docs_fold_data ds : forall cells, cell_docs (fold_left data_all ds cells) = cell_docs cells.
Proof.
  induction ds as [|d r IH]; intros cells; [reflexivity|].
  cbn [fold_left]. rewrite IH. apply cell_docs_data_all.
Qed.

Lemma data_all_nomatch cells d : memb (c_doc d) (cell_docs cells) = false -> data_all cells d = cells.
Proof.
  induction cells as [|c r IH]; intros H; [reflexivity|].
  change (cell_docs (c :: r)) with (c_doc c :: cell_docs r) in H. rewrite memb_cons in H. apply orb_false_iff in H.
  destruct H as [H1 H2]. unfold data_all. cbn [map]. rewrite N.eqb_sym, H1. f_equal. apply IH. exact H2.
Qed.

Lemma upd_last_some_mem d cells r' :
  upd_last_cell d cells = Some r' -> memb (c_doc d) (cell_docs cells) = true.
Proof.
  revert r'. induction cells as [|c r IH]; intros r' H; [discriminate|].
  cbn [upd_last_cell] in H. change (cell_docs (c :: r)) with (c_doc c :: cell_docs r). rewrite memb_cons.
  destruct (upd_last_cell d r) as [x|] eqn:E.
  - rewrite (IH x eq_refl). apply orb_true_r.
  - destruct (c_doc c =? c_doc d) eqn:E2; [|discriminate]. rewrite N.eqb_sym, E2. reflexivity.
Qed.

Lemma upd_last_none_mem d cells :
  upd_last_cell d cells = None -> memb (c_doc d) (cell_docs cells) = false.
Proof.
  induction cells as [|c r IH]; intros H; [reflexivity|].
  cbn [upd_last_cell] in H. change (cell_docs (c :: r)) with (c_doc c :: cell_docs r). rewrite memb_cons.
  destruct (upd_last_cell d r) as [x|] eqn:E; [discriminate|].
  destruct (c_doc c =? c_doc d) eqn:E2; [discriminate|]. rewrite N.eqb_sym, E2. apply IH. reflexivity.
Qed.

Lemma apply_cell_data_all cells d :
  nodupb (cell_docs cells) = true -> apply_cell_data cells d = data_all cells d.
Proof.
  induction cells as [|c r IH]; intros Hn; [reflexivity|].
  change (cell_docs (c :: r)) with (c_doc c :: cell_docs r) in Hn. cbn [nodupb] in Hn. apply andb_true_iff in Hn. destruct Hn as [Hc Hr].
  apply negb_true_iff in Hc. specialize (IH Hr).
  unfold apply_cell_data in *. cbn [upd_last_cell]. unfold data_all. cbn [map]. fold (data_all r d).
  destruct (upd_last_cell d r) as [r'|] eqn:E.
  - rewrite <- IH. apply upd_last_some_mem in E.
    destruct (c_doc c =? c_doc d) eqn:E2; [|reflexivity].
    apply N.eqb_eq in E2. rewrite E2 in Hc. congruence.
  - apply upd_last_none_mem in E. rewrite (data_all_nomatch r d E).
    destruct (c_doc c =? c_doc d); reflexivity.
Qed.

Lemma fold_apply_cell_data ds : forall cells,
  nodupb (cell_docs cells) = true ->
  fold_left apply_cell_data ds cells = fold_left data_all ds cells.
Proof.
  induction ds as [|d r IH]; intros cells Hn; [reflexivity|].
  cbn [fold_left]. rewrite (apply_cell_data_all cells d Hn). apply IH.
  rewrite cell_docs_data_all. exact Hn.
Qed.

(* data as a map over the cells *)
Definition data1 (c d : nbcell) : nbcell :=
  if c_doc c =? c_doc d then mkCell (c_kind d) (c_doc c) (c_meta d) (c_exec d) else c.

Lemma fold_data_map ds : forall cells,
  fold_left data_all ds cells = map (fun c => fold_left data1 ds c) cells.
Proof.
  induction ds as [|d r IH]; intros cells.
  - cbn [fold_left]. symmetry. apply map_id.
  - cbn [fold_left]. rewrite IH. unfold data_all. rewrite map_map. reflexivity.
Qed.

Lemma c_doc_data1 c d : c_doc (data1 c d) = c_doc c.
Proof. unfold data1. destruct (c_doc c =? c_doc d); reflexivity. Qed.

Lemma fold_data1_id ds : forall c,
  forallb (fun d => negb (c_doc d =? c_doc c)) ds = true -> fold_left data1 ds c = c.
Proof.
  induction ds as [|d r IH]; intros c H; [reflexivity|].
  cbn [forallb] in H. apply andb_true_iff in H. destruct H as [H1 H2]. apply negb_true_iff in H1.
  cbn [fold_left]. unfold data1 at 2. rewrite N.eqb_sym, H1. apply IH. exact H2.
Qed.

Lemma take_map {A B} (f : A -> B) l : forall n, take n (map f l) = map f (take n l).
Proof.
  induction l as [|x r IH]; intros n; [reflexivity|].
  cbn [map take]. destruct (n =? 0); [reflexivity|]. cbn [map]. rewrite IH. reflexivity.
Qed.

Lemma drop_map {A B} (f : A -> B) l : forall n, drop n (map f l) = map f (drop n l).
Proof.
  induction l as [|x r IH]; intros n; [reflexivity|].
  cbn [map drop]. destruct (n =? 0); [reflexivity|]. apply IH.
Qed.

(* data before the splice (the code) = data after the splice (the reference), when no data names a
   new cell and the old cells are distinct *)
Lemma data_splice_commute cells st ds :
  nodupb (cell_docs cells) = true ->
  forallb (fun d => negb (memb (c_doc d) (cell_docs (st_cells st)))) ds = true ->
  splice_cells (fold_left apply_cell_data ds cells) st =
  fold_left data_all ds (splice cells (st_start st) (st_delete st) (st_cells st)).
Proof.
  intros Hn Hd. rewrite (fold_apply_cell_data ds cells Hn).
  rewrite !fold_data_map. unfold splice_cells, splice.
  rewrite take_map, drop_map, !map_app. f_equal. f_equal.
  rewrite <- (map_id (st_cells st)) at 1. apply map_ext_in. intros c Hc.
  symmetry. apply fold_data1_id. rewrite forallb_forall in *. intros d Hd'.
  specialize (Hd d Hd'). apply negb_true_iff in Hd. apply negb_true_iff.
  apply N.eqb_neq. intros E. apply memb_false in Hd. apply Hd. rewrite E.
  unfold cell_docs. apply in_map. exact Hc.
Qed.

(* ---------------- workspace folders ---------------- *)

Definition folder_loop (s : ws) (p : option (N * N) * option N) : ws :=
  let s1 := match fst p with Some f => add_folder s f | None => s end in
  match snd p with Some u => remove_folder s1 u | None => s1 end.

Definition same_but_folders (s s' : ws) : Prop :=
  w_docs s' = w_docs s /\ w_nbs s' = w_nbs s /\ w_cells s' = w_cells s /\ w_errs s' = w_errs s.

Lemma folder_loop_frame ps : forall s, same_but_folders s (fold_left folder_loop ps s).
Proof.
  induction ps as [|[a b] r IH]; intros s; [repeat split|].
  cbn [fold_left]. destruct (IH (folder_loop s (a, b))) as (H1 & H2 & H3 & H4).
  unfold same_but_folders. rewrite H1, H2, H3, H4.
  unfold folder_loop. cbn [fst snd]. destruct a, b; repeat split.
Qed.

Lemma alast_in u l x : alast u l = Some x -> In u (map fst l).
Proof.
  induction l as [|[k v] r IH]; intros H; [discriminate|].
  cbn [alast] in H. cbn [map fst]. destruct (alast u r) eqn:E.
  - right. apply IH. exact H.
  - destruct (u =? k) eqn:E2; [|discriminate]. apply N.eqb_eq in E2. left. congruence.
Qed.

Lemma folders_removed_only removed : forall s u,
  aget u (w_folders (fold_left folder_loop (map (fun y => (None, Some y)) removed) s)) =
  if memb u removed then None else aget u (w_folders s).
Proof.
  induction removed as [|y r IH]; intros s u; [reflexivity|].
  cbn [map fold_left]. rewrite IH. rewrite memb_cons.
  unfold folder_loop. cbn. rewrite aget_adel.
  destruct (u =? y), (memb u r); reflexivity.
Qed.

Lemma folders_interleaved added : forall removed s u,
  forallb (fun f => negb (memb (fst f) removed)) added = true ->
  aget u (w_folders (fold_left folder_loop (zip_longest added removed) s)) =
  if memb u removed then None
  else match alast u added with Some nm => Some nm | None => aget u (w_folders s) end.
Proof.
  induction added as [|[k nm] a IH]; intros removed s u Hd.
  - cbn [zip_longest alast]. apply folders_removed_only.
  - cbn [forallb fst] in Hd. apply andb_true_iff in Hd. destruct Hd as [Hk Ha].
    apply negb_true_iff in Hk.
    destruct removed as [|y b]; cbn [zip_longest fold_left].
    + rewrite (IH [] _ u) by (rewrite forallb_forall; intros; reflexivity).
      cbn [memb existsb alast]. destruct (alast u a); [reflexivity|].
      unfold folder_loop. cbn. rewrite aget_aset. destruct (u =? k); reflexivity.
    + rewrite memb_cons in Hk. apply orb_false_iff in Hk. destruct Hk as [Hky Hkb].
      assert (Ha' : forallb (fun f => negb (memb (fst f) b)) a = true).
      { rewrite forallb_forall in *. intros f Hf. specialize (Ha f Hf).
        apply negb_true_iff in Ha. rewrite memb_cons in Ha. apply orb_false_iff in Ha.
        apply negb_true_iff. tauto. }
      rewrite (IH b _ u Ha'). rewrite memb_cons. cbn [alast].
      unfold folder_loop. cbn. rewrite aget_adel, aget_aset.
      destruct (u =? y) eqn:Euy.
      * apply N.eqb_eq in Euy. subst u. cbn [orb].
        destruct (memb y b); [reflexivity|].
        destruct (alast y a) eqn:El; [|reflexivity].
        exfalso. apply alast_in in El. apply in_map_iff in El. destruct El as (f & Ef & Hf).
        rewrite forallb_forall in Ha. specialize (Ha f Hf). rewrite Ef, memb_cons, N.eqb_refl in Ha.
        discriminate.
      * cbn [orb]. destruct (memb u b); [reflexivity|]. destruct (alast u a); [reflexivity|].
        destruct (u =? k); reflexivity.
Qed.

Lemma init_folders fs : forall s u,
  aget u (w_folders (fold_left add_folder fs s)) =
  match alast u fs with Some nm => Some nm | None => aget u (w_folders s) end.
Proof.
  induction fs as [|[k nm] r IH]; intros s u; [reflexivity|].
  cbn [fold_left alast]. rewrite IH. destruct (alast u r); [reflexivity|].
  unfold add_folder. cbn. rewrite aget_aset. destruct (u =? k); reflexivity.
Qed.

Lemma init_frame fs : forall s, same_but_folders s (fold_left add_folder fs s).
Proof.
  induction fs as [|f r IH]; intros s; [repeat split|].
  cbn [fold_left]. destruct (IH (add_folder s f)) as (H1 & H2 & H3 & H4).
  unfold same_but_folders. rewrite H1, H2, H3, H4. repeat split.
Qed.

Lemma init_refines fs : R (init_ws fs) (spec_init fs).
Proof.
  unfold init_ws. destruct (init_frame fs (mkWs [] [] [] [] 0)) as (H1 & H2 & H3 & H4).
  split; cbn; intros; try rewrite H1; try rewrite H2; try rewrite H3; try rewrite H4; try reflexivity.
  rewrite init_folders. destruct (alast u fs); reflexivity.
Qed.

(* ---------------- one operation ---------------- *)

Definition refines_on (cf : encoding * sync_kind) (o : op) : Prop :=
  forall s t, R s t -> inv_cells t -> inv_nodup t -> wf_op cf t o = true ->
    R (impl_step cf s o) (spec_step cf t o) /\
    inv_cells (spec_step cf t o) /\ inv_nodup (spec_step cf t o).

Lemma inv_cells_with_nb t f : inv_cells t -> inv_cells (o_with_nb t f).
Proof. intros H x. apply H. Qed.

Lemma inv_nodup_same_nb t t' : o_nb t' = o_nb t -> inv_nodup t -> inv_nodup t'.
Proof. intros E H n nb. rewrite E. apply H. Qed.

Lemma inv_nodup_upd t t' n x :
  o_nb t' = upd (o_nb t) n x -> inv_nodup t ->
  (forall nb, x = Some nb -> nodupb (cell_docs (n_cells nb)) = true) -> inv_nodup t'.
Proof.
  intros E H Hx n' nb. rewrite E. unfold upd. destruct (n' =? n); [apply Hx|apply H].
Qed.

Lemma R_report s t : R s t -> R (with_errs s (w_errs s + 1)) (report t).
Proof.
  intros [H1 H2 H3 H4 H5]. split; cbn in *; intros; auto. rewrite H5. reflexivity.
Qed.

Lemma R_handle_finish r q :
  snd r = snd q -> R (fst r) (fst q) -> R (handle r) (finish q).
Proof.
  intros E HR. unfold handle, finish. rewrite E. destruct (snd q); [apply R_report|]; exact HR.
Qed.

Lemma op_refines_did_open cf it : refines_on cf (DidOpen it).
Proof.
  intros s t HR Hc Hn Hw. cbn [impl_step spec_step].
  split; [apply R_put_none; assumption|]. split; [apply inv_cells_open; exact Hc|].
  apply (inv_nodup_same_nb t); [apply o_nb_open|exact Hn].
Qed.

Lemma op_refines_did_change cf u v cs : refines_on cf (DidChange u v cs).
Proof.
  intros s t HR Hc Hn Hw. cbn [impl_step spec_step wf_op] in *.
  unfold lsp_did_change, get_text_document.
  rewrite (eq_doc _ _ HR u : aget u (w_docs s) = _).
  destruct (o_doc t u) as [[d l]|] eqn:E.
  - cbn [handle fst snd]. destruct HR as [H1 H2 H3 H4 H5]. cbn in H1, H2, H3, H4, H5.
    split; [|split].
    + split; cbn; intros; unfold upd; try rewrite aget_aset; try rewrite H1; auto.
    + intros x. cbn. unfold upd. destruct (x =? u); [discriminate|apply Hc].
    + exact Hn.
  - destruct cs as [|c cs']; cbn [handle fst snd].
    + auto.
    + split; [apply R_report; exact HR|]. split; [exact Hc|exact Hn].
Qed.

Lemma op_refines_did_close cf u : refines_on cf (DidClose u).
Proof.
  intros s t HR Hc Hn Hw. cbn [impl_step spec_step].
  split; [apply R_remove; exact HR|]. split; [apply inv_cells_close; exact Hc|exact Hn].
Qed.

Lemma op_refines_nb_open cf n nb items : refines_on cf (NbOpen n nb items).
Proof.
  intros s t HR Hc Hn Hw. cbn [impl_step spec_step wf_op] in *. unfold put_notebook_document.
  split; [|split].
  - apply R_fold_put. apply (R_with_nbs s t n (Some nb) HR).
  - apply inv_cells_fold_open. apply inv_cells_with_nb. exact Hc.
  - apply (inv_nodup_upd t _ n (Some nb)); [apply o_nb_fold_open|exact Hn|].
    intros nb' E. injection E as <-. exact Hw.
Qed.

Lemma op_refines_nb_close cf n cs : refines_on cf (NbClose n cs).
Proof.
  intros s t HR Hc Hn Hw. cbn [impl_step spec_step]. unfold remove_notebook_document.
  split; [|split].
  - apply R_fold_remove. apply (R_with_nbs s t n None HR).
  - apply inv_cells_fold_close. apply inv_cells_with_nb. exact Hc.
  - apply (inv_nodup_upd t _ n None); [apply o_nb_fold_close|exact Hn|]. intros nb' E. discriminate.
Qed.

Lemma op_refines_folders cf added removed : refines_on cf (Folders added removed).
Proof.
  intros s t HR Hc Hn Hw. cbn [impl_step spec_step wf_op] in *.
  unfold lsp_did_change_workspace_folders. fold folder_loop.
  destruct (folder_loop_frame (zip_longest added removed) s) as (F1 & F2 & F3 & F4).
  destruct HR as [H1 H2 H3 H4 H5]. cbn in H1, H2, H3, H4, H5.
  split; [|split; [exact Hc|exact Hn]].
  split; cbn; intros; try rewrite F1; try rewrite F2; try rewrite F3; try rewrite F4; auto.
  rewrite (folders_interleaved added removed s u Hw). rewrite H4. reflexivity.
Qed.

(* the documents after the structure part do not depend on the notebook table *)
Lemma o_doc_fold_open_ext cf owner items : forall t t',
  o_doc t = o_doc t' ->
  o_doc (fold_left (open_item cf owner) items t) = o_doc (fold_left (open_item cf owner) items t').
Proof.
  induction items as [|[[[u lang] v] text] r IH]; intros t t' H; [exact H|].
  cbn [fold_left]. apply IH. destruct owner; cbn; rewrite H; reflexivity.
Qed.

Lemma o_doc_fold_close_ext cs : forall t t',
  o_doc t = o_doc t' -> o_doc (fold_left close_doc cs t) = o_doc (fold_left close_doc cs t').
Proof.
  induction cs as [|c r IH]; intros t t' H; [exact H|].
  cbn [fold_left]. apply IH. cbn. rewrite H. reflexivity.
Qed.

Lemma o_doc_after_structure_ext cf n cc t t' :
  o_doc t = o_doc t' -> o_doc (after_structure cf n t cc) = o_doc (after_structure cf n t' cc).
Proof.
  intros H. unfold after_structure. destruct (cc_structure cc); [|exact H].
  apply o_doc_fold_close_ext. apply o_doc_fold_open_ext. exact H.
Qed.

Lemma o_doc_report_finish q x : o_doc (finish q) x = o_doc (fst q) x.
Proof. unfold finish. destruct (snd q); reflexivity. Qed.

Lemma op_refines_nb_change cf n v meta cc : refines_on cf (NbChange n v meta cc).
Proof.
  intros s t HR Hc Hn Hw. cbn [impl_step spec_step] in *.
  unfold update_notebook_document.
  rewrite (eq_nb _ _ HR n : aget n (w_nbs s) = _).
  destruct (o_nb t n) as [nb|] eqn:En.
  2:{ cbn [handle fst snd]. split; [apply R_report; exact HR|]. split; [exact Hc|exact Hn]. }
  assert (Hnb := Hn n nb En).
  cbn [n_version n_meta n_type n_cells].
  set (meta' := match meta with Some m => Some m | None => n_meta nb end).
  destruct cc as [cc|].
  - (* cell changes *)
    cbn [wf_op] in Hw. rewrite En in Hw.
    set (t1 := o_with_nb t (upd (o_nb t) n (Some (mkNb v meta' (n_type nb) (new_cells (n_cells nb) cc))))).
    assert (Hcells : nodupb (cell_docs (new_cells (n_cells nb) cc)) = true).
    { unfold new_cells. rewrite cell_docs_fold_data. destruct (cc_structure cc) as [st|]; [|exact Hnb].
      apply andb_true_iff in Hw. tauto. }
    set (q := text_entries (after_structure cf n t1 cc) (cc_text cc)).
    assert (HR3 : exists s3,
      match cc_structure cc with
      | None =>
        text_content (with_nbs s (aset n (mkNb v meta' (n_type nb)
                        (fold_left apply_cell_data (cc_data cc) (n_cells nb))) (w_nbs s))) (cc_text cc)
      | Some st =>
        text_content
          (fold_left remove_text_document (st_close st)
             (fold_left (fun s it => put_text_document cf s it (Some n)) (st_open st)
                (with_nbs s (aset n (mkNb v meta' (n_type nb)
                   (splice_cells (fold_left apply_cell_data (cc_data cc) (n_cells nb)) st)) (w_nbs s)))))
          (cc_text cc)
      end = (s3, snd q) /\ R s3 (fst q)).
    { unfold q, after_structure in *. unfold new_cells in t1. destruct (cc_structure cc) as [st|].
      - apply andb_true_iff in Hw. destruct Hw as [_ Hd].
        apply R_text_entries.
        apply R_fold_remove. apply R_fold_put.
        rewrite (data_splice_commute (n_cells nb) st (cc_data cc) Hnb Hd).
        apply (R_with_nbs s t n (Some _) HR).
      - apply R_text_entries.
        rewrite (fold_apply_cell_data (cc_data cc) (n_cells nb) Hnb).
        apply (R_with_nbs s t n (Some _) HR). }
    destruct HR3 as (s3 & E3 & R3).
    destruct (text_entries_frame (cc_text cc) (after_structure cf n t1 cc)) as (Fnb & Fdoc & Finv).
    fold q in Fnb, Fdoc, Finv.
    assert (Hinv : inv_cells (after_structure cf n t1 cc)).
    { unfold after_structure. destruct (cc_structure cc).
      * apply inv_cells_fold_close. apply inv_cells_fold_open. apply inv_cells_with_nb. exact Hc.
      * apply inv_cells_with_nb. exact Hc. }
    split; [|split].
    + destruct (cc_structure cc); rewrite E3; apply (R_handle_finish (s3, snd q) q eq_refl R3).
    + intros x. unfold finish. destruct (snd q); cbn; apply (Finv Hinv x).
    + apply (inv_nodup_upd t _ n (Some (mkNb v meta' (n_type nb) (new_cells (n_cells nb) cc)))); [|exact Hn|].
      * transitivity (o_nb (fst q)); [unfold finish; destruct (snd q); reflexivity|].
        rewrite Fnb. unfold after_structure. destruct (cc_structure cc); [|reflexivity].
        rewrite o_nb_fold_close, o_nb_fold_open. reflexivity.
      * intros nb' E. injection E as <-. exact Hcells.
  - (* no cell changes *)
    cbn [handle fst snd].
    split; [apply (R_with_nbs s t n (Some _) HR)|]. split; [apply inv_cells_with_nb; exact Hc|].
    apply (inv_nodup_upd t _ n (Some (mkNb v meta' (n_type nb) (n_cells nb)))); [reflexivity|exact Hn|].
    intros nb' E. injection E as <-. exact Hnb.
Qed.

Theorem op_refines cf o : refines_on cf o.
Proof.
  destruct o.
  - apply op_refines_did_open.
  - apply op_refines_did_change.
  - apply op_refines_did_close.
  - apply op_refines_nb_open.
  - apply op_refines_nb_change.
  - apply op_refines_nb_close.
  - apply op_refines_folders.
Qed.

(* ---------------- histories ---------------- *)

Lemma fold_refines_inv cf h : forall s t,
  R s t -> inv_cells t -> inv_nodup t -> wf_hist cf t h = true ->
  R (fold_left (impl_step cf) h s) (fold_left (spec_step cf) h t) /\
  inv_cells (fold_left (spec_step cf) h t) /\ inv_nodup (fold_left (spec_step cf) h t).
Proof.
  induction h as [|o r IH]; intros s t HR Hc Hn Hw; [auto|].
  cbn [wf_hist] in Hw. apply andb_true_iff in Hw. destruct Hw as [Ho Hr].
  destruct (op_refines cf o s t HR Hc Hn Ho) as (HR' & Hc' & Hn').
  cbn [fold_left]. apply IH; assumption.
Qed.

Lemma inv_init fs : inv_cells (spec_init fs) /\ inv_nodup (spec_init fs).
Proof. split; [intros u _; reflexivity|intros n nb H; discriminate]. Qed.

Theorem fold_refines cf fs h :
  wf_history cf fs h = true -> obs_eq (observe (run_ws cf fs h)) (spec_run cf fs h).
Proof.
  intros Hw. destruct (inv_init fs) as [Hc Hn].
  exact (proj1 (fold_refines_inv cf h (init_ws fs) (spec_init fs) (init_refines fs) Hc Hn Hw)).
Qed.

(* every prefix of a well-formed history is well formed: the theorem speaks of the workspace after
   EVERY message *)
Lemma wf_hist_app cf h1 : forall t h2,
  wf_hist cf t (h1 ++ h2) = wf_hist cf t h1 && wf_hist cf (fold_left (spec_step cf) h1 t) h2.
Proof.
  induction h1 as [|o r IH]; intros t h2; [reflexivity|].
  cbn [app wf_hist fold_left]. rewrite IH. apply andb_assoc.
Qed.

Theorem wf_prefix cf fs h1 h2 : wf_history cf fs (h1 ++ h2) = true -> wf_history cf fs h1 = true.
Proof. unfold wf_history. rewrite wf_hist_app. intros H. apply andb_true_iff in H. tauto. Qed.

(* the derived index is consistent after a well-formed history: a cell the index knows is an open
   document, and the cells of every notebook are distinct documents *)
Theorem index_consistent cf fs h :
  wf_history cf fs h = true ->
  let s := run_ws cf fs h in
  (forall c n, aget c (w_cells s) = Some n -> aget c (w_docs s) <> None) /\
  (forall n nb, aget n (w_nbs s) = Some nb -> nodupb (cell_docs (n_cells nb)) = true).
Proof.
  intros Hw. destruct (inv_init fs) as [Hc Hn].
  destruct (fold_refines_inv cf h (init_ws fs) (spec_init fs) (init_refines fs) Hc Hn Hw) as (HR & Hc' & Hn').
  split.
  - intros c n E Hd. fold (run_ws cf fs h) in HR.
    assert (E1 := eq_doc _ _ HR c). assert (E2 := eq_cell _ _ HR c). cbn in E1, E2.
    rewrite Hd in E1. symmetry in E1. apply Hc' in E1. congruence.
  - intros n nb E. apply (Hn' n). rewrite <- E. symmetry. apply (eq_nb _ _ HR).
Qed.

(* ---------------- no error when every change refers to something open ---------------- *)

Lemma o_errs_fold {A} (f : obs -> A -> obs) (l : list A) :
  (forall t a, o_errs (f t a) = o_errs t) -> forall t, o_errs (fold_left f l t) = o_errs t.
Proof.
  intros Hf. induction l as [|a r IH]; intros t; [reflexivity|]. cbn [fold_left]. rewrite IH. apply Hf.
Qed.

Lemma o_errs_open cf owner t it : o_errs (open_item cf owner t it) = o_errs t.
Proof. destruct it as [[[u lang] v] text], owner; reflexivity. Qed.

Lemma o_errs_text t e : o_errs (text_entry t e) = o_errs t.
Proof. destruct e as [[u v] cs]. unfold text_entry. destruct (o_doc t u) as [[d l]|]; reflexivity. Qed.

Lemma text_entries_open es : forall t,
  forallb (fun e => is_some (o_doc t (fst (fst e)))) es = true ->
  snd (text_entries t es) = false /\ o_errs (fst (text_entries t es)) = o_errs t.
Proof.
  induction es as [|[[u v] cs] r IH]; intros t H; [split; reflexivity|].
  cbn [forallb fst] in H. apply andb_true_iff in H. destruct H as [Hu Hr].
  cbn [text_entries]. destruct (o_doc t u) as [[d l]|] eqn:E; [|discriminate].
  destruct (IH (text_entry t (u, v, cs))) as [A B].
  { rewrite forallb_forall in *. intros e He. rewrite is_some_text_entry. apply Hr. exact He. }
  split; [exact A|]. rewrite B. apply o_errs_text.
Qed.

Lemma o_errs_step cf t o : targets_open cf t o = true -> o_errs (spec_step cf t o) = o_errs t.
Proof.
  destruct o; cbn [spec_step targets_open]; intros Ht; try reflexivity.
  - apply o_errs_open.
  - destruct (o_doc t u) as [[d l]|]; [reflexivity|discriminate].
  - rewrite (o_errs_fold _ _ (o_errs_open cf (Some n))). reflexivity.
  - destruct (o_nb t n) as [nb|]; [|discriminate]. destruct cc as [cc|]; [|reflexivity].
    cbn [is_some andb] in Ht.
    match goal with |- o_errs (finish (text_entries ?T _)) = _ =>
      destruct (text_entries_open (cc_text cc) T) as [A B] end.
    { match goal with |- forallb (fun e => is_some (o_doc (after_structure cf n ?T1 cc) _)) _ = _ =>
        rewrite (o_doc_after_structure_ext cf n cc T1 t eq_refl) end. exact Ht. }
    unfold finish. rewrite A, B. unfold after_structure.
    destruct (cc_structure cc); [|reflexivity].
    rewrite (o_errs_fold close_doc _ (fun t u => eq_refl)).
    rewrite (o_errs_fold _ _ (o_errs_open cf (Some n))). reflexivity.
  - rewrite (o_errs_fold close_doc _ (fun t u => eq_refl)). reflexivity.
Qed.

Fixpoint all_targets_open (cf : encoding * sync_kind) (t : obs) (h : list op) : bool :=
  match h with
  | [] => true
  | o :: r => targets_open cf t o && all_targets_open cf (spec_step cf t o) r
  end.

Lemma o_errs_hist cf h : forall t,
  all_targets_open cf t h = true -> o_errs (fold_left (spec_step cf) h t) = o_errs t.
Proof.
  induction h as [|o r IH]; intros t H; [reflexivity|].
  cbn [all_targets_open] in H. apply andb_true_iff in H. destruct H as [Ho Hr].
  cbn [fold_left]. rewrite (IH _ Hr). apply o_errs_step. exact Ho.
Qed.

Theorem open_targets_no_error cf fs h :
  wf_history cf fs h = true -> all_targets_open cf (spec_init fs) h = true ->
  w_errs (run_ws cf fs h) = 0.
Proof.
  intros Hw Ht. rewrite (eq_errs _ _ (fold_refines cf fs h Hw) : w_errs _ = _).
  unfold spec_run. rewrite (o_errs_hist cf h _ Ht). reflexivity.
Qed.

(* ---------------- closed documents and cells are absent; `get` answers Disk ---------------- *)

Lemma fold_remove_docs cs : forall s x,
  aget x (w_docs (fold_left remove_text_document cs s)) = (if memb x cs then None else aget x (w_docs s)) /\
  aget x (w_cells (fold_left remove_text_document cs s)) = (if memb x cs then None else aget x (w_cells s)).
Proof.
  induction cs as [|c r IH]; intros s x; [split; reflexivity|].
  cbn [fold_left]. destruct (IH (remove_text_document s c) x) as [E1 E2]. rewrite E1, E2, memb_cons.
  cbn. rewrite !aget_adel. destruct (x =? c), (memb x r); split; reflexivity.
Qed.

Lemma fold_remove_nbs cs : forall s, w_nbs (fold_left remove_text_document cs s) = w_nbs s.
Proof. induction cs as [|c r IH]; intros s; [reflexivity|]. cbn [fold_left]. rewrite IH. reflexivity. Qed.

(* in ANY state (well-formed history or not) *)
Theorem closed_absent cf s :
  (forall u, let s' := impl_step cf s (DidClose u) in
     aget u (w_docs s') = None /\ get_notebook_document s' None (Some u) = None) /\
  (forall n cs, let s' := impl_step cf s (NbClose n cs) in
     get_notebook_document s' (Some n) None = None /\
     forall c, In c cs -> aget c (w_docs s') = None /\ get_notebook_document s' None (Some c) = None).
Proof.
  split.
  - intros u. cbn. rewrite !aget_adel, N.eqb_refl. split; reflexivity.
  - intros n cs. cbn [impl_step]. unfold remove_notebook_document, get_notebook_document. split.
    + rewrite fold_remove_nbs. cbn. rewrite aget_adel, N.eqb_refl. reflexivity.
    + intros c Hc. apply memb_in in Hc.
      destruct (fold_remove_docs cs (with_nbs s (adel n (w_nbs s))) c) as [E1 E2].
      rewrite E1, E2, Hc. split; reflexivity.
Qed.

Theorem get_after_close_is_disk cf s u :
  get_text_document (impl_step cf s (DidClose u)) u = Disk u.
Proof.
  unfold get_text_document. rewrite (proj1 (proj1 (closed_absent cf s) u)). reflexivity.
Qed.

Lemma o_doc_fold_close cs : forall t x,
  o_doc (fold_left close_doc cs t) x = if memb x cs then None else o_doc t x.
Proof.
  induction cs as [|c r IH]; intros t x; [reflexivity|].
  cbn [fold_left]. rewrite IH, memb_cons. cbn. unfold upd. destruct (x =? c), (memb x r); reflexivity.
Qed.

(* a cell closed by the structure part of a well-formed change of an open notebook is absent afterwards *)
Theorem closed_cell_absent cf fs h n v meta cc st c :
  wf_history cf fs (h ++ [NbChange n v meta (Some cc)]) = true ->
  aget n (w_nbs (run_ws cf fs h)) <> None ->
  cc_structure cc = Some st -> In c (st_close st) ->
  get_text_document (run_ws cf fs (h ++ [NbChange n v meta (Some cc)])) c = Disk c.
Proof.
  intros Hw Hopen Est Hc.
  assert (HR := fold_refines cf fs _ Hw).
  assert (HR0 := fold_refines cf fs h (wf_prefix cf fs h _ Hw)).
  rewrite (eq_nb _ _ HR0 n : aget n _ = _) in Hopen.
  unfold get_text_document. rewrite (eq_doc _ _ HR c : aget c _ = _).
  unfold spec_run. rewrite fold_left_app. cbn [fold_left spec_step].
  fold (spec_run cf fs h) in *.
  destruct (o_nb (spec_run cf fs h) n) as [nb|]; [|contradiction].
  match goal with |- match ?x with _ => _ end = _ => assert (E : is_some x = false) end.
  { rewrite o_doc_report_finish.
    match goal with |- is_some (o_doc (fst (text_entries ?T ?es)) c) = _ =>
      rewrite (proj1 (proj2 (text_entries_frame es T)) c) end.
    unfold after_structure. rewrite Est. rewrite o_doc_fold_close.
    apply memb_in in Hc. rewrite Hc. reflexivity. }
  match goal with |- match ?x with _ => _ end = _ => destruct x as [[d l]|] end; [discriminate|reflexivity].
Qed.

(* ---------------- a change never opens a document: what is not open stays absent ---------------- *)

Lemma update_all_domain u v cs : forall s x,
  is_some (aget x (w_docs (fst (update_all s u v cs)))) = is_some (aget x (w_docs s)).
Proof.
  induction cs as [|c r IH]; intros s x; [reflexivity|].
  cbn [update_all]. unfold ws_update_text_document.
  destruct (aget u (w_docs s)) as [[d l]|] eqn:E; [|reflexivity].
  rewrite IH. cbn. rewrite aget_aset. destruct (x =? u) eqn:Ex; [|reflexivity].
  apply N.eqb_eq in Ex. subst x. rewrite E. reflexivity.
Qed.

Lemma text_content_domain es : forall s x,
  is_some (aget x (w_docs (fst (text_content s es)))) = is_some (aget x (w_docs s)).
Proof.
  induction es as [|[[u v] cs] r IH]; intros s x; [reflexivity|].
  cbn [text_content]. assert (H := update_all_domain u v cs s x).
  destruct (update_all s u v cs) as [s' e]. cbn [fst] in H. destruct e; [exact H|].
  rewrite IH. exact H.
Qed.

Lemma handle_docs r : w_docs (handle r) = w_docs (fst r).
Proof. unfold handle. destruct (snd r); reflexivity. Qed.

Lemma fold_put_docs cf n items : forall s x,
  ~ In x (map (fun it => fst (fst (fst it))) items) ->
  aget x (w_docs (fold_left (fun s it => put_text_document cf s it (Some n)) items s)) = aget x (w_docs s).
Proof.
  induction items as [|[[[u lang] v] text] r IH]; intros s x Hx; [reflexivity|].
  cbn [fold_left]. rewrite IH by (intros H; apply Hx; right; exact H).
  cbn. rewrite aget_aset. destruct (x =? u) eqn:E; [|reflexivity].
  apply N.eqb_eq in E. exfalso. apply Hx. left. cbn. congruence.
Qed.

(* in ANY state: textDocument/didChange never makes a document appear (a change for a closed or
   never-opened uri leaves it absent: it keeps being served from disk); a notebook change opens
   exactly the documents its structure part lists under didOpen *)
Theorem change_never_opens cf s :
  (forall u v cs x, aget x (w_docs s) = None ->
     get_text_document (impl_step cf s (DidChange u v cs)) x = Disk x) /\
  (forall n v meta cc x, aget x (w_docs s) = None ->
     (forall c st, cc = Some c -> cc_structure c = Some st ->
                   ~ In x (map (fun it => fst (fst (fst it))) (st_open st))) ->
     get_text_document (impl_step cf s (NbChange n v meta cc)) x = Disk x).
Proof.
  split.
  - intros u v cs x Hx. unfold get_text_document. cbn [impl_step]. rewrite handle_docs.
    unfold lsp_did_change, get_text_document.
    destruct (aget u (w_docs s)) as [[d l]|] eqn:E.
    + cbn. rewrite aget_aset. destruct (x =? u) eqn:Ex; [|rewrite Hx; reflexivity].
      apply N.eqb_eq in Ex. subst x. congruence.
    + destruct cs; cbn; rewrite Hx; reflexivity.
  - intros n v meta cc x Hx Hno. unfold get_text_document. cbn [impl_step]. rewrite handle_docs.
    assert (G : is_some (aget x (w_docs (fst (update_notebook_document cf s n v meta cc)))) = false).
    { unfold update_notebook_document. destruct (aget n (w_nbs s)) as [nb|]; [|cbn; rewrite Hx; reflexivity].
      destruct cc as [cc|]; [|cbn; rewrite Hx; reflexivity].
      destruct (cc_structure cc) as [st|] eqn:Est.
      - rewrite text_content_domain.
        rewrite (proj1 (fold_remove_docs (st_close st) _ x)).
        destruct (memb x (st_close st)); [reflexivity|].
        rewrite fold_put_docs by (apply (Hno cc st eq_refl Est)). cbn. rewrite Hx. reflexivity.
      - rewrite text_content_domain. cbn. rewrite Hx. reflexivity. }
    destruct (aget x (w_docs (fst (update_notebook_document cf s n v meta cc)))) as [[d l]|]; [discriminate|reflexivity].
Qed.

(* ---------------- which document a didChange reaches (the link to C04) ---------------- *)

Theorem did_change_selects cf s u v cs d l :
  aget u (w_docs s) = Some (d, l) ->
  forall x, aget x (w_docs (impl_step cf s (DidChange u v cs))) =
            if x =? u then Some (did_change d (v, cs), l) else aget x (w_docs s).
Proof.
  intros E x. cbn [impl_step]. unfold lsp_did_change, get_text_document. rewrite E.
  cbn. apply aget_aset.
Qed.

(* a didOpen followed by didChange notifications for the same uri: the stored document is C04's
   `Doc.run` of that session, so C04's theorems say what its text and version are *)
Lemma session_changes cf u l ns : forall s d,
  aget u (w_docs s) = Some (d, l) ->
  aget u (w_docs (fold_left (impl_step cf) (map (fun n => DidChange u (fst n) (snd n)) ns) s)) =
  Some (fold_left did_change ns d, l).
Proof.
  induction ns as [|[v cs] r IH]; intros s d E; [exact E|].
  cbn [map fold_left fst snd]. apply IH.
  rewrite (did_change_selects cf s u v cs d l E u), N.eqb_refl. reflexivity.
Qed.

Theorem session_is_doc_run cf s u l v0 text ns :
  aget u (w_docs (fold_left (impl_step cf)
                   (DidOpen (u, l, v0, text) :: map (fun n => DidChange u (fst n) (snd n)) ns) s)) =
  Some (run (fst cf) (snd cf) text v0 ns, l).
Proof.
  cbn [fold_left]. unfold run. apply session_changes. cbn. apply aget_aset_eq.
Qed.
