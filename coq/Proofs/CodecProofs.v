From Coq Require Import ZArith NArith List Bool Lia ZifyBool ZifyN ZifyNat.
From Pygls Require Import Base.Unicode Base.PyStr Model.Codec Spec.CodecSpec.
Ltac Zify.zify_post_hook ::= Z.to_euclidean_division_equations.
Open Scope N_scope.

(* ---------- per-character widths ---------- *)

Lemma loop_width_utf16 c : loop_width Utf16 c = utf16_width c.
Proof.
  unfold loop_width, astral, utf16_width.
  destruct (0xFFFF <? c) eqn:E; destruct (c <? 0x10000) eqn:F; try reflexivity; lia.
Qed.

Lemma loop_width_utf32 c : loop_width Utf32 c = utf32_width c.
Proof. unfold loop_width, utf32_width. destruct (astral c); reflexivity. Qed.

Lemma loop_width_pos e c : 1 <= loop_width e c.
Proof. unfold loop_width. destruct (astral c); destruct e; lia. Qed.

Lemma len_cons {A} (c : A) r : len (c :: r) = 1 + len r.
Proof. unfold len. cbn [length]. lia. Qed.

Lemma len_nil {A} : len (@nil A) = 0.
Proof. reflexivity. Qed.

Lemma count_astral_cons c r :
  count_astral (c :: r) = (if astral c then 1 else 0) + count_astral r.
Proof. unfold count_astral. cbn [filter]. destruct (astral c); [rewrite len_cons|]; lia. Qed.

Lemma cnu_cons e c r : client_num_units e (c :: r) = client_num_units e [c] + client_num_units e r.
Proof.
  unfold client_num_units.
  rewrite (count_astral_cons c r), (count_astral_cons c []), (len_cons c r), (len_cons c []).
  change (count_astral []) with 0. change (len (@nil N)) with 0. destruct e; destruct (astral c); lia.
Qed.

Lemma cnu_nil e : client_num_units e [] = 0.
Proof. destruct e; reflexivity. Qed.

Lemma cnu_single_utf16 c : client_num_units Utf16 [c] = utf16_width c.
Proof.
  unfold client_num_units. rewrite (count_astral_cons c []), (len_cons c []).
  change (count_astral []) with 0. change (len (@nil N)) with 0.
  unfold astral, utf16_width.
  destruct (0xFFFF <? c) eqn:E; destruct (c <? 0x10000) eqn:F; lia.
Qed.

Lemma cnu_single_utf32 c : client_num_units Utf32 [c] = utf32_width c.
Proof. reflexivity. Qed.

Lemma widths_exact_cons e c r :
  widths_exact e (c :: r) = widths_exact e [c] && widths_exact e r.
Proof. destruct e; cbn; try reflexivity. destruct (c <? 128); reflexivity. Qed.

Lemma loop_width_exact e c : widths_exact e [c] = true -> loop_width e c = true_width e c.
Proof.
  destruct e; intros H.
  - cbn in H. unfold loop_width, astral, true_width, utf8_width.
    replace (0xFFFF <? c) with false by lia. replace (c <? 0x80) with true by lia. reflexivity.
  - apply loop_width_utf16.
  - apply loop_width_utf32.
Qed.

Lemma cnu_single_exact e c : widths_exact e [c] = true -> client_num_units e [c] = true_width e c.
Proof.
  destruct e; intros H.
  - cbn in H. unfold client_num_units. rewrite (count_astral_cons c []), (len_cons c []).
    change (count_astral []) with 0. change (len (@nil N)) with 0. unfold astral, true_width, utf8_width.
    replace (0xFFFF <? c) with false by lia. replace (c <? 0x80) with true by lia. reflexivity.
  - apply cnu_single_utf16.
  - apply cnu_single_utf32.
Qed.

Lemma cnu_exact e s : widths_exact e s = true -> client_num_units e s = units e s.
Proof.
  induction s as [|c r IH]; intros H.
  - apply cnu_nil.
  - rewrite widths_exact_cons in H. apply andb_true_iff in H. destruct H as [Hc Hr].
    rewrite cnu_cons, cnu_single_exact, IH by assumption. reflexivity.
Qed.

Lemma cnu_ge_len e s : len s <= client_num_units e s.
Proof. unfold client_num_units. destruct e; lia. Qed.

Lemma true_width_pos e c : 1 <= true_width e c.
Proof.
  destruct e; unfold true_width, utf8_width, utf16_width, utf32_width.
  - destruct (c <? 0x80); [lia|]. destruct (c <? 0x800); [lia|]. destruct (c <? 0x10000); lia.
  - destruct (c <? 0x10000); lia.
  - lia.
Qed.

(* true widths equal the length of the real encodings *)
Lemma true_width_utf8_is_encoded_length c : true_width Utf8 c = len (utf8_enc c).
Proof.
  unfold true_width, utf8_width, utf8_enc, len.
  destruct (c <? 0x80); [reflexivity|]. destruct (c <? 0x800); [reflexivity|].
  destruct (c <? 0x10000); reflexivity.
Qed.
Lemma true_width_utf16_is_encoded_length c : true_width Utf16 c = len (utf16_enc c).
Proof. unfold true_width, utf16_width, utf16_enc, len. destruct (c <? 0x10000); reflexivity. Qed.

Lemma take_firstn {A} (s : list A) : forall n, take n s = firstn (N.to_nat n) s.
Proof.
  induction s as [|c r IH]; intros n; cbn [take].
  - rewrite firstn_nil. reflexivity.
  - destruct (n =? 0) eqn:E.
    + replace n with 0 by lia. reflexivity.
    + replace (N.to_nat n) with (S (N.to_nat (n - 1))) by lia. cbn [firstn]. rewrite IH. reflexivity.
Qed.
Lemma drop_skipn {A} (s : list A) : forall n, drop n s = skipn (N.to_nat n) s.
Proof.
  induction s as [|c r IH]; intros n; cbn [drop].
  - rewrite skipn_nil. reflexivity.
  - destruct (n =? 0) eqn:E.
    + replace n with 0 by lia. reflexivity.
    + replace (N.to_nat n) with (S (N.to_nat (n - 1))) by lia. cbn [skipn]. rewrite IH. reflexivity.
Qed.

(* ---------- the walking loop ---------- *)

Fixpoint lunits (e : encoding) (s : list N) : N :=
  match s with [] => 0 | c :: r => loop_width e c + lunits e r end.

Lemma lunits_exact e s : widths_exact e s = true -> lunits e s = units e s.
Proof.
  induction s as [|c r IH]; intros H; [reflexivity|].
  rewrite widths_exact_cons in H. apply andb_true_iff in H. destruct H as [Hc Hr].
  cbn [lunits units]. rewrite loop_width_exact, IH by assumption. reflexivity.
Qed.

Lemma walk_prefix e pre : forall post ci ui,
  walk e (pre ++ post) (ci + lunits e pre) ci ui = ui + len pre.
Proof.
  induction pre as [|c pre IH]; intros post ci ui.
  - cbn [app lunits]. change (len (@nil N)) with 0.
    destruct post as [|d post]; cbn [walk]; [lia|].
    replace (ci <? ci + 0) with false by lia. lia.
  - cbn [app lunits walk]. pose proof (loop_width_pos e c) as Hp.
    replace (ci <? ci + (loop_width e c + lunits e pre)) with true by lia.
    replace (ci + (loop_width e c + lunits e pre)) with ((ci + loop_width e c) + lunits e pre) by lia.
    rewrite IH, len_cons. lia.
Qed.

(* a target that lies strictly inside a character stops after that character *)
Lemma walk_inside e pre c post ci ui t :
  ci + lunits e pre < t -> t <= ci + lunits e pre + loop_width e c ->
  walk e (pre ++ c :: post) t ci ui = ui + len pre + 1.
Proof.
  revert ci ui. induction pre as [|d pre IH]; intros ci ui H1 H2.
  - cbn [app lunits] in *. change (len (@nil N)) with 0. cbn [walk].
    replace (ci <? t) with true by lia.
    destruct post as [|x post]; cbn [walk]; [lia|].
    replace (ci + loop_width e c <? t) with false by lia. lia.
  - cbn [app lunits walk] in *. pose proof (loop_width_pos e d) as Hp.
    replace (ci <? t) with true by lia.
    rewrite IH by lia. rewrite len_cons. lia.
Qed.

(* a target at or beyond the end of the string stops at the end *)
Lemma walk_all e s : forall ci ui t, ci + lunits e s <= t -> walk e s t ci ui = ui + len s.
Proof.
  induction s as [|c s IH]; intros ci ui t H.
  - cbn [walk]. change (len (@nil N)) with 0. lia.
  - cbn [walk lunits] in *. pose proof (loop_width_pos e c) as Hp.
    destruct (ci <? t) eqn:E.
    + rewrite IH by lia. rewrite len_cons. lia.
    + lia.
Qed.

(* ---------- string lemmas: replace("\r\n","\n") and rstrip("\r\n") on an LSP line ---------- *)

Lemma no_eol_cons c r : no_eol (c :: r) = negb (is_eol c) && no_eol r.
Proof. reflexivity. Qed.

Lemma replace_crlf_body body t : no_eol body = true -> replace_crlf (body ++ t) = body ++ replace_crlf t.
Proof.
  induction body as [|c r IH]; intros H; [reflexivity|].
  rewrite no_eol_cons in H. apply andb_true_iff in H. destruct H as [Hc Hr].
  cbn [app replace_crlf]. unfold is_eol in Hc.
  replace (c =? 13) with false by lia. rewrite IH by assumption. reflexivity.
Qed.

Lemma rstrip_eol_all t : forallb is_eol t = true -> rstrip_eol t = [].
Proof.
  induction t as [|c r IH]; intros H; [reflexivity|].
  cbn [forallb] in H. apply andb_true_iff in H. destruct H as [Hc Hr].
  cbn [rstrip_eol]. rewrite IH by assumption. rewrite Hc. reflexivity.
Qed.

Lemma rstrip_eol_body body t :
  no_eol body = true -> forallb is_eol t = true -> rstrip_eol (body ++ t) = body.
Proof.
  induction body as [|c r IH]; intros H Ht.
  - cbn [app]. apply rstrip_eol_all. exact Ht.
  - rewrite no_eol_cons in H. apply andb_true_iff in H. destruct H as [Hc Hr].
    cbn [app rstrip_eol]. rewrite IH by assumption.
    destruct r as [|d r']; [|reflexivity].
    destruct (is_eol c); [discriminate|reflexivity].
Qed.

Lemma term_replace t : is_term t = true -> forallb is_eol (replace_crlf t) = true.
Proof.
  intros H. destruct t as [|a [|b [|c r]]]; cbn in H; try discriminate; try reflexivity.
  - destruct a as [|p]; try discriminate.
    do 4 (destruct p; try discriminate); reflexivity.
  - destruct a as [|p]; try discriminate.
    do 4 (destruct p; try discriminate).
    destruct b as [|q]; try discriminate.
    do 4 (destruct q; try discriminate); reflexivity.
  - destruct a as [|p]; try discriminate.
    do 4 (destruct p; try discriminate).
    destruct b as [|q]; try discriminate.
    do 4 (destruct q; try discriminate).
Qed.

(* ---------- position_from_client_units on a valid position ---------- *)

Lemma from_unfold_gen e lines l ch : l < len lines ->
  fst (position_from_client_units e lines (l, ch)) =
  let line := replace_crlf (nth (N.to_nat l) lines []) in
  if client_num_units e line =? 0 then (l, 0)
  else (l, walk e line (N.min ch (client_num_units e (rstrip_eol line))) 0 0).
Proof.
  intros Hl. unfold position_from_client_units.
  destruct lines as [|x xs] eqn:E; [unfold len in Hl; cbn in Hl; lia|].
  rewrite <- E in *. replace (len lines <=? l) with false by lia.
  cbv zeta. destruct (client_num_units e _ =? 0); reflexivity.
Qed.

Section OnLine.
  Variables (e : encoding) (lines : list (list N)) (l : N) (body term : list N).
  Hypothesis Hl : l < len lines.
  Hypothesis Hline : nth (N.to_nat l) lines [] = body ++ term.
  Hypothesis Hbody : no_eol body = true.
  Hypothesis Hterm : is_term term = true.

  Lemma from_unfold ch :
    fst (position_from_client_units e lines (l, ch)) =
    if client_num_units e (body ++ replace_crlf term) =? 0 then (l, 0)
    else (l, walk e (body ++ replace_crlf term) (N.min ch (client_num_units e body)) 0 0).
  Proof.
    rewrite from_unfold_gen by exact Hl. cbv zeta.
    rewrite Hline, replace_crlf_body by exact Hbody.
    rewrite rstrip_eol_body by (auto using term_replace).
    reflexivity.
  Qed.

  (* (ii) a position on a character boundary converts to exactly that many characters *)
  Lemma from_exact pre post :
    body = pre ++ post -> widths_exact e pre = true ->
    fst (position_from_client_units e lines (l, units e pre)) = (l, len pre).
  Proof.
    intros Hb He. rewrite from_unfold.
    assert (Hle : units e pre <= client_num_units e body).
    { rewrite <- cnu_exact by exact He. subst body. clear.
      induction pre as [|c r IH]; [rewrite cnu_nil; lia|].
      cbn [app]. rewrite (cnu_cons e c r), (cnu_cons e c (r ++ post)). lia. }
    destruct (client_num_units e (body ++ replace_crlf term) =? 0) eqn:Z.
    - f_equal. pose proof (cnu_ge_len e (body ++ replace_crlf term)) as G.
      assert (Hlen : (length body = length pre + length post)%nat) by (rewrite Hb; apply app_length).
      unfold len in *. rewrite app_length in G. lia.
    - f_equal. rewrite N.min_l by exact Hle.
      rewrite Hb, <- app_assoc.
      rewrite <- (lunits_exact e pre) by exact He.
      replace (lunits e pre) with (0 + lunits e pre) by lia.
      rewrite (walk_prefix e pre (post ++ replace_crlf term) 0 0). lia.
  Qed.

  (* (iii) past the end of the line (its terminator not counted): clamped to that end *)
  Lemma from_clamp_eol ch :
    widths_exact e body = true -> units e body <= ch ->
    fst (position_from_client_units e lines (l, ch)) = (l, len body).
  Proof.
    intros He Hch. rewrite from_unfold.
    destruct (client_num_units e (body ++ replace_crlf term) =? 0) eqn:Z.
    - f_equal. pose proof (cnu_ge_len e (body ++ replace_crlf term)) as G.
      unfold len in *. rewrite app_length in G. lia.
    - f_equal. rewrite cnu_exact by exact He. rewrite N.min_r by exact Hch.
      rewrite <- (lunits_exact e body) by exact He.
      replace (lunits e body) with (0 + lunits e body) by lia.
      rewrite (walk_prefix e body (replace_crlf term) 0 0). lia.
  Qed.

  (* to_client_units of a character index inside the body *)
  Lemma to_exact pre post :
    body = pre ++ post -> widths_exact e pre = true ->
    fst (position_to_client_units e lines (l, len pre)) = (l, units e pre).
  Proof.
    intros Hb He. unfold position_to_client_units.
    replace (len lines <=? l) with false by lia. cbn [fst]. f_equal.
    rewrite Hline, Hb, <- app_assoc. rewrite take_firstn. unfold len. rewrite Nat2N.id.
    rewrite firstn_app, Nat.sub_diag, firstn_all. cbn [firstn]. rewrite app_nil_r.
    apply cnu_exact. exact He.
  Qed.

  Lemma roundtrip pre post :
    body = pre ++ post -> widths_exact e pre = true ->
    fst (position_to_client_units e lines
           (fst (position_from_client_units e lines (l, units e pre)))) = (l, units e pre).
  Proof. intros Hb He. rewrite (from_exact pre post Hb He). apply (to_exact pre post Hb He). Qed.
End OnLine.

(* ---------- past the end of the document ---------- *)

Lemma from_clamp_eof e lines l ch :
  lines <> [] -> len lines <= l ->
  fst (position_from_client_units e lines (l, ch)) =
  (len lines - 1, client_num_units e (last_line lines)).
Proof.
  intros Hne Hl. unfold position_from_client_units.
  destruct lines as [|x xs]; [congruence|].
  replace (len (x :: xs) <=? l) with true by lia. reflexivity.
Qed.

Lemma count_astral_zero_cnu e s : count_astral s = 0 -> client_num_units e s = len s.
Proof. intros H. unfold client_num_units. rewrite H. destruct e; lia. Qed.

Lemma from_empty e p : fst (position_from_client_units e [] p) = (0, 0).
Proof. destruct p. reflexivity. Qed.

(* (iv) the argument is never modified *)
Lemma from_arg_unchanged e lines p : snd (position_from_client_units e lines p) = p.
Proof.
  unfold position_from_client_units. destruct p as [l ch].
  destruct lines; [reflexivity|].
  destruct (len _ <=? l); [reflexivity|].
  destruct (client_num_units e _ =? 0); reflexivity.
Qed.
Lemma to_arg_unchanged e lines p : snd (position_to_client_units e lines p) = p.
Proof.
  unfold position_to_client_units. destruct p as [l ch]. destruct (len lines <=? l); reflexivity.
Qed.
Lemma range_from_arg_unchanged e lines r : snd (range_from_client_units e lines r) = r.
Proof. destruct r. reflexivity. Qed.
Lemma range_to_arg_unchanged e lines r : snd (range_to_client_units e lines r) = r.
Proof. destruct r. reflexivity. Qed.

(* ---------- the executable reference spec_from agrees with the clauses above ---------- *)

Lemma units_app e a b : units e (a ++ b) = units e a + units e b.
Proof. induction a as [|c a IH]; cbn [app units]; lia. Qed.

Lemma spec_col_prefix e pre : forall post k,
  spec_col e (pre ++ post) (units e pre) k = Some (k + len pre).
Proof.
  induction pre as [|c pre IH]; intros post k.
  - cbn [units app]. change (len (@nil N)) with 0.
    destruct post; cbn [spec_col]; cbn; f_equal; lia.
  - cbn [app units spec_col]. pose proof (true_width_pos e c) as Hp.
    replace (true_width e c + units e pre =? 0) with false by lia.
    replace (true_width e c + units e pre <? true_width e c) with false by lia.
    replace (true_width e c + units e pre - true_width e c) with (units e pre) by lia.
    rewrite IH, len_cons. f_equal. lia.
Qed.

Lemma spec_col_past e body : forall ch k,
  units e body <= ch -> spec_col e body ch k = Some (k + len body).
Proof.
  induction body as [|c body IH]; intros ch k H.
  - change (len (@nil N)) with 0. cbn [spec_col]. destruct (ch =? 0); f_equal; lia.
  - cbn [units] in H. pose proof (true_width_pos e c) as Hp. cbn [spec_col].
    replace (ch =? 0) with false by lia.
    replace (ch <? true_width e c) with false by lia.
    rewrite IH by lia. rewrite len_cons. f_equal. lia.
Qed.

Lemma strip_term_body body term :
  no_eol body = true -> is_term term = true -> strip_term (body ++ term) = body.
Proof.
  intros Hb Ht. induction body as [|c r IH].
  - cbn [app]. destruct term as [|a [|b [|x y]]]; cbn in Ht; try discriminate; try reflexivity.
    + destruct a as [|p]; try discriminate.
      do 4 (destruct p; try discriminate); reflexivity.
    + destruct a as [|p]; try discriminate.
      do 4 (destruct p; try discriminate).
      destruct b as [|q]; try discriminate.
      do 4 (destruct q; try discriminate); reflexivity.
    + destruct a as [|p]; try discriminate.
      do 4 (destruct p; try discriminate).
      destruct b as [|q]; try discriminate.
      do 4 (destruct q; try discriminate).
  - rewrite no_eol_cons in Hb. apply andb_true_iff in Hb. destruct Hb as [Hc Hr].
    specialize (IH Hr). cbn [app]. unfold is_eol in Hc.
    cbn [strip_term]. destruct (r ++ term) as [|d r'] eqn:E.
    + apply app_eq_nil in E. destruct E as [-> ->]. cbn.
      unfold is_eol. destruct ((c =? 10) || (c =? 13)); [discriminate|reflexivity].
    + replace (c =? 13) with false by lia. cbn [andb]. rewrite IH. reflexivity.
Qed.

Section SpecOnLine.
  Variables (e : encoding) (lines : list (list N)) (l : N) (body term : list N).
  Hypothesis Hl : l < len lines.
  Hypothesis Hline : nth (N.to_nat l) lines [] = body ++ term.
  Hypothesis Hbody : no_eol body = true.
  Hypothesis Hterm : is_term term = true.

  Lemma spec_from_unfold ch :
    spec_from e lines (l, ch) =
    match spec_col e body ch 0 with Some k => Some (l, k) | None => None end.
  Proof.
    unfold spec_from. destruct lines as [|x xs] eqn:E; [unfold len in Hl; cbn in Hl; lia|].
    rewrite <- E in *. replace (len lines <=? l) with false by lia.
    rewrite Hline, strip_term_body by assumption. reflexivity.
  Qed.

  Lemma spec_from_valid pre post :
    body = pre ++ post -> spec_from e lines (l, units e pre) = Some (l, len pre).
  Proof. intros Hb. rewrite spec_from_unfold, Hb, spec_col_prefix. f_equal. Qed.

  Lemma spec_from_clamp ch :
    units e body <= ch -> spec_from e lines (l, ch) = Some (l, len body).
  Proof. intros H. rewrite spec_from_unfold, spec_col_past by exact H. f_equal. Qed.
End SpecOnLine.
