(* Splitting lemmas: break/span on the first delimiter, normalisation = the reference's parts,
   urlunparse of the normalised parts, urlsplit and the RFC 3986 split of the produced URI. *)
From Coq Require Import ZArith NArith List Bool Lia ZifyBool ZifyN ZifyNat.
From Pygls Require Import Base.Unicode Proofs.UnicodeFacts Proofs.Utf8Replace Proofs.UrisQuote
  Model.Uris Spec.UrisSpec.
Ltac Zify.zify_post_hook ::= Z.to_euclidean_division_equations.
Open Scope N_scope.

(* ---------- break ---------- *)
Lemma break_app f s : fst (break f s) ++ snd (break f s) = s.
Proof.
  induction s as [|c s IH]; [reflexivity|]. cbn [break]. destruct (f c); [reflexivity|].
  destruct (break f s) as [a b]. cbn [fst snd app] in *. rewrite IH. reflexivity.
Qed.

Lemma break_fst_none f s : forallb (fun c => negb (f c)) (fst (break f s)) = true.
Proof.
  induction s as [|c s IH]; [reflexivity|]. cbn [break]. destruct (f c) eqn:E; [reflexivity|].
  destruct (break f s) as [a b]. cbn [fst forallb] in *. rewrite E, IH. reflexivity.
Qed.

Definition head_is (f : N -> bool) (s : list N) : Prop :=
  match s with [] => True | c :: _ => f c = true end.

Lemma break_snd_head f s : head_is f (snd (break f s)).
Proof.
  induction s as [|c s IH]; [exact I|]. cbn [break]. destruct (f c) eqn:E; [exact E|].
  destruct (break f s) as [a b]. exact IH.
Qed.

Lemma break_stop f a b :
  forallb (fun c => negb (f c)) a = true -> head_is f b -> break f (a ++ b) = (a, b).
Proof.
  induction a as [|c a IH]; intros Ha Hb.
  - cbn [app]. destruct b as [|d b]; [reflexivity|]. cbn [break]. cbn [head_is] in Hb. rewrite Hb. reflexivity.
  - cbn [forallb] in Ha. apply andb_true_iff in Ha. destruct Ha as [Hc Ha].
    cbn [app break]. destruct (f c); [discriminate|]. rewrite (IH Ha Hb). reflexivity.
Qed.

Lemma break_none f s : forallb (fun c => negb (f c)) s = true -> break f s = (s, []).
Proof. intros H. rewrite <- (app_nil_r s) at 1. apply break_stop; [exact H|exact I]. Qed.

Lemma span_not_break f s : span_not f s = break f s.
Proof.
  induction s as [|c s IH]; [reflexivity|]. cbn [span_not break]. rewrite IH. reflexivity.
Qed.

Lemma upto_slash_break s : upto_slash s = break (N.eqb SLASH) s.
Proof.
  induction s as [|c s IH]; [reflexivity|]. cbn [upto_slash break]. rewrite IH.
  rewrite (N.eqb_sym SLASH c). reflexivity.
Qed.

Lemma split_first_none d s : has d s = false -> split_first d s = (s, []).
Proof.
  intros H. unfold split_first. rewrite break_none; [reflexivity|apply has_false_forallb, H].
Qed.

Lemma forallb_break_fst (g : N -> bool) f s : forallb g s = true -> forallb g (fst (break f s)) = true.
Proof.
  intros H. rewrite <- (break_app f s), forallb_app in H. apply andb_true_iff in H. apply H.
Qed.
Lemma forallb_break_snd (g : N -> bool) f s : forallb g s = true -> forallb g (snd (break f s)) = true.
Proof.
  intros H. rewrite <- (break_app f s), forallb_app in H. apply andb_true_iff in H. apply H.
Qed.

Lemma has_break_fst d s : has d (fst (break (N.eqb d) s)) = false.
Proof.
  pose proof (break_fst_none (N.eqb d) s) as H. unfold has.
  induction (fst (break (N.eqb d) s)) as [|c r IH]; [reflexivity|].
  cbn [forallb] in H. apply andb_true_iff in H. destruct H as [H1 H2].
  cbn [existsb]. rewrite (IH H2). destruct (d =? c); [discriminate|reflexivity].
Qed.

(* ---------- the model's character tests are the reference's ---------- *)
Lemma drive_match_has_drive q : drive_match q = has_drive q.
Proof. destruct q as [|a [|b [|c r]]]; reflexivity. Qed.

Lemma model_lower_drive q :
  (if drive_match q then match q with a :: b :: r => a :: lower b :: r | _ => q end else q) = lower_drive q.
Proof. unfold lower_drive. rewrite drive_match_has_drive. reflexivity. Qed.

Lemma lower_drive_head q : starts_slash (lower_drive q) = starts_slash q.
Proof.
  unfold lower_drive. destruct (has_drive q); [|reflexivity]. destruct q as [|a [|b r]]; reflexivity.
Qed.

Lemma to_lower_idem c : to_lower (to_lower c) = to_lower c.
Proof.
  unfold to_lower. destruct ((65 <=? c) && (c <=? 90)) eqn:E; [|rewrite E; reflexivity].
  replace ((65 <=? c + 32) && (c + 32 <=? 90)) with false by lia. reflexivity.
Qed.

Lemma has_drive_lower_drive q : has_drive (lower_drive q) = has_drive q.
Proof.
  unfold lower_drive. destruct (has_drive q) eqn:E; [|exact E].
  destruct q as [|a [|b [|c r]]]; try discriminate. cbn [has_drive] in *.
  apply andb_true_iff in E. destruct E as [E Ec]. apply andb_true_iff in E. destruct E as [Ea Eb].
  rewrite Ea, Ec. unfold letter, to_lower in *. destruct ((65 <=? b) && (b <=? 90)) eqn:U; lia.
Qed.

Lemma lower_drive_idem q : lower_drive (lower_drive q) = lower_drive q.
Proof.
  unfold lower_drive at 1. rewrite has_drive_lower_drive. unfold lower_drive.
  destruct (has_drive q) eqn:E; [|reflexivity].
  destruct q as [|a [|b r]]; try reflexivity. rewrite to_lower_idem. reflexivity.
Qed.

(* ---------- _normalize_win_path computes the reference's parts ---------- *)
Lemma normalize_unfold p : normalize_win_path p =
  let pn := (if starts_2slash p
             then let '(h, t) := break (N.eqb SLASH) (tl (tl p)) in
                  match t with [] => ([SLASH], h) | _ => (t, h) end
             else (p, [])) in
  (lower_drive (if starts_slash (fst pn) then fst pn else SLASH :: fst pn), snd pn).
Proof.
  unfold normalize_win_path. cbv zeta.
  destruct (if starts_2slash p then _ else _) as [path1 netloc].
  cbn [fst snd]. rewrite model_lower_drive. reflexivity.
Qed.

Theorem normalize_spec p : starts_slash p = true -> normalize_win_path p = (norm_path p, norm_host p).
Proof.
  intros H. rewrite normalize_unfold. unfold norm_path, norm_host, unc_parts.
  destruct p as [|a [|b r]]; [discriminate| |].
  - cbn [starts_2slash]. cbv zeta. cbn [fst snd]. rewrite H. reflexivity.
  - cbn [starts_2slash tl]. change (a =? 47) with (a =? SLASH). change (b =? 47) with (b =? SLASH).
    destruct ((a =? SLASH) && (b =? SLASH)) eqn:E.
    + rewrite upto_slash_break. pose proof (break_snd_head (N.eqb SLASH) r) as Hh.
      destruct (break (N.eqb SLASH) r) as [h t]. cbn [snd] in Hh. destruct t as [|c t].
      * cbv zeta. cbn [fst snd]. reflexivity.
      * cbn [head_is] in Hh. cbv zeta. cbn [fst snd]. cbn [starts_slash]. rewrite N.eqb_sym, Hh.
        reflexivity.
    + cbv zeta. cbn [fst snd]. rewrite H. reflexivity.
Qed.

(* ---------- the shape of the parts ---------- *)
Definition tpath (t : list N) : list N := match t with [] => [47] | _ => t end.

Lemma parts_cases p : starts_slash p = true ->
  (unc_parts p = None /\ starts_2slash p = false /\ norm_host p = [] /\ norm_path p = lower_drive p) \/
  (exists h t, p = 47 :: 47 :: h ++ t /\ unc_parts p = Some (h, t) /\ has 47 h = false /\
               head_is (N.eqb 47) t /\ norm_host p = h /\ norm_path p = lower_drive (tpath t)).
Proof.
  intros H. unfold norm_host, norm_path, unc_parts. destruct p as [|a [|b r]]; [discriminate| |].
  - left. repeat split; reflexivity.
  - cbn [starts_2slash]. change SLASH with 47. destruct ((a =? 47) && (b =? 47)) eqn:E.
    + right. apply andb_true_iff in E. destruct E as [Ea Eb]. apply N.eqb_eq in Ea, Eb. subst a b.
      rewrite upto_slash_break.
      pose proof (break_app (N.eqb SLASH) r) as Happ.
      pose proof (break_snd_head (N.eqb SLASH) r) as Hhead.
      pose proof (has_break_fst SLASH r) as Hno.
      destruct (break (N.eqb SLASH) r) as [h t]. cbn [fst snd] in *.
      exists h, t. repeat split; try assumption; try reflexivity.
      rewrite Happ. reflexivity.
    + left. repeat split; reflexivity.
Qed.

Lemma tpath_starts_slash t : head_is (N.eqb 47) t -> starts_slash (tpath t) = true.
Proof. destruct t as [|c t]; [reflexivity|]. cbn [head_is tpath starts_slash]. intros H. rewrite N.eqb_sym. exact H. Qed.

Lemma norm_path_starts_slash p : starts_slash p = true -> starts_slash (norm_path p) = true.
Proof.
  intros H. destruct (parts_cases p H) as [(_ & _ & _ & E)|(h & t & _ & _ & _ & Hh & _ & E)]; rewrite E, lower_drive_head.
  - exact H.
  - apply tpath_starts_slash, Hh.
Qed.

Lemma lower_drive_2slash q : starts_2slash (lower_drive q) = starts_2slash q.
Proof.
  unfold lower_drive. destruct (has_drive q) eqn:E; [|reflexivity].
  destruct q as [|a [|b [|c r]]]; try discriminate. cbn [has_drive starts_2slash] in *.
  apply andb_true_iff in E. destruct E as [E Ec]. apply andb_true_iff in E. destruct E as [Ea Eb].
  unfold letter, to_lower, SLASH in *. destruct ((65 <=? b) && (b <=? 90)) eqn:U; lia.
Qed.

Lemma scalar_lower_drive q : forallb scalar q = true -> forallb scalar (lower_drive q) = true.
Proof.
  intros H. unfold lower_drive. destruct (has_drive q) eqn:E; [|exact H].
  destruct q as [|a [|b [|c r]]]; try discriminate. cbn [has_drive forallb] in *.
  apply andb_true_iff in E. destruct E as [E Ec]. apply andb_true_iff in E. destruct E as [Ea Eb].
  apply andb_true_iff in H. destruct H as [Ha H]. apply andb_true_iff in H. destruct H as [Hb H].
  rewrite Ha, H. unfold letter, to_lower, scalar, is_cp, is_surrogate in *.
  destruct ((65 <=? b) && (b <=? 90)) eqn:U; lia.
Qed.

Lemma scalar_parts p : starts_slash p = true -> forallb scalar p = true ->
  forallb scalar (norm_host p) = true /\ forallb scalar (norm_path p) = true.
Proof.
  intros H Hs.
  destruct (parts_cases p H) as [(_ & _ & E1 & E2)|(h & t & Ep & _ & _ & _ & E1 & E2)]; rewrite E1, E2.
  - split; [reflexivity|apply scalar_lower_drive, Hs].
  - subst p. cbn [forallb] in Hs. apply andb_true_iff in Hs. destruct Hs as [_ Hs].
    apply andb_true_iff in Hs. destruct Hs as [_ Hs]. rewrite forallb_app in Hs.
    apply andb_true_iff in Hs. destruct Hs as [Hh Ht]. split; [exact Hh|].
    apply scalar_lower_drive. destruct t; [reflexivity|exact Ht].
Qed.

(* ---------- pygls urlunparse on the normalised parts ---------- *)
Definition qpath_of (q : list N) : list N :=
  if drive_match q then firstn 3 q ++ qb (skipn 3 q) else qb q.

Lemma quote_file : quote s_file = Ret s_file.
Proof. reflexivity. Qed.
Lemma quote_nil : quote [] = Ret [].
Proof. reflexivity. Qed.

Lemma urlunparse_file h q : forallb scalar h = true -> forallb scalar q = true ->
  urlunparse s_file h q [] [] [] = Ret (py_urlunsplit s_file (qb h) (qpath_of q) [] []).
Proof.
  intros Hh Hq. unfold urlunparse, qpath_of. destruct (drive_match q) eqn:D.
  - destruct q as [|a [|b [|c r]]]; try discriminate. cbn [tl firstn skipn app].
    cbn [forallb] in Hq. apply andb_true_iff in Hq. destruct Hq as [_ Hq].
    apply andb_true_iff in Hq. destruct Hq as [_ Hq]. apply andb_true_iff in Hq. destruct Hq as [_ Hq].
    rewrite (quote_scalar r Hq). cbn [bind]. rewrite quote_file, (quote_scalar h Hh), quote_nil.
    cbn [bind]. reflexivity.
  - rewrite (quote_scalar q Hq). cbn [bind]. rewrite quote_file, (quote_scalar h Hh), quote_nil.
    cbn [bind]. reflexivity.
Qed.

Lemma unsplit_file qh qp : starts_slash qp = true ->
  (nonempty qh = true \/ starts_2slash qp = false) ->
  py_urlunsplit s_file qh qp [] [] = s_file ++ 58 :: 47 :: 47 :: qh ++ qp.
Proof.
  intros Hs Hc. unfold py_urlunsplit.
  change (nonempty s_file) with true. change (mem_str s_file uses_netloc) with true. cbn [andb].
  replace (nonempty qh || negb (starts_2slash qp)) with true
    by (destruct Hc as [Hc|Hc]; rewrite Hc; [reflexivity|apply eq_sym, orb_true_r]).
  rewrite Hs. cbn [negb]. rewrite andb_false_r. reflexivity.
Qed.

(* heads of quoted text *)
Lemma qb_cons c r : qb (c :: r) = quote_bytes (utf8_enc c) ++ qb r.
Proof. unfold qb, quote_bytes. cbn [utf8_enc_all flat_map]. rewrite flat_map_app. reflexivity. Qed.

Lemma qb_slash r : qb (47 :: r) = 47 :: qb r.
Proof. rewrite qb_cons. reflexivity. Qed.

Lemma quote_byte_nonempty b : nonempty (quote_byte b) = true.
Proof. unfold quote_byte. destruct (safe b); reflexivity. Qed.

Lemma qb_nonempty s : s <> [] -> nonempty (qb s) = true.
Proof.
  destruct s as [|c s]; [congruence|]. intros _. rewrite qb_cons.
  pose proof (utf8_enc_nonempty c) as H. destruct (utf8_enc c) as [|b bs]; [congruence|].
  unfold quote_bytes. cbn [flat_map]. pose proof (quote_byte_nonempty b) as Q.
  destruct (quote_byte b); [discriminate|reflexivity].
Qed.

Lemma qb_head_not_slash c r : scalar c = true -> (c =? 47) = false ->
  exists x xs, qb (c :: r) = x :: xs /\ (x =? 47) = false.
Proof.
  intros Hc Hn.
  assert (Hs : forallb scalar [c] = true) by (cbn [forallb]; rewrite Hc; reflexivity).
  assert (Hh : has 47 [c] = false) by (unfold has; cbn [existsb]; rewrite N.eqb_sym, Hn; reflexivity).
  pose proof (qb_no_slash [c] Hs Hh) as Q. pose proof (qb_nonempty [c] ltac:(discriminate)) as Q2.
  change (c :: r) with ([c] ++ r). unfold qb in *. unfold utf8_enc_all in *. rewrite flat_map_app.
  unfold quote_bytes in *. rewrite flat_map_app.
  destruct (flat_map quote_byte (flat_map utf8_enc [c])) as [|x xs]; [discriminate|].
  exists x, (xs ++ flat_map quote_byte (flat_map utf8_enc r)). split; [reflexivity|].
  unfold has in Q. cbn [existsb] in Q. apply orb_false_iff in Q. rewrite N.eqb_sym. apply Q.
Qed.

Lemma drive_match_inv q : drive_match q = true ->
  exists b r, q = 47 :: b :: 58 :: r /\ letter b = true.
Proof.
  destruct q as [|a [|b [|c r]]]; try discriminate. cbn [drive_match]. intros E.
  apply andb_true_iff in E. destruct E as [E Ec]. apply andb_true_iff in E. destruct E as [Ea Eb].
  apply N.eqb_eq in Ea, Ec. subst a c. exists b, r. split; [reflexivity|exact Eb].
Qed.

Lemma qpath_starts_slash q : starts_slash q = true -> starts_slash (qpath_of q) = true.
Proof.
  intros H. unfold qpath_of. destruct (drive_match q) eqn:D.
  - destruct (drive_match_inv q D) as (b & r & -> & _). reflexivity.
  - destruct q as [|a r]; [discriminate|]. cbn [starts_slash] in H. apply N.eqb_eq in H. subst a.
    rewrite qb_slash. reflexivity.
Qed.

Lemma qpath_no_2slash q : forallb scalar q = true -> starts_slash q = true -> starts_2slash q = false ->
  starts_2slash (qpath_of q) = false.
Proof.
  intros Hs H H2. unfold qpath_of. destruct (drive_match q) eqn:D.
  - destruct (drive_match_inv q D) as (b & r & -> & Hb). cbn [firstn skipn app starts_2slash].
    unfold letter, SLASH in *. lia.
  - destruct q as [|a [|c r]];
      [discriminate|cbn [starts_slash] in H; apply N.eqb_eq in H; subst a; reflexivity|].
    cbn [starts_slash starts_2slash] in *. rewrite H in H2. cbn [andb] in H2.
    apply N.eqb_eq in H. subst a. rewrite qb_slash.
    cbn [forallb] in Hs. apply andb_true_iff in Hs. destruct Hs as [_ Hs].
    apply andb_true_iff in Hs. destruct Hs as [Hc _].
    destruct (qb_head_not_slash c r Hc H2) as (x & xs & -> & Hx).
    cbn [starts_2slash]. change (x =? SLASH) with (x =? 47). rewrite Hx. reflexivity.
Qed.

(* ---------- the characters of the URI ---------- *)
Lemma qb_uri_chars s : forallb scalar s = true -> forallb uri_char (qb s) = true.
Proof. intros H. eapply forallb_impl; [exact qchar_uri_char|apply qb_chars, H]. Qed.

Lemma qpath_chars q : forallb scalar q = true -> forallb uri_char (qpath_of q) = true.
Proof.
  intros Hs. unfold qpath_of. destruct (drive_match q) eqn:D; [|apply qb_uri_chars, Hs].
  destruct (drive_match_inv q D) as (b & r & -> & Hb). cbn [firstn skipn app forallb].
  cbn [forallb] in Hs. apply andb_true_iff in Hs. destruct Hs as [_ Hs].
  apply andb_true_iff in Hs. destruct Hs as [_ Hs]. apply andb_true_iff in Hs. destruct Hs as [_ Hs].
  rewrite (qb_uri_chars r Hs). change (uri_char 47) with true. change (uri_char 58) with true.
  unfold uri_char, unreserved. rewrite Hb. reflexivity.
Qed.

Lemma uri_char_has c s : uri_char c = false -> forallb uri_char s = true -> has c s = false.
Proof.
  intros Hc. unfold has. induction s as [|x s IH]; [reflexivity|]. cbn [forallb existsb]. intros H.
  apply andb_true_iff in H. destruct H as [Hx Hs]. rewrite (IH Hs), orb_false_r.
  destruct (c =? x) eqn:E; [|reflexivity]. apply N.eqb_eq in E. subst x. congruence.
Qed.

(* ---------- unquote of the quoted path ---------- *)
Lemma unquote_qpath q : forallb scalar q = true -> unquote (qpath_of q) = q.
Proof.
  intros Hs. pose proof (qpath_chars q Hs) as Hc. revert Hc. unfold qpath_of.
  destruct (drive_match q) eqn:D; [|intros _; apply unquote_qb, Hs].
  destruct (drive_match_inv q D) as (b & r & -> & Hb). cbn [firstn skipn app]. intros Hc.
  rewrite unquote_ascii by (apply uri_chars_ascii, Hc).
  cbn [forallb] in Hs. apply andb_true_iff in Hs. destruct Hs as [H1 Hs].
  apply andb_true_iff in Hs. destruct Hs as [H2 Hs]. apply andb_true_iff in Hs. destruct Hs as [H3 Hs].
  assert (Eb : (b =? PCT) = false) by (unfold letter, PCT in *; lia).
  cbn [pct_bytes]. change (47 =? PCT) with false. change (58 =? PCT) with false. rewrite Eb. cbv iota.
  rewrite pct_bytes_qb by exact Hs.
  assert (E : 47 :: b :: 58 :: utf8_enc_all r = utf8_enc_all (47 :: b :: 58 :: r)).
  { cbn [utf8_enc_all flat_map]. rewrite (utf8_enc_ascii b) by (unfold letter in Hb; lia). reflexivity. }
  rewrite E. apply utf8_dec_replace_enc_all. cbn [forallb]. rewrite H1, H2, H3, Hs. reflexivity.
Qed.

(* ---------- urlsplit / urlparse of the produced URI ---------- *)
Definition file_uri (qh qp : list N) : list N := s_file ++ 58 :: 47 :: 47 :: qh ++ qp.

Lemma uri_char_not_unsafe c : uri_char c = true -> negb ((c =? 9) || (c =? 13) || (c =? 10)) = true.
Proof. unfold uri_char, unreserved, letter, digit. intros H. lia. Qed.

Lemma remove_unsafe_id s : forallb uri_char s = true -> remove_unsafe s = s.
Proof.
  unfold remove_unsafe. induction s as [|c s IH]; [reflexivity|]. cbn [forallb filter]. intros H.
  apply andb_true_iff in H. destruct H as [Hc Hs]. rewrite (uri_char_not_unsafe c Hc), (IH Hs). reflexivity.
Qed.

Lemma file_uri_chars qh qp : forallb uri_char qh = true -> forallb uri_char qp = true ->
  forallb uri_char (file_uri qh qp) = true.
Proof.
  intros Hh Hp. unfold file_uri. rewrite forallb_app. cbn [forallb]. rewrite forallb_app, Hh, Hp. reflexivity.
Qed.

Lemma lstrip_file x : lstrip_c0 (s_file ++ x) = s_file ++ x.
Proof. reflexivity. Qed.
Lemma split_scheme_file x : split_scheme (s_file ++ 58 :: x) = (s_file, x).
Proof. reflexivity. Qed.
Lemma split_netloc_2slash x : split_netloc (47 :: 47 :: x) = break is_delim x.
Proof. reflexivity. Qed.

Lemma check_netloc_plain n : has LBR n = false -> has RBR n = false -> check_netloc n = Ret tt.
Proof. intros H1 H2. unfold check_netloc. rewrite H1, H2. reflexivity. Qed.

Lemma no_delim_in_host qh : forallb uri_char qh = true -> has 47 qh = false ->
  forallb (fun c => negb (is_delim c)) qh = true.
Proof.
  intros H Hs. apply has_false_forallb in Hs. induction qh as [|c r IH]; [reflexivity|].
  cbn [forallb] in *. apply andb_true_iff in H. destruct H as [Hc H].
  apply andb_true_iff in Hs. destruct Hs as [Hn Hs]. rewrite (IH H Hs), andb_true_r.
  unfold is_delim, SLASH, QM, HASH, uri_char, unreserved, letter, digit in *. lia.
Qed.

Theorem py_urlparse_file qh qp :
  forallb uri_char qh = true -> has 47 qh = false -> forallb uri_char qp = true -> starts_slash qp = true ->
  py_urlparse (file_uri qh qp) = Ret (s_file, qh, qp, [], [], []).
Proof.
  intros Hh Hns Hp Hs. unfold py_urlparse, py_urlsplit.
  pose proof (file_uri_chars qh qp Hh Hp) as Hu. unfold file_uri in *.
  rewrite lstrip_file, (remove_unsafe_id _ Hu), split_scheme_file. cbv beta iota.
  rewrite split_netloc_2slash.
  rewrite (break_stop is_delim qh qp (no_delim_in_host qh Hh Hns)).
  2:{ destruct qp as [|c r]; [exact I|]. cbn [starts_slash] in Hs. cbn [head_is]. unfold is_delim. rewrite Hs. reflexivity. }
  cbv beta iota.
  rewrite check_netloc_plain by (apply uri_char_has; [reflexivity|exact Hh]).
  cbn [bind].
  rewrite (split_first_none HASH qp) by (apply uri_char_has; [reflexivity|exact Hp]). cbv beta iota.
  rewrite (split_first_none QM qp) by (apply uri_char_has; [reflexivity|exact Hp]). cbv beta iota.
  cbn [bind]. change (mem_str s_file uses_params) with false. cbn [andb]. reflexivity.
Qed.

(* ---------- the RFC 3986 split of the produced URI ---------- *)
Lemma rfc_scheme_file x : rfc_scheme (s_file ++ 58 :: x) = (Some s_file, x).
Proof. reflexivity. Qed.

Theorem rfc_split_file qh qp :
  forallb uri_char qh = true -> has 47 qh = false -> forallb uri_char qp = true -> starts_slash qp = true ->
  rfc3986_split (file_uri qh qp) = mk_parts (Some s_file) (Some qh) qp None None.
Proof.
  intros Hh Hns Hp Hs. unfold rfc3986_split, file_uri. rewrite rfc_scheme_file. cbv zeta. cbn [fst snd].
  assert (EA : rfc_authority (47 :: 47 :: qh ++ qp) = (Some qh, qp)).
  { unfold rfc_authority. change (c_slash 47) with true. cbn [andb]. cbv iota.
    rewrite span_not_break. rewrite (break_stop _ qh qp); [reflexivity| |].
    - pose proof (no_delim_in_host qh Hh Hns) as Q. eapply forallb_impl; [|exact Q].
      intros c. unfold is_delim, c_slash, c_qm, c_hash, SLASH, QM, HASH. intros E. exact E.
    - destruct qp as [|c r]; [exact I|]. cbn [starts_slash] in Hs. cbn [head_is]. unfold c_slash.
      change SLASH with 47 in Hs. rewrite Hs. reflexivity. }
  rewrite EA. cbn [fst snd].
  assert (EP : rfc_path qp = (qp, [])).
  { unfold rfc_path. rewrite span_not_break. apply break_none.
    assert (H1 := uri_char_has 63 qp eq_refl Hp). assert (H2 := uri_char_has 35 qp eq_refl Hp).
    apply has_false_forallb in H1, H2. clear -H1 H2. induction qp as [|c r IH]; [reflexivity|].
    cbn [forallb] in *. apply andb_true_iff in H1, H2. destruct H1 as [A1 B1]. destruct H2 as [A2 B2].
    rewrite (IH B1 B2), andb_true_r. unfold c_qm, c_hash. rewrite (N.eqb_sym c 63), (N.eqb_sym c 35).
    destruct (63 =? c); [discriminate|]. destruct (35 =? c); [discriminate|]. reflexivity. }
  rewrite EP. reflexivity.
Qed.
