(* The translated source of pygls/workspace/text_document.py (Gen/AstDoc.v, regenerated from the source
   text by harness/gen_ast.py on every run), LINKED with the translated position codec (Gen/AstCodec.v):
   TextDocument.source / lines / _apply_incremental_change / _apply_full_change / _apply_none_change /
   apply_change / offset_at_position / word_at_position compute, under the PyMini semantics
   (Base/PyMini.v), exactly what the hand-written models Model/Doc.v and Model/DocQuery.v compute - for
   every source text, sync kind, encoding value, change and position. *)
From Coq Require Import ZArith NArith List Bool String Ascii Lia ZifyBool ZifyN ZifyNat.
From Pygls Require Import Base.PyMini Base.PyMiniFacts Gen.AstCodec Gen.AstDoc Model.Codec Model.Doc
     Model.DocQuery Proofs.AstCodecEquiv.
Import ListNotations.
Open Scope string_scope.
Open Scope Z_scope.

(* ---------- how Python values stand for the model's data ---------- *)

Definition is_full (k : sync_kind) : bool := match k with SyncFull => true | _ => false end.

(* a TextDocument that was opened (its `_source` is a str): the attributes these methods read or
   write, then any others (uri, version, path, language_id, filename, _local) *)
Definition doc_val (src : list N) (k : sync_kind) (encv : val) (others : list (string * val)) : val :=
  VObj "TextDocument"
       (("_source", VStr src) ::
        ("_is_sync_kind_full", VBool (is_full k)) ::
        ("_is_sync_kind_incremental", VBool (is_incremental k)) ::
        ("_is_sync_kind_none", VBool (Doc.is_none k)) ::
        ("_position_codec", codec_self encv) :: others).

(* TextDocumentContentChangePartial(range, range_length, text) / ...WholeDocument(text) *)
Definition change_val (c : change) (range_length : val) : val :=
  match c with
  | Partial r t => VObj "TextDocumentContentChangePartial"
                        [("range", py_range r); ("range_length", range_length); ("text", VStr t)]
  | Whole t => VObj "TextDocumentContentChangeWholeDocument" [("text", VStr t)]
  end.

Notation q_source := ["TextDocument"; "source"] (only parsing).
Notation q_lines := ["TextDocument"; "lines"] (only parsing).
Notation q_incr := ["TextDocument"; "_apply_incremental_change"] (only parsing).
Notation q_full := ["TextDocument"; "_apply_full_change"] (only parsing).
Notation q_none := ["TextDocument"; "_apply_none_change"] (only parsing).
Notation q_apply := ["TextDocument"; "apply_change"] (only parsing).
Notation q_offset_at := ["TextDocument"; "offset_at_position"] (only parsing).
Notation q_word_at := ["TextDocument"; "word_at_position"] (only parsing).

(* ---------- what a `call` environment must provide ---------- *)

Definition spec_source (call : callT) : Prop := forall src k encv others,
  call q_source (Some (doc_val src k encv others)) [] [] = Ok (VStr src).

Definition spec_lines (call : callT) : Prop := forall src k encv others,
  call q_lines (Some (doc_val src k encv others)) [] [] = Ok (py_lines (lsp_lines src)).

(* ---------- source, lines ---------- *)

Lemma source_ok_gen call f src k encv others :
  run_fun call f f_source (Some (doc_val src k encv others)) [] [] = Ok (VStr src).
Proof.
  unfold run_fun, f_source, doc_val. pysimp. destruct src; reflexivity.
Qed.

Lemma lines_ok_gen call f : spec_source call -> forall src k encv others,
  run_fun call f f_lines (Some (doc_val src k encv others)) [] [] = Ok (py_lines (lsp_lines src)).
Proof.
  intros Hs src k encv others. unfold spec_source, doc_val in Hs.
  unfold run_fun, f_lines, doc_val. pysimp. rewrite Hs. pysimp. reflexivity.
Qed.

(* ---------- _apply_incremental_change ---------- *)

(* the locals of _apply_incremental_change the loop invariant speaks of, under the names the translator
   gives them (see the `locals:` comment in Gen/AstDoc.v) *)
Notation v_text := "$2" (only parsing).
Notation v_start_line := "$5" (only parsing).
Notation v_start_col := "$6" (only parsing).
Notation v_end_line := "$7" (only parsing).
Notation v_end_col := "$8" (only parsing).
Notation v_new := "$9" (only parsing).

(* what one line contributes (the body of Doc.rebuild) *)
Definition piece (i sl sc el ec : N) (text line : list N) : list N :=
  (if i <? sl then line
   else if el <? i then line
   else (if i =? sl then take sc line ++ text else []) ++ (if i =? el then drop ec line else []))%N%list.

Lemma rebuild_cons line rest i sl sc el ec text :
  rebuild (line :: rest) i sl sc el ec text = (piece i sl sc el ec text line ++ rebuild rest (i + 1) sl sc el ec text)%list.
Proof. reflexivity. Qed.

Definition rebuild_inv (selfv : val) (sl sc el ec : N) (text acc : list N) (env : list (string * val)) : Prop :=
  get v_new env = Some (VObj "StringIO" [("buf", VStr acc)]) /\
  get v_start_line env = Some (VInt (Z.of_N sl)) /\
  get v_start_col env = Some (VInt (Z.of_N sc)) /\
  get v_end_line env = Some (VInt (Z.of_N el)) /\
  get v_end_col env = Some (VInt (Z.of_N ec)) /\
  get v_text env = Some (VStr text) /\
  get "self" env = Some selfv.

Definition flows_with (Q : list (string * val) -> Prop) (o : outcome) : Prop :=
  match o with ONormal env | OContinue env => Q env | _ => False end.

(* ANY for-enumerate loop whose body appends `piece i line` to the buffer computes Doc.rebuild *)
Lemma rebuild_loop_gen (body : list (string * val) -> outcome) xi xv selfv sl sc el ec text :
  (forall env i line acc, rebuild_inv selfv sl sc el ec text acc env ->
     flows_with (rebuild_inv selfv sl sc el ec text (acc ++ piece i sl sc el ec text line)%list)
                (body (set xv (VStr line) (set xi (VInt (Z.of_N i)) env)))) ->
  forall ls i env acc, rebuild_inv selfv sl sc el ec text acc env ->
    normal_with (rebuild_inv selfv sl sc el ec text (acc ++ rebuild ls i sl sc el ec text)%list)
                (for_enum body xi xv (map VStr ls) (Z.of_N i) env).
Proof.
  intros Hbody. induction ls as [|line rest IH]; intros i env acc Hinv.
  - cbn [map for_enum rebuild normal_with]. rewrite app_nil_r. exact Hinv.
  - cbn [map for_enum]. pose proof (Hbody env i line acc Hinv) as Hs.
    rewrite rebuild_cons, app_assoc. replace (Z.of_N i + 1) with (Z.of_N (i + 1)) by lia.
    destruct (body _); try contradiction; apply IH; exact Hs.
Qed.

Lemma exec_for_enum call f env xi xv iter body :
  exec call f env (SForEnum xi xv iter body) =
  match eval call env iter with
  | Ok (VList l) => for_enum (fun env => exec_block call f env body) xi xv l 0 env
  | Ok _ => OStuck "enumerate over a non-list"
  | Raise k => ORaise k env | Stuck w => OStuck w
  end.
Proof. reflexivity. Qed.

Ltac fin H := unfold flows_with; eapply H;
  [ pyexpr; first [reflexivity | eassumption] | cbn [app]; rewrite ?app_nil_r, ?app_assoc; reflexivity | pyexpr; reflexivity .. ].

Lemma incr_ok_gen call f : spec_source call -> spec_lines call -> spec_range_from call f ->
  forall src k encv others r text rl, lines_fuel f (lsp_lines src) ->
  run_fun call f f_apply_incremental_change (Some (doc_val src k encv others)) [change_val (Partial r text) rl] [] =
  Ok (doc_val (apply_incremental_change (enc_of encv) src r text) k encv others).
Proof.
  intros Hs Hl Hr src k encv others r text rl Hf.
  unfold spec_source, doc_val, codec_self in Hs. unfold spec_lines, doc_val, codec_self in Hl.
  unfold spec_range_from, codec_self in Hr.
  unfold run_fun, f_apply_incremental_change, doc_val, change_val, codec_self, apply_incremental_change. pybind.
  pystep. rewrite Hl. cbv beta iota.
  pystep. pystep. pystep. rewrite (Hr encv _ r Hf). cbv beta iota.
  destruct (fst (range_from_client_units (enc_of encv) (lsp_lines src) r)) as [[sl sc] [el ec]].
  unfold py_range, py_pos. cbn [fst snd].
  pystep. pystep. pystep. pystep. unfold py_lines.
  (* if start_line == len(lines): self._source = self.source + text; return *)
  pystep. rewrite len_map, Hs. pyexpr.
  destruct (sl =? len (lsp_lines src))%N eqn:E.
  { replace (Z.of_N sl =? Z.of_N (len (lsp_lines src))) with true by lia. reflexivity. }
  replace (Z.of_N sl =? Z.of_N (len (lsp_lines src))) with false by lia. cbv beta iota.
  (* new = io.StringIO() *)
  pystep.
  (* the loop *)
  pyunhide. rewrite exec_block_cons, exec_for_enum. pyexpr.
  match goal with |- context[for_enum ?body ?xi ?xv _ 0 ?env0] =>
    match env0 with context[set "self" ?sv _] =>
      assert (normal_with (rebuild_inv sv sl sc el ec text
                             ([] ++ rebuild (lsp_lines src) 0 sl sc el ec text)%list)
                (for_enum body xi xv (map VStr (lsp_lines src)) (Z.of_N 0) env0)) as Hloop;
      [ apply (rebuild_loop_gen body xi xv sv sl sc el ec text)
      | change (Z.of_N 0) with 0 in Hloop; destruct (for_enum body xi xv (map VStr (lsp_lines src)) 0 env0) as [env'| | | | | |];
        try contradiction ]
    end
  end.
  - (* one line *)
    intros env i line acc (G1 & G2 & G3 & G4 & G5 & G6 & G7). cbv beta. unfold piece.
    assert (forall (env1 : list (string * val)) b,
              get v_new env1 = Some (VObj "StringIO" [("buf", VStr b)]) ->
              b = (acc ++ piece i sl sc el ec text line)%list ->
              get v_start_line env1 = get v_start_line env -> get v_start_col env1 = get v_start_col env ->
              get v_end_line env1 = get v_end_line env -> get v_end_col env1 = get v_end_col env ->
              get v_text env1 = get v_text env -> get "self" env1 = get "self" env ->
              rebuild_inv (VObj "TextDocument"
                (("_source", VStr src) :: ("_is_sync_kind_full", VBool (is_full k))
                 :: ("_is_sync_kind_incremental", VBool (is_incremental k))
                 :: ("_is_sync_kind_none", VBool (Doc.is_none k))
                 :: ("_position_codec", VObj "PositionCodec" [("encoding", encv)]) :: others))
                sl sc el ec text (acc ++ piece i sl sc el ec text line)%list env1) as Hfin.
    { intros env1 b B1 -> B2 B3 B4 B5 B6 B7. unfold rebuild_inv.
      rewrite B1, B2, B3, B4, B5, B6, B7. repeat split; assumption. }
    unfold piece in Hfin.
    pystep_env.
    destruct (i <? sl)%N eqn:C1.
    { decide_if. cbv beta iota. fin Hfin. }
    decide_if. cbv beta iota. pystep_env.
    destruct (el <? i)%N eqn:C2.
    { decide_if. cbv beta iota. fin Hfin. }
    decide_if. cbv beta iota. pystep_env. rewrite ?clamp_idx_ofN.
    destruct (i =? sl)%N eqn:C3; decide_if; cbv beta iota; pystep_env; rewrite ?clamp_idx_ofN;
      destruct (i =? el)%N eqn:C4; decide_if; cbv beta iota; pyfinish;
      fin Hfin.
  - (* the invariant holds on entry *)
    unfold rebuild_inv. pyexpr. repeat split; reflexivity.
  - (* self._source = new.getvalue() *)
    destruct Hloop as (G1 & G2 & G3 & G4 & G5 & G6 & G7). cbv beta iota.
    pystep_env. pyfinish. pyexpr. reflexivity.
Qed.

(* ---------- _apply_full_change, _apply_none_change, apply_change ---------- *)

Definition spec_incr (call : callT) (f : nat) : Prop := forall src k encv others r text rl,
  lines_fuel f (lsp_lines src) ->
  call q_incr (Some (doc_val src k encv others)) [change_val (Partial r text) rl] [] =
  Ok (doc_val (apply_incremental_change (enc_of encv) src r text) k encv others).

Definition spec_full (call : callT) : Prop := forall src k encv others c rl,
  call q_full (Some (doc_val src k encv others)) [change_val c rl] [] = Ok (doc_val (change_text c) k encv others).

Definition spec_none (call : callT) : Prop := forall src k encv others c rl,
  call q_none (Some (doc_val src k encv others)) [change_val c rl] [] = Ok (doc_val src k encv others).

Lemma full_ok_gen call f src k encv others c rl :
  run_fun call f f_apply_full_change (Some (doc_val src k encv others)) [change_val c rl] [] =
  Ok (doc_val (change_text c) k encv others).
Proof. unfold run_fun, f_apply_full_change, doc_val. destruct c; cbn [change_val change_text]; pysimp; reflexivity. Qed.

Lemma none_ok_gen call f src k encv others c rl :
  run_fun call f f_apply_none_change (Some (doc_val src k encv others)) [change_val c rl] [] =
  Ok (doc_val src k encv others).
Proof. unfold run_fun, f_apply_none_change, doc_val. pysimp. reflexivity. Qed.

(* the model's document, as far as apply_change can change it *)
Definition doc_of (src : list N) (k : sync_kind) (encv : val) : doc := mkDoc src None k (enc_of encv).

Ltac rw_spec H :=
  let H' := fresh in
  pose proof H as H'; cbn [change_val change_text is_incremental Doc.is_none is_full] in H'; rewrite H'; clear H'.

Lemma apply_change_ok_gen call f : spec_incr call f -> spec_full call -> spec_none call ->
  forall src k encv others c rl, lines_fuel f (lsp_lines src) ->
  run_fun call f f_apply_change (Some (doc_val src k encv others)) [change_val c rl] [] =
  Ok (doc_val (d_source (apply_change (doc_of src k encv) c)) k encv others).
Proof.
  intros Hi Hfu Hn src k encv others c rl Hf.
  unfold spec_incr, doc_val, codec_self in Hi. unfold spec_full, doc_val, codec_self in Hfu.
  unfold spec_none, doc_val, codec_self in Hn.
  unfold run_fun, f_apply_change, doc_val, codec_self, apply_change, doc_of, apply_full_change,
    apply_none_change, set_source, source.
  cbn [d_source d_kind d_enc d_version].
  destruct c as [r text|text]; cbn [change_val change_text]; pybind; pystep.
  - destruct k; cbn [is_incremental Doc.is_none is_full]; pyexpr.
    + (* None *) pystep. rw_spec (Hn src SyncNone encv others (Partial r text) rl). reflexivity.
    + (* Full *) pystep. rw_spec (Hfu src SyncFull encv others (Partial r text) rl). reflexivity.
    + (* Incremental *) rw_spec (Hi src SyncIncremental encv others r text rl Hf). reflexivity.
  - destruct k; cbn [is_incremental Doc.is_none is_full]; pystep.
    + rw_spec (Hn src SyncNone encv others (Whole text) rl). reflexivity.
    + rw_spec (Hfu src SyncFull encv others (Whole text) rl). reflexivity.
    + rw_spec (Hfu src SyncIncremental encv others (Whole text) rl). reflexivity.
Qed.

(* ---------- offset_at_position ---------- *)

Lemma take_map {A B} (g : A -> B) (l : list A) : forall n, take n (map g l) = map g (take n l).
Proof.
  induction l as [|x r IH]; intros n; [reflexivity|]. cbn [map take].
  destruct (n =? 0)%N; [reflexivity|]. cbn [map]. f_equal. apply IH.
Qed.

Lemma sum_vals_units (g : val -> res val) e :
  (forall s, g (VStr s) = Ok (VInt (Z.of_N (client_num_units e s)))) ->
  forall l acc, sum_vals g (map VStr l) acc = Ok (VInt (acc + Z.of_N (sum_units e l))).
Proof.
  intros Hg. induction l as [|x r IH]; intros acc; cbn [map sum_vals sum_units].
  - f_equal. f_equal. lia.
  - rewrite Hg. cbn [as_int]. rewrite IH. f_equal. f_equal. lia.
Qed.

Lemma offset_at_ok_gen call f : spec_lines call -> spec_from call f -> spec_cnu call ->
  forall src k encv others p, lines_fuel f (lsp_lines src) ->
  run_fun call f f_offset_at_position (Some (doc_val src k encv others)) [py_pos p] [] =
  Ok (VInt (Z.of_N (offset_at_position (enc_of encv) src p))).
Proof.
  intros Hl Hp Hc src k encv others p Hf.
  unfold spec_lines, doc_val, codec_self in Hl. unfold spec_from, codec_self in Hp.
  unfold spec_cnu, codec_self in Hc.
  unfold run_fun, f_offset_at_position, doc_val, codec_self, offset_at_position. pybind.
  pystep. rewrite Hl. cbv beta iota.
  pystep. rewrite (Hp encv _ p Hf). cbv beta iota.
  destruct (fst (position_from_client_units (enc_of encv) (lsp_lines src) p)) as [row col].
  unfold py_pos, py_lines. cbn [fst snd].
  pystep. pystep. rewrite clamp_idx_ofN, take_map.
  rewrite (sum_vals_units _ (enc_of encv)).
  - pyexpr. f_equal. f_equal. lia.
  - intros s. pyexpr. apply Hc.
Qed.

(* ---------- word_at_position ---------- *)

Lemma start_findall_head s : exists t, re_start_word_findall s = start_word_first s :: t.
Proof.
  unfold re_start_word_findall.
  assert (forall n s, (length s < n)%nat ->
            exists t, re_start_word_findall_fuel n s = start_word_first s :: t) as H.
  { induction n as [|n IH]; intros s0 Hn; [lia|]. cbn [re_start_word_findall_fuel].
    destruct s0 as [|c r].
    - cbn. eauto.
    - change (start_word_first (c :: r)) with
        (if at_dollar (skip_word (c :: r)) then word_prefix (c :: r) else start_word_first r).
      change (re_at_dollar (re_skip_word (c :: r))) with (at_dollar (skip_word (c :: r))).
      change (re_word_prefix (c :: r)) with (word_prefix (c :: r)).
      destruct (at_dollar (skip_word (c :: r))).
      + destruct (word_prefix (c :: r)); eauto.
      + apply IH. cbn [length] in Hn. lia. }
  apply H. lia.
Qed.

Lemma subscript_list_0 v r : py_subscript (VList (v :: r)) (VInt 0) = Ok v.
Proof.
  unfold py_subscript.
  replace (norm_index (len (v :: r)) 0) with (Some 0%N)
    by (symmetry; apply (norm_index_in _ 0); rewrite len_cons'; lia).
  reflexivity.
Qed.

Lemma from_line_in_range e lines l ch : (l < len lines)%N ->
  fst (fst (position_from_client_units e lines (l, ch))) = l.
Proof.
  intros H. assert (lines <> []) as Hne by (intros ->; change (len (@nil (list N))) with 0%N in H; lia).
  rewrite (from_nonempty _ _ _ _ Hne). replace (len lines <=? l)%N with false by lia. cbv zeta.
  destruct (client_num_units e (replace_crlf (nth (N.to_nat l) lines [])) =? 0)%N; reflexivity.
Qed.

Lemma word_at_ok_gen call f : spec_lines call -> spec_from call f ->
  forall src k encv others p, lines_fuel f (lsp_lines src) ->
  run_fun call f f_word_at_position (Some (doc_val src k encv others)) [py_pos p] [] =
  Ok (VStr (word_at_position (enc_of encv) src p)).
Proof.
  intros Hl Hp src k encv others [l ch] Hf.
  unfold spec_lines, doc_val, codec_self in Hl. unfold spec_from, codec_self in Hp.
  pose proof (Hp encv _ (l, ch) Hf) as Hp'. unfold py_pos at 1 in Hp'. cbn [fst snd] in Hp'.
  unfold run_fun, f_word_at_position, doc_val, codec_self, word_at_position, py_pos. pybind. cbn [fst snd].
  pystep. rewrite Hl. cbv beta iota. unfold py_lines at 1.
  pystep. rewrite len_map.
  destruct (len (lsp_lines src) <=? l)%N eqn:E.
  { replace (Z.of_N (len (lsp_lines src)) <=? Z.of_N l) with true by lia. reflexivity. }
  replace (Z.of_N (len (lsp_lines src)) <=? Z.of_N l) with false by lia. cbv beta iota.
  pystep. fold (py_lines (lsp_lines src)). rewrite Hp'. cbv beta iota.
  pose proof (from_line_in_range (enc_of encv) (lsp_lines src) l ch ltac:(lia)) as Hrow.
  destruct (fst (position_from_client_units (enc_of encv) (lsp_lines src) (l, ch))) as [row col].
  cbn [fst] in Hrow. subst row. unfold py_pos, py_lines. cbn [fst snd].
  pystep. pystep. rewrite subscript_lines by lia. cbv beta iota.
  pystep. pystep. rewrite !clamp_idx_ofN.
  pystep. pystep.
  destruct (start_findall_head (take col (nth (N.to_nat l) (lsp_lines src) []))) as [t Ht].
  pystep. rewrite Ht. cbn [map]. rewrite subscript_list_0. pyexpr. reflexivity.
Qed.

(* ------------------------------------------------------------------------------------ *)
(* Linking: the translated text_document.py together with the translated position codec. *)

Definition linked : list fundef := (AstDoc.prog ++ AstCodec.prog)%list.

(* fuel: more than the length of the text is enough for the walk on each of its lines *)
Lemma lsp_lines_length : forall n s, (length s <= n)%nat ->
  forall line, In line (lsp_lines s) -> (length line <= length s)%nat.
Proof.
  induction n as [|n IH]; intros s Hn line Hin.
  - destruct s; [contradiction | cbn [length] in Hn; lia].
  - destruct s as [|c r]; [contradiction|]. cbn [length] in Hn. cbn [lsp_lines] in Hin.
    destruct (c =? 10)%N.
    + destruct Hin as [<-|Hin]; [cbn; lia|]. specialize (IH r ltac:(lia) line Hin). cbn [length]. lia.
    + destruct (c =? 13)%N.
      * destruct r as [|d r']; [destruct Hin as [<-|[]]; cbn; lia|].
        destruct (d =? 10)%N.
        -- destruct Hin as [<-|Hin]; [cbn; lia|]. cbn [length] in *.
           specialize (IH r' ltac:(lia) line Hin). lia.
        -- destruct Hin as [<-|Hin]; [cbn; lia|].
           specialize (IH (d :: r') ltac:(cbn [length] in *; lia) line Hin). cbn [length] in *. lia.
      * pose proof (IH r ltac:(lia)) as IHr. destruct (lsp_lines r) as [|l ls].
        -- destruct Hin as [<-|[]]. cbn. lia.
        -- destruct Hin as [<-|Hin].
           ++ specialize (IHr l (or_introl eq_refl)). cbn [length]. lia.
           ++ specialize (IHr line (or_intror Hin)). cbn [length]. lia.
Qed.

Lemma lines_fuel_src f src : (length src < f)%nat -> lines_fuel f (lsp_lines src).
Proof.
  intros H l. destruct (Nat.lt_ge_cases l (length (lsp_lines src))) as [Hl|Hl].
  - pose proof (lsp_lines_length (length src) src (Nat.le_refl _) _ (nth_In _ [] Hl)). lia.
  - rewrite nth_overflow by exact Hl. cbn [length]. lia.
Qed.

Section Link.
Let P := linked.

Lemma L_source f d : spec_source (mk_call P f (S d)).
Proof.
  intros src k encv others. enter f_source. apply source_ok_gen.
Qed.

Lemma L_lines f d : spec_lines (mk_call P f (S (S d))).
Proof.
  intros src k encv others. enter f_lines.
  apply lines_ok_gen, L_source.
Qed.

Lemma L_cnu f d : spec_cnu (mk_call P f (S (S (S d)))).
Proof. apply (linked_cnu P eq_refl eq_refl eq_refl). Qed.

Lemma L_from f d : spec_from (mk_call P f (S (S (S (S d))))) f.
Proof. apply (linked_from P eq_refl eq_refl eq_refl eq_refl). Qed.

Lemma L_range_from f d : spec_range_from (mk_call P f (S (S (S (S (S d)))))) f.
Proof. apply (linked_range_from P eq_refl eq_refl eq_refl eq_refl eq_refl). Qed.

Lemma L_incr f d : spec_incr (mk_call P f (S (S (S (S (S (S d))))))) f.
Proof.
  intros src k encv others r text rl Hf.
  enter f_apply_incremental_change.
  apply incr_ok_gen; [apply (L_source f (S (S (S (S d))))) | apply (L_lines f (S (S (S d)))) | apply L_range_from | exact Hf].
Qed.

Lemma L_full f d : spec_full (mk_call P f (S d)).
Proof.
  intros src k encv others c rl. enter f_apply_full_change. apply full_ok_gen.
Qed.

Lemma L_none f d : spec_none (mk_call P f (S d)).
Proof.
  intros src k encv others c rl. enter f_apply_none_change. apply none_ok_gen.
Qed.
End Link.

(* ------------------------------------------------------------------------------------ *)
(* The theorems.  `run linked fuel depth q (Some document) args`; fuel: more than the     *)
(* length of the text (the only loop with fuel is the codec's walk along one line).       *)

Lemma depth_ge' n d : (n <= d)%nat -> exists d', d = (n + d')%nat.
Proof. intros H. exists (d - n)%nat. lia. Qed.

Theorem ast_lines_equiv f d src k encv others : (2 <= d)%nat ->
  PyMini.run linked f d q_lines (Some (doc_val src k encv others)) [] = Ok (py_lines (lsp_lines src)).
Proof. intros Hd. destruct (depth_ge' 2 d Hd) as [d' ->]. apply L_lines. Qed.

Theorem ast_apply_incremental_change_equiv f d src k encv others r text rl : (6 <= d)%nat ->
  (length src < f)%nat ->
  PyMini.run linked f d q_incr (Some (doc_val src k encv others)) [change_val (Partial r text) rl] =
  Ok (doc_val (apply_incremental_change (enc_of encv) src r text) k encv others).
Proof.
  intros Hd Hf. destruct (depth_ge' 6 d Hd) as [d' ->]. apply L_incr, lines_fuel_src, Hf.
Qed.

Theorem ast_apply_change_equiv f d src k encv others c rl : (7 <= d)%nat -> (length src < f)%nat ->
  PyMini.run linked f d q_apply (Some (doc_val src k encv others)) [change_val c rl] =
  Ok (doc_val (d_source (apply_change (doc_of src k encv) c)) k encv others).
Proof.
  intros Hd Hf. destruct (depth_ge' 7 d Hd) as [d' ->]. unfold PyMini.run. cbn [Nat.add].
  enter f_apply_change.
  apply apply_change_ok_gen; [apply L_incr | apply (L_full f (S (S (S (S (S d')))))) |
                              apply (L_none f (S (S (S (S (S d')))))) | apply lines_fuel_src, Hf].
Qed.

Theorem ast_offset_at_position_equiv f d src k encv others p : (5 <= d)%nat -> (length src < f)%nat ->
  PyMini.run linked f d q_offset_at (Some (doc_val src k encv others)) [py_pos p] =
  Ok (VInt (Z.of_N (offset_at_position (enc_of encv) src p))).
Proof.
  intros Hd Hf. destruct (depth_ge' 5 d Hd) as [d' ->]. unfold PyMini.run. cbn [Nat.add].
  enter f_offset_at_position.
  apply offset_at_ok_gen; [apply (L_lines f (S (S d'))) | apply L_from | apply (L_cnu f (S d')) |
                           apply lines_fuel_src, Hf].
Qed.

Theorem ast_word_at_position_equiv f d src k encv others p : (5 <= d)%nat -> (length src < f)%nat ->
  PyMini.run linked f d q_word_at (Some (doc_val src k encv others)) [py_pos p] =
  Ok (VStr (word_at_position (enc_of encv) src p)).
Proof.
  intros Hd Hf. destruct (depth_ge' 5 d Hd) as [d' ->]. unfold PyMini.run. cbn [Nat.add].
  enter f_word_at_position.
  apply word_at_ok_gen; [apply (L_lines f (S (S d'))) | apply L_from | apply lines_fuel_src, Hf].
Qed.

(* in one statement each (one `Print Assumptions` per run): the editing side (C04) ... *)
Definition ast_doc_equiv_statement : Prop :=
  (forall f d src k encv others, (2 <= d)%nat ->
     PyMini.run linked f d q_lines (Some (doc_val src k encv others)) [] = Ok (py_lines (lsp_lines src))) /\
  (forall f d src k encv others r text rl, (6 <= d)%nat -> (length src < f)%nat ->
     PyMini.run linked f d q_incr (Some (doc_val src k encv others)) [change_val (Partial r text) rl] =
     Ok (doc_val (apply_incremental_change (enc_of encv) src r text) k encv others)) /\
  (forall f d src k encv others c rl, (7 <= d)%nat -> (length src < f)%nat ->
     PyMini.run linked f d q_apply (Some (doc_val src k encv others)) [change_val c rl] =
     Ok (doc_val (d_source (apply_change (doc_of src k encv) c)) k encv others)).

Theorem ast_doc_equiv : ast_doc_equiv_statement.
Proof.
  repeat split; intros.
  - apply ast_lines_equiv; assumption.
  - apply ast_apply_incremental_change_equiv; assumption.
  - apply ast_apply_change_equiv; assumption.
Qed.

(* ... and the two queries on a converted position (C11) *)
Definition ast_doc_query_equiv_statement : Prop :=
  (forall f d src k encv others p, (5 <= d)%nat -> (length src < f)%nat ->
     PyMini.run linked f d q_offset_at (Some (doc_val src k encv others)) [py_pos p] =
     Ok (VInt (Z.of_N (offset_at_position (enc_of encv) src p)))) /\
  (forall f d src k encv others p, (5 <= d)%nat -> (length src < f)%nat ->
     PyMini.run linked f d q_word_at (Some (doc_val src k encv others)) [py_pos p] =
     Ok (VStr (word_at_position (enc_of encv) src p))).

Theorem ast_doc_query_equiv : ast_doc_query_equiv_statement.
Proof.
  split; intros.
  - apply ast_offset_at_position_equiv; assumption.
  - apply ast_word_at_position_equiv; assumption.
Qed.

(* non-vacuity: "ab\ncd" with the range (0,1)-(1,1) replaced by "X" is "aXd"; the word at (0,1) of
   "ab cd" is "ab" *)
Example ast_doc_example :
  PyMini.run linked 7 7 q_apply (Some (doc_val [97; 98; 10; 99; 100]%N SyncIncremental (enc_val Utf16) []))
      [change_val (Partial ((0, 1), (1, 1))%N [88%N]) VNone] =
    Ok (doc_val [97; 88; 100]%N SyncIncremental (enc_val Utf16) []) /\
  PyMini.run linked 7 7 q_word_at (Some (doc_val [97; 98; 32; 99; 100]%N SyncFull (enc_val Utf8) []))
      [py_pos (0, 1)%N] = Ok (VStr [97; 98]%N).
Proof. split; vm_compute; reflexivity. Qed.
