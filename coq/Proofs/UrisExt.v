(* C18 extension: uri_with, the IS_WIN branches (is_win parameter), urlparse/urlunparse/uri_scheme. *)
From Coq Require Import ZArith NArith List Bool Lia ZifyBool ZifyN ZifyNat.
From Pygls Require Import Base.Unicode Proofs.UnicodeFacts.
From Pygls Require Export Proofs.UrisProofs.
Ltac Zify.zify_post_hook ::= Z.to_euclidean_division_equations.
Open Scope N_scope.

(* ---------- is_win = false is the POSIX model ---------- *)
Lemma normalize_gen_posix p : normalize_win_path_gen false p = normalize_win_path p.
Proof. reflexivity. Qed.
Lemma from_fs_path_gen_posix p : from_fs_path_gen false p = from_fs_path p.
Proof. destruct p; reflexivity. Qed.
Lemma to_fs_path_gen_posix u : to_fs_path_gen false u = to_fs_path u.
Proof. unfold to_fs_path_gen. destruct (to_fs_path u) as [[v|]|e]; reflexivity. Qed.

(* ---------- a path and its rooted form normalise alike ---------- *)
Lemma rooted_starts_slash s : starts_slash (rooted s) = true.
Proof. destruct s as [|c r]; [reflexivity|]. cbn [rooted]. destruct (c =? 47) eqn:E; [exact E|reflexivity]. Qed.

Lemma normalize_rooted s : normalize_win_path (rooted s) = normalize_win_path s.
Proof.
  destruct s as [|c r]; [reflexivity|]. cbn [rooted]. destruct (c =? 47) eqn:E; [reflexivity|].
  assert (E2 : starts_2slash (c :: r) = false).
  { destruct r; [reflexivity|]. cbn [starts_2slash]. change (c =? SLASH) with (c =? 47). rewrite E. reflexivity. }
  assert (E3 : starts_2slash (47 :: c :: r) = false).
  { cbn [starts_2slash]. change (c =? SLASH) with (c =? 47). rewrite E. apply andb_false_r. }
  rewrite !normalize_unfold, E2, E3. cbv zeta. cbn [fst snd starts_slash].
  change (c =? SLASH) with (c =? 47). rewrite E. reflexivity.
Qed.

Lemma from_fs_path_rooted s : from_fs_path (Some (rooted s)) = from_fs_path (Some s).
Proof. unfold from_fs_path. rewrite normalize_rooted. reflexivity. Qed.

(* ---------- Windows ---------- *)
Lemma from_fs_path_win p : from_fs_path_gen true (Some p) = from_fs_path (Some (win_slashed p)).
Proof. unfold win_slashed. rewrite from_fs_path_rooted. reflexivity. Qed.

Lemma to_fs_path_win u : to_fs_path_gen true (Some u) =
  bind (to_fs_path (Some u)) (fun r => Ret (option_map to_backslash r)).
Proof. unfold to_fs_path_gen. destruct (to_fs_path (Some u)) as [[v|]|e]; reflexivity. Qed.

Lemma win_guard_inv p : win_guard p = true -> guard (win_slashed p) = true.
Proof. unfold win_guard. intros H. apply andb_true_iff in H. apply H. Qed.

(* any character class closed under "/" and lower-casing of letters is preserved by norm *)
Lemma pred_lower_drive (g : N -> bool) q : (forall b, letter b = true -> g (to_lower b) = true) ->
  forallb g q = true -> forallb g (lower_drive q) = true.
Proof.
  intros Hl H. unfold lower_drive. destruct (has_drive q) eqn:E; [|exact H].
  destruct q as [|a [|b [|c r]]]; try discriminate. cbn [has_drive forallb] in *.
  apply andb_true_iff in E. destruct E as [E Ec]. apply andb_true_iff in E. destruct E as [Ea Eb].
  apply andb_true_iff in H. destruct H as [Ha H]. apply andb_true_iff in H. destruct H as [Hb H].
  rewrite Ha, H, (Hl b Eb). reflexivity.
Qed.

Lemma pred_norm (g : N -> bool) a : g 47 = true -> (forall b, letter b = true -> g (to_lower b) = true) ->
  starts_slash a = true -> forallb g a = true -> forallb g (norm a) = true.
Proof.
  intros H47 Hl H Hg. unfold norm.
  destruct (parts_cases a H) as [(Eu & _ & _ & Eq)|(h & t & Ea & Eu & _ & _ & _ & Eq)]; rewrite Eu, Eq.
  - assert (Q : forallb g (lower_drive a) = true) by (apply pred_lower_drive; assumption).
    destruct (has_drive (lower_drive a)); [|exact Q].
    destruct (lower_drive a) as [|x r]; [reflexivity|]. cbn [tl forallb] in *. apply andb_true_iff in Q. apply Q.
  - subst a. cbn [forallb] in *. apply andb_true_iff in Hg. destruct Hg as [_ Hg].
    apply andb_true_iff in Hg. destruct Hg as [_ Hg]. rewrite forallb_app in Hg.
    apply andb_true_iff in Hg. destruct Hg as [Hh Ht]. rewrite H47. cbn [andb]. rewrite forallb_app, Hh. cbn [andb].
    apply pred_lower_drive; [exact Hl|]. destruct t; [cbn [tpath forallb]; rewrite H47; reflexivity|exact Ht].
Qed.

Definition noback (c : N) : bool := negb (c =? 92).
Lemma to_slash_noback p : forallb noback (to_slash p) = true.
Proof.
  unfold to_slash, noback. induction p as [|c r IH]; [reflexivity|]. cbn [map forallb]. rewrite IH, andb_true_r.
  destruct (c =? 92) eqn:E; [reflexivity|]. rewrite E. reflexivity.
Qed.
Lemma rooted_noback s : forallb noback s = true -> forallb noback (rooted s) = true.
Proof.
  intros H. destruct s as [|c r]; [reflexivity|]. cbn [rooted]. destruct (c =? 47); [exact H|].
  cbn [forallb]. cbn [forallb] in H. rewrite H. reflexivity.
Qed.
Lemma to_slash_to_backslash x : forallb noback x = true -> to_slash (to_backslash x) = x.
Proof.
  unfold to_slash, to_backslash, noback. induction x as [|c r IH]; [reflexivity|]. cbn [map forallb]. intros H.
  apply andb_true_iff in H. destruct H as [Hc Hr]. rewrite (IH Hr). f_equal.
  destruct (c =? 47) eqn:E; [apply N.eqb_eq in E; subst c; reflexivity|].
  destruct (c =? 92); [discriminate|reflexivity].
Qed.

Lemma scalar_to_slash p : forallb scalar p = true -> forallb scalar (to_slash p) = true.
Proof.
  unfold to_slash. induction p as [|c r IH]; [reflexivity|]. cbn [map forallb]. intros H.
  apply andb_true_iff in H. destruct H as [Hc Hr]. rewrite (IH Hr), andb_true_r.
  destruct (c =? 92); [reflexivity|exact Hc].
Qed.

(* The Windows round trip: both separators in, backslashes out; e.g. c:\far\boo <-> file:///c:/far/boo *)
Theorem win_roundtrip p : win_guard p = true ->
  from_fs_path_gen true (Some p) = Ret (Some (spec_uri (win_slashed p))) /\
  to_fs_path_gen true (Some (spec_uri (win_slashed p))) = Ret (Some (win_norm p)) /\
  from_fs_path_gen true (Some (win_norm p)) = Ret (Some (spec_uri (win_slashed p))).
Proof.
  intros G. pose proof (win_guard_inv p G) as Ga.
  split; [rewrite from_fs_path_win; apply from_fs_path_spec, Ga|].
  split; [rewrite to_fs_path_win, (to_fs_path_spec _ Ga); reflexivity|].
  rewrite from_fs_path_win. unfold win_norm, win_slashed at 1.
  assert (Hs : starts_slash (win_slashed p) = true) by apply rooted_starts_slash.
  rewrite to_slash_to_backslash.
  2:{ apply pred_norm; [reflexivity| |exact Hs|apply rooted_noback, to_slash_noback].
      intros b Hb. unfold noback, letter, to_lower in *. destruct ((65 <=? b) && (b <=? 90)) eqn:U; lia. }
  rewrite from_fs_path_rooted, (uri_roundtrip _ Ga). apply from_fs_path_spec, Ga.
Qed.

(* on Windows the POSIX path of the same URI is obtained with the separators swapped: whatever
   the URI, to_fs_path differs from the POSIX result only by "/" -> "\\" *)
Theorem win_to_is_posix_backslashed u v : to_fs_path (Some u) = Ret (Some v) ->
  to_fs_path_gen true (Some u) = Ret (Some (to_backslash v)).
Proof. intros H. rewrite to_fs_path_win, H. reflexivity. Qed.

(* ---------- urlparse / urlunparse / uri_scheme on produced URIs ---------- *)
Lemma urlparse_file_uri h q :
  forallb scalar h = true -> forallb scalar q = true -> has 47 h = false -> starts_slash q = true ->
  urlparse (file_uri (qb h) (qpath_of q)) = Ret (s_file, h, q, [], [], []).
Proof.
  intros Hh Hq Hn Hs. unfold urlparse.
  rewrite py_urlparse_file;
    [|apply qb_uri_chars, Hh|apply qb_no_slash; assumption|apply qpath_chars, Hq|apply qpath_starts_slash, Hs].
  cbn [bind]. rewrite unquote_file, (unquote_qb h Hh), (unquote_qpath q Hq). reflexivity.
Qed.

Theorem urlparse_spec_uri p : abs_path p = true ->
  urlparse (spec_uri p) = Ret (s_file, norm_host p, norm_path p, [], [], []).
Proof.
  intros Ha. destruct (abs_path_inv p Ha) as [H Hs]. destruct (scalar_parts p H Hs) as [Hh Hq].
  rewrite (spec_uri_file_uri p Ha).
  apply urlparse_file_uri; [exact Hh|exact Hq|apply norm_host_no_slash, H|apply norm_path_starts_slash, H].
Qed.

Lemma guard_inv p : guard p = true -> abs_path p = true /\ empty_authority p = false.
Proof.
  unfold guard. intros G. apply andb_true_iff in G. destruct G as [Ha Ge]. split; [exact Ha|].
  destruct (empty_authority p); [discriminate|reflexivity].
Qed.

Theorem urlunparse_parts_spec p : guard p = true ->
  urlunparse s_file (norm_host p) (norm_path p) [] [] [] = Ret (spec_uri p).
Proof.
  intros G. pose proof (from_fs_path_spec p G) as F. destruct (guard_inv p G) as [Ha _].
  destruct (abs_path_inv p Ha) as [H _]. unfold from_fs_path in F. rewrite (normalize_spec p H) in F.
  cbv beta iota in F. destruct (urlunparse s_file (norm_host p) (norm_path p) [] [] []); cbn [bind] in F; congruence.
Qed.

(* urlunparse (urlparse u) = u for u produced by from_fs_path *)
Theorem unparse_parse p : guard p = true ->
  bind (urlparse (spec_uri p)) (fun '(a, b, c, d, e, f) => urlunparse a b c d e f) = Ret (spec_uri p).
Proof.
  intros G. destruct (guard_inv p G) as [Ha _]. rewrite (urlparse_spec_uri p Ha). cbn [bind].
  apply urlunparse_parts_spec, G.
Qed.

Theorem uri_scheme_of_output p : abs_path p = true -> uri_scheme (Some (spec_uri p)) = Ret (Some s_file).
Proof. intros Ha. unfold uri_scheme. rewrite (urlparse_spec_uri p Ha). reflexivity. Qed.

(* what the code does with the case of a scheme: it is lower-cased (RFC 3986 section 3.1: schemes
   are case-insensitive), so "FILE:///x" and "file:///x" have the same scheme and the same path *)
Theorem uri_scheme_lowercases pre rest :
  plain_uri (pre ++ 58 :: rest) = true ->
  match pre with c0 :: _ => is_alpha c0 | [] => false end = true -> forallb scheme_char pre = true ->
  uri_scheme (Some (pre ++ 58 :: rest)) = Ret (Some (map lower pre)).
Proof.
  intros Hp H0 Hc. set (u := pre ++ 58 :: rest) in *.
  assert (ES : split_scheme u = (map lower pre, rest)).
  { unfold split_scheme, u. rewrite (break_stop (N.eqb COLON) pre (58 :: rest)); [|
      eapply forallb_impl; [|exact Hc]; intros c E;
      unfold scheme_char, is_alpha, is_upper, is_lower, is_digit, COLON in *; lia|reflexivity].
    destruct pre as [|c0 pre']; [discriminate|]. rewrite H0, Hc. reflexivity. }
  unfold uri_scheme, urlparse, py_urlparse, py_urlsplit.
  rewrite (plain_lstrip u Hp), (plain_remove_unsafe u Hp).
  pose proof (split_scheme_snd_sub nobr u (plain_nobr u Hp)) as H2. rewrite ES in *. cbn [snd] in H2.
  pose proof (split_netloc_fst_sub nobr rest H2) as H3.
  destruct (split_netloc rest) as [netloc url3]. cbn [fst] in H3.
  destruct (nobr_has netloc H3) as [B1 B2]. rewrite (check_netloc_plain netloc B1 B2). cbn [bind].
  destruct (split_first HASH url3) as [url4 fragment]. destruct (split_first QM url4) as [url5 query].
  cbn [bind].
  destruct (if mem_str (map lower pre) uses_params && has SEMI url5 then splitparams url5 else (url5, []))
    as [u' params]. cbn [bind].
  unfold unquote at 1. rewrite (scheme_chars_no_pct _ Hc). reflexivity.
Qed.

(* ---------- urlunparse / urlparse with a query and a fragment ---------- *)
Definition sfx (qu fr : list N) : list N :=
  (match qu with [] => [] | _ => 63 :: qb qu end) ++ (match fr with [] => [] | _ => 35 :: qb fr end).

Lemma nonempty_qb s : nonempty (qb s) = nonempty s.
Proof. destruct s as [|c r]; [reflexivity|]. apply qb_nonempty. discriminate. Qed.

Lemma urlunparse_file_qf h q qu fr :
  forallb scalar h = true -> forallb scalar q = true -> forallb scalar qu = true -> forallb scalar fr = true ->
  urlunparse s_file h q [] qu fr = Ret (py_urlunsplit s_file (qb h) (qpath_of q) (qb qu) (qb fr)).
Proof.
  intros Hh Hq Hu Hf. unfold urlunparse, qpath_of. destruct (drive_match q) eqn:D.
  - destruct q as [|a [|b [|c r]]]; try discriminate. cbn [tl firstn skipn app].
    cbn [forallb] in Hq. apply andb_true_iff in Hq. destruct Hq as [_ Hq].
    apply andb_true_iff in Hq. destruct Hq as [_ Hq]. apply andb_true_iff in Hq. destruct Hq as [_ Hq].
    rewrite (quote_scalar r Hq). cbn [bind].
    rewrite quote_file, (quote_scalar h Hh), quote_nil, (quote_scalar qu Hu), (quote_scalar fr Hf).
    cbn [bind]. reflexivity.
  - rewrite (quote_scalar q Hq). cbn [bind].
    rewrite quote_file, (quote_scalar h Hh), quote_nil, (quote_scalar qu Hu), (quote_scalar fr Hf).
    cbn [bind]. reflexivity.
Qed.

Lemma unsplit_file_qf qh qp qu fr : starts_slash qp = true ->
  (nonempty qh = true \/ starts_2slash qp = false) ->
  py_urlunsplit s_file qh qp (qb qu) (qb fr) = file_uri qh qp ++ sfx qu fr.
Proof.
  intros Hs Hc. pose proof (unsplit_file qh qp Hs Hc) as U. unfold py_urlunsplit in *.
  rewrite !nonempty_qb. cbn [nonempty] in U. rewrite U. unfold sfx.
  destruct qu as [|c1 r1]; destruct fr as [|c2 r2]; cbn [nonempty];
    rewrite <- ?app_assoc, ?app_nil_r; reflexivity.
Qed.

Definition notnl (c : N) : bool := negb ((c =? 9) || (c =? 13) || (c =? 10)).
Lemma remove_unsafe_id' s : forallb notnl s = true -> remove_unsafe s = s.
Proof.
  unfold remove_unsafe, notnl. induction s as [|c s IH]; [reflexivity|]. cbn [forallb filter]. intros H.
  apply andb_true_iff in H. destruct H as [Hc Hs]. rewrite Hc, (IH Hs). reflexivity.
Qed.
Lemma uri_chars_notnl s : forallb uri_char s = true -> forallb notnl s = true.
Proof. apply forallb_impl. intros c. apply uri_char_not_unsafe. Qed.

Lemma sfx_notnl qu fr : forallb scalar qu = true -> forallb scalar fr = true -> forallb notnl (sfx qu fr) = true.
Proof.
  intros Hu Hf. unfold sfx. rewrite forallb_app.
  assert (A : forall x, forallb scalar x = true -> forallb notnl (qb x) = true)
    by (intros x Hx; apply uri_chars_notnl, qb_uri_chars, Hx).
  destruct qu; destruct fr; cbn [forallb]; rewrite ?A by assumption; reflexivity.
Qed.

Lemma file_uri_app qh qp x : file_uri qh qp ++ x = s_file ++ 58 :: 47 :: 47 :: qh ++ qp ++ x.
Proof. unfold file_uri. rewrite <- app_assoc. cbn [app]. rewrite <- app_assoc. reflexivity. Qed.

Lemma has_app c a b : has c (a ++ b) = has c a || has c b.
Proof. unfold has. apply existsb_app. Qed.

Theorem py_urlparse_file_qf qh qp qu fr :
  forallb uri_char qh = true -> has 47 qh = false -> forallb uri_char qp = true -> starts_slash qp = true ->
  forallb scalar qu = true -> forallb scalar fr = true ->
  py_urlparse (file_uri qh qp ++ sfx qu fr) =
  Ret (s_file, qh, qp, [], match qu with [] => [] | _ => qb qu end, match fr with [] => [] | _ => qb fr end).
Proof.
  intros Hh Hns Hp Hs Hu Hf. unfold py_urlparse, py_urlsplit. rewrite file_uri_app.
  rewrite lstrip_file.
  rewrite remove_unsafe_id'.
  2:{ rewrite forallb_app. cbn [forallb]. rewrite !forallb_app.
      rewrite (uri_chars_notnl qh Hh), (uri_chars_notnl qp Hp), (sfx_notnl qu fr Hu Hf). reflexivity. }
  rewrite split_scheme_file. cbv beta iota. rewrite split_netloc_2slash.
  rewrite (break_stop is_delim qh (qp ++ sfx qu fr) (no_delim_in_host qh Hh Hns)).
  2:{ destruct qp as [|c r]; [discriminate|]. cbn [starts_slash] in Hs. cbn [app head_is]. unfold is_delim. rewrite Hs. reflexivity. }
  cbv beta iota.
  rewrite check_netloc_plain by (apply uri_char_has; [reflexivity|exact Hh]). cbn [bind].
  assert (NH : forall x, forallb scalar x = true -> has HASH (qb x) = false)
    by (intros x Hx; apply uri_char_has; [reflexivity|apply qb_uri_chars, Hx]).
  assert (NQ : forall x, forallb scalar x = true -> has QM (qb x) = false)
    by (intros x Hx; apply uri_char_has; [reflexivity|apply qb_uri_chars, Hx]).
  assert (PH : has HASH qp = false) by (apply uri_char_has; [reflexivity|exact Hp]).
  assert (PQ : has QM qp = false) by (apply uri_char_has; [reflexivity|exact Hp]).
  (* fragment *)
  assert (EF : split_first HASH (qp ++ sfx qu fr) =
               (qp ++ match qu with [] => [] | _ => 63 :: qb qu end, match fr with [] => [] | _ => qb fr end)).
  { unfold sfx. destruct fr as [|c2 r2].
    - rewrite app_nil_r. apply split_first_none. rewrite has_app, PH. destruct qu; [reflexivity|].
      unfold has at 1. cbn [existsb]. fold (has HASH (qb (n :: qu))). rewrite (NH _ Hu). reflexivity.
    - unfold split_first. rewrite app_assoc.
      rewrite (break_stop (N.eqb HASH) _ (35 :: qb (c2 :: r2))); [reflexivity| |reflexivity].
      apply has_false_forallb. rewrite has_app, PH. destruct qu; [reflexivity|].
      unfold has at 1. cbn [existsb]. fold (has HASH (qb (n :: qu))). rewrite (NH _ Hu). reflexivity. }
  rewrite EF. cbv beta iota.
  assert (EQ : split_first QM (qp ++ match qu with [] => [] | _ => 63 :: qb qu end) =
               (qp, match qu with [] => [] | _ => qb qu end)).
  { destruct qu as [|c1 r1]; [rewrite app_nil_r; apply split_first_none, PQ|].
    unfold split_first. rewrite (break_stop (N.eqb QM) qp (63 :: qb (c1 :: r1))); [reflexivity| |reflexivity].
    apply has_false_forallb, PQ. }
  rewrite EQ. cbv beta iota. cbn [bind]. change (mem_str s_file uses_params) with false. cbn [andb]. reflexivity.
Qed.

Theorem urlparse_file_uri_qf h q qu fr :
  forallb scalar h = true -> forallb scalar q = true -> has 47 h = false -> starts_slash q = true ->
  forallb scalar qu = true -> forallb scalar fr = true ->
  urlparse (file_uri (qb h) (qpath_of q) ++ sfx qu fr) = Ret (s_file, h, q, [], qu, fr).
Proof.
  intros Hh Hq Hn Hs Hu Hf. unfold urlparse.
  rewrite py_urlparse_file_qf;
    [|apply qb_uri_chars, Hh|apply qb_no_slash; assumption|apply qpath_chars, Hq|apply qpath_starts_slash, Hs
     |exact Hu|exact Hf].
  cbn [bind]. rewrite unquote_file, (unquote_qb h Hh), (unquote_qpath q Hq), unquote_nil.
  replace (unquote match qu with [] => [] | _ => qb qu end) with qu
    by (destruct qu; [reflexivity|symmetry; apply unquote_qb, Hu]).
  replace (unquote match fr with [] => [] | _ => qb fr end) with fr
    by (destruct fr; [reflexivity|symmetry; apply unquote_qb, Hf]).
  reflexivity.
Qed.

(* ---------- uri_with ---------- *)
Lemma or_str_opt_or a b : or_str a b = opt_or a b.
Proof. destruct a as [[|c r]|]; reflexivity. Qed.

Lemma no_slash_has s : no_slash s = true -> has 47 s = false.
Proof.
  unfold no_slash, has. induction s as [|c r IH]; [reflexivity|]. cbn [forallb existsb]. intros H.
  apply andb_true_iff in H. destruct H as [Hc Hr]. rewrite (IH Hr), orb_false_r, N.eqb_sym.
  destruct (c =? 47); [discriminate|reflexivity].
Qed.

Lemma scalar_rooted s : forallb scalar s = true -> forallb scalar (rooted s) = true.
Proof.
  intros H. destruct s as [|c r]; [reflexivity|]. cbn [rooted]. destruct (c =? 47); [exact H|].
  cbn [forallb] in *. rewrite H. reflexivity.
Qed.

(* a new path without an authority of its own *)
Lemma no_authority_parts fp : path_has_authority fp = false ->
  normalize_win_path fp = (lower_drive (rooted fp), []) /\
  starts_2slash (lower_drive (rooted fp)) = false /\
  norm_path (rooted fp) = lower_drive (rooted fp).
Proof.
  intros H. pose proof (rooted_starts_slash fp) as Hs.
  rewrite <- normalize_rooted, (normalize_spec _ Hs). unfold path_has_authority in H.
  destruct (parts_cases (rooted fp) Hs) as [(Eu & H2 & Eh & Eq)|(h & t & _ & Eu & _)].
  - rewrite Eh, Eq, lower_drive_2slash. repeat split. exact H2.
  - rewrite Eu in H. discriminate.
Qed.

Theorem uri_with_spec p fp n q f : with_guard p fp n q f = true ->
  uri_with (spec_uri p) None n (Some fp) None q f = Ret (spec_uri_with p fp n q f) /\
  urlparse (spec_uri_with p fp n q f) =
    Ret (s_file, opt_or n (norm_host p), lower_drive (rooted fp), [], opt_or q [], opt_or f []).
Proof.
  unfold with_guard. intros W. do 6 (apply andb_true_iff in W; destruct W as [W ?]).
  rename W into G. rename H into Hf. rename H0 into Hq. rename H1 into Hns. rename H2 into Hn.
  rename H3 into Hpa. rename H4 into Hfp.
  apply negb_true_iff in Hpa. destruct (no_authority_parts fp Hpa) as (EN & E2 & EP).
  destruct (guard_inv p G) as [Ha _]. destruct (abs_path_inv p Ha) as [Hsl Hsc].
  destruct (scalar_parts p Hsl Hsc) as [Hh0 _].
  set (h' := opt_or n (norm_host p)). set (q' := lower_drive (rooted fp)) in *.
  set (qu := opt_or q []). set (fr := opt_or f []).
  assert (Hh : forallb scalar h' = true) by (unfold h'; destruct n as [[|c r]|]; assumption).
  assert (Hhn : has 47 h' = false).
  { unfold h'. destruct n as [[|c r]|]; [apply norm_host_no_slash, Hsl|apply no_slash_has, Hns
                                        |apply norm_host_no_slash, Hsl]. }
  assert (Hq' : forallb scalar q' = true) by (apply scalar_lower_drive, scalar_rooted, Hfp).
  assert (Hs' : starts_slash q' = true) by (unfold q'; rewrite lower_drive_head; apply rooted_starts_slash).
  assert (Hu : forallb scalar qu = true) by (unfold qu; destruct q as [[|c r]|]; try reflexivity; exact Hq).
  assert (Hfr : forallb scalar fr = true) by (unfold fr; destruct f as [[|c r]|]; try reflexivity; exact Hf).
  assert (ES : spec_uri_with p fp n q f = file_uri (qb h') (qpath_of q') ++ sfx qu fr).
  { unfold spec_uri_with. unfold path_has_authority in Hpa.
    destruct (unc_parts (rooted fp)); [discriminate|]. rewrite EP. fold h' q' qu fr.
    rewrite file_uri_app, (qpath_is_encode_path _ Hq'), (quote_is_pct_encode _ Hh), (pct_encode_host _ Hhn).
    unfold with_suffix, sfx.
    replace (match qu with [] => [] | _ :: _ => 63 :: pct_encode keep_path qu end)
      with (match qu with [] => [] | _ :: _ => 63 :: qb qu end)
      by (destruct qu; [reflexivity|rewrite (quote_is_pct_encode _ Hu); reflexivity]).
    replace (match fr with [] => [] | _ :: _ => 35 :: pct_encode keep_path fr end)
      with (match fr with [] => [] | _ :: _ => 35 :: qb fr end)
      by (destruct fr; [reflexivity|rewrite (quote_is_pct_encode _ Hfr); reflexivity]).
    reflexivity. }
  rewrite ES. split.
  - unfold uri_with, uri_with_gen. rewrite (urlparse_spec_uri p Ha). cbn [bind]. cbv beta iota.
    change (normalize_win_path_gen false fp) with (normalize_win_path fp). rewrite EN. cbv beta iota.
    replace (nonempty q') with true by (destruct q'; [discriminate|reflexivity]).
    rewrite !or_str_opt_or. change (opt_or None s_file) with s_file. change (opt_or None (@nil N)) with (@nil N).
    fold h' qu fr. rewrite (urlunparse_file_qf _ _ _ _ Hh Hq' Hu Hfr).
    rewrite unsplit_file_qf; [reflexivity|apply qpath_starts_slash, Hs'|].
    right. apply qpath_no_2slash; assumption.
  - apply urlparse_file_uri_qf; assumption.
Qed.

(* replacing the path of a URI by the filesystem path the same URI stands for changes nothing *)
Theorem uri_with_identity p : guard p = true ->
  uri_with (spec_uri p) None None (Some (norm p)) None None None = Ret (spec_uri p).
Proof.
  intros G. destruct (guard_inv p G) as [Ha Ge]. destruct (abs_path_inv p Ha) as [Hsl _].
  unfold uri_with, uri_with_gen. rewrite (urlparse_spec_uri p Ha). cbn [bind]. cbv beta iota.
  change (normalize_win_path_gen false (norm p)) with (normalize_win_path (norm p)).
  rewrite (normalize_norm p Hsl Ge). cbv beta iota.
  pose proof (norm_path_starts_slash p Hsl) as Hq.
  replace (nonempty (norm_path p)) with true by (destruct (norm_path p); [discriminate|reflexivity]).
  cbn [or_str]. apply urlunparse_parts_spec, G.
Qed.

(* the path is mandatory: without it uri_with raises (a plain Exception), whatever else is given *)
Theorem uri_with_needs_path p s n pa q f : abs_path p = true ->
  uri_with (spec_uri p) s n None pa q f = Raise PlainException.
Proof. intros Ha. unfold uri_with, uri_with_gen. rewrite (urlparse_spec_uri p Ha). reflexivity. Qed.

(* ---------- the reference's scheme is what uri_scheme returns ---------- *)
Lemma rfc_scheme_some u pre : fst (rfc_scheme u) = Some pre -> u = pre ++ 58 :: snd (rfc_scheme u).
Proof.
  unfold rfc_scheme. rewrite span_not_break.
  pose proof (break_app (fun c => c_colon c || c_slash c || c_qm c || c_hash c) u) as Happ.
  destruct (break (fun c => c_colon c || c_slash c || c_qm c || c_hash c) u) as [a b]. cbn [fst snd] in Happ.
  destruct a as [|a0 a']; [destruct b; discriminate|]. destruct b as [|c r]; [discriminate|].
  destruct (c_colon c) eqn:E; [|discriminate]. cbn [fst snd]. intros H. injection H as <-.
  unfold c_colon in E. apply N.eqb_eq in E. subst c. symmetry. exact Happ.
Qed.

Theorem spec_scheme_agrees u s : plain_uri u = true -> spec_scheme u = Some s ->
  uri_scheme (Some u) = Ret (Some s).
Proof.
  intros Hp. unfold spec_scheme, rfc3986_split. cbv zeta. cbn [u_scheme].
  destruct (fst (rfc_scheme u)) as [pre|] eqn:E; [|discriminate].
  destruct (valid_scheme pre) eqn:V; [|discriminate]. intros H. injection H as <-.
  pose proof (rfc_scheme_some u pre E) as Eu. rewrite Eu in Hp |- *.
  unfold valid_scheme in V. apply andb_true_iff in V. destruct V as [V0 V1].
  change (map to_lower pre) with (map lower pre).
  apply uri_scheme_lowercases; [exact Hp|exact V0|exact V1].
Qed.
