(* LINK: the reader abstraction of Model/Client.v (C17) is what Model/Framing.v (C02 / C15)
   computes.

   Client.v describes the client's reader task at the level of ITEMS (a complete response /
   request / undecodable frame, a complete junk line) followed by a TAIL class (clean, cut header,
   cut body, junk) and has its own function for the task's terminal status (`at_eof`, switch
   `fix_eof`).  Framing.v models the same `run_async` loop over an asyncio StreamReader byte by
   byte.  Here: render any sequence of items as a byte stream (every framed item as an arbitrary
   conforming frame, every junk item as an arbitrary non-header line), append any rendering of
   the tail (any cut of a conforming frame inside its header block / at or inside its body; a
   junk line or an unterminated fragment), and prove that

     Framing.loop_whole (Stream limit) AtEOF stream
       = (the bodies of exactly the framed items, in order ; Done EndedNormally)

   while Client.v's reader on the same items handles exactly those framed items, in the same
   order (a junk item is the identity), and then assigns the terminal status REnded - for every
   tail in the repaired code.  For the unrepaired code (`fix_eof = false`) Client.v says
   RRaised ExIncompleteRead exactly for a cut-body tail; Framing.v models only the repaired loop,
   so the link for that variant is to the point of the loop where the difference lies: on a
   cut-body stream the loop arrives at `readexactly (Stream limit) true n rest = RXIncomplete`
   (the call that raises IncompleteReadError in the unrepaired run_async and is a `break` in the
   repaired one).

   Hypotheses (those Framing's theorems need): every frame is well formed for the Stream reader
   (`msg_ok (Stream limit)`: non-empty body, Content-Length spelled by `dec`, optional
   Content-Type without LF, header lines within the reader's line limit; implied by
   FramingSpec.conforming); a junk line has no LF inside, fits the limit and is not a
   Content-Length header.  Edits neither model. *)
From Coq Require Import ZArith NArith List Bool Lia ZifyBool ZifyN ZifyNat.
From Pygls Require Import Base.Bytes Model.Framing Spec.FramingSpec
  Proofs.FramingProofs Proofs.FramingProofsFrames Proofs.FramingProofsCut.
From Pygls Require Import Model.Client Proofs.ClientProofs.
Ltac Zify.zify_post_hook ::= Z.to_euclidean_division_equations.
Import ListNotations.
Open Scope N_scope.

(* ------------------------------------------------------------------------------------ *)
(* rendering                                                                            *)
(* ------------------------------------------------------------------------------------ *)

(* what is on the wire for one item of Client.v *)
Inductive witem :=
| WFrame (it : item) (m : layout * list N)    (* a framed item and the frame that carries it *)
| WJunk (l : list N).                         (* the line l ++ LF *)

Definition framed (it : item) : bool := match it with Junk => false | _ => true end.

(* the abstraction Client.v works with *)
Definition abs (w : witem) : item := match w with WFrame it _ => it | WJunk _ => Junk end.

Definition wbytes (w : witem) : list N :=
  match w with WFrame _ m => frame m | WJunk l => l ++ [10] end.
Definition wrender (ws : list witem) : list N := concat (map wbytes ws).

(* the framed items with their bodies, in order *)
Fixpoint wpairs (ws : list witem) : list (item * list N) :=
  match ws with
  | [] => []
  | WFrame it m :: r => (it, snd m) :: wpairs r
  | WJunk _ :: r => wpairs r
  end.

Definition junk_ok (k : kind) (l : list N) : Prop :=
  no_lf l = true /\ line_fits k l /\ parse_cl (l ++ [10]) = CLNoMatch.

Definition witem_ok (k : kind) (w : witem) : Prop :=
  match w with
  | WFrame it m => framed it = true /\ msg_ok k m = true
  | WJunk l => junk_ok k l
  end.

(* renderings of the four tail classes *)
Inductive tail_render (k : kind) : tail -> list N -> Prop :=
| TR_clean : tail_render k TClean []
| TR_header : forall lay ds b c,          (* a frame cut strictly inside its header block *)
    frame_ok k lay ds b = true -> c < len (header_block lay ds) ->
    tail_render k TPartHeader (take c (frame_ds lay ds b))
| TR_body : forall lay ds b c,            (* header block complete, body cut (possibly empty) *)
    frame_ok k lay ds b = true -> c < len b ->
    tail_render k TPartBody (header_block lay ds ++ take c b)
| TR_junk_line : forall l, junk_ok k l -> tail_render k TJunk (l ++ [10])
| TR_junk_fragment : forall l, no_lf l = true -> line_fits k l -> tail_render k TJunk l.

(* ------------------------------------------------------------------------------------ *)
(* Framing.v on rendered streams                                                        *)
(* ------------------------------------------------------------------------------------ *)

Lemma step_junk_line k eof l rest :
  junk_ok k l ->
  Framing.step k eof (PHeader 0, (l ++ [10]) ++ rest) = OCont (PHeader 0, rest) [].
Proof.
  intros (Hl & Hf & Hp). unfold Framing.step. rewrite <- app_assoc. cbn [app].
  rewrite (readline_line k eof l rest Hl Hf).
  assert (Hn : is_nil (l ++ [10]) = false) by (destruct l; reflexivity).
  rewrite Hn. replace (0 =? 0) with true by reflexivity. rewrite Hp. reflexivity.
Qed.

Lemma run_witems k eof : forall ws rest,
  Forall (witem_ok k) ws ->
  Framing.run k eof (PHeader 0, wrender ws ++ rest) =
  (let (es, r) := Framing.run k eof (PHeader 0, rest) in
   (map (fun p => Body (snd p)) (wpairs ws) ++ es, r)).
Proof.
  induction ws as [|w ws IH]; intros rest H.
  - unfold wrender. cbn [map concat app wpairs]. destruct (Framing.run k eof (PHeader 0, rest)); reflexivity.
  - inversion H as [|? ? Hw Hws]; subst. unfold wrender. cbn [map concat]. rewrite <- app_assoc.
    fold (wrender ws). destruct w as [it m|l]; cbn [wbytes wpairs witem_ok] in *.
    + destruct Hw as [_ Hm]. unfold frame.
      rewrite (run_frame k eof (fst m) (dec (len (snd m))) (snd m) _ Hm).
      rewrite (IH rest Hws). destruct (Framing.run k eof (PHeader 0, rest)); reflexivity.
    + rewrite (run_cont _ _ _ _ _ (step_junk_line k eof l _ Hw)).
      rewrite (IH rest Hws). destruct (Framing.run k eof (PHeader 0, rest)); reflexivity.
Qed.

(* the header block of a well-formed frame takes the loop to `readexactly(len b)` *)
Lemma run_header_block k eof lay ds b rest :
  frame_ok k lay ds b = true ->
  Framing.run k eof (PHeader 0, header_block lay ds ++ rest) = Framing.run k eof (PBody (len b), rest).
Proof.
  intros H'. destruct (frame_ok_inv _ _ _ _ H') as (H & H1 & H2 & H3 & H4 & H5 & H0).
  destruct (fits_parts _ _ _ H0) as (F1 & F2 & F3).
  assert (Hn : int_of_digits ds <> 0).
  { rewrite H4. intros Z. apply H, blen_zero, Z. }
  assert (E : forall o : list ev * result, (let (es, r) := o in ([] ++ es, r)) = o)
    by (intros [? ?]; reflexivity).
  unfold header_block. destruct lay as [|v|v]; cbn [layout_value] in H1; rewrite <- !app_assoc.
  - rewrite (run_cont _ _ _ _ _ (step_cl_line k eof ds _ H2 H3 H5 F2)), E.
    rewrite (run_cont _ _ _ _ _ (step_blank_line k eof _ _ Hn F1)), E. rewrite H4. reflexivity.
  - rewrite (run_cont _ _ _ _ _ (step_cl_line k eof ds _ H2 H3 H5 F2)), E.
    rewrite (run_cont _ _ _ _ _ (step_ct_line k eof _ v _ H1 F3)), E.
    rewrite (run_cont _ _ _ _ _ (step_blank_line k eof _ _ Hn F1)), E. rewrite H4. reflexivity.
  - rewrite (run_cont _ _ _ _ _ (step_ct_line k eof _ v _ H1 F3)), E.
    rewrite (run_cont _ _ _ _ _ (step_cl_line k eof ds _ H2 H3 H5 F2)), E.
    rewrite (run_cont _ _ _ _ _ (step_blank_line k eof _ _ Hn F1)), E. rewrite H4. reflexivity.
Qed.

(* every rendering of every tail class: nothing delivered, the loop ends normally *)
Lemma tail_ends_normally lim t bytes :
  tail_render (Stream lim) t bytes ->
  Framing.run (Stream lim) true (PHeader 0, bytes) = ([], Done EndedNormally).
Proof.
  intros H. destruct H as [|lay ds b c Hok Hc|lay ds b c Hok Hc|l Hj|l Hl Hf].
  - apply run_empty_eof.
  - assert (Hlt : c < len (frame_ds lay ds b)).
    { unfold frame_ds. rewrite blen_app. lia. }
    pose proof (cut_inside_frame (Stream lim) AtEOF lay ds b c Hok Hlt) as X.
    unfold whole_from in X. rewrite X. reflexivity.
  - rewrite (run_header_block (Stream lim) true lay ds b _ Hok).
    destruct (frame_ok_inv _ _ _ _ Hok) as (Hb & _).
    pose proof (cut_after_header (Stream lim) AtEOF b c Hb Hc) as X.
    unfold whole_from in X. rewrite X. reflexivity.
  - rewrite <- (app_nil_r (l ++ [10])).
    rewrite (run_cont _ _ _ _ _ (step_junk_line (Stream lim) true l [] Hj)).
    rewrite run_empty_eof. reflexivity.
  - pose proof (partial_line (Stream lim) AtEOF 0 l Hl Hf) as X. unfold whole_from in X.
    rewrite X. reflexivity.
Qed.

(* Framing.v on the whole stream *)
Theorem framing_delivers_items lim ws t bytes :
  Forall (witem_ok (Stream lim)) ws -> tail_render (Stream lim) t bytes ->
  loop_whole (Stream lim) AtEOF (wrender ws ++ bytes) =
  (map (fun p => Body (snd p)) (wpairs ws), Done EndedNormally).
Proof.
  intros Hw Ht. unfold loop_whole, whole_from.
  rewrite (run_witems (Stream lim) true ws bytes Hw), (tail_ends_normally lim t bytes Ht).
  rewrite app_nil_r. reflexivity.
Qed.

(* the unrepaired run_async differs from the repaired one in one place: on a cut-body stream the
   loop - after delivering every complete frame - stands at readexactly(n) with fewer than n
   bytes at end of stream, the call that raises IncompleteReadError *)
Theorem framing_cut_body_at_readexactly lim ws lay ds b c :
  Forall (witem_ok (Stream lim)) ws -> frame_ok (Stream lim) lay ds b = true -> c < len b ->
  Framing.run (Stream lim) true (PHeader 0, wrender ws ++ header_block lay ds ++ take c b) =
  (let (es, r) := Framing.run (Stream lim) true (PBody (len b), take c b) in
   (map (fun p => Body (snd p)) (wpairs ws) ++ es, r)) /\
  readexactly (Stream lim) true (len b) (take c b) = RXIncomplete.
Proof.
  intros Hw Hok Hc. split.
  - rewrite (run_witems (Stream lim) true ws _ Hw), (run_header_block (Stream lim) true lay ds b _ Hok).
    reflexivity.
  - unfold readexactly. rewrite len_take by lia. replace (len b <=? c) with false by lia. reflexivity.
Qed.

(* ------------------------------------------------------------------------------------ *)
(* Client.v on the same items                                                           *)
(* ------------------------------------------------------------------------------------ *)

(* once the server is dead and nobody has set the stop flag, one run of the reader task handles
   every item in order and then evaluates the end of the stream *)
Lemma consume_all c : fix_wrap c = true -> forall p s rc,
  stopped s = false -> proc s = Exited rc -> (forall e, reader s <> RRaised e) ->
  consume c p s = at_eof c (fold_left (handle_item c) p s).
Proof.
  intros W. induction p as [|it p IH]; intros s rc St P R; cbn [consume fold_left].
  - rewrite St, P. reflexivity.
  - rewrite St. pose proof (handle_item_reader c s it W) as HR.
    destruct (handle_item_ctl c s it) as (HP & _ & _ & HS & _).
    destruct (reader (handle_item c s it)) eqn:E;
      try (apply (IH _ rc); [rewrite HS; exact St|rewrite HP; exact P|intros e'; rewrite E; discriminate]).
    exfalso. apply (R e). rewrite <- HR. reflexivity.
Qed.

(* a junk item is the identity: the reader handles exactly the framed items *)
Lemma handled_are_framed c : forall ws s,
  fold_left (handle_item c) (map abs ws) s = fold_left (handle_item c) (map fst (wpairs ws)) s.
Proof.
  induction ws as [|[it m|l] ws IH]; intros s; cbn [map abs wpairs fold_left fst]; [reflexivity| |].
  - apply IH.
  - cbn [handle_item]. apply IH.
Qed.

Lemma fold_handle_tl c : forall p s, tl (fold_left (handle_item c) p s) = tl s.
Proof.
  induction p as [|it p IH]; intros s; cbn [fold_left]; [reflexivity|].
  rewrite IH. destruct (handle_item_ctl c s it) as (_ & A & _). exact A.
Qed.

(* Client.v's terminal status, as a function of the tail class *)
Definition client_terminal (c : config) (t : tail) : rstatus :=
  match t with
  | TPartBody => if fix_eof c then REnded else RRaised ExIncompleteRead
  | _ => REnded
  end.

Lemma at_eof_reader c s : reader (at_eof c s) = client_terminal c (tl s).
Proof. unfold at_eof, client_terminal. destruct (tl s); try reflexivity. destruct (fix_eof c); reflexivity. Qed.

Theorem client_consumes_items c ws s rc :
  fix_wrap c = true -> stopped s = false -> proc s = Exited rc -> (forall e, reader s <> RRaised e) ->
  consume c (map abs ws) s = at_eof c (fold_left (handle_item c) (map fst (wpairs ws)) s) /\
  reader (consume c (map abs ws) s) = client_terminal c (tl s).
Proof.
  intros W St P R. rewrite (consume_all c W _ s rc St P R), handled_are_framed. split; [reflexivity|].
  rewrite at_eof_reader, fold_handle_tl. reflexivity.
Qed.

(* the two vocabularies for "how the task ended" *)
Definition term_of (r : rstatus) : option term :=
  match r with REnded => Some EndedNormally | _ => None end.

(* ------------------------------------------------------------------------------------ *)
(* the link                                                                             *)
(* ------------------------------------------------------------------------------------ *)

(* For every sequence of server items, every conforming rendering of them and of the tail:
   Framing's loop over the byte stream delivers exactly the bodies of the items Client.v's reader
   handles, in the same order, and both end the task the same way (repaired code: normally, for
   every tail class). *)
Theorem link_client_framing : forall c lim ws t bytes s rc,
  Forall (witem_ok (Stream lim)) ws -> tail_render (Stream lim) t bytes ->
  fix_eof c = true -> fix_wrap c = true ->
  stopped s = false -> proc s = Exited rc -> tl s = t -> (forall e, reader s <> RRaised e) ->
  let handled := wpairs ws in
  (* Framing: bodies delivered, termination *)
  loop_whole (Stream lim) AtEOF (wrender ws ++ bytes) =
    (map (fun p => Body (snd p)) handled, Done EndedNormally) /\
  (* Client: items handled, terminal status *)
  consume c (map abs ws) s = at_eof c (fold_left (handle_item c) (map fst handled) s) /\
  term_of (reader (consume c (map abs ws) s)) = Some EndedNormally.
Proof.
  intros c lim ws t bytes s rc Hw Ht Fe Fw St P Tl R handled.
  split; [apply (framing_delivers_items lim ws t bytes Hw Ht)|].
  destruct (client_consumes_items c ws s rc Fw St P R) as [A B]. split; [exact A|].
  rewrite B. unfold client_terminal. rewrite Fe. destruct (tl s); reflexivity.
Qed.

(* The same through the task-level event of Client.v: a reader task that is blocked (or has not
   started) when the server is dead, stop flag not set, whole pipe rendered on the wire. *)
Corollary link_reader_run : forall c lim ws t bytes s rc,
  Forall (witem_ok (Stream lim)) ws -> tail_render (Stream lim) t bytes ->
  good c -> stopped s = false -> proc s = Exited rc -> tl s = t ->
  reader s = RBlocked \/ reader s = RNotStarted -> pipe s = map abs ws ->
  snd (loop_whole (Stream lim) AtEOF (wrender ws ++ bytes)) = Done EndedNormally /\
  fst (loop_whole (Stream lim) AtEOF (wrender ws ++ bytes)) = map (fun p => Body (snd p)) (wpairs ws) /\
  reader_run c s = at_eof c (fold_left (handle_item c) (map fst (wpairs ws)) (set_pipe s [])) /\
  reader (reader_run c s) = REnded.
Proof.
  intros c lim ws t bytes s rc Hw Ht (Fe & Fw & _) St P Tl Rd Pp.
  rewrite (framing_delivers_items lim ws t bytes Hw Ht). cbn [fst snd].
  split; [reflexivity|split; [reflexivity|]].
  assert (R' : forall e, reader (set_pipe s []) <> RRaised e).
  { intros e. cbn. destruct Rd as [-> | ->]; discriminate. }
  destruct (client_consumes_items c ws (set_pipe s []) rc Fw St P R') as [A B].
  assert (E : reader_run c s = consume c (map abs ws) (set_pipe s [])).
  { unfold reader_run. destruct Rd as [-> | ->]; rewrite <- ?Pp; [rewrite St|]; reflexivity. }
  rewrite E. split; [exact A|]. rewrite B. cbn [tl set_pipe]. unfold client_terminal. rewrite Fe.
  destruct (tl s); reflexivity.
Qed.

(* The unrepaired code (fix_eof = false): Client.v says the task dies with IncompleteReadError
   exactly when the tail is a cut body; on every rendering of such a tail Framing's loop stands at
   the readexactly call that cannot complete (the raise site), after delivering the same bodies. *)
Theorem link_pinned_cut_body : forall c lim ws lay ds b k s rc,
  Forall (witem_ok (Stream lim)) ws -> frame_ok (Stream lim) lay ds b = true -> k < len b ->
  fix_eof c = false -> fix_wrap c = true ->
  stopped s = false -> proc s = Exited rc -> tl s = TPartBody -> (forall e, reader s <> RRaised e) ->
  reader (consume c (map abs ws) s) = RRaised ExIncompleteRead /\
  Framing.run (Stream lim) true (PHeader 0, wrender ws ++ header_block lay ds ++ take k b) =
    (let (es, r) := Framing.run (Stream lim) true (PBody (len b), take k b) in
     (map (fun p => Body (snd p)) (wpairs ws) ++ es, r)) /\
  readexactly (Stream lim) true (len b) (take k b) = RXIncomplete.
Proof.
  intros c lim ws lay ds b k s rc Hw Hok Hk Fe Fw St P Tl R.
  destruct (client_consumes_items c ws s rc Fw St P R) as [_ B].
  split; [rewrite B, Tl; unfold client_terminal; rewrite Fe; reflexivity|].
  apply framing_cut_body_at_readexactly; assumption.
Qed.

(* for the other tail classes the two code variants agree (Client.v: REnded either way) *)
Lemma client_terminal_other c t : t <> TPartBody -> client_terminal c t = REnded.
Proof. destruct t; try reflexivity. intros H. contradiction. Qed.

(* non-vacuity: a reply frame, a junk line, an undecodable frame, then a body cut after 3 bytes *)
Example link_nonvacuous :
  let ws := [WFrame (Reply 0 (RResult 7)) (LCl, [123; 125]); WJunk [103; 97; 114; 98];
             WFrame BadFrame (LClCt [120], [123; 120; 125])] in
  Forall (witem_ok (Stream 65536)) ws /\
  tail_render (Stream 65536) TPartBody (header_block LCl [53] ++ take 3 [123; 34; 97; 34; 125]) /\
  loop_whole (Stream 65536) AtEOF (wrender ws ++ header_block LCl [53] ++ take 3 [123; 34; 97; 34; 125]) =
    ([Body [123; 125]; Body [123; 120; 125]], Done EndedNormally).
Proof.
  cbv zeta. split; [|split].
  - repeat (apply Forall_cons || apply Forall_nil).
    + split; vm_compute; reflexivity.
    + split; [vm_compute; reflexivity|split; [vm_compute; discriminate|vm_compute; reflexivity]].
    + split; vm_compute; reflexivity.
  - apply (TR_body (Stream 65536) LCl [53] [123; 34; 97; 34; 125] 3); [vm_compute; reflexivity|vm_compute; reflexivity].
  - vm_compute. reflexivity.
Qed.
