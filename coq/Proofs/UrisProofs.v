(* C18: the path -> URI -> path theorems about Model/Uris.v against Spec/UrisSpec.v. *)
From Coq Require Import ZArith NArith List Bool Lia ZifyBool ZifyN ZifyNat.
From Pygls Require Import Base.Unicode Proofs.UnicodeFacts.
From Pygls Require Export Proofs.Utf8Replace Proofs.UrisQuote Proofs.UrisSplit Model.Uris Spec.UrisSpec.
Ltac Zify.zify_post_hook ::= Z.to_euclidean_division_equations.
Open Scope N_scope.

(* ---------- strict percent-decoding of the canonical encoding ---------- *)
Lemma pct_decode_octet keep b r : b < 256 -> (keep b = true -> (b =? 37) = false) ->
  pct_decode (pct_encode_octet keep b ++ r) = option_map (cons b) (pct_decode r).
Proof.
  intros H K. unfold pct_encode_octet. destruct (keep b) eqn:E.
  - cbn [app pct_decode]. rewrite (K eq_refl). destruct (pct_decode r); reflexivity.
  - cbn [app pct_decode]. change (37 =? 37) with true. cbv iota.
    rewrite !hex_roundtrip_spec by lia. destruct (pct_decode r); [|reflexivity].
    cbn [option_map]. f_equal. f_equal. lia.
Qed.

Lemma pct_decode_octets keep bs : Forall (fun b => b < 256) bs ->
  (forall b, keep b = true -> (b =? 37) = false) ->
  pct_decode (flat_map (pct_encode_octet keep) bs) = Some bs.
Proof.
  intros H K. induction H as [|b bs Hb _ IH]; [reflexivity|].
  cbn [flat_map]. rewrite pct_decode_octet by (auto). rewrite IH. reflexivity.
Qed.

Lemma keep_path_not_pct b : keep_path b = true -> (b =? 37) = false.
Proof. unfold keep_path, unreserved, letter, digit. intros H. lia. Qed.
Lemma keep_host_not_pct b : keep_host b = true -> (b =? 37) = false.
Proof. unfold keep_host, unreserved, letter, digit. intros H. lia. Qed.

Theorem pct_decode_encode_path s : forallb scalar s = true ->
  pct_decode (pct_encode keep_path s) = Some (utf8_enc_all s).
Proof. intros H. apply pct_decode_octets; [apply enc_all_bytes, H|exact keep_path_not_pct]. Qed.
Theorem pct_decode_encode_host s : forallb scalar s = true ->
  pct_decode (pct_encode keep_host s) = Some (utf8_enc_all s).
Proof. intros H. apply pct_decode_octets; [apply enc_all_bytes, H|exact keep_host_not_pct]. Qed.

(* the drive colon stays literal *)
Theorem pct_decode_encode_drive_path q : forallb scalar q = true ->
  pct_decode (encode_path q) = Some (utf8_enc_all q).
Proof.
  intros Hs. unfold encode_path. destruct (has_drive q) eqn:D; [|apply pct_decode_encode_path, Hs].
  rewrite <- drive_match_has_drive in D. destruct (drive_match_inv q D) as (b & r & -> & Hb).
  cbn [firstn skipn app pct_decode].
  cbn [forallb] in Hs. apply andb_true_iff in Hs. destruct Hs as [_ Hs].
  apply andb_true_iff in Hs. destruct Hs as [_ Hs]. apply andb_true_iff in Hs. destruct Hs as [_ Hs].
  change (47 =? 37) with false. change (58 =? 37) with false.
  replace (b =? 37) with false by (unfold letter in Hb; lia). cbv iota.
  rewrite pct_decode_encode_path by exact Hs.
  cbn [utf8_enc_all flat_map]. rewrite (utf8_enc_ascii b) by (unfold letter in Hb; lia). reflexivity.
Qed.

(* ---------- facts about the parts of an absolute path ---------- *)
Lemma abs_path_inv p : abs_path p = true -> starts_slash p = true /\ forallb scalar p = true.
Proof.
  unfold abs_path. intros H. apply andb_true_iff in H. destruct H as [H1 H2]. split; [|exact H2].
  destruct p; [discriminate|exact H1].
Qed.

Lemma norm_host_no_slash p : starts_slash p = true -> has 47 (norm_host p) = false.
Proof.
  intros H. destruct (parts_cases p H) as [(_ & _ & E & _)|(h & t & _ & _ & Hn & _ & E & _)]; rewrite E;
    [reflexivity|exact Hn].
Qed.

(* either there is an authority, or the path part does not begin with "//" *)
Lemma host_or_no_2slash p : starts_slash p = true -> empty_authority p = false ->
  norm_host p <> [] \/ starts_2slash (norm_path p) = false.
Proof.
  intros H G. destruct (parts_cases p H) as [(_ & H2 & _ & E)|(h & t & _ & Eu & _ & _ & E & _)].
  - right. rewrite E, lower_drive_2slash. exact H2.
  - left. rewrite E. unfold empty_authority in G. rewrite Eu in G. destruct h; [discriminate|discriminate].
Qed.

(* the reference URI in terms of the model's quoting *)
Lemma qpath_is_encode_path q : forallb scalar q = true -> qpath_of q = encode_path q.
Proof.
  intros Hs. unfold qpath_of, encode_path. rewrite drive_match_has_drive. destruct (has_drive q) eqn:D.
  - rewrite <- drive_match_has_drive in D. destruct (drive_match_inv q D) as (b & r & -> & _).
    cbn [firstn skipn]. f_equal. apply quote_is_pct_encode.
    cbn [forallb] in Hs. apply andb_true_iff in Hs. destruct Hs as [_ Hs].
    apply andb_true_iff in Hs. destruct Hs as [_ Hs]. apply andb_true_iff in Hs. apply Hs.
  - apply quote_is_pct_encode, Hs.
Qed.

Lemma spec_uri_file_uri p : abs_path p = true ->
  spec_uri p = file_uri (qb (norm_host p)) (qpath_of (norm_path p)).
Proof.
  intros Ha. destruct (abs_path_inv p Ha) as [H Hs]. destruct (scalar_parts p H Hs) as [Hh Hq].
  unfold spec_uri, file_uri. rewrite (qpath_is_encode_path _ Hq), (quote_is_pct_encode _ Hh).
  rewrite (pct_encode_host _ (norm_host_no_slash p H)). reflexivity.
Qed.

(* ---------- from_fs_path ---------- *)
Lemma from_fs_path_unfold p : starts_slash p = true -> forallb scalar p = true ->
  from_fs_path (Some p) =
  Ret (Some (py_urlunsplit s_file (qb (norm_host p)) (qpath_of (norm_path p)) [] [])).
Proof.
  intros H Hs. destruct (scalar_parts p H Hs) as [Hh Hq].
  unfold from_fs_path. rewrite (normalize_spec p H). cbv beta iota.
  rewrite (urlunparse_file _ _ Hh Hq). reflexivity.
Qed.

Theorem from_fs_path_spec p : guard p = true -> from_fs_path (Some p) = Ret (Some (spec_uri p)).
Proof.
  unfold guard. intros G. apply andb_true_iff in G. destruct G as [Ha Ge].
  destruct (abs_path_inv p Ha) as [H Hs]. destruct (scalar_parts p H Hs) as [Hh Hq].
  rewrite (from_fs_path_unfold p H Hs), (spec_uri_file_uri p Ha). f_equal. f_equal.
  apply unsplit_file.
  - apply qpath_starts_slash, norm_path_starts_slash, H.
  - destruct (host_or_no_2slash p H) as [Hn|Hn]; [destruct (empty_authority p); [discriminate|reflexivity]| |].
    + left. apply qb_nonempty, Hn.
    + right. apply qpath_no_2slash; [exact Hq|apply norm_path_starts_slash, H|exact Hn].
Qed.

(* ---------- to_fs_path of a URI made of quoted parts ---------- *)
Lemma unquote_file : unquote s_file = s_file.
Proof. reflexivity. Qed.
Lemma unquote_nil : unquote [] = [].
Proof. reflexivity. Qed.

Theorem to_fs_path_file_uri h q :
  forallb scalar h = true -> forallb scalar q = true -> has 47 h = false -> starts_slash q = true ->
  to_fs_path (Some (file_uri (qb h) (qpath_of q))) =
  Ret (Some (if nonempty h then 47 :: 47 :: h ++ q
             else if has_drive q then match q with _ :: b :: r => to_lower b :: r | _ => q end
             else q)).
Proof.
  intros Hh Hq Hn Hs. unfold to_fs_path, urlparse.
  rewrite py_urlparse_file;
    [|apply qb_uri_chars, Hh|apply qb_no_slash; assumption|apply qpath_chars, Hq|apply qpath_starts_slash, Hs].
  cbn [bind]. rewrite unquote_file, (unquote_qb h Hh), (unquote_qpath q Hq).
  change (negb (str_eqb s_file s_file)) with false. cbv iota.
  replace (nonempty q) with true by (destruct q; [discriminate|reflexivity]). rewrite andb_true_r.
  rewrite drive_match_has_drive. destruct (nonempty h); [reflexivity|]. destruct (has_drive q); reflexivity.
Qed.

Lemma norm_via_parts p : starts_slash p = true -> empty_authority p = false ->
  norm p = (if nonempty (norm_host p) then 47 :: 47 :: norm_host p ++ norm_path p
            else if has_drive (norm_path p)
                 then match norm_path p with _ :: b :: r => to_lower b :: r | _ => norm_path p end
                 else norm_path p).
Proof.
  intros H G. unfold norm.
  destruct (parts_cases p H) as [(Eu & _ & Eh & Eq)|(h & t & _ & Eu & _ & _ & Eh & Eq)]; rewrite Eu, Eh.
  - cbn [nonempty]. destruct (has_drive (norm_path p)) eqn:D; [|reflexivity].
    rewrite Eq in *. rewrite has_drive_lower_drive in D. unfold lower_drive. rewrite D.
    destruct p as [|a [|b r]]; try discriminate. cbn [tl]. rewrite to_lower_idem. reflexivity.
  - unfold empty_authority in G. rewrite Eu in G. destruct h; [discriminate|reflexivity].
Qed.

Theorem to_fs_path_spec p : guard p = true -> to_fs_path (Some (spec_uri p)) = Ret (Some (norm p)).
Proof.
  unfold guard. intros G. apply andb_true_iff in G. destruct G as [Ha Ge].
  destruct (abs_path_inv p Ha) as [H Hs]. destruct (scalar_parts p H Hs) as [Hh Hq].
  assert (Ge' : empty_authority p = false) by (destruct (empty_authority p); [discriminate|reflexivity]).
  rewrite (spec_uri_file_uri p Ha).
  rewrite (to_fs_path_file_uri _ _ Hh Hq (norm_host_no_slash p H) (norm_path_starts_slash p H)).
  rewrite (norm_via_parts p H Ge'). reflexivity.
Qed.

Theorem path_roundtrip p : guard p = true ->
  exists u, from_fs_path (Some p) = Ret (Some u) /\ to_fs_path (Some u) = Ret (Some (norm p)).
Proof. intros G. exists (spec_uri p). split; [apply from_fs_path_spec, G|apply to_fs_path_spec, G]. Qed.

(* ---------- the URI is stable: from_fs_path (to_fs_path u) = u ---------- *)
Lemma normalize_norm p : starts_slash p = true -> empty_authority p = false ->
  normalize_win_path (norm p) = (norm_path p, norm_host p).
Proof.
  intros H G. rewrite normalize_unfold. unfold norm.
  destruct (parts_cases p H) as [(Eu & H2 & Eh & Eq)|(h & t & _ & Eu & Hn & Hh & Eh & Eq)]; rewrite Eu.
  - rewrite Eh. destruct (has_drive (norm_path p)) eqn:D.
    + rewrite <- drive_match_has_drive in D. destruct (drive_match_inv _ D) as (b & r & E & Hb).
      rewrite E. cbn [tl starts_2slash].
      replace (b =? SLASH) with false by (unfold letter, SLASH in *; lia). cbn [andb]. cbv zeta. cbn [fst snd starts_slash].
      replace (b =? SLASH) with false by (unfold letter, SLASH in *; lia).
      change SLASH with 47. rewrite <- E, Eq, lower_drive_idem. reflexivity.
    + rewrite Eq, lower_drive_2slash, H2. cbv zeta. cbn [fst snd]. rewrite lower_drive_head, H, lower_drive_idem.
      reflexivity.
  - unfold empty_authority in G. rewrite Eu in G.
    assert (Hq : starts_slash (norm_path p) = true) by (apply norm_path_starts_slash, H).
    cbn [starts_2slash tl]. change (47 =? SLASH) with true. cbn [andb].
    rewrite (break_stop (N.eqb SLASH) h (norm_path p)).
    2:{ apply has_false_forallb. exact Hn. }
    2:{ destruct (norm_path p) as [|c r]; [exact I|]. cbn [starts_slash] in Hq. cbn [head_is]. rewrite N.eqb_sym. exact Hq. }
    cbv beta iota.
    replace (match norm_path p with [] => ([SLASH], h) | _ :: _ => (norm_path p, h) end)
      with (norm_path p, h) by (destruct (norm_path p); [discriminate|reflexivity]).
    cbv zeta. cbn [fst snd]. rewrite Hq, Eq, lower_drive_idem, Eh. reflexivity.
Qed.

Theorem uri_roundtrip p : guard p = true ->
  from_fs_path (Some (norm p)) = from_fs_path (Some p).
Proof.
  unfold guard. intros G. apply andb_true_iff in G. destruct G as [Ha Ge].
  destruct (abs_path_inv p Ha) as [H Hs].
  assert (Ge' : empty_authority p = false) by (destruct (empty_authority p); [discriminate|reflexivity]).
  unfold from_fs_path. rewrite (normalize_norm p H Ge'), (normalize_spec p H). reflexivity.
Qed.

(* ---------- the URI: ASCII, only URI characters, RFC 3986 parts ---------- *)
Theorem spec_uri_chars p : abs_path p = true ->
  forallb uri_char (spec_uri p) = true /\ ascii_str (spec_uri p) = true.
Proof.
  intros Ha. destruct (abs_path_inv p Ha) as [H Hs]. destruct (scalar_parts p H Hs) as [Hh Hq].
  assert (Hc : forallb uri_char (spec_uri p) = true).
  { rewrite (spec_uri_file_uri p Ha). apply file_uri_chars; [apply qb_uri_chars, Hh|apply qpath_chars, Hq]. }
  split; [exact Hc|apply uri_chars_ascii, Hc].
Qed.

Theorem rfc_split_of_output p : abs_path p = true ->
  exists a q, rfc3986_split (spec_uri p) = mk_parts (Some s_file_scheme) (Some a) q None None /\
              pct_decode a = Some (utf8_enc_all (norm_host p)) /\
              pct_decode q = Some (utf8_enc_all (norm_path p)).
Proof.
  intros Ha. destruct (abs_path_inv p Ha) as [H Hs]. destruct (scalar_parts p H Hs) as [Hh Hq].
  exists (pct_encode keep_host (norm_host p)), (encode_path (norm_path p)).
  split; [|split; [apply pct_decode_encode_host, Hh|apply pct_decode_encode_drive_path, Hq]].
  rewrite (spec_uri_file_uri p Ha).
  rewrite <- (qpath_is_encode_path _ Hq).
  rewrite (pct_encode_host _ (norm_host_no_slash p H)), <- (quote_is_pct_encode _ Hh).
  apply rfc_split_file;
    [apply qb_uri_chars, Hh|apply qb_no_slash; [exact Hh|apply norm_host_no_slash, H]
    |apply qpath_chars, Hq|apply qpath_starts_slash, norm_path_starts_slash, H].
Qed.

(* ---------- URIs with a non-file scheme, and a missing argument ---------- *)
Definition nobr (c : N) : bool := negb (c =? 91) && negb (c =? 93).

Lemma plain_lstrip u : plain_uri u = true -> lstrip_c0 u = u.
Proof.
  destruct u as [|c r]; [reflexivity|]. unfold plain_uri. cbn [forallb lstrip_c0]. intros H.
  apply andb_true_iff in H. destruct H as [Hc _]. replace (c <=? 32) with false by lia. reflexivity.
Qed.

Lemma plain_remove_unsafe u : plain_uri u = true -> remove_unsafe u = u.
Proof.
  unfold plain_uri, remove_unsafe. induction u as [|c r IH]; [reflexivity|]. cbn [forallb filter]. intros H.
  apply andb_true_iff in H. destruct H as [Hc Hr].
  replace (negb ((c =? 9) || (c =? 13) || (c =? 10))) with true by lia. rewrite (IH Hr). reflexivity.
Qed.

Lemma plain_nobr u : plain_uri u = true -> forallb nobr u = true.
Proof. unfold plain_uri. apply forallb_impl. intros c H. unfold nobr. lia. Qed.

Lemma nobr_has u : forallb nobr u = true -> has LBR u = false /\ has RBR u = false.
Proof.
  unfold has. induction u as [|c r IH]; [split; reflexivity|]. cbn [forallb existsb]. intros H.
  apply andb_true_iff in H. destruct H as [Hc Hr]. destruct (IH Hr) as [I1 I2]. rewrite I1, I2.
  unfold nobr, LBR, RBR in *. split; lia.
Qed.

Lemma split_scheme_snd_sub (g : N -> bool) u :
  forallb g u = true -> forallb g (snd (split_scheme u)) = true.
Proof.
  intros H. unfold split_scheme. pose proof (forallb_break_snd g (N.eqb COLON) u H) as Hs.
  destruct (break (N.eqb COLON) u) as [pre rest]. cbn [snd] in Hs.
  destruct rest as [|c after]; [exact H|]. destruct pre as [|c0 pre']; [exact H|].
  destruct (is_alpha c0 && forallb scheme_char (c0 :: pre')); [|exact H].
  cbn [snd]. cbn [forallb] in Hs. apply andb_true_iff in Hs. apply Hs.
Qed.

Lemma split_netloc_fst_sub (g : N -> bool) url :
  forallb g url = true -> forallb g (fst (split_netloc url)) = true.
Proof.
  intros H. unfold split_netloc. destruct (starts_2slash url) eqn:E; [|reflexivity].
  apply forallb_break_fst. destruct url as [|a [|b r]]; try discriminate.
  cbn [tl forallb] in *. apply andb_true_iff in H. destruct H as [_ H]. apply andb_true_iff in H. apply H.
Qed.

Lemma scheme_chars_no_pct pre : forallb scheme_char pre = true -> has PCT (map lower pre) = false.
Proof.
  unfold has. induction pre as [|c r IH]; [reflexivity|]. cbn [forallb map existsb]. intros H.
  apply andb_true_iff in H. destruct H as [Hc Hr]. rewrite (IH Hr), orb_false_r.
  unfold scheme_char, is_alpha, is_upper, is_lower, is_digit, lower, is_upper, PCT in *.
  destruct ((65 <=? c) && (c <=? 90)) eqn:U; lia.
Qed.

Lemma scheme_chars_no_stop pre : forallb scheme_char pre = true ->
  forallb (fun c => negb (c_colon c || c_slash c || c_qm c || c_hash c)) pre = true.
Proof.
  apply forallb_impl. intros c H.
  unfold scheme_char, is_alpha, is_upper, is_lower, is_digit, c_colon, c_slash, c_qm, c_hash in *. lia.
Qed.

Lemma eqb_str_refl a : eqb_str a a = true.
Proof. induction a as [|x a IH]; [reflexivity|]. cbn [eqb_str]. rewrite N.eqb_refl, IH. reflexivity. Qed.

(* when urlsplit finds the scheme "file", so does the RFC split (case-insensitively) *)
Lemma scheme_not_file u scheme url2 : split_scheme u = (scheme, url2) -> scheme_is_file u = false ->
  str_eqb (unquote scheme) s_file = false.
Proof.
  intros ES Hf. destruct (str_eqb (unquote scheme) s_file) eqn:E; [|reflexivity]. exfalso.
  unfold split_scheme in ES.
  pose proof (break_app (N.eqb COLON) u) as Happ. pose proof (break_snd_head (N.eqb COLON) u) as Hhd.
  destruct (break (N.eqb COLON) u) as [pre rest]. cbn [fst snd] in *.
  destruct rest as [|c after]; [inversion ES; subst; discriminate E|].
  destruct pre as [|c0 pre']; [inversion ES; subst; discriminate E|].
  destruct (is_alpha c0 && forallb scheme_char (c0 :: pre')) eqn:C; [|inversion ES; subst; discriminate E].
  inversion ES; subst scheme url2. clear ES. apply andb_true_iff in C. destruct C as [_ C].
  change (lower c0 :: map lower pre') with (map lower (c0 :: pre')) in E.
  unfold unquote in E. rewrite (scheme_chars_no_pct _ C) in E. apply str_eqb_eq in E.
  cbn [head_is] in Hhd. apply N.eqb_eq in Hhd. subst c.
  assert (R : rfc_scheme u = (Some (c0 :: pre'), after)).
  { unfold rfc_scheme. rewrite span_not_break, <- Happ.
    rewrite (break_stop _ (c0 :: pre') (COLON :: after) (scheme_chars_no_stop _ C)); [reflexivity|].
    reflexivity. }
  unfold scheme_is_file, rfc3986_split in Hf. cbv zeta in Hf. cbn [u_scheme] in Hf. rewrite R in Hf.
  cbn [fst] in Hf. change (map to_lower (c0 :: pre')) with (map lower (c0 :: pre')) in Hf.
  rewrite E in Hf. discriminate Hf.
Qed.

Theorem nonfile_none u : plain_uri u = true -> scheme_is_file u = false ->
  to_fs_path (Some u) = Ret None.
Proof.
  intros Hp Hf. unfold to_fs_path, urlparse, py_urlparse, py_urlsplit.
  rewrite (plain_lstrip u Hp), (plain_remove_unsafe u Hp).
  pose proof (split_scheme_snd_sub nobr u (plain_nobr u Hp)) as H2.
  destruct (split_scheme u) as [scheme url2] eqn:ES. cbn [snd] in H2.
  pose proof (split_netloc_fst_sub nobr url2 H2) as H3.
  destruct (split_netloc url2) as [netloc url3] eqn:EN. cbn [fst] in H3.
  destruct (nobr_has netloc H3) as [B1 B2]. rewrite (check_netloc_plain netloc B1 B2). cbn [bind].
  destruct (split_first HASH url3) as [url4 fragment]. destruct (split_first QM url4) as [url5 query].
  cbn [bind].
  destruct (if mem_str scheme uses_params && has SEMI url5 then splitparams url5 else (url5, []))
    as [u' params]. cbn [bind].
  rewrite (scheme_not_file u scheme url2 ES Hf). reflexivity.
Qed.

Theorem none_none : to_fs_path None = Ret None /\ from_fs_path None = Ret None.
Proof. split; reflexivity. Qed.
