(* quote / unquote: hex round trip, unquote inverts quote, the characters quote produces, and
   quote = the reference's canonical percent-encoding. *)
From Coq Require Import ZArith NArith List Bool Lia ZifyBool ZifyN ZifyNat.
From Pygls Require Import Base.Unicode Proofs.UnicodeFacts Proofs.Utf8Replace Model.Uris Spec.UrisSpec.
Ltac Zify.zify_post_hook ::= Z.to_euclidean_division_equations.
Open Scope N_scope.

(* ---------- generic list facts ---------- *)
Lemma forallb_app' {A} (f : A -> bool) a b : forallb f (a ++ b) = forallb f a && forallb f b.
Proof. apply forallb_app. Qed.

Lemma forallb_impl {A} (f g : A -> bool) s :
  (forall x, f x = true -> g x = true) -> forallb f s = true -> forallb g s = true.
Proof.
  intros H. induction s as [|c s IH]; [reflexivity|]. cbn [forallb]. intros E.
  apply andb_true_iff in E. destruct E as [E1 E2]. rewrite (H _ E1), (IH E2). reflexivity.
Qed.

Lemma forallb_flat_map {A B} (f : B -> bool) (g : A -> list B) s :
  (forall x, In x s -> forallb f (g x) = true) -> forallb f (flat_map g s) = true.
Proof.
  induction s as [|c s IH]; intros H; [reflexivity|]. cbn [flat_map]. rewrite forallb_app.
  rewrite (H c (or_introl eq_refl)), IH; [reflexivity|]. intros x Hx. apply H. right. exact Hx.
Qed.

Lemma str_eqb_eq a : forall b, str_eqb a b = true -> a = b.
Proof.
  induction a as [|x a IH]; intros [|y b] H; cbn [str_eqb] in H; try discriminate; [reflexivity|].
  apply andb_true_iff in H. destruct H as [H1 H2]. apply N.eqb_eq in H1. subst y.
  rewrite (IH _ H2). reflexivity.
Qed.
Lemma str_eqb_refl a : str_eqb a a = true.
Proof. induction a as [|x a IH]; [reflexivity|]. cbn [str_eqb]. rewrite N.eqb_refl, IH. reflexivity. Qed.

(* finite case analysis below a bound *)
Fixpoint upto (k : nat) : list N := match k with O => [] | S k' => N.of_nat k' :: upto k' end.
Lemma upto_in k n : (N.to_nat n < k)%nat -> In n (upto k).
Proof.
  induction k as [|k IH]; intros H; [lia|]. cbn [upto].
  destruct (Nat.eq_dec (N.to_nat n) k) as [E|E]; [left; lia|right; apply IH; lia].
Qed.
Lemma below_cases (P : N -> bool) (k : nat) :
  forallb P (upto k) = true -> forall n, n < N.of_nat k -> P n = true.
Proof. intros H n Hn. rewrite forallb_forall in H. apply H, upto_in. lia. Qed.

(* ---------- hex digits ---------- *)
Lemma hex_roundtrip n : n < 16 -> hexval (hexdigit n) = Some n.
Proof.
  intros H.
  pose proof (below_cases (fun n => match hexval (hexdigit n) with Some m => m =? n | None => false end) 16
                ltac:(vm_compute; reflexivity) n H) as P.
  cbv beta in P. destruct (hexval (hexdigit n)); [|discriminate]. apply N.eqb_eq in P. congruence.
Qed.

Lemma hex_roundtrip_spec n : n < 16 -> hex_value (hex_digit n) = Some n.
Proof.
  intros H.
  pose proof (below_cases (fun n => match hex_value (hex_digit n) with Some m => m =? n | None => false end) 16
                ltac:(vm_compute; reflexivity) n H) as P.
  cbv beta in P. destruct (hex_value (hex_digit n)); [|discriminate]. apply N.eqb_eq in P. congruence.
Qed.

(* the two encoders agree octet by octet (256 cases, by computation) *)
Lemma quote_byte_spec b : b < 256 -> quote_byte b = pct_encode_octet keep_path b.
Proof.
  intros H. apply str_eqb_eq.
  exact (below_cases (fun b => str_eqb (quote_byte b) (pct_encode_octet keep_path b)) 256
           ltac:(vm_compute; reflexivity) b H).
Qed.

(* facts about one quoted octet, all by computation over the 256 octets *)
Definition qchar (c : N) : bool := keep_path c || (c =? 37).
Lemma quote_byte_chars b : b < 256 -> forallb qchar (quote_byte b) = true.
Proof.
  intros H. exact (below_cases (fun b => forallb qchar (quote_byte b)) 256 ltac:(vm_compute; reflexivity) b H).
Qed.
Lemma qchar_uri_char c : qchar c = true -> uri_char c = true.
Proof. unfold qchar, uri_char, keep_path, unreserved, letter, digit. intros H. lia. Qed.
Lemma uri_char_ascii c : uri_char c = true -> c <? 128 = true.
Proof. unfold uri_char, unreserved, letter, digit. intros H. lia. Qed.
Lemma qchar_ascii c : qchar c = true -> c <? 128 = true.
Proof. intros H. apply uri_char_ascii, qchar_uri_char, H. Qed.

Lemma safe_not_pct b : safe b = true -> (b =? PCT) = false.
Proof. unfold safe, always_safe, is_alpha, is_upper, is_lower, is_digit, SLASH, PCT. intros H. lia. Qed.

Lemma pct_bytes_quote_byte b r : b < 256 -> pct_bytes (quote_byte b ++ r) = b :: pct_bytes r.
Proof.
  intros H. unfold quote_byte. destruct (safe b) eqn:E.
  - cbn [app pct_bytes]. rewrite (safe_not_pct _ E). reflexivity.
  - cbn [app pct_bytes]. change (PCT =? PCT) with true. cbv iota.
    rewrite !hex_roundtrip by lia. f_equal. lia.
Qed.

Lemma pct_bytes_quote_bytes bs : Forall (fun b => b < 256) bs -> pct_bytes (quote_bytes bs) = bs.
Proof.
  induction 1 as [|b bs Hb _ IH]; [reflexivity|].
  unfold quote_bytes. cbn [flat_map]. fold (quote_bytes bs).
  rewrite pct_bytes_quote_byte by exact Hb. rewrite IH. reflexivity.
Qed.

Lemma enc_all_bytes s : forallb scalar s = true -> Forall (fun b => b < 256) (utf8_enc_all s).
Proof.
  induction s as [|c s IH]; intros H; [constructor|].
  cbn [forallb] in H. apply andb_true_iff in H. destruct H as [Hc Hs].
  cbn [utf8_enc_all flat_map]. apply Forall_app. split; [|apply IH, Hs].
  apply utf8_enc_bytes. unfold scalar in Hc. apply andb_true_iff in Hc. apply Hc.
Qed.

Lemma quote_bytes_chars bs : Forall (fun b => b < 256) bs -> forallb qchar (quote_bytes bs) = true.
Proof.
  intros H. unfold quote_bytes. apply forallb_flat_map. intros b Hb.
  apply quote_byte_chars. rewrite Forall_forall in H. apply H, Hb.
Qed.

Lemma quote_bytes_spec bs : Forall (fun b => b < 256) bs ->
  quote_bytes bs = flat_map (pct_encode_octet keep_path) bs.
Proof.
  induction 1 as [|b bs Hb _ IH]; [reflexivity|].
  unfold quote_bytes. cbn [flat_map]. fold (quote_bytes bs). rewrite IH, quote_byte_spec by exact Hb.
  reflexivity.
Qed.

(* ---------- unquote on ASCII text ---------- *)
Lemma has_false_forallb c s : has c s = false -> forallb (fun x => negb (c =? x)) s = true.
Proof.
  unfold has. induction s as [|x s IH]; [reflexivity|]. cbn [existsb forallb]. intros H.
  apply orb_false_iff in H. destruct H as [H1 H2]. rewrite H1, (IH H2). reflexivity.
Qed.

Lemma pct_bytes_no_pct s : has PCT s = false -> pct_bytes s = s.
Proof.
  unfold has. induction s as [|c s IH]; [reflexivity|]. cbn [existsb]. intros H.
  apply orb_false_iff in H. destruct H as [H1 H2]. cbn [pct_bytes].
  rewrite N.eqb_sym, H1, (IH H2). reflexivity.
Qed.

Lemma ascii_scalar s : ascii_str s = true -> forallb scalar s = true.
Proof.
  unfold ascii_str. apply forallb_impl. intros c H. unfold scalar, is_cp, is_surrogate. lia.
Qed.

Lemma dec_replace_ascii s : ascii_str s = true -> utf8_dec_replace s = s.
Proof.
  intros H. rewrite <- (utf8_enc_all_ascii s H) at 1.
  apply utf8_dec_replace_enc_all, ascii_scalar, H.
Qed.

Lemma unq_go_ascii s : forall run, ascii_str s = true -> unq_go s run = flush_run (rev s ++ run).
Proof.
  induction s as [|c s IH]; intros run H; [reflexivity|].
  unfold ascii_str in H. cbn [forallb] in H. apply andb_true_iff in H. destruct H as [Hc Hs].
  cbn [unq_go]. rewrite Hc. rewrite IH by exact Hs. cbn [rev]. rewrite <- app_assoc. reflexivity.
Qed.

(* on ASCII text unquote is: percent-decode to bytes, then decode UTF-8 *)
Lemma unquote_ascii s : ascii_str s = true -> unquote s = utf8_dec_replace (pct_bytes s).
Proof.
  intros H. unfold unquote. destruct (has PCT s) eqn:E.
  - rewrite unq_go_ascii by exact H. unfold flush_run. rewrite app_nil_r, rev_involutive. reflexivity.
  - rewrite pct_bytes_no_pct by exact E. symmetry. apply dec_replace_ascii, H.
Qed.

Lemma qchars_ascii s : forallb qchar s = true -> ascii_str s = true.
Proof. unfold ascii_str. apply forallb_impl. intros c. apply qchar_ascii. Qed.
Lemma uri_chars_ascii s : forallb uri_char s = true -> ascii_str s = true.
Proof. unfold ascii_str. apply forallb_impl. intros c. apply uri_char_ascii. Qed.

(* ---------- the quote theorems ---------- *)
Definition qb (s : list N) : list N := quote_bytes (utf8_enc_all s).

Lemma quote_scalar s : forallb scalar s = true -> quote s = Ret (qb s).
Proof. intros H. unfold quote. rewrite H. reflexivity. Qed.

Lemma qb_chars s : forallb scalar s = true -> forallb qchar (qb s) = true.
Proof. intros H. apply quote_bytes_chars, enc_all_bytes, H. Qed.

Lemma pct_bytes_qb s : forallb scalar s = true -> pct_bytes (qb s) = utf8_enc_all s.
Proof. intros H. apply pct_bytes_quote_bytes, enc_all_bytes, H. Qed.

Theorem unquote_qb s : forallb scalar s = true -> unquote (qb s) = s.
Proof.
  intros H. rewrite unquote_ascii by (apply qchars_ascii, qb_chars, H).
  rewrite pct_bytes_qb by exact H. apply utf8_dec_replace_enc_all, H.
Qed.

(* unquote (quote s) = s, and quote raises exactly on lone surrogates *)
Theorem unquote_quote s : forallb scalar s = true ->
  exists q, quote s = Ret q /\ unquote q = s.
Proof. intros H. exists (qb s). split; [apply quote_scalar, H|apply unquote_qb, H]. Qed.

Theorem quote_ascii_unreserved s q : quote s = Ret q ->
  forallb (fun c => unreserved c || (c =? 47) || (c =? 37)) q = true /\ ascii_str q = true.
Proof.
  unfold quote. destruct (forallb scalar s) eqn:H; [|discriminate]. intros E. injection E as <-.
  split; [exact (qb_chars s H)|apply qchars_ascii, (qb_chars s H)].
Qed.

Theorem quote_is_pct_encode s : forallb scalar s = true -> qb s = pct_encode keep_path s.
Proof. intros H. unfold qb, pct_encode. apply quote_bytes_spec, enc_all_bytes, H. Qed.

(* ---------- a host (no "/") is encoded the same with or without "/" kept ---------- *)
Lemma enc_no_slash c : (c =? 47) = false -> forallb (fun b => negb (b =? 47)) (utf8_enc c) = true.
Proof.
  intros H. unfold utf8_enc.
  destruct (c <? 0x80) eqn:E1; [cbn [forallb]; lia|].
  destruct (c <? 0x800) eqn:E2; [cbn [forallb]; lia|].
  destruct (c <? 0x10000) eqn:E3; cbn [forallb]; lia.
Qed.

Lemma enc_all_no_slash s : has 47 s = false -> forallb (fun b => negb (b =? 47)) (utf8_enc_all s) = true.
Proof.
  intros H. unfold utf8_enc_all. apply forallb_flat_map. intros c Hc. apply enc_no_slash.
  apply has_false_forallb in H. rewrite forallb_forall in H. specialize (H c Hc).
  rewrite N.eqb_sym. destruct (47 =? c); [discriminate|reflexivity].
Qed.

Lemma pct_encode_host s : has 47 s = false -> pct_encode keep_host s = pct_encode keep_path s.
Proof.
  intros H. apply enc_all_no_slash in H. unfold pct_encode.
  induction (utf8_enc_all s) as [|b bs IH]; [reflexivity|].
  cbn [forallb] in H. apply andb_true_iff in H. destruct H as [Hb Hs].
  cbn [flat_map]. rewrite (IH Hs). f_equal.
  unfold pct_encode_octet, keep_path, keep_host.
  replace (b =? 47) with false by (destruct (b =? 47); [discriminate|reflexivity]).
  rewrite orb_false_r. reflexivity.
Qed.

(* quoted text contains "/" only where the source has one *)
Lemma quote_byte_no_slash b : b < 256 -> (b =? 47) = false ->
  forallb (fun c => negb (c =? 47)) (quote_byte b) = true.
Proof.
  intros H.
  pose proof (below_cases (fun b => implb (negb (b =? 47)) (forallb (fun c => negb (c =? 47)) (quote_byte b))) 256
                ltac:(vm_compute; reflexivity) b H) as P.
  cbv beta in P. intros E. rewrite E in P. exact P.
Qed.

Lemma qb_no_slash s : forallb scalar s = true -> has 47 s = false -> has 47 (qb s) = false.
Proof.
  intros Hs H. pose proof (enc_all_no_slash s H) as H1. pose proof (enc_all_bytes s Hs) as H2.
  unfold qb, quote_bytes. induction (utf8_enc_all s) as [|b bs IH]; [reflexivity|].
  cbn [forallb] in H1. apply andb_true_iff in H1. destruct H1 as [Hb H1].
  inversion H2 as [|? ? Hb2 H2']; subst.
  cbn [flat_map]. unfold has in *. rewrite existsb_app, (IH H1 H2'), orb_false_r.
  assert (Q := quote_byte_no_slash b Hb2 ltac:(destruct (b =? 47); [discriminate|reflexivity])).
  clear -Q. induction (quote_byte b) as [|x xs IHx]; [reflexivity|].
  cbn [forallb] in Q. apply andb_true_iff in Q. destruct Q as [Q1 Q2].
  cbn [existsb]. rewrite (IHx Q2), orb_false_r, N.eqb_sym. destruct (x =? 47); [discriminate|reflexivity].
Qed.
