(* Proofs/EndpointInv.v - the balance invariant of the endpoint state machine.

   bal i s = (replies to id i already written) + (things that will still produce exactly one reply
   to i: a live request task, a finished request task whose done-callback is queued, a queued or
   running request job, a reply sitting in the queue of awaitable writes).

   Main results (for a transport that works, no `exit`, F18 class excluded - `ev_ok`):
     post lemmas : every function of Model/Endpoint.v changes `bal` by a stated amount and keeps
                   the side conditions `good`
     inv_step    : Inv c s seen -> Inv c (step c s e) (seen ++ answerable s e)
     inv_run     : Inv c (run c evs) (seen_run c evs)
   No distinctness of ids is needed for the balance itself: it counts multiplicities. *)
From Coq Require Import ZArith NArith List Bool Lia Arith.
From Pygls Require Import Base.Assoc Model.Endpoint Spec.EndpointSpec.
Import ListNotations.

(* ------------------------------------------------------------------ ids *)
Lemma str_eqb_spec : forall a b, str_eqb a b = true <-> a = b.
Proof.
  induction a as [|x a IH]; destruct b as [|y b]; cbn [str_eqb]; try (split; [discriminate|discriminate]).
  - split; reflexivity.
  - rewrite andb_true_iff, N.eqb_eq, IH. split.
    + intros [H1 H2]. subst. reflexivity.
    + intros H. inversion H. split; reflexivity.
Qed.

Lemma id_eqb_spec : forall a b, id_eqb a b = true <-> a = b.
Proof.
  intros [x|x] [y|y]; cbn [id_eqb].
  - rewrite Z.eqb_eq. split; [intros; subst; reflexivity|intros H; inversion H; reflexivity].
  - split; discriminate.
  - split; discriminate.
  - rewrite str_eqb_spec. split; [intros; subst; reflexivity|intros H; inversion H; reflexivity].
Qed.

Lemma id_eqb_refl : forall a, id_eqb a a = true.
Proof. intro a. apply id_eqb_spec. reflexivity. Qed.

(* ------------------------------------------------------------------ counting *)
Definition ind (b : bool) : nat := if b then 1 else 0.
Definition sum {A : Type} (f : A -> nat) (l : list A) : nat := fold_right (fun x a => f x + a) 0 l.

Lemma sum_app : forall (A : Type) (f : A -> nat) l1 l2, sum f (l1 ++ l2) = sum f l1 + sum f l2.
Proof. intros A f l1 l2. induction l1 as [|x r IH]; cbn [sum fold_right app]; [reflexivity|]. fold (sum f (r ++ l2)). fold (sum f r). lia. Qed.

Lemma sum_snoc : forall (A : Type) (f : A -> nat) l x, sum f (snoc l x) = sum f l + f x.
Proof. intros. unfold snoc. rewrite sum_app. cbn [sum fold_right]. lia. Qed.

Lemma sum_upd_nth : forall (A : Type) (f : A -> nat) (g : A -> A) l t x,
  nth_error l t = Some x -> sum f (upd_nth t g l) + f x = sum f l + f (g x).
Proof.
  intros A f g l. induction l as [|y r IH]; intros t x H.
  - destruct t; discriminate.
  - destruct t as [|t]; cbn [nth_error] in H; cbn [upd_nth sum fold_right].
    + inversion H. subst. fold (sum f r). lia.
    + fold (sum f (upd_nth t g r)). fold (sum f r). specialize (IH t x H). lia.
Qed.

Lemma upd_nth_none : forall (A : Type) (g : A -> A) l t, nth_error l t = None -> upd_nth t g l = l.
Proof.
  intros A g l. induction l as [|y r IH]; intros t H; [destruct t; reflexivity|].
  destruct t as [|t]; cbn [nth_error] in H; [discriminate|]. cbn [upd_nth]. rewrite IH by exact H. reflexivity.
Qed.

Lemma forallb_snoc : forall (A : Type) (p : A -> bool) l x, forallb p (snoc l x) = forallb p l && p x.
Proof. intros. unfold snoc. rewrite forallb_app. cbn [forallb]. rewrite andb_true_r. reflexivity. Qed.

Lemma forallb_upd_nth : forall (A : Type) (p : A -> bool) (g : A -> A) l t,
  forallb p l = true -> (forall x, p x = true -> p (g x) = true) -> forallb p (upd_nth t g l) = true.
Proof.
  intros A p g l. induction l as [|y r IH]; intros t H Hg; [destruct t; reflexivity|].
  cbn [forallb] in H. apply andb_true_iff in H. destruct H as [H1 H2].
  destruct t as [|t]; cbn [upd_nth forallb]; apply andb_true_iff; split; auto.
Qed.

Lemma forallb_nth : forall (A : Type) (p : A -> bool) l t x,
  forallb p l = true -> nth_error l t = Some x -> p x = true.
Proof.
  intros A p l t x H Hn. apply nth_error_In in Hn. rewrite forallb_forall in H. apply H. exact Hn.
Qed.

Lemma replies_snoc : forall i o f, replies i (snoc o f) = replies i o + ind (is_reply i f).
Proof.
  intros. unfold replies, snoc. rewrite filter_app, app_length. cbn [filter].
  destruct (is_reply i f); reflexivity.
Qed.

Lemma count_id_snoc : forall i l x, count_id i (l ++ [x]) = count_id i l + ind (id_eqb i x).
Proof.
  intros. unfold count_id. rewrite filter_app, app_length. cbn [filter].
  destruct (id_eqb i x); reflexivity.
Qed.

Lemma count_id_app : forall i l1 l2, count_id i (l1 ++ l2) = count_id i l1 + count_id i l2.
Proof. intros. unfold count_id. rewrite filter_app, app_length. reflexivity. Qed.

(* ------------------------------------------------------------------ the balance *)
Definition cb_is (i : id) (cb : cbkind) : bool := match cb with CReq j => id_eqb i j | CNot => false end.
Definition ptask (i : id) (tk : task) : nat :=
  match t_st tk with TFin _ => 0 | _ => ind (cb_is i (t_cb tk)) end.
Definition pjob (i : id) (jb : job) : nat :=
  match j_st jb with JQueued | JRunning => ind (cb_is i (j_cb jb)) | _ => 0 end.
Definition pw (i : id) (w : wentry) : nat :=
  match w with WFrame f => ind (is_reply i f) | WClose _ => 0 end.

Definition bal (i : id) (s : st) : nat :=
  replies i (out s) + sum (ptask i) (tasks s) + sum (pjob i) (jobs s) + sum (pw i) (wq s).

Definition ptst (i : id) (cb : cbkind) (x : tstate) : nat :=
  match x with TFin _ => 0 | _ => ind (cb_is i cb) end.
Definition pjst (i : id) (cb : cbkind) (x : jstate) : nat :=
  match x with JQueued | JRunning => ind (cb_is i cb) | _ => 0 end.

Lemma sum_ptask_set : forall i l t tk x, nth_error l t = Some tk ->
  sum (ptask i) (upd_nth t (fun tk0 => mkT (t_who tk0) (t_part tk0) (t_cb tk0) (t_b tk0) x) l) + ptst i (t_cb tk) (t_st tk)
  = sum (ptask i) l + ptst i (t_cb tk) x.
Proof. intros i l t tk x H. exact (sum_upd_nth _ (ptask i) (fun tk0 => mkT (t_who tk0) (t_part tk0) (t_cb tk0) (t_b tk0) x) _ _ _ H). Qed.

Lemma sum_pjob_set : forall i l j jb x, nth_error l j = Some jb ->
  sum (pjob i) (upd_nth j (fun jb0 => mkJ (j_who jb0) (j_part jb0) (j_cb jb0) (j_b jb0) x) l) + pjst i (j_cb jb) (j_st jb)
  = sum (pjob i) l + pjst i (j_cb jb) x.
Proof. intros i l j jb x H. exact (sum_upd_nth _ (pjob i) (fun jb0 => mkJ (j_who jb0) (j_part jb0) (j_cb jb0) (j_b jb0) x) _ _ _ H). Qed.

Definition is_frame (w : wentry) : bool := match w with WFrame _ => true | WClose _ => false end.
Definition cb_not (jb : job) : bool := match j_cb jb with CNot => true | CReq _ => false end.

(* side conditions under which no reply can be lost *)
Definition good (c : cfg) (s : st) : Prop :=
  closed s = false /\ forallb is_frame (wq s) = true /\
  (awaitable c = true -> forallb cb_not (jobs s) = true) /\ exit s = None /\ exitq s = [].

Definition site_ok (c : cfg) (sv : site) : Prop := sv = Loop \/ awaitable c = false.

Definition post (c : cfg) (d : id -> nat) (s s' : st) : Prop :=
  good c s' /\ (forall j, bal j s' = bal j s + d j) /\ shutdown s' = shutdown s.

Definition zero : id -> nat := fun _ => 0.
Definition one (i : id) : id -> nat := fun j => ind (id_eqb j i).

Lemma post_refl : forall c s, good c s -> post c zero s s.
Proof. intros c s G. unfold post, zero. split; [exact G|]. split; [intro j; lia|reflexivity]. Qed.

Lemma post_trans : forall c d1 d2 s s1 s2,
  post c d1 s s1 -> post c d2 s1 s2 -> post c (fun j => d1 j + d2 j) s s2.
Proof.
  intros c d1 d2 s s1 s2 (G1 & B1 & S1) (G2 & B2 & S2). unfold post. repeat split.
  - apply G2. - apply G2. - apply G2. - apply G2. - apply G2.
  - intro j. rewrite B2, B1. lia.
  - congruence.
Qed.

Lemma post_ext : forall c d d' s s', (forall j, d j = d' j) -> post c d s s' -> post c d' s s'.
Proof. intros c d d' s s' E (G & B & S). unfold post. repeat split; try apply G; auto. intro j. rewrite B, E. reflexivity. Qed.

(* states that differ only in fields the balance and `good` do not read *)
Definition same_core (s s' : st) : Prop :=
  out s' = out s /\ tasks s' = tasks s /\ jobs s' = jobs s /\ wq s' = wq s /\ closed s' = closed s /\
  exit s' = exit s /\ exitq s' = exitq s /\ shutdown s' = shutdown s.

Lemma post_same_core : forall c s s', good c s -> same_core s s' -> post c zero s s'.
Proof.
  intros c s s' (G1 & G2 & G3 & G4 & G5) (E1 & E2 & E3 & E4 & E5 & E6 & E7 & E8).
  unfold post, good, bal, zero. rewrite E1, E2, E3, E4, E5, E6, E7, E8. repeat split; auto.
Qed.

Ltac proj := cbn [shutdown futs rtypes tasks jobs wq outg out hlog errs nwrites closed exitq exit storm undef
                  set_shutdown set_futs set_rtypes set_tasks set_jobs set_wq set_outg set_out set_hlog set_errs
                  set_nwrites set_closed set_exitq set_exit set_storm set_undef].
Ltac core := unfold same_core; cbn; repeat split; reflexivity.

Lemma core_add_err : forall e s, same_core s (add_err e s). Proof. intros. core. Qed.
Lemma core_log : forall w p ph sv s, same_core s (log w p ph sv s). Proof. intros. core. Qed.
Lemma core_set_storm : forall b s, same_core s (set_storm b s). Proof. intros. core. Qed.
Lemma core_set_undef : forall b s, same_core s (set_undef b s). Proof. intros. core. Qed.
Lemma core_fut_set : forall i r s, same_core s (fut_set i r s). Proof. intros. core. Qed.
Lemma core_fut_pop : forall i s, same_core s (fut_pop i s). Proof. intros. core. Qed.
Lemma core_rtype_pop : forall i s, same_core s (rtype_pop i s). Proof. intros. core. Qed.
Lemma core_set_rtypes : forall v s, same_core s (set_rtypes v s). Proof. intros. core. Qed.
Lemma core_set_nwrites : forall v s, same_core s (set_nwrites v s). Proof. intros. core. Qed.
Lemma core_set_outg : forall v s, same_core s (set_outg v s). Proof. intros. core. Qed.
Lemma core_set_outg_st : forall o x s, same_core s (set_outg_st o x s). Proof. intros. core. Qed.

Lemma post_log : forall c w p ph sv s, good c s -> post c zero s (log w p ph sv s).
Proof. intros. apply post_same_core; [assumption|apply core_log]. Qed.

(* ------------------------------------------------------------------ writing *)
Lemma post_add_out : forall c f s, good c s -> post c (fun j => ind (is_reply j f)) s (add_out f s).
Proof.
  intros c f s G. unfold post, good, bal, add_out in *. proj. repeat split; try apply G.
  intro j. rewrite replies_snoc. lia.
Qed.

Lemma post_add_wq_frame : forall c f s, good c s -> post c (fun j => ind (is_reply j f)) s (add_wq (WFrame f) s).
Proof.
  intros c f s (G1 & G2 & G3 & G4 & G5). unfold post, good, bal, add_wq. proj. repeat split; auto.
  - rewrite forallb_snoc, G2. reflexivity.
  - intro j. rewrite sum_snoc. cbn [pw]. lia.
Qed.

(* a write that succeeds adds the frame, one that fails changes nothing the balance reads *)
Lemma post_write_call : forall c sv f s, good c s -> c_wfail c = None ->
  let r := write_call c sv f s in
  (snd r = true /\ post c (fun j => ind (is_reply j f)) s (fst r)) \/ (snd r = false /\ post c zero s (fst r)).
Proof.
  intros c sv f s G F. unfold write_call, do_write, failing. rewrite F.
  destruct (c_writer c).
  - destruct G as (G1 & G'). rewrite G1. left. split; [reflexivity|]. cbn [fst].
    eapply post_ext; [|eapply post_trans; [apply post_same_core; [split; [exact G1|exact G']|apply (core_set_nwrites (S (nwrites s)))]|]].
    2:{ apply post_add_out. apply (post_same_core c s); [split; [exact G1|exact G']|apply core_set_nwrites]. }
    intro j. cbn. unfold zero. reflexivity.
  - destruct sv.
    + left. split; [reflexivity|]. apply post_add_wq_frame. exact G.
    + right. split; [reflexivity|]. apply post_refl. exact G.
Qed.

Lemma post_write_call_ok : forall c sv f s, good c s -> c_wfail c = None -> site_ok c sv ->
  snd (write_call c sv f s) = true /\ post c (fun j => ind (is_reply j f)) s (fst (write_call c sv f s)).
Proof.
  intros c sv f s G F SO. destruct (post_write_call c sv f s G F) as [H|[H1 H2]]; [exact H|].
  exfalso. unfold write_call, do_write, failing in H1. rewrite F in H1.
  destruct G as (G1 & _). rewrite G1 in H1. unfold site_ok, awaitable in SO.
  destruct (c_writer c); [discriminate|]. destruct sv; [discriminate|]. destruct SO; discriminate.
Qed.

Lemma post_hook : forall c sv src s, good c s -> c_wfail c = None -> post c zero s (hook c sv src s).
Proof.
  intros c sv src s G F. unfold hook.
  assert (P1 : post c zero s (add_err src s)) by (apply post_same_core; [exact G|apply core_add_err]).
  assert (SM : post c zero s (let (s2, ok) := write_call c sv (ONotif NShowMessage) (add_err src s) in
                               if ok then s2 else set_storm true s2)).
  { destruct (post_write_call c sv (ONotif NShowMessage) (add_err src s) (proj1 P1) F) as [[H1 H2]|[H1 H2]];
    destruct (write_call c sv (ONotif NShowMessage) (add_err src s)) as [s2 ok]; cbn [fst snd] in *; subst ok.
    - eapply post_ext; [|eapply post_trans; [exact P1|exact H2]]. intro j. reflexivity.
    - eapply post_ext; [|eapply post_trans; [eapply post_trans; [exact P1|exact H2]|
        apply post_same_core; [exact (proj1 H2)|apply core_set_storm]]]. intro j. reflexivity. }
  destruct (c_hook c); try exact P1.
  destruct src; try exact P1; exact SM.
Qed.

Lemma is_reply_resp : forall j i p, is_reply j (OResp i p) = id_eqb j i.
Proof. reflexivity. Qed.

Lemma post_send_data_ok : forall c sv i p s, good c s -> c_wfail c = None -> site_ok c sv ->
  post c (one i) s (fst (send_data c sv (OResp i p) true s)) /\ snd (send_data c sv (OResp i p) true s) = true.
Proof.
  intros c sv i p s G F SO. unfold send_data. cbn [negb].
  destruct (post_write_call_ok c sv (OResp i p) s G F SO) as [H1 H2].
  destruct (write_call c sv (OResp i p) s) as [s1 ok]. cbn [fst snd] in *. subst ok.
  split; [|reflexivity]. eapply post_ext; [|exact H2]. intro j. reflexivity.
Qed.

Lemma post_send_response : forall c sv i r s, good c s -> c_wfail c = None -> site_ok c sv ->
  post c (one i) s (send_response c sv i r s).
Proof.
  intros c sv i r s G F SO. unfold send_response. destruct r as [code|v ser].
  - apply post_send_data_ok; assumption.
  - assert (P0 : post c zero s (rtype_pop i s)) by (apply post_same_core; [exact G|apply core_rtype_pop]).
    destruct ser.
    + destruct (post_send_data_ok c sv i (PResult v) (rtype_pop i s) (proj1 P0) F SO) as [H1 H2].
      destruct (send_data c sv (OResp i (PResult v)) true (rtype_pop i s)) as [s2 ok]. cbn [fst snd] in *. subst ok.
      eapply post_ext; [|eapply post_trans; [exact P0|exact H1]]. intro j. reflexivity.
    + unfold send_data at 2. cbn [negb].
      assert (P1 : post c zero (rtype_pop i s) (hook c sv EInternal (rtype_pop i s))) by (apply post_hook; [exact (proj1 P0)|exact F]).
      destruct (post_send_data_ok c sv i (PError code_internal) _ (proj1 P1) F SO) as [H1 _].
      eapply post_ext; [|eapply post_trans; [eapply post_trans; [exact P0|exact P1]|exact H1]]. intro j. reflexivity.
Qed.

(* ------------------------------------------------------------------ callbacks *)
Lemma post_request_callback : forall c sv i r s, good c s -> c_wfail c = None -> site_ok c sv ->
  post c (one i) s (request_callback c sv i r s).
Proof.
  intros c sv i r s G F SO. unfold request_callback.
  assert (K : forall s1, post c (one i) s s1 -> post c (one i) s (fut_pop i s1)).
  { intros s1 P. eapply post_ext; [|eapply post_trans; [exact P|apply post_same_core; [exact (proj1 P)|apply core_fut_pop]]].
    intro j. unfold zero. lia. }
  assert (H : forall s1, post c (one i) s s1 -> post c (one i) s (hook c sv EFeatureRequest s1)).
  { intros s1 P. eapply post_ext; [|eapply post_trans; [exact P|apply post_hook; [exact (proj1 P)|exact F]]].
    intro j. unfold zero. lia. }
  destruct r; apply K; try apply H; apply post_send_response; assumption.
Qed.

Lemma post_notification_callback : forall c sv r s, good c s -> c_wfail c = None ->
  post c zero s (notification_callback c sv r s).
Proof.
  intros c sv r s G F. unfold notification_callback.
  destruct r; try (apply post_refl; exact G); apply post_hook; assumption.
Qed.

Lemma post_run_cb : forall c sv cb r s, good c s -> c_wfail c = None -> (site_ok c sv \/ cb = CNot) ->
  post c (fun j => ind (cb_is j cb)) s (run_cb c sv cb r s).
Proof.
  intros c sv cb r s G F SO. unfold run_cb. destruct cb as [i|].
  - destruct SO as [SO|SO]; [|discriminate]. apply post_request_callback; assumption.
  - apply post_notification_callback; assumption.
Qed.

(* ------------------------------------------------------------------ tasks and jobs *)
Lemma good_set_tasks : forall c v s, good c s -> good c (set_tasks v s).
Proof. intros c v s G. exact G. Qed.

Lemma post_set_task_st_same : forall c t x tk s, good c s -> nth_error (tasks s) t = Some tk ->
  (forall j, ptst j (t_cb tk) x = ptst j (t_cb tk) (t_st tk)) ->
  post c zero s (set_task_st t x s).
Proof.
  intros c t x tk s G N E. unfold post, set_task_st. split; [exact G|]. split; [|reflexivity].
  intro j. unfold bal. proj.
  pose proof (sum_ptask_set j _ _ _ x N) as H.
  rewrite E in H. unfold zero. lia.
Qed.

Lemma good_new_job : forall c w p cb b x s, good c s -> (awaitable c = true -> cb = CNot) ->
  good c (new_job w p cb b x s).
Proof.
  intros c w p cb b x s (G1 & G2 & G3 & G4 & G5) H. unfold good, new_job. proj. repeat split; auto.
  intro A. rewrite forallb_snoc, (G3 A). unfold cb_not. cbn. rewrite (H A). reflexivity.
Qed.

Lemma good_set_job_st : forall c j x s, good c s -> good c (set_job_st j x s).
Proof.
  intros c j x s (G1 & G2 & G3 & G4 & G5). unfold good, set_job_st. proj. repeat split; auto.
  intro A. apply forallb_upd_nth; [exact (G3 A)|]. intros jb. unfold cb_not. cbn. tauto.
Qed.

Lemma job_cb_not : forall c s j jb, good c s -> awaitable c = true -> nth_error (jobs s) j = Some jb -> j_cb jb = CNot.
Proof.
  intros c s j jb (_ & _ & G3 & _) A N. pose proof (forallb_nth _ _ _ _ _ (G3 A) N) as H.
  unfold cb_not in H. destruct (j_cb jb); [discriminate|reflexivity].
Qed.

Lemma site_ok_loop : forall c, site_ok c Loop.
Proof. intro c. left. reflexivity. Qed.

Lemma site_or_not : forall c s j jb sv, good c s -> nth_error (jobs s) j = Some jb ->
  site_ok c sv \/ j_cb jb = CNot.
Proof.
  intros c s j jb sv G N. destruct (awaitable c) eqn:A.
  - right. eapply job_cb_not; eassumption.
  - left. right. exact A.
Qed.

(* future.cancel() never changes the balance: a queued job is answered -32800 on the spot *)
Lemma post_cancel_ref : forall c r s, good c s -> c_wfail c = None -> post c zero s (cancel_ref c r s).
Proof.
  intros c r s G F. unfold cancel_ref. destruct r as [t|j|o].
  - destruct (nth_error (tasks s) t) as [tk|] eqn:N; [|apply post_refl; exact G].
    destruct (t_st tk) eqn:T; try (apply post_refl; exact G).
    eapply post_set_task_st_same; [exact G|exact N|]. intro i. rewrite T. reflexivity.
  - destruct (nth_error (jobs s) j) as [jb|] eqn:N; [|apply post_refl; exact G].
    destruct (j_st jb) eqn:J; try (apply post_refl; exact G).
    set (s1 := set_job_st j JCancelled s).
    assert (G1 : good c s1) by (apply good_set_job_st; exact G).
    assert (B1 : forall i, bal i s1 + ind (cb_is i (j_cb jb)) = bal i s).
    { intro i. unfold bal, s1, set_job_st. proj.
      pose proof (sum_pjob_set i _ _ _ JCancelled N) as H.
      rewrite J in H. cbn [pjst] in H. lia. }
    assert (SO : site_ok c Loop \/ j_cb jb = CNot) by (left; apply site_ok_loop).
    destruct (post_run_cb c Loop (j_cb jb) RCancelled s1 G1 F SO) as (G2 & B2 & S2).
    unfold post. split; [exact G2|]. split; [|exact S2].
    intro i. rewrite B2. specialize (B1 i). unfold zero. lia.
  - destruct (nth_error (outg s) o) as [[| |]|]; try (apply post_refl; exact G).
    apply post_same_core; [exact G|apply core_set_outg_st].
Qed.

Lemma post_new_task : forall c w p cb b n s, good c s ->
  post c (fun j => ind (cb_is j cb)) s (new_task w p cb b n s).
Proof.
  intros c w p cb b n s G. unfold post, new_task. split; [exact G|]. split; [|reflexivity].
  intro j. unfold bal. proj. rewrite sum_snoc. unfold ptask. cbn. lia.
Qed.

Lemma post_submit : forall c w p cb b early reg s, good c s -> c_wfail c = None ->
  (awaitable c = true -> cb = CNot) ->
  (forall j s', same_core s' (reg j s')) ->
  post c (fun j => ind (cb_is j cb)) s (submit c w p cb b early reg s).
Proof.
  intros c w p cb b early reg s G F A R. unfold submit. destruct early.
  - set (r := res_of (bout b)).
    set (s0 := new_job w p cb b (JDone r) s).
    assert (G0 : good c s0) by (apply good_new_job; assumption).
    assert (B0 : forall i, bal i s0 = bal i s).
    { intro i. unfold bal, s0, new_job. proj. rewrite sum_snoc. unfold pjob. cbn. lia. }
    set (s1 := log w p HEnd Pool (log w p HStart Pool s0)).
    assert (P1 : post c zero s0 s1).
    { eapply post_ext; [|eapply post_trans; [apply post_log; exact G0|apply post_log; apply post_log; exact G0]]. reflexivity. }
    assert (P2 : post c zero s1 (reg (length (jobs s)) s1)) by (apply post_same_core; [exact (proj1 P1)|apply R]).
    destruct (post_run_cb c Loop cb r _ (proj1 P2) F (or_introl (site_ok_loop c))) as (G3 & B3 & S3).
    unfold post. split; [exact G3|]. split.
    + intro i. rewrite B3. destruct P2 as (_ & B2 & _). destruct P1 as (_ & B1 & _).
      rewrite B2, B1, B0. unfold zero. lia.
    + rewrite S3. destruct P2 as (_ & _ & S2). destruct P1 as (_ & _ & S1). rewrite S2, S1. reflexivity.
  - set (s0 := new_job w p cb b JQueued s).
    assert (G0 : good c s0) by (apply good_new_job; assumption).
    assert (P2 : post c zero s0 (reg (length (jobs s)) s0)) by (apply post_same_core; [exact G0|apply R]).
    destruct P2 as (G2 & B2 & S2). unfold post. split; [exact G2|]. split; [|exact S2].
    intro i. rewrite B2. unfold bal, s0, new_job. proj. rewrite sum_snoc. unfold pjob, zero. cbn. lia.
Qed.

(* ------------------------------------------------------------------ requests and notifications *)
Definition thread_ok (c : cfg) (b : behav) : Prop := awaitable c = true -> is_thread b = false.

Lemma post_execute_request : forall c i p b s, good c s -> c_wfail c = None -> thread_ok c b ->
  let r := execute_request c i p b s in
  post c (fun j => match snd r with None => one i j | Some _ => 0 end) s (fst r).
Proof.
  intros c i p b s G F T. unfold execute_request. unfold thread_ok, is_thread in T.
  destruct (bkind b) as [|n|early] eqn:K; cbn [fst snd].
  - assert (P1 : post c zero s (log (WReq i) p HEnd Loop (log (WReq i) p HStart Loop s))).
    { eapply post_ext; [|eapply post_trans; [apply post_log; exact G|apply post_log; apply post_log; exact G]]. reflexivity. }
    destruct (bout b); cbn [fst snd].
    + eapply post_ext; [|eapply post_trans; [exact P1|apply post_send_response; [exact (proj1 P1)|exact F|apply site_ok_loop]]].
      intro j. reflexivity.
    + eapply post_ext; [|eapply post_trans; [exact P1|apply post_send_response; [exact (proj1 P1)|exact F|apply site_ok_loop]]].
      intro j. reflexivity.
    + exact P1.
    + exact P1.
  - eapply post_ext; [|eapply post_trans; [apply (post_new_task c (WReq i) p (CReq i) b n s G)|
      apply post_same_core; [apply (post_new_task c (WReq i) p (CReq i) b n s G)|apply core_fut_set]]].
    intro j. unfold one, zero. cbn. lia.
  - eapply post_ext; [|apply post_submit; [exact G|exact F| |]].
    + intro j. reflexivity.
    + intro A. specialize (T A). discriminate.
    + intros j s'. apply core_fut_set.
Qed.

Lemma post_exec_notification : forall c w p b s, good c s -> c_wfail c = None ->
  post c zero s (fst (exec_notification c w p b s)).
Proof.
  intros c w p b s G F. unfold exec_notification. destruct (bkind b) as [|n|early]; cbn [fst].
  - eapply post_ext; [|eapply post_trans; [apply post_log; exact G|apply post_log; apply post_log; exact G]]. reflexivity.
  - apply (post_new_task c w p CNot b n s G).
  - eapply post_ext; [|apply post_submit; [exact G|exact F|reflexivity|]].
    + intro j. reflexivity.
    + intros j s'. unfold same_core. repeat split; reflexivity.
Qed.

Lemma post_chain : forall c w u s, good c s -> c_wfail c = None -> post c zero s (chain c w u s).
Proof.
  intros c w u s G F. unfold chain. destruct u; [apply post_exec_notification; assumption|apply post_refl; exact G].
Qed.

Lemma post_on_exc : forall c i x s, good c s -> c_wfail c = None ->
  post c (fun j => match x with None => 0 | Some _ => one i j end) s (on_exc c i x s).
Proof.
  intros c i x s G F. unfold on_exc.
  assert (H : forall code, post c (one i) s (hook c Loop EFeatureRequest (send_response c Loop i (RpError code) s))).
  { intro code.
    pose proof (post_send_response c Loop i (RpError code) s G F (site_ok_loop c)) as P.
    eapply post_ext; [|eapply post_trans; [exact P|apply post_hook; [exact (proj1 P)|exact F]]].
    intro j. unfold zero. lia. }
  destruct x as [[|code]|]; [apply H|apply H|apply post_refl; exact G].
Qed.

Lemma post_fold_cancel : forall c rs s, good c s -> c_wfail c = None ->
  post c zero s (fold_left (fun s' r => cancel_ref c r s') rs s).
Proof.
  intros c rs. induction rs as [|r rs IH]; intros s G F; cbn [fold_left]; [apply post_refl; exact G|].
  pose proof (post_cancel_ref c r s G F) as P.
  eapply post_ext; [|eapply post_trans; [exact P|apply IH; [exact (proj1 P)|exact F]]]. reflexivity.
Qed.

(* handle_request always produces exactly one (future) reply; only `shutdown` sets the flag *)
Definition rmethod_ok (c : cfg) (m : rmethod) : Prop :=
  match m with
  | RUser b => thread_ok c b
  | RCommand (Some b) _ => thread_ok c b
  | _ => True
  end.

Lemma handle_request_bal : forall c i m s, good c s -> c_wfail c = None -> rmethod_ok c m ->
  good c (handle_request c i m s) /\ (forall j, bal j (handle_request c i m s) = bal j s + one i j) /\
  shutdown (handle_request c i m s) = (shutdown s || is_shutdown m).
Proof.
  intros c i m s G F M. unfold handle_request. destruct m as [|b|u|fails u|cmd u]; cbn [is_shutdown].
  - pose proof (post_send_response c Loop i (RpError code_method_not_found) s G F (site_ok_loop c)) as P.
    pose proof (post_hook c Loop EFeatureRequest _ (proj1 P) F) as P2.
    destruct (post_trans _ _ _ _ _ _ P P2) as (G3 & B3 & S3). rewrite orb_false_r. repeat split; try apply G3; auto.
    intro j. rewrite B3. unfold zero. lia.
  - pose proof (post_execute_request c i PUser b s G F M) as P. cbn zeta in P.
    destruct (execute_request c i PUser b s) as [s1 x]. cbn [fst snd] in P.
    pose proof (post_on_exc c i x s1 (proj1 P) F) as P2.
    destruct (post_trans _ _ _ _ _ _ P P2) as (G3 & B3 & S3). rewrite orb_false_r. repeat split; try apply G3; auto.
    intro j. rewrite B3. destruct x; unfold one; lia.
  - set (s1 := log (WReq i) PBuiltin HStart Loop s).
    assert (P1 : post c zero s s1) by (apply post_log; exact G).
    pose proof (post_fold_cancel c (values (futs s1)) s1 (proj1 P1) F) as P2.
    set (s2 := fold_left (fun s' r => cancel_ref c r s') (values (futs s1)) s1) in *.
    assert (G3 : good c (set_shutdown true s2)) by exact (proj1 P2).
    assert (B3 : forall j, bal j (set_shutdown true s2) = bal j s2) by reflexivity.
    assert (P4 : post c zero (set_shutdown true s2) (log (WReq i) PBuiltin HEnd Loop (lsp_shutdown c s1))).
    { unfold lsp_shutdown. fold s2. apply post_log. exact G3. }
    pose proof (post_chain c (WReq i) u _ (proj1 P4) F) as P5.
    pose proof (post_send_response c Loop i (RpResult VNull true) _ (proj1 P5) F (site_ok_loop c)) as P6.
    destruct (post_trans _ _ _ _ _ _ (post_trans _ _ _ _ _ _ P4 P5) P6) as (G7 & B7 & S7).
    rewrite orb_true_r. split; [exact G7|]. split.
    + intro j. rewrite B7, B3. destruct P2 as (_ & B2 & _). destruct P1 as (_ & B1 & _).
      rewrite B2, B1. unfold zero. lia.
    + rewrite S7. reflexivity.
  - set (s1 := log (WReq i) PBuiltin HEnd Loop (log (WReq i) PBuiltin HStart Loop s)).
    assert (P1 : post c zero s s1).
    { eapply post_ext; [|eapply post_trans; [apply post_log; exact G|apply post_log; apply post_log; exact G]]. reflexivity. }
    rewrite orb_false_r. destruct fails.
    + pose proof (post_on_exc c i (Some XExc) s1 (proj1 P1) F) as P2.
      destruct (post_trans _ _ _ _ _ _ P1 P2) as (G3 & B3 & S3). repeat split; try apply G3; auto.
    + pose proof (post_chain c (WReq i) u s1 (proj1 P1) F) as P2.
      pose proof (post_send_response c Loop i (RpResult VObj true) _ (proj1 P2) F (site_ok_loop c)) as P3.
      destruct (post_trans _ _ _ _ _ _ (post_trans _ _ _ _ _ _ P1 P2) P3) as (G4 & B4 & S4).
      repeat split; try apply G4; auto.
  - set (s1 := log (WReq i) PBuiltin HStart Loop s).
    assert (P1 : post c zero s s1) by (apply post_log; exact G).
    rewrite orb_false_r. destruct cmd as [b|].
    + pose proof (post_execute_request c i PCommand b s1 (proj1 P1) F M) as P2. cbn zeta in P2.
      destruct (execute_request c i PCommand b s1) as [s2 x]. cbn [fst snd] in P2.
      pose proof (post_log c (WReq i) PBuiltin HEnd Loop s2 (proj1 P2)) as P3.
      destruct x as [e|].
      * pose proof (post_on_exc c i (Some e) _ (proj1 P3) F) as P4.
        destruct (post_trans _ _ _ _ _ _ (post_trans _ _ _ _ _ _ (post_trans _ _ _ _ _ _ P1 P2) P3) P4) as (G5 & B5 & S5).
        repeat split; try apply G5; auto.
      * pose proof (post_chain c (WReq i) u _ (proj1 P3) F) as P4.
        destruct (post_trans _ _ _ _ _ _ (post_trans _ _ _ _ _ _ (post_trans _ _ _ _ _ _ P1 P2) P3) P4) as (G5 & B5 & S5).
        repeat split; try apply G5; auto. intro j. rewrite B5. unfold zero. lia.
    + pose proof (post_log c (WReq i) PBuiltin HEnd Loop s1 (proj1 P1)) as P2.
      pose proof (post_on_exc c i (Some XExc) _ (proj1 P2) F) as P3.
      destruct (post_trans _ _ _ _ _ _ (post_trans _ _ _ _ _ _ P1 P2) P3) as (G4 & B4 & S4).
      repeat split; try apply G4; auto.
Qed.

Lemma post_handle_notification : forall c tag m s, good c s -> c_wfail c = None -> is_exit m = false ->
  post c zero s (handle_notification c tag m s).
Proof.
  intros c tag m s G F E. unfold handle_notification. destruct m as [|b|i|u|fails u]; cbn [is_exit] in E.
  - apply post_refl. exact G.
  - pose proof (post_exec_notification c (WNot tag) PUser b s G F) as P.
    destruct (exec_notification c (WNot tag) PUser b s) as [s1 x]. cbn [fst] in P.
    destruct x; [|exact P].
    eapply post_ext; [|eapply post_trans; [exact P|apply post_hook; [exact (proj1 P)|exact F]]]. reflexivity.
  - unfold cancel_notification. destruct (Assoc.get id_eqb i (futs s)) as [r|]; [|apply post_refl; exact G].
    assert (P : post c zero s (fut_pop i s)) by (apply post_same_core; [exact G|apply core_fut_pop]).
    eapply post_ext; [|eapply post_trans; [exact P|apply post_cancel_ref; [exact (proj1 P)|exact F]]]. reflexivity.
  - discriminate.
  - set (s1 := log (WNot tag) PBuiltin HEnd Loop (log (WNot tag) PBuiltin HStart Loop s)).
    assert (P1 : post c zero s s1).
    { eapply post_ext; [|eapply post_trans; [apply post_log; exact G|apply post_log; apply post_log; exact G]]. reflexivity. }
    destruct fails.
    + eapply post_ext; [|eapply post_trans; [exact P1|apply post_hook; [exact (proj1 P1)|exact F]]]. reflexivity.
    + eapply post_ext; [|eapply post_trans; [exact P1|apply post_chain; [exact (proj1 P1)|exact F]]]. reflexivity.
Qed.

Lemma post_handle_response : forall c i s, good c s -> c_wfail c = None -> post c zero s (handle_response c i s).
Proof.
  intros c i s G F. unfold handle_response.
  destruct (Assoc.get id_eqb i (futs s)) as [r|]; [|apply post_hook; assumption].
  assert (P : post c zero s (fut_pop i s)) by (apply post_same_core; [exact G|apply core_fut_pop]).
  assert (PH : post c zero s (hook c Loop EJsonRpc (fut_pop i s))).
  { eapply post_ext; [|eapply post_trans; [exact P|apply post_hook; [exact (proj1 P)|exact F]]]. reflexivity. }
  destruct r as [t|j|o].
  - exact PH.
  - eapply post_ext; [|eapply post_trans; [exact PH|apply post_same_core; [exact (proj1 PH)|apply core_set_undef]]]. reflexivity.
  - destruct (nth_error (outg (fut_pop i s)) o) as [[| |]|]; try exact PH.
    eapply post_ext; [|eapply post_trans; [exact P|apply post_same_core; [exact (proj1 P)|apply core_set_outg_st]]]. reflexivity.
Qed.

(* ------------------------------------------------------------------ one event *)
(* the request ids a Recv adds to what the endpoint owes, as decided by the model's own state *)
Definition answerable (s : st) (e : ev) : list id :=
  match exit s, e with
  | None, Recv (FReq ver_ok i ps _) =>
      match ps with
      | POk => if ver_ok && negb (shutdown s) then [i] else []
      | _ => [i]
      end
  | _, _ => []
  end.

Definition frame_ok (c : cfg) (e : ev) : Prop :=
  is_exit_frame e = false /\ (awaitable c = true -> thread_request e = false).

Lemma rmethod_ok_of : forall c v i ps m, frame_ok c (Recv (FReq v i ps m)) -> rmethod_ok c m.
Proof.
  intros c v i ps m (_ & T). unfold rmethod_ok, thread_ok. cbn [thread_request] in T.
  destruct m as [|b|u|f u|[b|] u]; try exact I; exact T.
Qed.

Definition Inv (c : cfg) (s : st) (seen : list id) : Prop :=
  good c s /\ forall i, bal i s = count_id i seen.

Lemma recv_inv : forall c f s seen, c_wfail c = None -> frame_ok c (Recv f) -> Inv c s seen ->
  Inv c (recv c f s) (seen ++ answerable s (Recv f)) /\
  shutdown (recv c f s) = (shutdown s ||
     match f with FReq true _ POk m => negb (shutdown s) && is_shutdown m | _ => false end).
Proof.
  intros c f s seen F FO (G & B). unfold answerable. rewrite (proj1 (proj2 (proj2 (proj2 G)))).
  assert (Z0 : forall s', post c zero s s' ->
     Inv c s' (seen ++ []) /\ shutdown s' = (shutdown s || false)).
  { intros s' (G' & B' & S'). rewrite app_nil_r, orb_false_r. split; [|exact S']. split; [exact G'|].
    intro i. rewrite B', B. unfold zero. lia. }
  assert (O1 : forall i s', post c (one i) s s' ->
     Inv c s' (seen ++ [i]) /\ shutdown s' = (shutdown s || false)).
  { intros i s' (G' & B' & S'). rewrite orb_false_r. split; [|exact S']. split; [exact G'|].
    intro j. rewrite B', B, count_id_snoc. reflexivity. }
  unfold recv. destruct f as [|v i ps m|v tag ps m|v i iserr ps].
  - apply Z0. apply post_hook; assumption.
  - destruct ps.
    + destruct v; cbn [negb andb].
      * destruct (shutdown s) eqn:SH; cbn [negb andb].
        -- rewrite app_nil_r. split; [split; [exact G|exact B]|try rewrite SH; reflexivity].
        -- destruct (handle_request_bal c i m s G F (rmethod_ok_of _ _ _ _ _ FO)) as (G' & B' & S').
           split; [split; [exact G'|]|].
           ++ intro j. rewrite B', B, count_id_snoc. reflexivity.
           ++ rewrite S', SH. reflexivity.
      * replace (match m with _ => false end) with false by (destruct m; reflexivity).
        apply Z0. apply post_hook; assumption.
    + replace (if v then false else false) with false by (destruct v; reflexivity).
      apply O1.
      pose proof (post_send_response c Loop i (RpError code_invalid_params) s G F (site_ok_loop c)) as P.
      eapply post_ext; [|eapply post_trans; [exact P|apply post_hook; [exact (proj1 P)|exact F]]].
      intro j. unfold zero. lia.
    + replace (if v then false else false) with false by (destruct v; reflexivity).
      apply O1.
      pose proof (post_send_response c Loop i (RpError code_internal) s G F (site_ok_loop c)) as P.
      eapply post_ext; [|eapply post_trans; [exact P|apply post_hook; [exact (proj1 P)|exact F]]].
      intro j. unfold zero. lia.
  - apply Z0. destruct ps; try (apply post_hook; assumption).
    destruct (negb v); [apply post_hook; assumption|].
    destruct (shutdown s && negb (is_exit m)); [apply post_refl; exact G|].
    apply post_handle_notification; try assumption.
    destruct FO as (E & _). cbn [is_exit_frame] in E. destruct m; try reflexivity. discriminate.
  - apply Z0.
    assert (P : post c zero s (rtype_pop i s)) by (apply post_same_core; [exact G|apply core_rtype_pop]).
    assert (PH : post c zero s (hook c Loop EJsonRpc (rtype_pop i s))).
    { eapply post_ext; [|eapply post_trans; [exact P|apply post_hook; [exact (proj1 P)|exact F]]]. reflexivity. }
    destruct (negb iserr && negb (Assoc.mem id_eqb i (rtypes s))); [exact PH|].
    destruct ps; try exact PH.
    destruct (negb v); [exact PH|].
    destruct (shutdown (rtype_pop i s)); [exact P|].
    eapply post_ext; [|eapply post_trans; [exact P|apply post_handle_response; [exact (proj1 P)|exact F]]]. reflexivity.
Qed.

Lemma post_task_step : forall c t s, good c s -> post c zero s (task_step t s).
Proof.
  intros c t s G. unfold task_step.
  destruct (nth_error (tasks s) t) as [tk|] eqn:N; [|apply post_refl; exact G].
  destruct (t_st tk) as [started lft mc| |] eqn:T; try (apply post_refl; exact G).
  assert (SAME : forall x s1, tasks s1 = tasks s -> good c s1 -> (forall j, bal j s1 = bal j s) -> shutdown s1 = shutdown s ->
            match x with TFin _ => False | _ => True end -> post c zero s (set_task_st t x s1)).
  { intros x s1 E1 G1 B1 S1 NF.
    assert (N1 : nth_error (tasks s1) t = Some tk) by (rewrite E1; exact N).
    assert (P : post c zero s1 (set_task_st t x s1)).
    { eapply post_set_task_st_same; [exact G1|exact N1|]. intro j. rewrite T. destruct x; [reflexivity|reflexivity|contradiction]. }
    destruct P as (G2 & B2 & S2). unfold post. split; [exact G2|]. split; [|congruence].
    intro j. rewrite B2, B1. reflexivity. }
  assert (ADV : forall st0 s1, tasks s1 = tasks s -> good c s1 -> (forall j, bal j s1 = bal j s) -> shutdown s1 = shutdown s ->
            post c zero s (task_advance t tk st0 lft s1)).
  { intros st0 s1 E1 G1 B1 S1. unfold task_advance, task_finish.
    destruct st0; destruct lft; apply SAME; cbn; auto. }
  destruct mc.
  - destruct started; cbn [negb].
    + destruct (breact (t_b tk)).
      * apply SAME; cbn; auto.
      * apply ADV; cbn; auto.
    + apply SAME; cbn; auto.
  - apply ADV; auto.
Qed.

Lemma post_loop_cb : forall c t s, good c s -> c_wfail c = None -> post c zero s (loop_cb c t s).
Proof.
  intros c t s G F. unfold loop_cb.
  destruct (nth_error (tasks s) t) as [tk|] eqn:N; [|apply post_refl; exact G].
  destruct (t_st tk) as [| r |] eqn:T; try (apply post_refl; exact G).
  set (s1 := set_task_st t (TFin r) s).
  assert (G1 : good c s1) by exact G.
  assert (B1 : forall i, bal i s1 + ind (cb_is i (t_cb tk)) = bal i s).
  { intro i. unfold bal, s1, set_task_st. proj.
    pose proof (sum_ptask_set i _ _ _ (TFin r) N) as H.
    rewrite T in H. cbn [ptst] in H. lia. }
  destruct (post_run_cb c Loop (t_cb tk) r s1 G1 F (or_introl (site_ok_loop c))) as (G2 & B2 & S2).
  unfold post. split; [exact G2|]. split; [|exact S2].
  intro i. rewrite B2. specialize (B1 i). unfold zero. lia.
Qed.

Lemma post_job_start : forall c j s, good c s -> post c zero s (job_start j s).
Proof.
  intros c j s G. unfold job_start.
  destruct (nth_error (jobs s) j) as [jb|] eqn:N; [|apply post_refl; exact G].
  destruct (j_st jb) eqn:J; try (apply post_refl; exact G).
  assert (P : post c zero s (set_job_st j JRunning s)).
  { unfold post. split; [apply good_set_job_st; exact G|]. split; [|reflexivity].
    intro i. unfold bal, set_job_st. proj.
    pose proof (sum_pjob_set i _ _ _ JRunning N) as H.
    rewrite J in H. cbn [pjst] in H. unfold zero. lia. }
  eapply post_ext; [|eapply post_trans; [exact P|apply post_log; exact (proj1 P)]]. reflexivity.
Qed.

Lemma post_job_finish : forall c j s, good c s -> c_wfail c = None -> post c zero s (job_finish c j s).
Proof.
  intros c j s G F. unfold job_finish.
  destruct (nth_error (jobs s) j) as [jb|] eqn:N; [|apply post_refl; exact G].
  destruct (j_st jb) eqn:J; try (apply post_refl; exact G).
  set (r := res_of (bout (j_b jb))).
  set (s0 := log (j_who jb) (j_part jb) HEnd Pool s).
  assert (P0 : post c zero s s0) by (apply post_log; exact G).
  set (s1 := set_job_st j (JDone r) s0).
  assert (G1 : good c s1) by (apply good_set_job_st; exact (proj1 P0)).
  assert (B1 : forall i, bal i s1 + ind (cb_is i (j_cb jb)) = bal i s).
  { intro i. unfold bal, s1, set_job_st, s0, log. proj.
    pose proof (sum_pjob_set i _ _ _ (JDone r) N) as H.
    rewrite J in H. cbn [pjst] in H. lia. }
  destruct (post_run_cb c Pool (j_cb jb) r s1 G1 F (site_or_not c s j jb Pool G N)) as (G2 & B2 & S2).
  unfold post. split; [exact G2|]. split; [|exact S2].
  intro i. rewrite B2. specialize (B1 i). unfold zero. lia.
Qed.

Lemma post_write_step : forall c s, good c s -> c_wfail c = None -> post c zero s (write_step c s).
Proof.
  intros c s G F. unfold write_step. destruct (wq s) as [|w r] eqn:W; [apply post_refl; exact G|].
  destruct G as (G1 & G2 & G3 & G4 & G5). rewrite W in G2. cbn [forallb] in G2.
  apply andb_true_iff in G2. destruct G2 as [Gw Gr].
  destruct w as [f|rc]; [|discriminate].
  unfold do_write, failing. rewrite F. unfold set_wq at 1. proj. rewrite G1. cbn [fst].
  unfold post, good, bal, add_out, set_nwrites, set_wq. proj. repeat split; auto.
  intro j. rewrite W. cbn [sum fold_right pw]. fold (sum (pw j) r). rewrite replies_snoc. unfold zero. lia.
Qed.

Lemma post_user_send : forall c i s, good c s -> c_wfail c = None -> post c zero s (user_send c i s).
Proof.
  intros c i s G F. unfold user_send.
  set (s1 := set_outg (snoc (outg s) OPending) s).
  assert (P1 : post c zero s s1) by (apply post_same_core; [exact G|apply core_set_outg]).
  set (s2 := set_rtypes (Assoc.set id_eqb i tt (rtypes s1)) (fut_set i (FOut (length (outg s))) s1)).
  assert (P2 : post c zero s1 s2).
  { eapply post_ext; [|eapply post_trans; [apply post_same_core; [exact (proj1 P1)|apply core_fut_set]|
       apply post_same_core; [apply (post_same_core c s1); [exact (proj1 P1)|apply core_fut_set]|apply core_set_rtypes]]]. reflexivity. }
  unfold send_data. cbn [negb].
  destruct (post_write_call c Loop (OReq i) s2 (proj1 P2) F) as [[H1 H2]|[H1 H2]];
  destruct (write_call c Loop (OReq i) s2) as [s3 ok]; cbn [fst snd] in *; subst ok.
  - eapply post_ext; [|eapply post_trans; [eapply post_trans; [exact P1|exact P2]|exact H2]]. intro j. reflexivity.
  - eapply post_ext; [|eapply post_trans; [eapply post_trans; [eapply post_trans; [exact P1|exact P2]|exact H2]|
       apply post_hook; [exact (proj1 H2)|exact F]]]. intro j. reflexivity.
Qed.

Lemma good_exit_cb : forall c s, good c s -> exit_cb s = s.
Proof. intros c s (_ & _ & _ & _ & G5). unfold exit_cb. rewrite G5. reflexivity. Qed.

(* the shutdown flag after one event, as a function of the event *)
Definition shut_after (s : st) (e : ev) : bool :=
  shutdown s || match e with
                | Recv (FReq true _ POk m) => negb (shutdown s) && is_shutdown m
                | _ => false
                end.

(* one-step preservation *)
Theorem inv_step_full : forall c s e seen, c_wfail c = None -> frame_ok c e -> Inv c s seen ->
  Inv c (step c s e) (seen ++ answerable s e) /\ shutdown (step c s e) = shut_after s e.
Proof.
  intros c s e seen F FO I. pose proof I as (G & B).
  assert (Z0 : forall s', post c zero s s' -> Inv c s' (seen ++ []) /\ shutdown s' = (shutdown s || false)).
  { intros s' (G' & B' & S'). rewrite app_nil_r, orb_false_r. split; [|exact S']. split; [exact G'|].
    intro i. rewrite B', B. unfold zero. lia. }
  unfold step, shut_after. rewrite (proj1 (proj2 (proj2 (proj2 G)))).
  destruct e as [f|t|t|j|j| | |i].
  - apply recv_inv; assumption.
  - replace (answerable s (TaskStep t)) with (@nil id) by (unfold answerable; destruct (exit s); reflexivity).
    apply Z0. apply post_task_step. exact G.
  - replace (answerable s (LoopCb t)) with (@nil id) by (unfold answerable; destruct (exit s); reflexivity).
    apply Z0. apply post_loop_cb; assumption.
  - replace (answerable s (JobStart j)) with (@nil id) by (unfold answerable; destruct (exit s); reflexivity).
    apply Z0. apply post_job_start. exact G.
  - replace (answerable s (JobFinish j)) with (@nil id) by (unfold answerable; destruct (exit s); reflexivity).
    apply Z0. apply post_job_finish; assumption.
  - replace (answerable s WriteStep) with (@nil id) by (unfold answerable; destruct (exit s); reflexivity).
    apply Z0. apply post_write_step; assumption.
  - replace (answerable s ExitCb) with (@nil id) by (unfold answerable; destruct (exit s); reflexivity).
    rewrite (good_exit_cb c s G). rewrite app_nil_r, orb_false_r. split; [exact I|reflexivity].
  - replace (answerable s (UserSend i)) with (@nil id) by (unfold answerable; destruct (exit s); reflexivity).
    apply Z0. apply post_user_send; assumption.
Qed.

Theorem inv_step : forall c s e seen, c_wfail c = None -> frame_ok c e -> Inv c s seen ->
  Inv c (step c s e) (seen ++ answerable s e).
Proof. intros c s e seen F FO I. exact (proj1 (inv_step_full c s e seen F FO I)). Qed.

Theorem inv_init : forall c, Inv c init [].
Proof.
  intro c. unfold Inv, good, init, bal. cbn. repeat split; auto.
Qed.

(* lift to whole histories *)
Fixpoint seen_from (c : cfg) (s : st) (evs : list ev) : list id :=
  match evs with
  | [] => []
  | e :: r => answerable s e ++ seen_from c (step c s e) r
  end.

Definition seen_run (c : cfg) (evs : list ev) : list id := seen_from c init evs.

Lemma inv_from : forall c evs s seen, c_wfail c = None -> Forall (frame_ok c) evs -> Inv c s seen ->
  Inv c (fold_left (step c) evs s) (seen ++ seen_from c s evs).
Proof.
  intros c evs. induction evs as [|e r IH]; intros s seen F FO I; cbn [fold_left seen_from].
  - rewrite app_nil_r. exact I.
  - inversion FO as [|? ? H1 H2]; subst. rewrite app_assoc. apply IH; [exact F|exact H2|].
    apply inv_step; assumption.
Qed.

Theorem inv_run : forall c evs, c_wfail c = None -> Forall (frame_ok c) evs ->
  Inv c (run c evs) (seen_run c evs).
Proof.
  intros c evs F FO. unfold run, seen_run.
  change (seen_from c init evs) with ([] ++ seen_from c init evs).
  apply inv_from; [exact F|exact FO|apply inv_init].
Qed.
