(* Proofs/C15Endpoint.v - C15, last clause, over Model/Endpoint.v: a transport whose writes start
   failing at any point never brings the read loop down or stops later inbound messages from
   taking effect.

   c is ANY configuration whose writer works (c_wfail c = None; blocking or awaitable writer, default /
   quiet / raising hook), ck = c with `c_wfail := Some k` (every write from the k-th on raises, k
   counted from 0).  `Q a s` relates a state a of the run under ck to a state s of the run under c:
     - every inbound-side field is EQUAL: shutdown flag, in-flight tables (futs, rtypes), handler
       tasks and pool jobs with their states, the queue of awaitable writes, outgoing futures, the
       handler log (who started / ended / was cancelled, in which order, on which thread), closed,
       the queued and the taken exit decision (`exit`: the only way the model's loop stops), undef;
     - out a = firstn k (out s): exactly the first k frames of the working run reached the transport;
     - every report that is not a JsonRpcInternalError is the same, in the same order (`q_errs`);
     - blocking writer with a quiet or raising hook: the same number of write calls, and exactly one
       extra report per failed write (`Qq`).  Under the default LanguageServer hook each failed write
       makes the hook itself write (window/showMessage), which fails again: the model's `storm`
       flag; errs / nwrites / storm are then not compared beyond `q_errs`.
   Main results: step_fw (one event), run_fw (every event list), failing_writer_core. *)
From Coq Require Import ZArith NArith List Bool Arith Lia.
From Pygls Require Import Base.Assoc Model.Endpoint Spec.EndpointSpec Proofs.EndpointInv.
Import ListNotations.

Definition nonint (e : esrc) : bool := match e with EInternal => false | _ => true end.

(* the inbound side of a state *)
Record inbound := mkIn {
  i_shutdown : bool; i_futs : list (id * fref); i_rtypes : list (id * unit); i_tasks : list task;
  i_jobs : list job; i_wq : list wentry; i_outg : list ostate; i_hlog : list hentry;
  i_closed : bool; i_exitq : list Z; i_exit : option Z; i_undef : bool }.
Definition inbound_of (s : st) : inbound :=
  mkIn (shutdown s) (futs s) (rtypes s) (tasks s) (jobs s) (wq s) (outg s) (hlog s)
       (closed s) (exitq s) (exit s) (undef s).

Lemma firstn_app_ge : forall (A : Type) (l : list A) x k, k <= length l -> firstn k (l ++ x) = firstn k l.
Proof. intros. rewrite firstn_app. replace (k - length l) with 0 by lia. cbn. apply app_nil_r. Qed.
Lemma firstn_snoc_lt : forall (A : Type) (l : list A) x k, length l < k -> firstn k (l ++ [x]) = firstn k l ++ [x].
Proof.
  intros. rewrite firstn_app. rewrite (firstn_all2 l) by lia.
  destruct (k - length l) eqn:E; [lia|]. cbn. destruct n; reflexivity.
Qed.

Section FW.
Variable c : cfg.
Hypothesis WF : c_wfail c = None.
Variable k : nat.

Definition ck : cfg := mkCfg (c_writer c) (c_hook c) (Some k).

Definition qc : bool :=
  match c_writer c, c_hook c with
  | WBlocking, HookDefault => false
  | WBlocking, _ => true
  | WAwaitable, _ => false
  end.

Record Q0 (a s : st) : Prop := mkQ0 {
  q_shut : shutdown a = shutdown s;
  q_futs : futs a = futs s;
  q_rt : rtypes a = rtypes s;
  q_tasks : tasks a = tasks s;
  q_jobs : jobs a = jobs s;
  q_wq : wq a = wq s;
  q_outg : outg a = outg s;
  q_hlog : hlog a = hlog s;
  q_closed : closed a = closed s;
  q_exitq : exitq a = exitq s;
  q_exit : exit a = exit s;
  q_undef : undef a = undef s;
  q_out : out a = firstn k (out s);
  q_min : Nat.min k (nwrites a) = Nat.min k (nwrites s);
  q_len : length (out s) = nwrites s;
  q_errs : filter nonint (errs a) = filter nonint (errs s);
  q_wq0 : c_writer c = WBlocking -> wq s = [] }.

Definition Qq (a s : st) : Prop :=
  nwrites a = nwrites s /\ length (errs a) = length (errs s) + (nwrites a - k).

Definition Q (a s : st) : Prop := Q0 a s /\ (qc = true -> Qq a s).

Lemma Q_inbound : forall a s, Q a s -> inbound_of a = inbound_of s.
Proof.
  intros a s [[H1 H2 H3 H4 H5 H6 H7 H8 H9 H10 H11 H12 _ _ _ _ _] _]. unfold inbound_of.
  rewrite H1, H2, H3, H4, H5, H6, H7, H8, H9, H10, H11, H12. reflexivity.
Qed.

Lemma Q_init : Q init init.
Proof.
  split.
  - constructor; cbn; try reflexivity; try (destruct k; reflexivity).
  - intros _. split; cbn; lia.
Qed.

Ltac unf := unfold add_out, add_wq, add_err, log, set_task_st, set_job_st, set_outg_st, fut_set, fut_pop,
                   rtype_pop, new_task, new_job in *.
(* a setter that touches neither out, errs nor nwrites, applied on both sides *)
Ltac qset H := destruct H as [[H1 H2 H3 H4 H5 H6 H7 H8 H9 H10 H11 H12 H13 H14 H15 H16 H17] Hq];
  split; [constructor; unf; proj; try assumption; try congruence|exact Hq].

Lemma Q_log : forall w p ph sv a s, Q a s -> Q (log w p ph sv a) (log w p ph sv s).
Proof. intros w p ph sv a s H. qset H. Qed.
Lemma Q_set_task_st : forall t x a s, Q a s -> Q (set_task_st t x a) (set_task_st t x s).
Proof. intros t x a s H. qset H. Qed.
Lemma Q_set_job_st : forall j x a s, Q a s -> Q (set_job_st j x a) (set_job_st j x s).
Proof. intros j x a s H. qset H. Qed.
Lemma Q_set_outg_st : forall o x a s, Q a s -> Q (set_outg_st o x a) (set_outg_st o x s).
Proof. intros o x a s H. qset H. Qed.
Lemma Q_fut_set : forall i r a s, Q a s -> Q (fut_set i r a) (fut_set i r s).
Proof. intros i r a s H. qset H. Qed.
Lemma Q_fut_pop : forall i a s, Q a s -> Q (fut_pop i a) (fut_pop i s).
Proof. intros i a s H. qset H. Qed.
Lemma Q_rtype_pop : forall i a s, Q a s -> Q (rtype_pop i a) (rtype_pop i s).
Proof. intros i a s H. qset H. Qed.
Lemma Q_set_rtypes : forall i a s, Q a s ->
  Q (set_rtypes (Assoc.set id_eqb i tt (rtypes a)) a) (set_rtypes (Assoc.set id_eqb i tt (rtypes s)) s).
Proof. intros i a s H. qset H. Qed.
Lemma Q_set_outg_snoc : forall x a s, Q a s -> Q (set_outg (snoc (outg a) x) a) (set_outg (snoc (outg s) x) s).
Proof. intros x a s H. qset H. Qed.
Lemma Q_new_task : forall w p cb b n a s, Q a s -> Q (new_task w p cb b n a) (new_task w p cb b n s).
Proof. intros w p cb b n a s H. qset H. Qed.
Lemma Q_new_job : forall w p cb b x a s, Q a s -> Q (new_job w p cb b x a) (new_job w p cb b x s).
Proof. intros w p cb b x a s H. qset H. Qed.
Lemma Q_set_shutdown : forall v a s, Q a s -> Q (set_shutdown v a) (set_shutdown v s).
Proof. intros v a s H. qset H. Qed.
Lemma Q_set_closed : forall v a s, Q a s -> Q (set_closed v a) (set_closed v s).
Proof. intros v a s H. qset H. Qed.
Lemma Q_set_exit : forall v a s, Q a s -> Q (set_exit v a) (set_exit v s).
Proof. intros v a s H. qset H. Qed.
Lemma Q_set_exitq : forall v a s, Q a s -> Q (set_exitq (snoc (exitq a) v) a) (set_exitq (snoc (exitq s) v) s).
Proof. intros v a s H. qset H. Qed.
Lemma Q_set_undef : forall v a s, Q a s -> Q (set_undef v a) (set_undef v s).
Proof. intros v a s H. qset H. Qed.
Lemma Q_storm_l : forall v a s, Q a s -> Q (set_storm v a) s.
Proof. intros v a s H. qset H. Qed.
Lemma Q_storm_r : forall v a s, Q a s -> Q a (set_storm v s).
Proof. intros v a s H. qset H. Qed.

Lemma failing_c : forall n, failing c n = false.
Proof. intro n. unfold failing. rewrite WF. reflexivity. Qed.
Lemma failing_ck : forall n, failing ck n = Nat.leb k n.
Proof. reflexivity. Qed.

Lemma qc_blocking : qc = true -> c_writer c = WBlocking /\ c_hook c <> HookDefault.
Proof. unfold qc. destruct (c_writer c), (c_hook c); intro H; try discriminate; split; congruence. Qed.
Lemma qc_awaitable : c_writer c = WAwaitable -> qc = true -> False.
Proof. unfold qc. intros H. rewrite H. discriminate. Qed.
Lemma qc_default : c_hook c = HookDefault -> qc = true -> False.
Proof. unfold qc. intros H. rewrite H. destruct (c_writer c); discriminate. Qed.

(* ---------------------------------------------------------------- errs on both sides *)
Lemma Q_add_err : forall e a s, Q a s -> Q (add_err e a) (add_err e s).
Proof.
  intros e a s [[H1 H2 H3 H4 H5 H6 H7 H8 H9 H10 H11 H12 H13 H14 H15 H16 H17] Hq]. split.
  - constructor; unf; proj; try assumption. unfold snoc. rewrite !filter_app, H16. reflexivity.
  - intro X. destruct (Hq X) as [A1 A2]. split; unf; proj; [exact A1|]. unfold snoc. rewrite !app_length. cbn [length]. lia.
Qed.

(* ---------------------------------------------------------------- one write *)
Lemma do_write_b0 : forall f a s, Q0 a s -> Q0 (fst (do_write ck f a)) (fst (do_write c f s)).
Proof.
  intros f a s [H1 H2 H3 H4 H5 H6 H7 H8 H9 H10 H11 H12 H13 H14 H15 H16 H17].
  unfold do_write. rewrite H9, failing_c, failing_ck. destruct (closed s) eqn:C.
  - cbn [fst]. constructor; try assumption; congruence.
  - destruct (Nat.leb k (nwrites a)) eqn:L; cbn [fst].
    + apply Nat.leb_le in L. constructor; unf; proj; unfold snoc; try assumption; try congruence;
        first [rewrite firstn_app_ge by lia; exact H13 | rewrite app_length; cbn [length]; lia | lia].
    + apply Nat.leb_gt in L. assert (E : nwrites s = nwrites a) by lia.
      constructor; unf; proj; unfold snoc; try assumption; try congruence;
        first [rewrite firstn_snoc_lt by lia; rewrite H13; reflexivity | rewrite app_length; cbn [length]; lia | lia].
Qed.

(* a write attempted only by the failing run, after the failure point *)
Lemma do_write_l0 : forall f a s, Q0 a s -> k <= nwrites a -> Q0 (fst (do_write ck f a)) s.
Proof.
  intros f a s [H1 H2 H3 H4 H5 H6 H7 H8 H9 H10 H11 H12 H13 H14 H15 H16 H17] K.
  unfold do_write. rewrite failing_ck. destruct (closed a) eqn:C; cbn [fst]; [constructor; try assumption; congruence|].
  replace (Nat.leb k (nwrites a)) with true by (symmetry; apply Nat.leb_le; exact K). cbn [fst].
  constructor; unf; proj; try assumption; try congruence. lia.
Qed.

Lemma Q0_add_wq : forall w a s, c_writer c = WAwaitable -> Q0 a s -> Q0 (add_wq w a) (add_wq w s).
Proof.
  intros w a s W [H1 H2 H3 H4 H5 H6 H7 H8 H9 H10 H11 H12 H13 H14 H15 H16 H17].
  constructor; unf; proj; try assumption; try congruence.
Qed.

Lemma write_call_b0 : forall sv f a s, Q0 a s -> Q0 (fst (write_call ck sv f a)) (fst (write_call c sv f s)).
Proof.
  intros sv f a s H. unfold write_call. change (c_writer ck) with (c_writer c). destruct (c_writer c) eqn:W.
  - apply do_write_b0. exact H.
  - destruct sv; cbn [fst]; [apply Q0_add_wq; assumption|exact H].
Qed.

Lemma Q0_err_l : forall a s, Q0 a s -> Q0 (add_err EInternal a) s.
Proof.
  intros a s [H1 H2 H3 H4 H5 H6 H7 H8 H9 H10 H11 H12 H13 H14 H15 H16 H17].
  constructor; unf; proj; try assumption. unfold snoc. rewrite filter_app. cbn [filter nonint]. rewrite app_nil_r. exact H16.
Qed.
Lemma Q0_storm_l : forall v a s, Q0 a s -> Q0 (set_storm v a) s.
Proof. intros v a s [H1 H2 H3 H4 H5 H6 H7 H8 H9 H10 H11 H12 H13 H14 H15 H16 H17]. constructor; proj; assumption. Qed.
Lemma Q0_storm_r : forall v a s, Q0 a s -> Q0 a (set_storm v s).
Proof. intros v a s [H1 H2 H3 H4 H5 H6 H7 H8 H9 H10 H11 H12 H13 H14 H15 H16 H17]. constructor; proj; assumption. Qed.

(* ---------------------------------------------------------------- the hook *)
Lemma hook_b : forall sv src a s, Q a s -> Q (hook ck sv src a) (hook c sv src s).
Proof.
  intros sv src a s H. unfold hook. change (c_hook ck) with (c_hook c).
  pose proof (Q_add_err src _ _ H) as H1.
  destruct (c_hook c) eqn:K; try exact H1.
  assert (G : forall x y, Q0 x y -> Q x y) by (intros x y X; split; [exact X|intro Y; destruct (qc_default K Y)]).
  destruct src; try exact H1; apply G;
    (pose proof (write_call_b0 sv (ONotif NShowMessage) _ _ (proj1 H1)) as H2;
     destruct (write_call ck sv (ONotif NShowMessage) (add_err _ a)) as [a2 oka];
     destruct (write_call c sv (ONotif NShowMessage) (add_err _ s)) as [s2 oks]; cbn [fst] in H2;
     destruct oka, oks; try exact H2; try (apply Q0_storm_l; exact H2); try (apply Q0_storm_r; exact H2);
     apply Q0_storm_l, Q0_storm_r; exact H2).
Qed.

(* the hook call that only the failing run makes: `except Exception: _report_server_error(error,
   JsonRpcInternalError)` in _send_data, right after a write that raised *)
Lemma hook_l0 : forall sv a s, Q0 a s -> k <= nwrites a -> closed a = false -> c_writer c = WBlocking ->
  Q0 (hook ck sv EInternal a) s.
Proof.
  intros sv a s H K C W. unfold hook. change (c_hook ck) with (c_hook c).
  pose proof (Q0_err_l _ _ H) as H1. destruct (c_hook c); try exact H1.
  unfold write_call. change (c_writer ck) with (c_writer c). rewrite W.
  pose proof (do_write_l0 (ONotif NShowMessage) _ _ H1 K) as H2.
  destruct (do_write ck (ONotif NShowMessage) (add_err EInternal a)) as [a2 ok]. cbn [fst] in H2.
  destruct ok; [exact H2|apply Q0_storm_l; exact H2].
Qed.

(* ---------------------------------------------------------------- _send_data *)
Lemma send_data_b : forall sv f ok a s, Q a s ->
  Q (fst (send_data ck sv f ok a)) (fst (send_data c sv f ok s)).
Proof.
  intros sv f ok a s H. unfold send_data. destruct ok; cbn [negb fst]; [|apply hook_b; exact H].
  unfold write_call. change (c_writer ck) with (c_writer c). destruct (c_writer c) eqn:W.
  - (* blocking *)
    unfold do_write. rewrite (q_closed _ _ (proj1 H)), failing_c, failing_ck. destruct (closed s) eqn:C; cbn [fst].
    + apply hook_b. exact H.
    + destruct (Nat.leb k (nwrites a)) eqn:L; cbn [fst].
      * (* the write raises: nothing written, one report by the failing run only *)
        apply Nat.leb_le in L. destruct H as [H0 Hq].
        pose proof (do_write_b0 f _ _ H0) as D. unfold do_write in D.
        rewrite (q_closed _ _ H0), failing_c, failing_ck, C in D.
        replace (Nat.leb k (nwrites a)) with true in D by (symmetry; apply Nat.leb_le; exact L). cbn [fst] in D.
        split.
        -- apply hook_l0; [exact D|cbn [nwrites set_nwrites]; lia|cbn [closed set_nwrites]; rewrite (q_closed _ _ H0); exact C|exact W].
        -- intro X. destruct (Hq X) as [A1 A2]. destruct (qc_blocking X) as [_ ND].
           unfold hook. change (c_hook ck) with (c_hook c). destruct (c_hook c); try congruence;
             (split; unf; proj; [lia|unfold snoc; rewrite app_length; cbn [length]; lia]).
      * apply Nat.leb_gt in L. destruct H as [H0 Hq].
        pose proof (do_write_b0 f _ _ H0) as D. unfold do_write in D.
        rewrite (q_closed _ _ H0), failing_c, failing_ck, C in D.
        replace (Nat.leb k (nwrites a)) with false in D by (symmetry; apply Nat.leb_gt; exact L). cbn [fst] in D.
        split; [exact D|]. intro X. destruct (Hq X) as [A1 A2]. split; unf; proj; lia.
  - (* awaitable: the write is queued; from a pool thread it fails in both runs *)
    destruct sv; cbn [fst].
    + destruct H as [H0 Hq]. split; [apply Q0_add_wq; assumption|]. intro X. destruct (qc_awaitable W X).
    + apply hook_b. exact H.
Qed.

Lemma send_data_eta : forall c0 sv f ok s, send_data c0 sv f ok s = (fst (send_data c0 sv f ok s), ok).
Proof.
  intros c0 sv f ok s. unfold send_data. destruct ok; cbn [negb]; [|reflexivity].
  destruct (write_call c0 sv f s) as [s1 b]. reflexivity.
Qed.

Lemma send_response_b : forall sv i r a s, Q a s -> Q (send_response ck sv i r a) (send_response c sv i r s).
Proof.
  intros sv i r a s H. unfold send_response. destruct r as [code|v ok]; [apply send_data_b; exact H|].
  pose proof (Q_rtype_pop i _ _ H) as H0.
  rewrite (send_data_eta ck sv _ ok (rtype_pop i a)), (send_data_eta c sv _ ok (rtype_pop i s)).
  pose proof (send_data_b sv (OResp i (PResult v)) ok _ _ H0) as H1.
  destruct ok; [exact H1|]. apply send_data_b. exact H1.
Qed.

(* ---------------------------------------------------------------- callbacks, cancellation *)
Lemma run_cb_b : forall sv cb r a s, Q a s -> Q (run_cb ck sv cb r a) (run_cb c sv cb r s).
Proof.
  intros sv cb r a s H. unfold run_cb, request_callback, notification_callback. destruct cb as [i|].
  - apply Q_fut_pop. destruct r; try apply hook_b; apply send_response_b; exact H.
  - destruct r; try exact H; apply hook_b; exact H.
Qed.

Lemma cancel_ref_b : forall r a s, Q a s -> Q (cancel_ref ck r a) (cancel_ref c r s).
Proof.
  intros r a s H. unfold cancel_ref. destruct r as [t|j|o].
  - rewrite (q_tasks _ _ (proj1 H)). destruct (nth_error (tasks s) t) as [tk|]; [|exact H].
    destruct (t_st tk); try exact H. apply Q_set_task_st. exact H.
  - rewrite (q_jobs _ _ (proj1 H)). destruct (nth_error (jobs s) j) as [jb|]; [|exact H].
    destruct (j_st jb); try exact H. apply run_cb_b. apply Q_set_job_st. exact H.
  - rewrite (q_outg _ _ (proj1 H)). destruct (nth_error (outg s) o) as [[| |]|]; try exact H.
    apply Q_set_outg_st. exact H.
Qed.

Lemma fold_cancel_b : forall l a s, Q a s ->
  Q (fold_left (fun x r => cancel_ref ck r x) l a) (fold_left (fun x r => cancel_ref c r x) l s).
Proof. induction l as [|r l IH]; intros a s H; [exact H|]. cbn [fold_left]. apply IH. apply cancel_ref_b. exact H. Qed.

Lemma lsp_shutdown_b : forall a s, Q a s -> Q (lsp_shutdown ck a) (lsp_shutdown c s).
Proof.
  intros a s H. unfold lsp_shutdown. rewrite (q_futs _ _ (proj1 H)). apply Q_set_shutdown. apply fold_cancel_b. exact H.
Qed.

(* ---------------------------------------------------------------- starting handlers *)
Lemma submit_b : forall w p cb b early reg a s,
  (forall j x y, Q x y -> Q (reg j x) (reg j y)) -> Q a s ->
  Q (submit ck w p cb b early reg a) (submit c w p cb b early reg s).
Proof.
  intros w p cb b early reg a s Hreg H. unfold submit. rewrite (q_jobs _ _ (proj1 H)). destruct early.
  - apply run_cb_b. apply Hreg. apply Q_log, Q_log, Q_new_job. exact H.
  - apply Hreg. apply Q_new_job. exact H.
Qed.

Lemma snd_execute_request : forall c0 i p b s,
  snd (execute_request c0 i p b s) = match bkind b with HSync => exc_of (bout b) | _ => None end.
Proof. intros. unfold execute_request. destruct (bkind b); try reflexivity. destruct (bout b); reflexivity. Qed.
Lemma snd_exec_notification : forall c0 w p b s,
  snd (exec_notification c0 w p b s) = match bkind b with HSync => exc_of (bout b) | _ => None end.
Proof. intros. unfold exec_notification. destruct (bkind b); reflexivity. Qed.

Lemma execute_request_b : forall i p b a s, Q a s ->
  Q (fst (execute_request ck i p b a)) (fst (execute_request c i p b s)).
Proof.
  intros i p b a s H. unfold execute_request. destruct (bkind b) as [|n|early].
  - assert (H1 : Q (log (WReq i) p HEnd Loop (log (WReq i) p HStart Loop a)) (log (WReq i) p HEnd Loop (log (WReq i) p HStart Loop s)))
      by (apply Q_log, Q_log; exact H).
    destruct (bout b); cbn [fst]; try exact H1; apply send_response_b; exact H1.
  - cbn [fst]. rewrite (q_tasks _ _ (proj1 H)). apply Q_fut_set, Q_new_task. exact H.
  - cbn [fst]. apply submit_b; [|exact H]. intros j x y X. apply Q_fut_set. exact X.
Qed.

Lemma exec_notification_b : forall w p b a s, Q a s ->
  Q (fst (exec_notification ck w p b a)) (fst (exec_notification c w p b s)).
Proof.
  intros w p b a s H. unfold exec_notification. destruct (bkind b) as [|n|early]; cbn [fst].
  - apply Q_log, Q_log. exact H.
  - apply Q_new_task. exact H.
  - apply submit_b; [|exact H]. intros j x y X. exact X.
Qed.

Lemma chain_b : forall w u a s, Q a s -> Q (chain ck w u a) (chain c w u s).
Proof. intros w u a s H. unfold chain. destruct u; [apply exec_notification_b|]; exact H. Qed.

Lemma on_exc_b : forall i x a s, Q a s -> Q (on_exc ck i x a) (on_exc c i x s).
Proof. intros i x a s H. unfold on_exc. destruct x as [[|code]|]; try exact H; apply hook_b, send_response_b; exact H. Qed.

(* ---------------------------------------------------------------- requests, notifications, responses *)
Lemma handle_request_b : forall i m a s, Q a s -> Q (handle_request ck i m a) (handle_request c i m s).
Proof.
  intros i m a s H. unfold handle_request. destruct m as [|b|u|fails u|cmd u].
  - apply hook_b, send_response_b. exact H.
  - pose proof (execute_request_b i PUser b _ _ H) as H1.
    pose proof (snd_execute_request ck i PUser b a) as E1. pose proof (snd_execute_request c i PUser b s) as E2.
    destruct (execute_request ck i PUser b a) as [a1 x]. destruct (execute_request c i PUser b s) as [s1 x'].
    cbn [fst snd] in *. subst x x'. apply on_exc_b. exact H1.
  - apply send_response_b, chain_b, Q_log, lsp_shutdown_b, Q_log. exact H.
  - assert (H1 : Q (log (WReq i) PBuiltin HEnd Loop (log (WReq i) PBuiltin HStart Loop a))
                   (log (WReq i) PBuiltin HEnd Loop (log (WReq i) PBuiltin HStart Loop s))) by (apply Q_log, Q_log; exact H).
    destruct fails; [apply on_exc_b; exact H1|apply send_response_b, chain_b; exact H1].
  - assert (H1 : Q (log (WReq i) PBuiltin HStart Loop a) (log (WReq i) PBuiltin HStart Loop s)) by (apply Q_log; exact H).
    destruct cmd as [b|]; [|apply on_exc_b, Q_log; exact H1].
    pose proof (execute_request_b i PCommand b _ _ H1) as H2.
    pose proof (snd_execute_request ck i PCommand b (log (WReq i) PBuiltin HStart Loop a)) as E1.
    pose proof (snd_execute_request c i PCommand b (log (WReq i) PBuiltin HStart Loop s)) as E2.
    destruct (execute_request ck i PCommand b (log (WReq i) PBuiltin HStart Loop a)) as [a2 x].
    destruct (execute_request c i PCommand b (log (WReq i) PBuiltin HStart Loop s)) as [s2 x'].
    cbn [fst snd] in *. subst x x'.
    destruct (match bkind b with HSync => exc_of (bout b) | _ => None end);
      [apply on_exc_b, Q_log; exact H2|apply chain_b, Q_log; exact H2].
Qed.

Lemma cancel_notification_b : forall i a s, Q a s -> Q (cancel_notification ck i a) (cancel_notification c i s).
Proof.
  intros i a s H. unfold cancel_notification. rewrite (q_futs _ _ (proj1 H)).
  destruct (Assoc.get id_eqb i (futs s)); [|exact H]. apply cancel_ref_b, Q_fut_pop. exact H.
Qed.

Lemma Q_add_wq_close : forall rc a s, c_writer c = WAwaitable -> Q a s -> Q (add_wq (WClose rc) a) (add_wq (WClose rc) s).
Proof.
  intros rc a s W [H0 Hq]. split; [apply Q0_add_wq; assumption|]. intro X. destruct (qc_awaitable W X).
Qed.

Lemma lsp_exit_b : forall w u a s, Q a s -> Q (lsp_exit ck w u a) (lsp_exit c w u s).
Proof.
  intros w u a s H. unfold lsp_exit. rewrite (q_shut _ _ (proj1 H)). change (c_writer ck) with (c_writer c).
  assert (H1 : Q (log w PBuiltin HStart Loop a) (log w PBuiltin HStart Loop s)) by (apply Q_log; exact H).
  destruct (c_writer c) eqn:W.
  - apply Q_set_exit, Q_set_closed. exact H1.
  - apply chain_b, Q_log, Q_add_wq_close; assumption.
Qed.

Lemma handle_notification_b : forall tag m a s, Q a s -> Q (handle_notification ck tag m a) (handle_notification c tag m s).
Proof.
  intros tag m a s H. unfold handle_notification. destruct m as [|b|i|u|fails u].
  - exact H.
  - pose proof (exec_notification_b (WNot tag) PUser b _ _ H) as H1.
    pose proof (snd_exec_notification ck (WNot tag) PUser b a) as E1. pose proof (snd_exec_notification c (WNot tag) PUser b s) as E2.
    destruct (exec_notification ck (WNot tag) PUser b a) as [a1 x]. destruct (exec_notification c (WNot tag) PUser b s) as [s1 x'].
    cbn [fst snd] in *. subst x x'.
    destruct (match bkind b with HSync => exc_of (bout b) | _ => None end); [apply hook_b|]; exact H1.
  - apply cancel_notification_b. exact H.
  - apply lsp_exit_b. exact H.
  - assert (H1 : Q (log (WNot tag) PBuiltin HEnd Loop (log (WNot tag) PBuiltin HStart Loop a))
                   (log (WNot tag) PBuiltin HEnd Loop (log (WNot tag) PBuiltin HStart Loop s))) by (apply Q_log, Q_log; exact H).
    destruct fails; [apply hook_b|apply chain_b]; exact H1.
Qed.

Lemma handle_response_b : forall i a s, Q a s -> Q (handle_response ck i a) (handle_response c i s).
Proof.
  intros i a s H. unfold handle_response. rewrite (q_futs _ _ (proj1 H)).
  destruct (Assoc.get id_eqb i (futs s)) as [r|]; [|apply hook_b; exact H].
  pose proof (Q_fut_pop i _ _ H) as H1. destruct r as [t|j|o].
  - apply hook_b. exact H1.
  - apply Q_set_undef, hook_b. exact H1.
  - rewrite (q_outg _ _ (proj1 H1)). destruct (nth_error (outg (fut_pop i s)) o) as [[| |]|]; try (apply hook_b; exact H1).
    apply Q_set_outg_st. exact H1.
Qed.

Lemma recv_b : forall f a s, Q a s -> Q (recv ck f a) (recv c f s).
Proof.
  intros f a s H. unfold recv. destruct f as [|v i ps m|v tag ps m|v i iserr ps].
  - apply hook_b. exact H.
  - destruct ps; try (apply hook_b, send_response_b; exact H).
    destruct (negb v); [apply hook_b; exact H|]. rewrite (q_shut _ _ (proj1 H)).
    destruct (shutdown s); [exact H|apply handle_request_b; exact H].
  - destruct ps; try (apply hook_b; exact H).
    destruct (negb v); [apply hook_b; exact H|]. rewrite (q_shut _ _ (proj1 H)).
    destruct (shutdown s && negb (is_exit m)); [exact H|apply handle_notification_b; exact H].
  - rewrite (q_rt _ _ (proj1 H)). pose proof (Q_rtype_pop i _ _ H) as H1.
    destruct (negb iserr && negb (Assoc.mem id_eqb i (rtypes s))); [apply hook_b; exact H1|].
    destruct ps; try (apply hook_b; exact H1).
    destruct (negb v); [apply hook_b; exact H1|]. rewrite (q_shut _ _ (proj1 H1)).
    destruct (shutdown (rtype_pop i s)); [exact H1|apply handle_response_b; exact H1].
Qed.

(* ---------------------------------------------------------------- the other events *)
Lemma task_step_b : forall t a s, Q a s -> Q (task_step t a) (task_step t s).
Proof.
  intros t a s H. unfold task_step. rewrite (q_tasks _ _ (proj1 H)).
  destruct (nth_error (tasks s) t) as [tk|]; [|exact H].
  assert (ADV : forall st0 lft x y, Q x y -> Q (task_advance t tk st0 lft x) (task_advance t tk st0 lft y)).
  { intros st0 lft x y X. unfold task_advance, task_finish.
    assert (X2 : Q (if st0 then x else log (t_who tk) (t_part tk) HStart Loop x) (if st0 then y else log (t_who tk) (t_part tk) HStart Loop y))
      by (destruct st0; [exact X|apply Q_log; exact X]).
    destruct lft; [apply Q_set_task_st, Q_log|apply Q_set_task_st]; exact X2. }
  destruct (t_st tk) as [started lft mc| |]; try exact H.
  destruct mc; [|apply ADV; exact H].
  destruct (negb started); [apply Q_set_task_st; exact H|].
  destruct (breact (t_b tk)); [apply Q_set_task_st, Q_log; exact H|apply ADV, Q_log; exact H].
Qed.

Lemma loop_cb_b : forall t a s, Q a s -> Q (loop_cb ck t a) (loop_cb c t s).
Proof.
  intros t a s H. unfold loop_cb. rewrite (q_tasks _ _ (proj1 H)).
  destruct (nth_error (tasks s) t) as [tk|]; [|exact H]. destruct (t_st tk); try exact H.
  apply run_cb_b, Q_set_task_st. exact H.
Qed.

Lemma job_start_b : forall j a s, Q a s -> Q (job_start j a) (job_start j s).
Proof.
  intros j a s H. unfold job_start. rewrite (q_jobs _ _ (proj1 H)).
  destruct (nth_error (jobs s) j) as [jb|]; [|exact H]. destruct (j_st jb); try exact H.
  apply Q_log, Q_set_job_st. exact H.
Qed.

Lemma job_finish_b : forall j a s, Q a s -> Q (job_finish ck j a) (job_finish c j s).
Proof.
  intros j a s H. unfold job_finish. rewrite (q_jobs _ _ (proj1 H)).
  destruct (nth_error (jobs s) j) as [jb|]; [|exact H]. destruct (j_st jb); try exact H.
  apply run_cb_b, Q_set_job_st, Q_log. exact H.
Qed.

Lemma write_step_b : forall a s, Q a s -> Q (write_step ck a) (write_step c s).
Proof.
  intros a s H. unfold write_step. rewrite (q_wq _ _ (proj1 H)). destruct (wq s) as [|w r] eqn:W0; [exact H|].
  assert (W : c_writer c = WAwaitable).
  { destruct (c_writer c) eqn:E; [|reflexivity]. pose proof (q_wq0 _ _ (proj1 H) E) as X. congruence. }
  assert (NQ : forall x y, Q0 x y -> Q x y) by (intros x y X; split; [exact X|intro Y; destruct (qc_awaitable W Y)]).
  assert (H1 : Q0 (set_wq r a) (set_wq r s)).
  { destruct H as [[H1 H2 H3 H4 H5 H6 H7 H8 H9 H10 H11 H12 H13 H14 H15 H16 H17] _].
    constructor; proj; try assumption; try congruence. }
  destruct w as [f|rc].
  - apply NQ. apply do_write_b0. exact H1.
  - rewrite (q_exitq _ _ (proj1 H)). apply NQ.
    destruct H1 as [H1 H2 H3 H4 H5 H6 H7 H8 H9 H10 H11 H12 H13 H14 H15 H16 H17].
    constructor; proj; try assumption; try congruence.
Qed.

Lemma exit_cb_b : forall a s, Q a s -> Q (exit_cb a) (exit_cb s).
Proof.
  intros a s H. unfold exit_cb. rewrite (q_exitq _ _ (proj1 H)). destruct (exitq s) as [|rc r]; [exact H|].
  apply Q_set_exit. qset H.
Qed.

Lemma user_send_b : forall i a s, Q a s -> Q (user_send ck i a) (user_send c i s).
Proof.
  intros i a s H. unfold user_send. apply send_data_b.
  pose proof (Q_set_outg_snoc OPending _ _ H) as X1.
  rewrite (q_outg _ _ (proj1 H)) at 2.
  pose proof (Q_fut_set i (FOut (length (outg s))) _ _ X1) as X2.
  exact (Q_set_rtypes i _ _ X2).
Qed.

(* ---------------------------------------------------------------- one event, every event list *)
Theorem step_fw : forall e a s, Q a s -> Q (step ck a e) (step c s e).
Proof.
  intros e a s H. unfold step. rewrite (q_exit _ _ (proj1 H)). destruct (exit s); [exact H|].
  destruct e.
  - apply recv_b; exact H.
  - apply task_step_b; exact H.
  - apply loop_cb_b; exact H.
  - apply job_start_b; exact H.
  - apply job_finish_b; exact H.
  - apply write_step_b; exact H.
  - apply exit_cb_b; exact H.
  - apply user_send_b; exact H.
Qed.

Theorem run_fw : forall evs a s, Q a s -> Q (fold_left (step ck) evs a) (fold_left (step c) evs s).
Proof. induction evs as [|e r IH]; intros a s H; [exact H|]. cbn [fold_left]. apply IH, step_fw. exact H. Qed.
End FW.

Definition failing_from (c : cfg) (k : nat) : cfg := mkCfg (c_writer c) (c_hook c) (Some k).
Definition blocking_quiet (c : cfg) : bool :=
  match c_writer c, c_hook c with
  | WBlocking, HookDefault => false
  | WBlocking, _ => true
  | WAwaitable, _ => false
  end.

(* failing_writer_core: for EVERY configuration with a working writer (blocking or awaitable; default,
   quiet or raising hook), every failure point k and every event list *)
Theorem failing_writer_core : forall c k evs, c_wfail c = None ->
  let a := run (failing_from c k) evs in
  let s := run c evs in
  (* the inbound side is untouched: handlers run and finish alike, tables, shutdown flag, exit decision *)
  inbound_of a = inbound_of s /\
  (* exactly the first k writes reached the transport *)
  out a = firstn k (out s) /\
  (* no report is lost or reordered; the additional ones are JsonRpcInternalError reports of failed writes *)
  filter nonint (errs a) = filter nonint (errs s) /\
  (* blocking writer, quiet / raising hook: same write calls, one extra report per failed write *)
  (blocking_quiet c = true ->
     nwrites a = nwrites s /\ length (errs a) = length (errs s) + (nwrites a - k)).
Proof.
  intros c k evs WF a s. pose proof (run_fw c WF k evs _ _ (Q_init c k)) as H. fold (run c evs) in H.
  change (fold_left (step (ck c k)) evs init) with (run (failing_from c k) evs) in H.
  split; [apply (Q_inbound c k); exact H|]. destruct H as [H0 Hq].
  split; [exact (q_out _ _ _ _ H0)|]. split; [exact (q_errs _ _ _ _ H0)|]. exact Hq.
Qed.

(* the loop never dies and the exit decision is the working run's *)
Corollary failing_writer_alive : forall c k evs, c_wfail c = None ->
  exit (run (failing_from c k) evs) = exit (run c evs) /\ hlog (run (failing_from c k) evs) = hlog (run c evs) /\
  shutdown (run (failing_from c k) evs) = shutdown (run c evs).
Proof.
  intros c k evs WF. pose proof (proj1 (failing_writer_core c k evs WF)) as H. cbn zeta in H.
  repeat split; [exact (f_equal i_exit H)|exact (f_equal i_hlog H)|exact (f_equal i_shutdown H)].
Qed.
