From Coq Require Import ZArith NArith List Bool Lia ZifyBool ZifyN ZifyNat.
From Pygls Require Import Base.Unicode Base.PyStr Model.Codec Spec.CodecSpec Proofs.CodecProofs
                          Model.Doc Spec.DocSpec Proofs.DocProofs Model.DocQuery Spec.DocQuerySpec.
Ltac Zify.zify_post_hook ::= Z.to_euclidean_division_equations.
Open Scope N_scope.

(* ---------- sums of client units ---------- *)

Lemma cnu_app e a b : client_num_units e (a ++ b) = client_num_units e a + client_num_units e b.
Proof.
  induction a as [|c a IH]; [cbn [app]; rewrite cnu_nil; lia|].
  cbn [app]. rewrite (cnu_cons e c (a ++ b)), (cnu_cons e c a), IH. lia.
Qed.

Lemma sum_units_concat e ls : sum_units e ls = client_num_units e (concat ls).
Proof.
  induction ls as [|x r IH]; [cbn; rewrite cnu_nil; reflexivity|].
  cbn [sum_units concat]. rewrite cnu_app, IH. reflexivity.
Qed.

Lemma take_len_app {A} (X r : list A) : take (len X) (X ++ r) = X.
Proof.
  replace (len X) with (len X + 0) by lia. rewrite take_app_len, take_0. apply app_nil_r.
Qed.

Lemma take_succ {A} (x : A) r n : take (1 + n) (x :: r) = x :: take n r.
Proof.
  cbn [take]. replace (1 + n =? 0) with false by lia. replace (1 + n - 1) with n by lia. reflexivity.
Qed.

Lemma sum_units_before_last e ls : ls <> [] ->
  client_num_units e (last_line ls) + sum_units e (take (len ls - 1) ls) = sum_units e ls.
Proof.
  unfold last_line. induction ls as [|x r IH]; intros Hne; [congruence|].
  destruct r as [|y r'].
  - cbn. lia.
  - rewrite (len_cons x (y :: r')).
    replace (1 + len (y :: r') - 1) with (1 + (len (y :: r') - 1)) by (rewrite len_cons; lia).
    rewrite take_succ.
    change (last (x :: y :: r') []) with (last (y :: r') []).
    specialize (IH ltac:(discriminate)).
    change (sum_units e (x :: y :: r')) with (client_num_units e x + sum_units e (y :: r')).
    change (sum_units e (x :: take (len (y :: r') - 1) (y :: r')))
      with (client_num_units e x + sum_units e (take (len (y :: r') - 1) (y :: r'))).
    lia.
Qed.

Lemma guard_eof_cnu e t : guard_eof e t = true -> client_num_units e t = len t.
Proof.
  unfold guard_eof. destruct e; intros H; try reflexivity; apply count_astral_zero_cnu; lia.
Qed.

(* ---------- the converted position of a valid (or clamped) client position ---------- *)

Lemma converted_position e s l ch o pre :
  spec_locate e s l ch 0 = Some (o, pre) -> widths_exact e pre = true -> s <> [] ->
  let ls := lsp_lines s in
  (exists A post term C,
      ls = A ++ (pre ++ post ++ term) :: C /\ len A = l /\ no_eol (pre ++ post) = true /\
      o = len (concat A) + len pre /\
      fst (position_from_client_units e ls (l, ch)) = (l, len pre))
  \/ (l = len ls /\ pre = [] /\ o = len s /\
      fst (position_from_client_units e ls (l, ch)) = (len ls - 1, client_num_units e (last_line ls))).
Proof.
  intros H Hw Hne ls.
  assert (Hls : ls <> []) by (intros E; apply Hne, lsp_lines_nil_inv; exact E).
  apply spec_locate_located in H. fold ls in H.
  destruct H as [(A & post & term & C & H1 & H2 & H3 & H4 & H5 & H6)|(H1 & H3 & H4 & _)].
  - left. exists A, post, term, C.
    assert (Hlen : len ls = l + 1 + len C) by (rewrite H1, len_app, len_cons; lia).
    assert (Hl : l < len ls) by lia.
    assert (Hn : nth (N.to_nat l) ls [] = (pre ++ post) ++ term).
    { rewrite H1, <- app_assoc. apply nth_len_app. exact H2. }
    repeat split; try assumption.
    destruct H5 as [H5|[H5 H7]].
    + rewrite H5. exact (from_exact e ls l (pre ++ post) term Hl Hn H3 H4 pre post eq_refl Hw).
    + subst post. rewrite app_nil_r in *.
      apply (from_clamp_eol e ls l pre term Hl Hn H3 H4 ch Hw). lia.
  - right. repeat split; try assumption.
    apply from_clamp_eof; [exact Hls|lia].
Qed.

(* ---------- offset_at_position ---------- *)

Lemma offset_empty e p : offset_at_position e [] p = 0.
Proof. unfold offset_at_position. cbn [lsp_lines]. rewrite from_empty. reflexivity. Qed.

(* past the end of the document: the length of the whole text in client code units (F16') *)
Lemma offset_past_eof e s l ch :
  s <> [] -> len (lsp_lines s) <= l -> offset_at_position e s (l, ch) = client_num_units e s.
Proof.
  intros Hne Hl. unfold offset_at_position.
  assert (Hls : lsp_lines s <> []) by (intros E; apply Hne, lsp_lines_nil_inv; exact E).
  rewrite (from_clamp_eof e (lsp_lines s) l ch Hls Hl).
  rewrite (sum_units_before_last e _ Hls), sum_units_concat, concat_lsp_lines. reflexivity.
Qed.

(* on a line: the character index on the line plus the client units of the lines before it *)
Lemma offset_on_line e s l ch o pre :
  s <> [] -> spec_locate e s l ch 0 = Some (o, pre) -> widths_exact e pre = true ->
  offset_at_position e s (l, ch) = len pre + client_num_units e (take (o - len pre) s).
Proof.
  intros Hne H Hw.
  destruct (converted_position e s l ch o pre H Hw Hne) as
    [(A & post & term & C & H1 & H2 & H3 & H4 & H5)|(H1 & H2 & H3 & H4)].
  - unfold offset_at_position. rewrite H5, H1, <- H2, take_len_app, sum_units_concat.
    replace (o - len pre) with (len (concat A)) by lia.
    rewrite <- (concat_lsp_lines s), H1, concat_app, take_len_app. reflexivity.
  - subst pre. change (len (@nil N)) with 0. rewrite N.sub_0_r, H3, take_all by lia.
    rewrite offset_past_eof by (try assumption; lia). lia.
Qed.

(* the character offset, when the text counted in client units has one unit per character *)
Lemma offset_exact e s l ch o pre :
  spec_locate e s l ch 0 = Some (o, pre) -> widths_exact e pre = true ->
  guard_eof e (take (o - len pre) s) = true ->
  offset_at_position e s (l, ch) = o.
Proof.
  intros H Hw Hg. destruct s as [|x s'] eqn:Es.
  - rewrite offset_empty. apply spec_locate_empty in H. congruence.
  - rewrite <- Es in *. assert (Hne : s <> []) by (rewrite Es; discriminate).
    rewrite (offset_on_line e s l ch o pre Hne H Hw), (guard_eof_cnu _ _ Hg).
    pose proof (spec_locate_located e s l ch 0 o pre H) as HL.
    assert (len pre <= o).
    { destruct HL as [(A & post & term & C & _ & _ & _ & _ & _ & H6)|(_ & -> & _)];
        [lia|change (len (@nil N)) with 0; lia]. }
    assert (o <= len s).
    { destruct HL as [(A & post & term & C & H1 & _ & _ & _ & _ & H6)|(_ & _ & H4 & _)]; [|lia].
      rewrite <- (concat_lsp_lines s), H1, concat_app. cbn [concat]. rewrite !len_app. lia. }
    assert (Ht : len (take (o - len pre) s) = o - len pre).
    { rewrite take_firstn. unfold len. rewrite firstn_length. unfold len in *. lia. }
    lia.
Qed.

(* ---------- the two regular expressions ---------- *)

Lemma word_char_is_word c : word_char c = is_word c.
Proof. unfold word_char, is_word. lia. Qed.

Lemma is_word_not_eol c : is_word c = true -> is_eol c = false.
Proof. unfold is_word, is_eol. lia. Qed.

Lemma word_prefix_spec s :
  exists b, s = word_prefix s ++ b /\ forallb is_word (word_prefix s) = true /\
            (b = [] \/ is_word (hd 0 b) = false).
Proof.
  induction s as [|c r (b & H1 & H2 & H3)]; [exists []; cbn; auto|].
  cbn [word_prefix]. destruct (is_word c) eqn:E.
  - exists b. cbn [app forallb]. rewrite E, H2. rewrite <- H1. auto.
  - exists (c :: r). cbn. auto.
Qed.

Lemma skip_word_all s : forallb is_word s = true -> skip_word s = [] /\ word_prefix s = s.
Proof.
  induction s as [|c r IH]; [auto|]. cbn [forallb skip_word word_prefix]. intros H.
  apply andb_true_iff in H. destruct H as [Hc Hr]. rewrite Hc. destruct (IH Hr) as [-> ->]. auto.
Qed.

Lemma swf_all s : forallb is_word s = true -> start_word_first s = s.
Proof.
  intros H. destruct s as [|c r]; [reflexivity|]. cbn [start_word_first].
  destruct (skip_word_all _ H) as [-> ->]. reflexivity.
Qed.

(* a non-word character that is not a line terminator: no match starts at or before it *)
Lemma skip_word_nonword x c y : is_word c = false -> exists z, skip_word (x ++ c :: y) = z ++ c :: y.
Proof.
  intros Hc. induction x as [|d x (z & IH)].
  - exists []. cbn [app skip_word]. rewrite Hc. reflexivity.
  - cbn [app skip_word]. destruct (is_word d); [exists z; exact IH|].
    exists (d :: x). reflexivity.
Qed.

Lemma swf_skip x c y : is_word c = false -> is_eol c = false ->
  start_word_first (x ++ c :: y) = start_word_first y.
Proof.
  intros Hc He. induction x as [|d x IH].
  - cbn [app start_word_first skip_word]. rewrite Hc.
    destruct y as [|u y']; cbn [at_dollar]; [|reflexivity].
    unfold is_eol in He. replace (c =? 10) with false by lia. reflexivity.
  - cbn [app start_word_first]. destruct (skip_word_nonword (d :: x) c y Hc) as (z & Hz).
    cbn [app] in Hz. rewrite Hz.
    replace (at_dollar (z ++ c :: y)) with false; [exact IH|].
    destruct z as [|u [|v z']]; cbn [app at_dollar].
    + destruct y; [|reflexivity]. unfold is_eol in He. lia.
    + destruct y; reflexivity.
    + reflexivity.
Qed.

(* on a terminator-free string the first match is the maximal suffix of word characters *)
Lemma swf_spec s : no_eol s = true ->
  exists a, s = a ++ start_word_first s /\ forallb is_word (start_word_first s) = true /\
            (a = [] \/ is_word (last a 0) = false).
Proof.
  induction s as [|c r IH]; intros Hn; [exists []; cbn; auto|].
  rewrite no_eol_cons in Hn. apply andb_true_iff in Hn. destruct Hn as [Hc Hr].
  destruct (forallb is_word (c :: r)) eqn:Hall.
  - exists []. rewrite swf_all by exact Hall. cbn [app]. auto.
  - destruct (IH Hr) as (a & H1 & H2 & H3).
    assert (Hs : start_word_first (c :: r) = start_word_first r).
    { cbn [start_word_first]. destruct (at_dollar (skip_word (c :: r))) eqn:Ed; [|reflexivity].
      exfalso. (* skip_word stops at a non-word character, which is not LF here *)
      clear - Hc Hr Hall Ed. revert c Hc Hall Ed. induction r as [|d r IHr]; intros c Hc Hall Ed.
      - cbn in *. destruct (is_word c); [discriminate|]. cbn in Ed. unfold is_eol in Hc. lia.
      - rewrite no_eol_cons in Hr. apply andb_true_iff in Hr. destruct Hr as [Hd Hr].
        cbn [skip_word] in Ed. destruct (is_word c) eqn:Ec.
        + cbn [forallb] in Hall. rewrite Ec in Hall. exact (IHr Hr d Hd Hall Ed).
        + cbn [at_dollar] in Ed. discriminate. }
    rewrite Hs. exists (c :: a). cbn [app]. rewrite <- H1. repeat split; [exact H2|].
    right. destruct a as [|u a'].
    + cbn [last]. cbn [app] in H1. rewrite H1 in Hall. cbn [forallb] in Hall.
      rewrite H2, andb_true_r in Hall. exact Hall.
    + destruct H3 as [H3|H3]; [discriminate|exact H3].
Qed.

(* the reference scanner computes what the two regular expressions compute *)
Lemma run_at_model line : forall k acc,
  forallb is_word acc = true -> no_eol (take k line) = true ->
  run_at line k acc = start_word_first (acc ++ take k line) ++ end_word_last (drop k line).
Proof.
  unfold end_word_last.
  induction line as [|c r IH]; intros k acc Ha Hn.
  - cbn [run_at take drop word_prefix]. rewrite !app_nil_r. symmetry. apply swf_all. exact Ha.
  - cbn [run_at take drop]. rewrite word_char_is_word. destruct (k =? 0) eqn:Ek.
    + rewrite app_nil_r. cbn [word_prefix]. destruct (is_word c) eqn:Ec.
      * rewrite IH; [|rewrite forallb_app, Ha; cbn; rewrite Ec; reflexivity|rewrite take_0; reflexivity].
        rewrite take_0, drop_0, app_nil_r, !swf_all;
          [rewrite <- app_assoc; reflexivity|exact Ha|rewrite forallb_app, Ha; cbn; rewrite Ec; reflexivity].
      * rewrite app_nil_r, swf_all by exact Ha. reflexivity.
    + cbn [take] in Hn. rewrite Ek in Hn. rewrite no_eol_cons in Hn.
      apply andb_true_iff in Hn. destruct Hn as [Hc Hn].
      destruct (is_word c) eqn:Ec.
      * rewrite IH; [|rewrite forallb_app, Ha; cbn; rewrite Ec; reflexivity|exact Hn].
        rewrite <- app_assoc. reflexivity.
      * rewrite IH by (try reflexivity; exact Hn). cbn [app].
        rewrite swf_skip; [reflexivity|exact Ec|]. destruct (is_eol c); [discriminate|reflexivity].
Qed.

(* ---------- word_at_position ---------- *)

Lemma word_past_eof e s l ch : len (lsp_lines s) <= l -> word_at_position e s (l, ch) = [].
Proof. intros H. unfold word_at_position. cbn [fst]. replace (len (lsp_lines s) <=? l) with true by lia. reflexivity. Qed.

(* lines[row] cannot raise IndexError *)
Lemma word_row_in_range e ls l ch : l < len ls ->
  fst (fst (position_from_client_units e ls (l, ch))) = l.
Proof.
  intros H. rewrite from_unfold_gen by exact H. cbv zeta.
  destruct (client_num_units e _ =? 0); reflexivity.
Qed.

Lemma word_exact e s l ch o pre :
  spec_locate e s l ch 0 = Some (o, pre) -> widths_exact e pre = true ->
  word_at_position e s (l, ch) = run_at (nth (N.to_nat l) (lsp_lines s) []) (len pre) [].
Proof.
  intros H Hw. destruct s as [|x s'] eqn:Es.
  - cbn [lsp_lines]. unfold word_at_position. cbn [lsp_lines fst]. change (len (@nil (list N))) with 0.
    replace (0 <=? l) with true by lia. destruct (N.to_nat l); reflexivity.
  - rewrite <- Es in *. assert (Hne : s <> []) by (rewrite Es; discriminate).
    destruct (converted_position e s l ch o pre H Hw Hne) as
      [(A & post & term & C & H1 & H2 & H3 & H4 & H5)|(H1 & H2 & H3 & H4)].
    + unfold word_at_position. cbn [fst].
      assert (Hlen : len (lsp_lines s) = l + 1 + len C) by (rewrite H1, len_app, len_cons; lia).
      replace (len (lsp_lines s) <=? l) with false by lia. rewrite H5.
      rewrite H1, (nth_len_app A _ C [] l H2).
      rewrite no_eol_app in H3. apply andb_true_iff in H3. destruct H3 as [Hp _].
      rewrite (run_at_model _ (len pre) []); [reflexivity|reflexivity|].
      rewrite take_len_app. exact Hp.
    + rewrite word_past_eof by lia. rewrite H1.
      rewrite nth_overflow by (unfold len; lia). reflexivity.
Qed.

(* shape of the result for a position on a line: the maximal run of word characters of the line
   around the character index *)
Lemma word_shape e s l ch o pre :
  spec_locate e s l ch 0 = Some (o, pre) -> widths_exact e pre = true -> l < len (lsp_lines s) ->
  exists a ws wp b,
    nth (N.to_nat l) (lsp_lines s) [] = a ++ ws ++ wp ++ b /\ a ++ ws = pre /\
    word_at_position e s (l, ch) = ws ++ wp /\ forallb is_word (ws ++ wp) = true /\
    (a = [] \/ is_word (last a 0) = false) /\ (b = [] \/ is_word (hd 0 b) = false).
Proof.
  intros H Hw Hl. assert (Hne : s <> []) by (intros ->; cbn in Hl; lia).
  destruct (converted_position e s l ch o pre H Hw Hne) as
    [(A & post & term & C & H1 & H2 & H3 & H4 & H5)|(H1 & _)]; [|lia].
  unfold word_at_position. cbn [fst]. replace (len (lsp_lines s) <=? l) with false by lia.
  rewrite H5, H1, (nth_len_app A _ C [] l H2), take_len_app.
  replace (len pre) with (len pre + 0) by lia. rewrite drop_app_len, drop_0.
  rewrite no_eol_app in H3. apply andb_true_iff in H3. destruct H3 as [Hp _].
  destruct (swf_spec pre Hp) as (a & G1 & G2 & G3).
  destruct (word_prefix_spec (post ++ term)) as (b & F1 & F2 & F3).
  exists a, (start_word_first pre), (word_prefix (post ++ term)), b. unfold end_word_last.
  rewrite forallb_app, G2, F2. repeat split; try assumption; try (symmetry; exact G1).
  rewrite <- F1. rewrite (app_assoc a), <- G1. reflexivity.
Qed.
