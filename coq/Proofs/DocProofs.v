From Coq Require Import ZArith NArith List Bool Lia ZifyBool ZifyN ZifyNat.
From Pygls Require Import Base.Unicode Base.PyStr Model.Codec Spec.CodecSpec Proofs.CodecProofs
                          Model.Doc Spec.DocSpec.
Ltac Zify.zify_post_hook ::= Z.to_euclidean_division_equations.
Open Scope N_scope.

(* induction over a text that may look two characters ahead (CR LF) *)
Lemma str_ind2 (P : list N -> Prop) :
  P [] ->
  (forall c r, P r -> (forall d r', r = d :: r' -> P r') -> P (c :: r)) ->
  forall s, P s.
Proof.
  intros H0 Hs s.
  assert (Q : P s /\ match s with [] => True | _ :: r' => P r' end).
  { induction s as [|c r [IH1 IH2]]; [split; [exact H0|exact I]|].
    split; [|exact IH1]. apply Hs; [exact IH1|]. intros d r' ->. exact IH2. }
  exact (proj1 Q).
Qed.

Lemma concat_lsp_lines s : concat (lsp_lines s) = s.
Proof.
  induction s as [|c r IH IH2] using str_ind2; [reflexivity|].
  cbn [lsp_lines]. destruct (c =? 10) eqn:E10.
  - cbn [concat app]. rewrite IH. reflexivity.
  - destruct (c =? 13) eqn:E13.
    + destruct r as [|d r']; [reflexivity|].
      destruct (d =? 10) eqn:D10.
      * cbn [concat app]. rewrite (IH2 d r' eq_refl). reflexivity.
      * cbn [concat app]. rewrite IH. reflexivity.
    + destruct (lsp_lines r) as [|x ls] eqn:EL.
      * cbn [concat] in IH. subst r. reflexivity.
      * cbn [concat app] in *. rewrite IH. reflexivity.
Qed.

Lemma lsp_lines_nil_inv s : lsp_lines s = [] -> s = [].
Proof. intros H. rewrite <- (concat_lsp_lines s), H. reflexivity. Qed.

(* ---------- take / drop (Python's saturating slices) ---------- *)

Lemma len_app {A} (a b : list A) : len (a ++ b) = len a + len b.
Proof. unfold len. rewrite app_length. lia. Qed.

Lemma take_0 {A} (s : list A) : take 0 s = [].
Proof. destruct s; reflexivity. Qed.
Lemma drop_0 {A} (s : list A) : drop 0 s = s.
Proof. destruct s; reflexivity. Qed.

Lemma take_all {A} (s : list A) : forall n, len s <= n -> take n s = s.
Proof.
  induction s as [|c r IH]; intros n H; [reflexivity|].
  rewrite len_cons in H. cbn [take]. replace (n =? 0) with false by lia.
  rewrite IH by lia. reflexivity.
Qed.
Lemma drop_all {A} (s : list A) : forall n, len s <= n -> drop n s = [].
Proof.
  induction s as [|c r IH]; intros n H; [reflexivity|].
  rewrite len_cons in H. cbn [drop]. replace (n =? 0) with false by lia.
  apply IH. lia.
Qed.

Lemma take_app_len {A} (x y : list A) : forall n, take (len x + n) (x ++ y) = x ++ take n y.
Proof.
  induction x as [|c r IH]; intros n.
  - change (len (@nil A)) with 0. cbn [app]. rewrite N.add_0_l. reflexivity.
  - rewrite len_cons. cbn [app take]. replace (1 + len r + n =? 0) with false by lia.
    replace (1 + len r + n - 1) with (len r + n) by lia. rewrite IH. reflexivity.
Qed.
Lemma drop_app_len {A} (x y : list A) : forall n, drop (len x + n) (x ++ y) = drop n y.
Proof.
  induction x as [|c r IH]; intros n.
  - change (len (@nil A)) with 0. cbn [app]. rewrite N.add_0_l. reflexivity.
  - rewrite len_cons. cbn [app drop]. replace (1 + len r + n =? 0) with false by lia.
    replace (1 + len r + n - 1) with (len r + n) by lia. apply IH.
Qed.

(* slicing the first line of a text with a column that may lie beyond the line *)
Lemma take_min_app {A} (x y : list A) : forall c, take (N.min c (len x)) (x ++ y) = take c x.
Proof.
  induction x as [|a r IH]; intros c.
  - change (len (@nil A)) with 0. rewrite N.min_0_r. cbn [app]. apply take_0.
  - rewrite len_cons. cbn [app take]. destruct (c =? 0) eqn:E.
    + replace (N.min c (1 + len r) =? 0) with true by lia. reflexivity.
    + replace (N.min c (1 + len r) =? 0) with false by lia.
      replace (N.min c (1 + len r) - 1) with (N.min (c - 1) (len r)) by lia.
      rewrite IH. reflexivity.
Qed.
Lemma drop_min_app {A} (x y : list A) : forall c, drop (N.min c (len x)) (x ++ y) = drop c x ++ y.
Proof.
  induction x as [|a r IH]; intros c.
  - change (len (@nil A)) with 0. rewrite N.min_0_r. cbn [app drop]. apply drop_0.
  - rewrite len_cons. cbn [app drop]. destruct (c =? 0) eqn:E.
    + replace (N.min c (1 + len r) =? 0) with true by lia. reflexivity.
    + replace (N.min c (1 + len r) =? 0) with false by lia.
      replace (N.min c (1 + len r) - 1) with (N.min (c - 1) (len r)) by lia.
      apply IH.
Qed.

(* ---------- the rebuild loop is a splice ---------- *)

(* the offset in concat ls that the (line j, column c) pair denotes, the column saturating at
   the end of its line (as Python's slices do) *)
Fixpoint offl (ls : list (list N)) (j c : N) : N :=
  match ls with
  | [] => 0
  | x :: r => if j =? 0 then N.min c (len x) else len x + offl r (j - 1) c
  end.

Section Rebuild.
  Variables (sl sc el ec : N) (new : list N).

  Lemma rebuild_after ls : forall i, el < i -> rebuild ls i sl sc el ec new = concat ls.
  Proof.
    induction ls as [|x r IH]; intros i H; [reflexivity|].
    cbn [rebuild concat]. rewrite IH by lia.
    destruct (i <? sl); [reflexivity|]. replace (el <? i) with true by lia. reflexivity.
  Qed.

  Lemma rebuild_tail ls : forall i, sl < i -> i <= el -> el < i + len ls ->
    rebuild ls i sl sc el ec new = drop (offl ls (el - i) ec) (concat ls).
  Proof.
    induction ls as [|x r IH]; intros i H1 H2 H3.
    - change (len (@nil (list N))) with 0 in H3. lia.
    - rewrite len_cons in H3. cbn [rebuild concat offl].
      replace (i <? sl) with false by lia. replace (el <? i) with false by lia.
      replace (i =? sl) with false by lia. cbn [app].
      destruct (i =? el) eqn:E.
      + replace (el - i =? 0) with true by lia.
        rewrite rebuild_after by lia. rewrite drop_min_app. reflexivity.
      + replace (el - i =? 0) with false by lia. cbn [app].
        rewrite IH by lia. rewrite drop_app_len.
        replace (el - (i + 1)) with (el - i - 1) by lia. reflexivity.
  Qed.

  Lemma rebuild_main ls : forall i, i <= sl -> sl <= el -> el < i + len ls ->
    rebuild ls i sl sc el ec new =
    take (offl ls (sl - i) sc) (concat ls) ++ new ++ drop (offl ls (el - i) ec) (concat ls).
  Proof.
    induction ls as [|x r IH]; intros i H1 H2 H3.
    - change (len (@nil (list N))) with 0 in H3. lia.
    - rewrite len_cons in H3. cbn [rebuild concat offl].
      destruct (i <? sl) eqn:E.
      + replace (sl - i =? 0) with false by lia. replace (el - i =? 0) with false by lia.
        rewrite IH by lia. rewrite take_app_len, drop_app_len.
        replace (sl - (i + 1)) with (sl - i - 1) by lia.
        replace (el - (i + 1)) with (el - i - 1) by lia.
        rewrite <- app_assoc. reflexivity.
      + replace (el <? i) with false by lia. replace (i =? sl) with true by lia.
        replace (sl - i =? 0) with true by lia. rewrite take_min_app.
        destruct (i =? el) eqn:F.
        * replace (el - i =? 0) with true by lia. rewrite drop_min_app.
          rewrite rebuild_after by lia. rewrite <- !app_assoc. reflexivity.
        * replace (el - i =? 0) with false by lia. rewrite drop_app_len.
          rewrite rebuild_tail by lia. rewrite app_nil_r, <- app_assoc.
          replace (el - (i + 1)) with (el - i - 1) by lia. reflexivity.
  Qed.
End Rebuild.

(* rebuild_is_splice: on a well-ordered pair of lines the loop writes the text before the start
   column, the new text, and the text from the end column on *)
Lemma rebuild_is_splice ls sl sc el ec new :
  sl <= el -> el < len ls ->
  rebuild ls 0 sl sc el ec new = splice (concat ls) (offl ls sl sc) (offl ls el ec) new.
Proof.
  intros H1 H2. unfold splice. rewrite rebuild_main by lia.
  rewrite !N.sub_0_r. reflexivity.
Qed.

Lemma offl_app A x C : forall c,
  offl (A ++ x :: C) (len A) c = len (concat A) + N.min c (len x).
Proof.
  induction A as [|a A IH]; intros c.
  - reflexivity.
  - rewrite len_cons. cbn [app offl concat]. replace (1 + len A =? 0) with false by lia.
    replace (1 + len A - 1) with (len A) by lia. rewrite IH, len_app. lia.
Qed.

Lemma offl_last ls : forall c, ls <> [] -> len (last ls []) <= c ->
  offl ls (len ls - 1) c = len (concat ls).
Proof.
  induction ls as [|x r IH]; intros c Hne Hc; [congruence|].
  rewrite len_cons. cbn [offl concat]. rewrite len_app.
  destruct r as [|y r'].
  - change (len (@nil (list N))) with 0. cbn [last] in Hc. cbn. change (len (@nil N)) with 0. lia.
  - rewrite len_cons. replace (1 + (1 + len r') - 1 =? 0) with false by lia.
    replace (1 + (1 + len r') - 1 - 1) with (len (y :: r') - 1) by (rewrite len_cons; lia).
    rewrite IH; [reflexivity|discriminate|exact Hc].
Qed.

(* ---------- where the reference puts a position, in terms of the lines of the text ---------- *)

Lemma no_eol_app a b : no_eol (a ++ b) = no_eol a && no_eol b.
Proof. unfold no_eol. apply forallb_app. Qed.

(* the rest of the text starts with a line terminator or is empty *)
Definition at_eol (rest : list N) : bool :=
  match rest with [] => true | c :: _ => is_eol c end.

(* inside a line: the characters walked over are a terminator-free prefix of the rest of the text,
   and either they measure exactly `ch` units or the line ends before `ch` units *)
Lemma spec_walk_inv e s : forall ch k o pre,
  spec_walk e s ch k = Some (o, pre) ->
  o = k + len pre /\ no_eol pre = true /\
  exists rest, s = pre ++ rest /\
               (ch = units e pre \/ (units e pre < ch /\ at_eol rest = true)).
Proof.
  induction s as [|c r IH]; intros ch k o pre H.
  - cbn [spec_walk] in H. destruct (ch =? 0) eqn:E; injection H as <- <-;
      change (len (@nil N)) with 0; cbn [units]; (repeat split; try lia); exists []; split; try reflexivity.
    + left. lia.
    + right. split; [lia|reflexivity].
  - cbn [spec_walk] in H. destruct (ch =? 0) eqn:E.
    + injection H as <- <-. change (len (@nil N)) with 0. cbn [units].
      repeat split; try lia. exists (c :: r). split; [reflexivity|]. left. lia.
    + destruct (is_eol c) eqn:Ec.
      * injection H as <- <-. change (len (@nil N)) with 0. cbn [units].
        repeat split; try lia. exists (c :: r). split; [reflexivity|]. right. split; [lia|exact Ec].
      * destruct (ch <? true_width e c) eqn:Ew; [discriminate|].
        destruct (spec_walk e r (ch - true_width e c) (k + 1)) as [[o' pre']|] eqn:Er; [|discriminate].
        injection H as <- <-. destruct (IH _ _ _ _ Er) as (H2 & H3 & rest & H4 & H5).
        rewrite len_cons. cbn [units]. rewrite no_eol_cons, Ec, H3.
        repeat split; try lia. exists rest. split; [rewrite H4; reflexivity|].
        destruct H5 as [H5|[H5 H6]]; [left; lia|right; split; [lia|exact H6]].
Qed.

(* the first line of a non-empty text: a terminator-free body and a terminator *)
Lemma first_line_shape s : s <> [] ->
  exists body term C, lsp_lines s = (body ++ term) :: C /\ no_eol body = true /\ is_term term = true.
Proof.
  induction s as [|c r IH]; intros Hne; [congruence|].
  cbn [lsp_lines]. destruct (c =? 10) eqn:E10.
  - exists [], [c], (lsp_lines r). replace c with 10 by lia. repeat split.
  - destruct (c =? 13) eqn:E13.
    + replace c with 13 by lia. destruct r as [|d r'].
      * exists [], [13], []. repeat split.
      * destruct (d =? 10) eqn:D10.
        -- exists [], [13; d], (lsp_lines r'). replace d with 10 by lia. repeat split.
        -- exists [], [13], (lsp_lines (d :: r')). repeat split.
    + assert (Hc : is_eol c = false) by (unfold is_eol; rewrite E10, E13; reflexivity).
      destruct (lsp_lines r) as [|x ls] eqn:EL.
      * exists [c], [], []. rewrite no_eol_cons, Hc. repeat split.
      * destruct IH as (body & term & C & H1 & H2 & H3).
        { intros ->. discriminate. }
        injection H1 as -> ->. exists (c :: body), term, C.
        rewrite no_eol_cons, Hc, H2. repeat split; assumption.
Qed.

Lemma first_line_prefix pre : forall rest, no_eol pre = true -> pre ++ rest <> [] ->
  exists post term C, lsp_lines (pre ++ rest) = (pre ++ post ++ term) :: C /\
                      no_eol (pre ++ post) = true /\ is_term term = true.
Proof.
  induction pre as [|c pre IH]; intros rest Hp Hne.
  - cbn [app] in *. destruct (first_line_shape rest Hne) as (body & term & C & H1 & H2 & H3).
    exists body, term, C. repeat split; assumption.
  - rewrite no_eol_cons in Hp. apply andb_true_iff in Hp. destruct Hp as [Hc Hp].
    unfold is_eol in Hc. cbn [app lsp_lines].
    replace (c =? 10) with false by lia. replace (c =? 13) with false by lia.
    destruct (pre ++ rest) as [|y ys] eqn:E.
    + apply app_eq_nil in E. destruct E as [-> ->]. exists [], [], [].
      cbn. unfold is_eol. replace (c =? 10) with false by lia. replace (c =? 13) with false by lia.
      repeat split.
    + rewrite <- E in *. destruct (IH rest Hp) as (post & term & C & H1 & H2 & H3).
      { rewrite E. discriminate. }
      rewrite H1. exists post, term, C. cbn [app]. rewrite no_eol_cons, H2.
      unfold is_eol. replace (c =? 10) with false by lia. replace (c =? 13) with false by lia.
      repeat split; assumption.
Qed.

(* what `spec_locate e s l ch k = Some (o, pre)` means for the list of lines of s (slen = len s):
   either the position is on line l, `pre` is the part of that line before it, and it is
   `units e pre` code units into the line - or `pre` is the whole body of the line and `ch` lies
   beyond it; or it is on the empty last line after a final terminator (end of the document) *)
Definition located (e : encoding) (ls : list (list N)) (slen : N) (eole : bool)
           (l ch k o : N) (pre : list N) : Prop :=
  (exists A post term C, ls = A ++ (pre ++ post ++ term) :: C /\ len A = l /\
      no_eol (pre ++ post) = true /\ is_term term = true /\
      (ch = units e pre \/ (post = [] /\ units e pre < ch)) /\
      o = k + len (concat A) + len pre)
  \/ (l = len ls /\ pre = [] /\ o = k + slen /\ eole = true).

(* the text is empty or ends with a line terminator: it has an end-of-document position of its own *)
Definition ends_eol (s : list N) : bool :=
  match s with [] => true | _ => is_eol (last s 0) end.

Lemma ends_eol_cons c r : r <> [] -> ends_eol (c :: r) = ends_eol r.
Proof. destruct r as [|d r']; [congruence|reflexivity]. Qed.

(* one whole line t in front *)
Lemma located_skip e t ls n b b' l ch k o pre :
  l <> 0 -> (b = true -> b' = true) -> located e ls n b (l - 1) ch (k + len t) o pre ->
  located e (t :: ls) (len t + n) b' l ch k o pre.
Proof.
  intros Hl Hb [(A & post & term & C & H1 & H2 & H3 & H4 & H5 & H6)|(H1 & H3 & H4 & H5)].
  - left. exists (t :: A), post, term, C. rewrite H1, len_cons. cbn [app concat]. rewrite len_app.
    repeat split; try assumption; lia.
  - right. rewrite len_cons. repeat split; try assumption; try lia. auto.
Qed.

(* one more character c in front of the first line *)
Lemma located_grow e c ls n b b' l ch k o pre :
  l <> 0 -> (ls <> [] -> b = true -> b' = true) -> located e ls n b l ch (k + 1) o pre ->
  match ls with
  | [] => False
  | x :: r => located e ((c :: x) :: r) (1 + n) b' l ch k o pre
  end.
Proof.
  intros Hl Hb [(A & post & term & C & H1 & H2 & H3 & H4 & H5 & H6)|(H1 & H3 & H4 & H5)].
  - destruct A as [|a A].
    + change (len (@nil (list N))) with 0 in H2. lia.
    + rewrite H1. cbn [app]. left. exists ((c :: a) :: A), post, term, C.
      rewrite (len_cons a A) in H2. cbn [concat] in H6. rewrite (len_app a (concat A)) in H6.
      rewrite (len_cons (c :: a) A). cbn [concat]. rewrite (len_app (c :: a) (concat A)), (len_cons c a).
      repeat split; try assumption; lia.
  - destruct ls as [|x r].
    + change (len (@nil (list N))) with 0 in H1. lia.
    + right. rewrite len_cons in *. repeat split; try assumption; try lia.
      apply Hb; [discriminate|exact H5].
Qed.

Lemma spec_locate_0 e s ch k : spec_locate e s 0 ch k = spec_walk e s ch k.
Proof. destruct s; reflexivity. Qed.

Lemma ends_eol_skip c r : is_eol c = true -> ends_eol r = true -> ends_eol (c :: r) = true.
Proof.
  intros Hc Hr. destruct r as [|d r']; [exact Hc|]. rewrite ends_eol_cons by discriminate. exact Hr.
Qed.

Lemma spec_locate_located e s : forall l ch k o pre,
  spec_locate e s l ch k = Some (o, pre) ->
  located e (lsp_lines s) (len s) (ends_eol s) l ch k o pre.
Proof.
  induction s as [|c r IH IH2] using str_ind2; intros l ch k o pre H.
  - cbn [spec_locate spec_walk] in H. destruct (l =? 0) eqn:El; [|discriminate].
    assert (H' : Some (k, @nil N) = Some (o, pre)) by (destruct (ch =? 0); exact H).
    injection H' as <- <-.
    right. change (len (@nil (list N))) with 0. change (len (@nil N)) with 0.
    cbn [lsp_lines]. change (len (@nil (list N))) with 0. repeat split; lia.
  - destruct (l =? 0) eqn:El.
    + replace l with 0 in * by lia. rewrite spec_locate_0 in H.
      destruct (spec_walk_inv _ _ _ _ _ _ H) as (H2 & H3 & rest & H4 & H5).
      rewrite H4. destruct (first_line_prefix pre rest H3) as (post & term & C & G1 & G2 & G3).
      { rewrite <- H4. discriminate. }
      left. exists [], post, term, C. rewrite G1. change (len (@nil (list N))) with 0.
      cbn [app concat]. change (len (@nil N)) with 0. repeat split; try assumption; try lia.
      destruct H5 as [H5|[H5 H6]]; [left; exact H5|right; split; [|exact H5]].
      (* the line ends where `pre` ends: nothing of its body is left *)
      pose proof (concat_lsp_lines (pre ++ rest)) as Hc. rewrite G1 in Hc.
      cbn [concat] in Hc. rewrite <- !app_assoc in Hc. apply app_inv_head in Hc.
      destruct post as [|x post']; [reflexivity|]. exfalso.
      rewrite <- Hc in H6. cbn [app at_eol] in H6.
      rewrite no_eol_app, no_eol_cons, H6 in G2. rewrite andb_false_r in G2. discriminate.
    + assert (Hl : l <> 0) by lia. cbn [spec_locate] in H. rewrite El in H.
      rewrite len_cons. cbn [lsp_lines].
      destruct (c =? 10) eqn:E10.
      * apply IH in H.
        apply (located_skip e [c] _ _ _ (ends_eol (c :: r)) _ _ _ _ _ Hl) in H; [exact H|].
        apply ends_eol_skip. unfold is_eol. rewrite E10. reflexivity.
      * destruct (c =? 13) eqn:E13.
        -- assert (Hc : is_eol c = true) by (unfold is_eol; rewrite E13; apply orb_true_r).
           destruct r as [|d r'].
           ++ apply IH in H.
              apply (located_skip e [c] _ _ _ (ends_eol [c]) _ _ _ _ _ Hl) in H; [exact H|].
              apply ends_eol_skip. exact Hc.
           ++ destruct (d =? 10) eqn:D10.
              ** apply (IH2 d r' eq_refl) in H.
                 apply (located_skip e [c; d] _ _ _ (ends_eol (c :: d :: r')) _ _ _ _ _ Hl) in H.
                 --- rewrite len_cons.
                     replace (1 + (1 + len r')) with (len [c; d] + len r') by (change (len [c; d]) with 2; lia).
                     exact H.
                 --- intros Hr. apply ends_eol_skip; [exact Hc|]. apply ends_eol_skip; [|exact Hr].
                     unfold is_eol. rewrite D10. reflexivity.
              ** apply IH in H.
                 apply (located_skip e [c] _ _ _ (ends_eol (c :: d :: r')) _ _ _ _ _ Hl) in H; [exact H|].
                 apply ends_eol_skip. exact Hc.
        -- apply IH in H.
           apply (located_grow e c _ _ _ (ends_eol (c :: r)) _ _ _ _ _ Hl) in H.
           ++ destruct (lsp_lines r) as [|x ls]; [contradiction|exact H].
           ++ intros Hne Hr. rewrite ends_eol_cons; [exact Hr|].
              intros ->. apply Hne. reflexivity.
Qed.

(* ---------- the converted (line, column) pair denotes the reference's offset ---------- *)

Lemma nth_len_app {A} (X : list A) x C d l : len X = l -> nth (N.to_nat l) (X ++ x :: C) d = x.
Proof.
  intros <-. unfold len. rewrite Nat2N.id. rewrite app_nth2 by lia.
  rewrite Nat.sub_diag. reflexivity.
Qed.

Lemma converted_offset e s l ch o pre :
  s <> [] -> spec_locate e s l ch 0 = Some (o, pre) -> widths_exact e pre = true ->
  let ls := lsp_lines s in
  let q := fst (position_from_client_units e ls (l, ch)) in
  fst q < len ls /\ fst q = N.min l (len ls - 1) /\ offl ls (fst q) (snd q) = o.
Proof.
  intros Hne H Hw ls q. subst q.
  assert (Hls : ls <> []) by (intros E; apply Hne, lsp_lines_nil_inv; exact E).
  apply spec_locate_located in H. fold ls in H.
  destruct H as [(A & post & term & C & H1 & H2 & H3 & H4 & H5 & H6)|(H1 & H3 & H4 & _)].
  - assert (Hlen : len ls = l + 1 + len C) by (rewrite H1, len_app, len_cons; lia).
    assert (Hl : l < len ls) by lia.
    assert (Hn : nth (N.to_nat l) ls [] = (pre ++ post) ++ term).
    { rewrite H1, <- app_assoc. apply nth_len_app. exact H2. }
    assert (Hq : fst (position_from_client_units e ls (l, ch)) = (l, len pre)).
    { destruct H5 as [H5|[H5 H7]].
      - rewrite H5. exact (from_exact e ls l (pre ++ post) term Hl Hn H3 H4 pre post eq_refl Hw).
      - subst post. rewrite app_nil_r in *.
        apply (from_clamp_eol e ls l pre term Hl Hn H3 H4 ch Hw). lia. }
    rewrite Hq. cbn [fst snd]. repeat split; [exact Hl|lia|].
    rewrite H1 at 1. rewrite <- H2, offl_app, !len_app. lia.
  - rewrite (from_clamp_eof e ls l ch Hls) by lia. cbn [fst snd].
    assert (0 < len ls) by (destruct ls; [congruence|rewrite len_cons; lia]).
    repeat split; [lia|lia|].
    rewrite offl_last; [|exact Hls|apply cnu_ge_len].
    unfold ls. rewrite concat_lsp_lines. lia.
Qed.

(* in the empty document every valid position is offset 0 *)
Lemma spec_locate_empty e l ch o pre : spec_locate e [] l ch 0 = Some (o, pre) -> o = 0.
Proof.
  cbn [spec_locate spec_walk]. destruct (l =? 0); [|discriminate].
  destruct (ch =? 0); intros H; injection H as <- <-; reflexivity.
Qed.

(* ---------- one incremental change ---------- *)

Lemma incremental_exact e s r new :
  valid_range e s r = true ->
  widths_exact e (spec_pre e s (fst r)) = true -> widths_exact e (spec_pre e s (snd r)) = true ->
  apply_incremental_change e s r new = spec_edit e s r new.
Proof.
  destruct r as [[l1 c1] [l2 c2]]. unfold valid_range, spec_edit, spec_off, spec_pre.
  cbn [fst snd]. intros Hv G1 G2.
  destruct (spec_locate e s l1 c1 0) as [[o1 p1]|] eqn:E1; [|discriminate].
  destruct (spec_locate e s l2 c2 0) as [[o2 p2]|] eqn:E2; [|discriminate].
  unfold apply_incremental_change, range_from_client_units. cbn [fst snd].
  destruct s as [|x s'] eqn:Es.
  - cbn [lsp_lines]. rewrite !from_empty. change (len (@nil (list N))) with 0. cbn [N.eqb app].
    apply spec_locate_empty in E1. apply spec_locate_empty in E2. subst o1 o2.
    unfold splice. cbn [take drop app]. rewrite app_nil_r. reflexivity.
  - rewrite <- Es in *. assert (Hne : s <> []) by (rewrite Es; discriminate).
    destruct (converted_offset e s l1 c1 o1 p1 Hne E1 G1) as (A1 & A2 & A3).
    destruct (converted_offset e s l2 c2 o2 p2 Hne E2 G2) as (B1 & B2 & B3).
    cbv zeta in *.
    destruct (fst (position_from_client_units e (lsp_lines s) (l1, c1))) as [sl sc].
    destruct (fst (position_from_client_units e (lsp_lines s) (l2, c2))) as [el ec].
    cbn [fst snd] in *.
    replace (sl =? len (lsp_lines s)) with false by lia.
    unfold pos_le in Hv. cbn [fst snd] in Hv.
    rewrite rebuild_is_splice by lia.
    rewrite concat_lsp_lines, A3, B3. reflexivity.
Qed.

(* ---------- apply_change: the sync-kind dispatch ---------- *)

Lemma apply_change_kinds d c :
  valid_change (d_enc d) (d_kind d) (d_source d) c = true ->
  guard_change (d_enc d) (d_kind d) (d_source d) c = true ->
  d_source (apply_change d c) = spec_apply (d_enc d) (d_kind d) (d_source d) c /\
  d_kind (apply_change d c) = d_kind d /\ d_enc (apply_change d c) = d_enc d /\
  d_version (apply_change d c) = d_version d.
Proof.
  unfold apply_change, valid_change, guard_change, spec_apply, apply_none_change,
         apply_full_change, set_source, source.
  destruct c as [r t|t]; destruct (d_kind d) eqn:K; cbn [is_incremental is_none change_text d_source d_kind d_enc d_version];
    intros Hv Hg; repeat split; try reflexivity; try exact K.
  apply andb_true_iff in Hg. destruct Hg as [G1 G2]. apply incremental_exact; assumption.
Qed.

Lemma update_spec d v c :
  valid_change (d_enc d) (d_kind d) (d_source d) c = true ->
  guard_change (d_enc d) (d_kind d) (d_source d) c = true ->
  d_source (update_text_document d v c) = spec_apply (d_enc d) (d_kind d) (d_source d) c /\
  d_kind (update_text_document d v c) = d_kind d /\ d_enc (update_text_document d v c) = d_enc d /\
  d_version (update_text_document d v c) = Some v.
Proof.
  intros Hv Hg. destruct (apply_change_kinds d c Hv Hg) as (H1 & H2 & H3 & _).
  unfold update_text_document, set_version. cbn [d_source d_kind d_enc d_version]. auto.
Qed.

(* ---------- histories ---------- *)

Lemma hist_ok_app chk step b : forall a s,
  hist_ok chk step s (a ++ b) = hist_ok chk step s a && hist_ok chk step (fold_left step a s) b.
Proof.
  induction a as [|c a IH]; intros s; [reflexivity|].
  cbn [app hist_ok fold_left]. rewrite IH, andb_assoc. reflexivity.
Qed.

(* the changes of one notification *)
Lemma changes_fold_loop v cs : forall d,
  hist_ok (valid_change (d_enc d) (d_kind d)) (spec_apply (d_enc d) (d_kind d)) (d_source d) cs = true ->
  hist_ok (guard_change (d_enc d) (d_kind d)) (spec_apply (d_enc d) (d_kind d)) (d_source d) cs = true ->
  let d' := fold_left (fun d c => update_text_document d v c) cs d in
  d_source d' = spec_changes (d_enc d) (d_kind d) (d_source d) cs /\
  d_kind d' = d_kind d /\ d_enc d' = d_enc d.
Proof.
  unfold spec_changes.
  induction cs as [|c cs IH]; intros d Hv Hg; [cbn [fold_left]; auto|].
  cbn [hist_ok] in Hv, Hg. apply andb_true_iff in Hv, Hg. destruct Hv as [Hv1 Hv2], Hg as [Hg1 Hg2].
  destruct (update_spec d v c Hv1 Hg1) as (H1 & H2 & H3 & _).
  cbn [fold_left]. cbv zeta in IH.
  specialize (IH (update_text_document d v c)). rewrite H1, H2, H3 in IH.
  apply IH; assumption.
Qed.

Lemma changes_fold v cs : forall d,
  hist_ok (valid_change (d_enc d) (d_kind d)) (spec_apply (d_enc d) (d_kind d)) (d_source d) cs = true ->
  hist_ok (guard_change (d_enc d) (d_kind d)) (spec_apply (d_enc d) (d_kind d)) (d_source d) cs = true ->
  let d' := did_change d (v, cs) in
  d_source d' = spec_changes (d_enc d) (d_kind d) (d_source d) cs /\
  d_kind d' = d_kind d /\ d_enc d' = d_enc d.
Proof.
  intros d Hv Hg. pose proof (changes_fold_loop v cs d Hv Hg) as H. cbv zeta in *.
  unfold did_change. cbn [fst snd]. destruct cs; [|exact H]. exact H.
Qed.

Lemma history_fold ns : forall d,
  hist_ok (valid_change (d_enc d) (d_kind d)) (spec_apply (d_enc d) (d_kind d)) (d_source d) (all_changes ns) = true ->
  hist_ok (guard_change (d_enc d) (d_kind d)) (spec_apply (d_enc d) (d_kind d)) (d_source d) (all_changes ns) = true ->
  let d' := fold_left did_change ns d in
  d_source d' = spec_changes (d_enc d) (d_kind d) (d_source d) (all_changes ns) /\
  d_kind d' = d_kind d /\ d_enc d' = d_enc d.
Proof.
  induction ns as [|[v cs] ns IH]; intros d Hv Hg; [cbn; auto|].
  unfold all_changes in *. cbn [flat_map snd] in *.
  rewrite hist_ok_app in Hv, Hg. apply andb_true_iff in Hv, Hg.
  destruct Hv as [Hv1 Hv2], Hg as [Hg1 Hg2].
  destruct (changes_fold v cs d Hv1 Hg1) as (H1 & H2 & H3).
  cbn [fold_left]. cbv zeta in IH. specialize (IH (did_change d (v, cs))).
  rewrite H1, H2, H3 in IH. unfold spec_changes in *. rewrite fold_left_app.
  apply IH; assumption.
Qed.

(* versions *)
Lemma fold_update_version v cs : forall d c,
  d_version (fold_left (fun d c => update_text_document d v c) cs (update_text_document d v c)) = Some v.
Proof.
  induction cs as [|c' cs IH]; intros d c; [reflexivity|].
  cbn [fold_left]. apply IH.
Qed.

(* every notification stores its version, with or without content changes *)
Lemma did_change_version d v cs : d_version (did_change d (v, cs)) = Some v.
Proof.
  unfold did_change. cbn [fst snd]. destruct cs as [|c cs]; [reflexivity|].
  cbn [fold_left]. apply fold_update_version.
Qed.

Lemma history_version ns : forall d v0,
  d_version d = Some v0 ->
  d_version (fold_left did_change ns d) = Some (spec_version v0 ns).
Proof.
  intros d v0 H0. unfold spec_version.
  destruct ns as [|n ns'] eqn:E; [exact H0|]. rewrite <- E in *.
  assert (Hne : ns <> []) by (rewrite E; discriminate).
  destruct (exists_last Hne) as (ns0 & [v cs] & ->).
  rewrite last_last. cbn [fst]. rewrite fold_left_app. cbn [fold_left]. apply did_change_version.
Qed.

(* ---------- completeness of the reference: every position on a character boundary of an LSP
   line, and the end-of-document position, is located ---------- *)

Lemma spec_walk_prefix e pre : forall rest k, no_eol pre = true ->
  spec_walk e (pre ++ rest) (units e pre) k = Some (k + len pre, pre).
Proof.
  induction pre as [|c pre IH]; intros rest k H.
  - cbn [app units]. change (len (@nil N)) with 0. rewrite N.add_0_r.
    destruct rest; reflexivity.
  - rewrite no_eol_cons in H. apply andb_true_iff in H. destruct H as [Hc Hp].
    cbn [app units spec_walk]. pose proof (true_width_pos e c) as Hw.
    replace (true_width e c + units e pre =? 0) with false by lia.
    destruct (is_eol c); [discriminate|].
    replace (true_width e c + units e pre <? true_width e c) with false by lia.
    replace (true_width e c + units e pre - true_width e c) with (units e pre) by lia.
    rewrite IH by exact Hp. rewrite len_cons. do 2 f_equal. lia.
Qed.

Lemma spec_locate_complete e s : forall A pre post term C k,
  lsp_lines s = A ++ (pre ++ post ++ term) :: C -> no_eol (pre ++ post) = true ->
  spec_locate e s (len A) (units e pre) k = Some (k + len (concat A) + len pre, pre).
Proof.
  induction s as [|c r IH IH2] using str_ind2; intros A pre post term C k HL Hb.
  - cbn [lsp_lines] in HL. destruct A; discriminate.
  - destruct A as [|a A].
    + change (len (@nil (list N))) with 0. rewrite spec_locate_0.
      cbn [concat]. change (len (@nil N)) with 0. rewrite N.add_0_r.
      rewrite no_eol_app in Hb. apply andb_true_iff in Hb. destruct Hb as [Hp _].
      rewrite <- (concat_lsp_lines (c :: r)), HL. cbn [app concat]. rewrite <- app_assoc.
      apply spec_walk_prefix. exact Hp.
    + cbn [spec_locate]. rewrite (len_cons a A). replace (1 + len A =? 0) with false by lia.
      replace (1 + len A - 1) with (len A) by lia.
      cbn [lsp_lines app] in HL. cbn [concat]. rewrite len_app.
      destruct (c =? 10) eqn:E10.
      * injection HL as <- HL. rewrite (IH _ _ _ _ _ _ HL Hb).
        change (len [c]) with 1. do 2 f_equal. lia.
      * destruct (c =? 13) eqn:E13.
        -- destruct r as [|d r'].
           ++ injection HL as _ HL. destruct A; discriminate.
           ++ destruct (d =? 10) eqn:D10.
              ** injection HL as <- HL. rewrite (IH2 d r' eq_refl _ _ _ _ _ _ HL Hb).
                 change (len [c; d]) with 2. do 2 f_equal. lia.
              ** injection HL as <- HL. rewrite (IH _ _ _ _ _ _ HL Hb).
                 change (len [c]) with 1. do 2 f_equal. lia.
        -- destruct (lsp_lines r) as [|x ls] eqn:EL.
           ++ injection HL as _ HL. destruct A; discriminate.
           ++ injection HL as <- HL.
              assert (HL' : x :: ls = (x :: A) ++ (pre ++ post ++ term) :: C) by (rewrite HL; reflexivity).
              rewrite <- (len_cons x A).
              rewrite (IH _ _ _ _ _ _ HL' Hb). cbn [concat]. rewrite len_app, len_cons.
              do 2 f_equal. lia.
Qed.

Lemma spec_locate_eof e s : forall ch k, ends_eol s = true ->
  spec_locate e s (len (lsp_lines s)) ch k = Some (k + len s, []).
Proof.
  induction s as [|c r IH IH2] using str_ind2; intros ch k He.
  - cbn [lsp_lines]. change (len (@nil (list N))) with 0. change (len (@nil N)) with 0.
    cbn [spec_locate N.eqb spec_walk]. rewrite N.add_0_r. destruct (ch =? 0); reflexivity.
  - assert (Hr : r <> [] -> ends_eol r = true).
    { intros Hne. rewrite <- (ends_eol_cons c r Hne). exact He. }
    assert (Hr' : ends_eol r = true) by (destruct r; [reflexivity|apply Hr; discriminate]).
    rewrite len_cons. cbn [lsp_lines spec_locate].
    destruct (c =? 10) eqn:E10.
    + rewrite len_cons. replace (1 + len (lsp_lines r) =? 0) with false by lia.
      replace (1 + len (lsp_lines r) - 1) with (len (lsp_lines r)) by lia.
      rewrite IH by exact Hr'. do 2 f_equal. lia.
    + destruct (c =? 13) eqn:E13.
      * destruct r as [|d r'].
        -- change (len [[c]]) with 1. cbn [N.eqb]. change (1 - 1) with 0.
           cbn [spec_locate N.eqb spec_walk]. change (len (@nil N)) with 0.
           destruct (ch =? 0); do 2 f_equal; lia.
        -- destruct (d =? 10) eqn:D10.
           ++ rewrite len_cons. replace (1 + len (lsp_lines r') =? 0) with false by lia.
              replace (1 + len (lsp_lines r') - 1) with (len (lsp_lines r')) by lia.
              rewrite (IH2 d r' eq_refl).
              ** rewrite len_cons. do 2 f_equal. lia.
              ** destruct r' as [|x r'']; [reflexivity|].
                 rewrite <- (ends_eol_cons d (x :: r'')) by discriminate. exact Hr'.
           ++ rewrite len_cons. replace (1 + len (lsp_lines (d :: r')) =? 0) with false by lia.
              replace (1 + len (lsp_lines (d :: r')) - 1) with (len (lsp_lines (d :: r'))) by lia.
              rewrite IH by exact Hr'. do 2 f_equal. lia.
      * destruct (lsp_lines r) as [|x ls] eqn:EL.
        -- apply lsp_lines_nil_inv in EL. subst r. cbn in He. unfold is_eol in He.
           rewrite E10, E13 in He. discriminate.
        -- rewrite (len_cons (c :: x) ls), <- (len_cons x ls).
           replace (len (x :: ls) =? 0) with false by (rewrite len_cons; lia).
           rewrite IH by exact Hr'. do 2 f_equal. lia.
Qed.

(* a `character` beyond the end of a line is located at that end *)
Lemma spec_walk_clamp e body : forall rest ch k,
  no_eol body = true -> at_eol rest = true -> units e body < ch ->
  spec_walk e (body ++ rest) ch k = Some (k + len body, body).
Proof.
  induction body as [|c body IH]; intros rest ch k Hb Hr Hc.
  - cbn [app units] in *. change (len (@nil N)) with 0. rewrite N.add_0_r.
    destruct rest as [|x rest]; cbn [spec_walk]; replace (ch =? 0) with false by lia; [reflexivity|].
    cbn [at_eol] in Hr. rewrite Hr. reflexivity.
  - rewrite no_eol_cons in Hb. apply andb_true_iff in Hb. destruct Hb as [Hx Hb].
    cbn [app units spec_walk] in *. pose proof (true_width_pos e c) as Hw.
    replace (ch =? 0) with false by lia. destruct (is_eol c); [discriminate|].
    replace (ch <? true_width e c) with false by lia.
    rewrite IH by (try assumption; lia). rewrite len_cons. do 2 f_equal. lia.
Qed.

Lemma lsp_line_nonempty s x C : lsp_lines s = x :: C -> x <> [].
Proof.
  destruct s as [|c r]; [discriminate|]. cbn [lsp_lines].
  destruct (c =? 10); [intros H; injection H as <- _; discriminate|].
  destruct (c =? 13).
  - destruct r as [|d r']; [intros H; injection H as <- _; discriminate|].
    destruct (d =? 10); intros H; injection H as <- _; discriminate.
  - destruct (lsp_lines r); intros H; injection H as <- _; discriminate.
Qed.

(* only the last line can lack a terminator *)
Lemma unterminated_last body : forall rest C,
  no_eol body = true -> lsp_lines (body ++ rest) = body :: C -> rest = [].
Proof.
  induction body as [|c body IH]; intros rest C Hb HL.
  - apply lsp_line_nonempty in HL. congruence.
  - rewrite no_eol_cons in Hb. apply andb_true_iff in Hb. destruct Hb as [Hc Hb].
    unfold is_eol in Hc. cbn [app lsp_lines] in HL.
    replace (c =? 10) with false in HL by lia. replace (c =? 13) with false in HL by lia.
    destruct (lsp_lines (body ++ rest)) as [|x ls] eqn:EL.
    + apply lsp_lines_nil_inv in EL. apply app_eq_nil in EL. exact (proj2 EL).
    + injection HL as -> ->. exact (IH rest C Hb EL).
Qed.

Lemma is_term_cases t : is_term t = true -> t = [] \/ t = [10] \/ t = [13] \/ t = [13; 10].
Proof.
  intros H. destruct t as [|a [|b [|c r]]]; cbn in H; auto.
  - destruct a as [|p]; try discriminate.
    do 4 (destruct p; try discriminate); auto.
  - destruct a as [|p]; try discriminate.
    do 4 (destruct p; try discriminate).
    destruct b as [|q]; try discriminate.
    do 4 (destruct q; try discriminate); auto.
  - destruct a as [|p]; try discriminate.
    do 4 (destruct p; try discriminate).
    destruct b as [|q]; try discriminate.
    do 4 (destruct q; try discriminate).
Qed.

Lemma line_rest_at_eol s body term C :
  lsp_lines s = (body ++ term) :: C -> no_eol body = true -> is_term term = true ->
  s = body ++ term ++ concat C /\ at_eol (term ++ concat C) = true.
Proof.
  intros HL Hb Ht.
  assert (Hs : s = body ++ term ++ concat C).
  { rewrite <- (concat_lsp_lines s), HL. cbn [concat]. rewrite <- app_assoc. reflexivity. }
  split; [exact Hs|].
  destruct (is_term_cases term Ht) as [-> | [-> | [-> | ->]]]; try reflexivity.
  cbn [app] in *. rewrite app_nil_r in HL. rewrite Hs in HL.
  rewrite (unterminated_last body (concat C) C Hb HL). reflexivity.
Qed.

Lemma spec_locate_complete_clamp e s : forall A body term C ch k,
  lsp_lines s = A ++ (body ++ term) :: C -> no_eol body = true -> is_term term = true ->
  units e body < ch ->
  spec_locate e s (len A) ch k = Some (k + len (concat A) + len body, body).
Proof.
  induction s as [|c r IH IH2] using str_ind2; intros A body term C ch k HL Hb Ht Hc.
  - cbn [lsp_lines] in HL. destruct A; discriminate.
  - destruct A as [|a A].
    + change (len (@nil (list N))) with 0. rewrite spec_locate_0.
      cbn [concat]. change (len (@nil N)) with 0. rewrite N.add_0_r.
      cbn [app] in HL. destruct (line_rest_at_eol _ _ _ _ HL Hb Ht) as [Hs Hr].
      rewrite Hs. apply spec_walk_clamp; assumption.
    + cbn [spec_locate]. rewrite (len_cons a A). replace (1 + len A =? 0) with false by lia.
      replace (1 + len A - 1) with (len A) by lia.
      cbn [lsp_lines app] in HL. cbn [concat]. rewrite len_app.
      destruct (c =? 10) eqn:E10.
      * injection HL as <- HL. rewrite (IH _ _ _ _ _ _ HL Hb Ht Hc).
        change (len [c]) with 1. do 2 f_equal. lia.
      * destruct (c =? 13) eqn:E13.
        -- destruct r as [|d r'].
           ++ injection HL as _ HL. destruct A; discriminate.
           ++ destruct (d =? 10) eqn:D10.
              ** injection HL as <- HL. rewrite (IH2 d r' eq_refl _ _ _ _ _ _ HL Hb Ht Hc).
                 change (len [c; d]) with 2. do 2 f_equal. lia.
              ** injection HL as <- HL. rewrite (IH _ _ _ _ _ _ HL Hb Ht Hc).
                 change (len [c]) with 1. do 2 f_equal. lia.
        -- destruct (lsp_lines r) as [|x ls] eqn:EL.
           ++ injection HL as _ HL. destruct A; discriminate.
           ++ injection HL as <- HL.
              assert (HL' : x :: ls = (x :: A) ++ (body ++ term) :: C) by (rewrite HL; reflexivity).
              rewrite <- (len_cons x A).
              rewrite (IH _ _ _ _ _ _ HL' Hb Ht Hc). cbn [concat]. rewrite len_app, len_cons.
              do 2 f_equal. lia.
Qed.

(* the two ends of a valid range are in order: the splice is well formed *)
Lemma spec_walk_ge e s : forall ch k o pre, spec_walk e s ch k = Some (o, pre) -> k <= o.
Proof.
  intros ch k o pre H. destruct (spec_walk_inv _ _ _ _ _ _ H) as (-> & _). lia.
Qed.

Lemma spec_walk_mono e s : forall c1 c2 k o1 p1 o2 p2, c1 <= c2 ->
  spec_walk e s c1 k = Some (o1, p1) -> spec_walk e s c2 k = Some (o2, p2) -> o1 <= o2.
Proof.
  induction s as [|c r IH]; intros c1 c2 k o1 p1 o2 p2 Hc H1 H2.
  - cbn [spec_walk] in *.
    assert (E1 : Some (k, @nil N) = Some (o1, p1)) by (destruct (c1 =? 0); exact H1).
    assert (E2 : Some (k, @nil N) = Some (o2, p2)) by (destruct (c2 =? 0); exact H2).
    injection E1 as <- _. injection E2 as <- _. lia.
  - destruct (c1 =? 0) eqn:E1.
    + cbn [spec_walk] in H1. rewrite E1 in H1. injection H1 as <- _.
      apply spec_walk_ge in H2. exact H2.
    + cbn [spec_walk] in H1, H2. rewrite E1 in H1. replace (c2 =? 0) with false in H2 by lia.
      destruct (is_eol c).
      * injection H1 as <- _. injection H2 as <- _. lia.
      * destruct (c1 <? true_width e c) eqn:W1; [discriminate|].
        destruct (c2 <? true_width e c) eqn:W2; [discriminate|].
        destruct (spec_walk e r (c1 - true_width e c) (k + 1)) as [[o1' p1']|] eqn:R1; [|discriminate].
        destruct (spec_walk e r (c2 - true_width e c) (k + 1)) as [[o2' p2']|] eqn:R2; [|discriminate].
        injection H1 as <- _. injection H2 as <- _.
        apply (IH (c1 - true_width e c) (c2 - true_width e c) (k + 1) o1' p1' o2' p2'); [lia|assumption|assumption].
Qed.

Lemma spec_locate_ge e s : forall l ch k o pre, spec_locate e s l ch k = Some (o, pre) -> k <= o.
Proof.
  induction s as [|c r IH IH2] using str_ind2; intros l ch k o pre H.
  - cbn [spec_locate] in H. destruct (l =? 0); [|discriminate]. apply spec_walk_ge in H. exact H.
  - destruct (l =? 0) eqn:El.
    + replace l with 0 in H by lia. rewrite spec_locate_0 in H. apply spec_walk_ge in H. exact H.
    + cbn [spec_locate] in H. rewrite El in H.
      destruct (c =? 10); [apply IH in H; lia|].
      destruct (c =? 13).
      * destruct r as [|d r']; [apply IH in H; lia|].
        destruct (d =? 10); [apply (IH2 d r' eq_refl) in H; lia|apply IH in H; lia].
      * apply IH in H. lia.
Qed.

(* a position on the first line is never after one on a later line *)
Lemma spec_locate_first_le e s : forall l ch c0 k o1 p1 o2 p2, l <> 0 ->
  spec_walk e s c0 k = Some (o1, p1) -> spec_locate e s l ch k = Some (o2, p2) -> o1 <= o2.
Proof.
  induction s as [|c r IH IH2] using str_ind2; intros l ch c0 k o1 p1 o2 p2 Hl H1 H2.
  - cbn [spec_locate] in H2. replace (l =? 0) with false in H2 by lia. discriminate.
  - pose proof (spec_locate_ge _ _ _ _ _ _ _ H2) as G.
    cbn [spec_locate] in H2. replace (l =? 0) with false in H2 by lia.
    cbn [spec_walk] in H1. destruct (c0 =? 0) eqn:E0.
    + injection H1 as <- _. exact G.
    + unfold is_eol in H1. destruct (c =? 10) eqn:E10; [injection H1 as <- _; exact G|].
      destruct (c =? 13) eqn:E13; [injection H1 as <- _; exact G|]. cbn [orb] in H1.
      destruct (c0 <? true_width e c); [discriminate|].
      destruct (spec_walk e r (c0 - true_width e c) (k + 1)) as [[o1' p1']|] eqn:R1; [|discriminate].
      injection H1 as <- _. exact (IH l ch _ (k + 1) o1' p1' o2 p2 Hl R1 H2).
Qed.

Lemma spec_locate_mono e s : forall l1 c1 l2 c2 k o1 p1 o2 p2,
  pos_le (l1, c1) (l2, c2) = true ->
  spec_locate e s l1 c1 k = Some (o1, p1) -> spec_locate e s l2 c2 k = Some (o2, p2) -> o1 <= o2.
Proof.
  unfold pos_le. cbn [fst snd].
  induction s as [|c r IH IH2] using str_ind2; intros l1 c1 l2 c2 k o1 p1 o2 p2 Hle H1 H2.
  - cbn [spec_locate] in *. destruct (l1 =? 0) eqn:E1; [|discriminate].
    destruct (l2 =? 0) eqn:E2; [|discriminate].
    apply (spec_walk_mono e [] c1 c2 k o1 p1 o2 p2); [lia|assumption|assumption].
  - destruct (l1 =? 0) eqn:E1.
    + replace l1 with 0 in * by lia. rewrite spec_locate_0 in H1.
      destruct (l2 =? 0) eqn:E2.
      * replace l2 with 0 in * by lia. rewrite spec_locate_0 in H2.
        apply (spec_walk_mono e (c :: r) c1 c2 k o1 p1 o2 p2); [lia|assumption|assumption].
      * apply (spec_locate_first_le e (c :: r) l2 c2 c1 k o1 p1 o2 p2); [lia|assumption|assumption].
    + assert (E2 : l2 =? 0 = false) by lia.
      cbn [spec_locate] in H1, H2. rewrite E1 in H1. rewrite E2 in H2.
      assert (Hle' : (l1 - 1 <? l2 - 1) || (l1 - 1 =? l2 - 1) && (c1 <=? c2) = true) by lia.
      destruct (c =? 10); [exact (IH _ _ _ _ _ _ _ _ _ Hle' H1 H2)|].
      destruct (c =? 13).
      * destruct r as [|d r']; [exact (IH _ _ _ _ _ _ _ _ _ Hle' H1 H2)|].
        destruct (d =? 10); [exact (IH2 d r' eq_refl _ _ _ _ _ _ _ _ _ Hle' H1 H2)|exact (IH _ _ _ _ _ _ _ _ _ Hle' H1 H2)].
      * exact (IH _ _ _ _ _ _ _ _ _ Hle H1 H2).
Qed.
