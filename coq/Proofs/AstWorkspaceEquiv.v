(* The translated source of pygls/workspace/workspace.py (Gen/AstWorkspace.v, regenerated from the source
   text by harness/gen_ast.py on every run): Workspace.__init__, _create_text_document, add_folder,
   remove_folder, get_text_document, get_notebook_document, put_text_document, remove_text_document,
   put_notebook_document, remove_notebook_document and update_text_document do, under the PyMini
   semantics, to the four dictionaries exactly what Model/Workspace.v says - for every workspace state
   whose dictionaries have distinct keys (Python dicts always have).
   NOT translated: update_notebook_document.  It changes objects through aliases
   (`notebook = self._notebook_documents[uri]; notebook.version = ...`, the index dict `nb_cells` of the
   cells) and PyMini has immutable values, no references; a sound translation needs a heap. *)
From Coq Require Import ZArith NArith List Bool String Ascii Lia ZifyBool ZifyN ZifyNat.
From Pygls Require Import Base.PyMini Base.PyMiniFacts Gen.AstWorkspace Model.Workspace.
Import ListNotations.
Open Scope string_scope.
Open Scope Z_scope.

(* ---------- dictionaries keyed by URIs ---------- *)

(* a URI: the model numbers them; any injective image in the non-empty strings will do *)
Definition uri_val (u : N) : val := VStr [u].

Lemma uri_val_eq a b : py_eq (uri_val a) (uri_val b) = (a =? b)%N.
Proof. cbn. apply andb_true_r. Qed.

(* facts about Base/AssocWs that do not depend on the values *)
Section Keys.
Context {V : Type}.

Lemma aget_notin k (l : list (N * V)) : ~ In k (map fst l) -> aget k l = None.
Proof.
  induction l as [|[k' v] r IH]; intros H; [reflexivity|]. cbn [aget]. cbn [map fst In] in H.
  destruct (k =? k')%N eqn:E; [apply N.eqb_eq in E; subst; tauto | apply IH; tauto].
Qed.

Lemma aset_keys k v (l : list (N * V)) :
  forall x, In x (map fst (aset k v l)) <-> x = k \/ In x (map fst l).
Proof.
  induction l as [|[k' v'] r IH]; intros x; cbn [aset map fst In].
  - intuition congruence.
  - destruct (k =? k')%N eqn:E; cbn [map fst In].
    + apply N.eqb_eq in E. subst. intuition congruence.
    + rewrite IH. intuition congruence.
Qed.

Lemma aset_nodup k v (l : list (N * V)) : NoDup (map fst l) -> NoDup (map fst (aset k v l)).
Proof.
  induction l as [|[k' v'] r IH]; intros H; cbn [aset map fst].
  - constructor; [tauto | constructor].
  - cbn [map fst] in H. inversion H as [|? ? Hni Hnd]; subst.
    destruct (k =? k')%N eqn:E; cbn [map fst].
    + constructor; assumption.
    + constructor; [|apply IH; assumption]. rewrite aset_keys. apply N.eqb_neq in E. intros [->|Hin]; tauto.
Qed.

Lemma adel_keys k (l : list (N * V)) : forall x, In x (map fst (adel k l)) -> In x (map fst l).
Proof.
  induction l as [|[k' v'] r IH]; intros x; cbn [adel map fst In]; [tauto|].
  destruct (k =? k')%N; cbn [map fst In]; intros H; [right; apply IH, H | destruct H; [tauto | right; apply IH, H]].
Qed.

Lemma adel_nodup k (l : list (N * V)) : NoDup (map fst l) -> NoDup (map fst (adel k l)).
Proof.
  induction l as [|[k' v'] r IH]; intros H; cbn [adel map fst]; [constructor|].
  cbn [map fst] in H. inversion H as [|? ? Hni Hnd]; subst.
  destruct (k =? k')%N; [apply IH; assumption|]. cbn [map fst]. constructor; [|apply IH; assumption].
  intros Hin. apply Hni, (adel_keys k r k' Hin).
Qed.
End Keys.

Section Tables.
Context {V : Type} (g : N -> V -> val).

Definition items (l : list (N * V)) : list val :=
  map (fun kv => VTuple [uri_val (fst kv); g (fst kv) (snd kv)]) l.

Lemma dict_get_items k l :
  dict_get (uri_val k) (items l) = match aget k l with Some v => Some (g k v) | None => None end.
Proof.
  induction l as [|[k' v] r IH]; [reflexivity|]. cbn [items map dict_get aget fst snd].
  rewrite uri_val_eq, N.eqb_sym. destruct (k =? k')%N eqn:E; [|exact IH].
  apply N.eqb_eq in E. subst. reflexivity.
Qed.

Lemma dict_mem_items k l :
  dict_mem (uri_val k) (items l) = match aget k l with Some _ => true | None => false end.
Proof. unfold dict_mem. rewrite dict_get_items. destruct (aget k l); reflexivity. Qed.

Lemma dict_del_items k l : dict_del (uri_val k) (items l) = items (adel k l).
Proof.
  induction l as [|[k' v] r IH]; [reflexivity|]. cbn [items map dict_del adel fst snd].
  rewrite uri_val_eq, N.eqb_sym. fold (items r). rewrite IH.
  destruct (k =? k')%N; reflexivity.
Qed.

Lemma dict_upd_notin k w (l : list (N * V)) : ~ In k (map fst l) -> dict_upd (uri_val k) w (items l) = items l.
Proof.
  induction l as [|[k' v'] r IH]; intros H; [reflexivity|]. cbn [items map dict_upd fst snd].
  rewrite uri_val_eq. cbn [map fst In] in H. destruct (k' =? k)%N eqn:E; [apply N.eqb_eq in E; tauto|].
  f_equal. apply IH. tauto.
Qed.

(* d[k] = v.  (dict_set rewrites every entry with the key, aset the first: the same on a dict) *)
Lemma dict_set_items k v l : NoDup (map fst l) ->
  dict_set (uri_val k) (g k v) (items l) = items (aset k v l).
Proof.
  intros Hnd. unfold dict_set. rewrite dict_mem_items.
  induction l as [|[k' v'] r IH]; [reflexivity|].
  cbn [map fst] in Hnd. inversion Hnd as [|? ? Hni Hnd']; subst.
  cbn [aget aset items map dict_upd fst snd app]. rewrite uri_val_eq, (N.eqb_sym k' k).
  destruct (k =? k')%N eqn:E.
  - apply N.eqb_eq in E. subst k'. cbn [items map fst snd]. f_equal. apply (dict_upd_notin k (g k v) r Hni).
  - specialize (IH Hnd'). fold (items r) in *. destruct (aget k r).
    + cbn [items map fst snd]. f_equal. exact IH.
    + cbn [items map fst snd app]. f_equal. exact IH.
Qed.

End Tables.

(* ---------- how Python values stand for the model's data ---------- *)

Definition kind_val (k : sync_kind) : val :=
  VGlobal ["TextDocumentSyncKind"; match k with SyncNone => "None_" | SyncFull => "Full" | SyncIncremental => "Incremental" end].
Definition enc_val (e : encoding) : val :=
  VStr (match e with Utf8 => s_utf8 | Utf16 => s_utf16 | Utf32 => s_utf32 end).
Definition codec_val (e : encoding) : val := VObj "PositionCodec" [("encoding", enc_val e)].
Definition opt_int (v : option Z) : val := match v with Some z => VInt z | None => VNone end.
Definition opt_n (v : option N) : val := match v with Some n => VInt (Z.of_N n) | None => VNone end.
Definition opt_uri (v : option N) : val := match v with Some n => uri_val n | None => VNone end.

(* the record of a TextDocument(...) constructor call, for a document of the model *)
Definition td_record (u : N) (source version language_id : val) (k : sync_kind) (e : encoding) : val :=
  VObj "TextDocument" [("uri", uri_val u); ("source", source); ("version", version); ("language_id", language_id);
                       ("local", VBool true); ("sync_kind", kind_val k); ("position_codec", codec_val e)].
Definition td_val (u : N) (dl : doc * N) : val :=
  td_record u (VStr (d_source (fst dl))) (opt_int (d_version (fst dl))) (VInt (Z.of_N (snd dl)))
            (d_kind (fst dl)) (d_enc (fst dl)).
(* get_text_document's fallback: a document that reads the file *)
Definition disk_val (cf : encoding * sync_kind) (u : N) : val := td_record u VNone VNone VNone (snd cf) (fst cf).

Definition item_val (it : N * N * Z * list N) : val :=
  let '(u, lang, v, text) := it in
  VObj "TextDocumentItem" [("uri", uri_val u); ("language_id", VInt (Z.of_N lang)); ("version", VInt v); ("text", VStr text)].

Definition cell_val (c : nbcell) : val :=
  VObj "NotebookCell" [("kind", VInt (Z.of_N (c_kind c))); ("document", uri_val (c_doc c));
                       ("metadata", opt_n (c_meta c)); ("execution_summary", opt_n (c_exec c))].
Definition nb_val (n : N) (nb : notebook) : val :=
  VObj "NotebookDocument" [("uri", uri_val n); ("notebook_type", VInt (Z.of_N (n_type nb))); ("version", VInt (n_version nb));
                           ("metadata", opt_n (n_meta nb)); ("cells", VList (map cell_val (n_cells nb)))].
Definition folder_val (u name : N) : val := VObj "WorkspaceFolder" [("uri", uri_val u); ("name", VInt (Z.of_N name))].

Section Ws.
Variable cf : encoding * sync_kind.          (* position encoding and sync kind the workspace was created with *)
Variables root_uri root_path : val.          (* attributes these methods never read *)

Definition ws_val (s : ws) : val :=
  VObj "Workspace"
       [("_root_uri", root_uri); ("_root_path", root_path); ("_sync_kind", kind_val (snd cf));
        ("_text_documents", mk_dict (items td_val (w_docs s)));
        ("_notebook_documents", mk_dict (items nb_val (w_nbs s)));
        ("_cell_in_notebook", mk_dict (items (fun _ n => uri_val n) (w_cells s)));
        ("_folders", mk_dict (items folder_val (w_folders s)));
        ("_docs", mk_dict []);
        ("_position_encoding", enc_val (fst cf));
        ("_position_codec", codec_val (fst cf))].

(* Python dicts have distinct keys *)
Definition wf (s : ws) : Prop :=
  NoDup (map fst (w_docs s)) /\ NoDup (map fst (w_nbs s)) /\ NoDup (map fst (w_cells s)) /\ NoDup (map fst (w_folders s)).

Notation q_create := ["Workspace"; "_create_text_document"] (only parsing).
Notation q_put := ["Workspace"; "put_text_document"] (only parsing).
Notation q_remove := ["Workspace"; "remove_text_document"] (only parsing).
Notation q_add_folder := ["Workspace"; "add_folder"] (only parsing).

(* ---------- _create_text_document ---------- *)

Definition spec_create (call : callT) : Prop := forall s u sv vv lv,
  call q_create (Some (ws_val s)) [uri_val u] [("source", sv); ("version", vv); ("language_id", lv)] =
    Ok (td_record u sv vv lv (snd cf) (fst cf)) /\
  call q_create (Some (ws_val s)) [uri_val u] [] = Ok (disk_val cf u).

Lemma create_ok_gen call f s u sv vv lv :
  run_fun call f f_create_text_document (Some (ws_val s)) [uri_val u]
          [("source", sv); ("version", vv); ("language_id", lv)] = Ok (td_record u sv vv lv (snd cf) (fst cf)) /\
  run_fun call f f_create_text_document (Some (ws_val s)) [uri_val u] [] = Ok (disk_val cf u).
Proof. unfold run_fun, f_create_text_document, ws_val, td_record, disk_val. split; pysimp; reflexivity. Qed.

(* ---------- put_text_document ---------- *)

Lemma put_ok_gen call f : spec_create call -> forall s it (nb : option N), wf s ->
  forall kw, kw = match nb with Some n => [("notebook_uri", uri_val n)] | None => [] end ->
  run_fun call f f_put_text_document (Some (ws_val s)) [item_val it] kw =
  Ok (ws_val (put_text_document cf s it nb)).
Proof.
  intros Hc s [[[u lang] v] text] nb (W1 & W2 & W3 & W4) kw ->.
  unfold spec_create, ws_val, td_record in Hc.
  unfold run_fun, f_put_text_document, item_val, put_text_document, ws_val.
  destruct nb as [n|]; pybind.
  - pystep. pystep. rewrite (proj1 (Hc s u _ _ _)). cbv beta iota. pystep. pyfinish. pyexpr.
    unfold with_cells, with_docs. cbn [w_docs w_nbs w_cells w_folders].
    rewrite <- (dict_set_items td_val u (open_doc (fst cf) (snd cf) text v, lang) _ W1).
    rewrite <- (dict_set_items (fun _ n0 => uri_val n0) u n _ W3). reflexivity.
  - pystep. pystep. rewrite (proj1 (Hc s u _ _ _)). cbv beta iota. pystep. pyfinish. pyexpr.
    unfold with_docs. cbn [w_docs w_nbs w_cells w_folders].
    rewrite <- (dict_set_items td_val u (open_doc (fst cf) (snd cf) text v, lang) _ W1). reflexivity.
Qed.

Lemma wf_put s it nb : wf s -> wf (put_text_document cf s it nb).
Proof.
  intros (W1 & W2 & W3 & W4). destruct it as [[[u lang] v] text]. unfold put_text_document, wf.
  destruct nb; cbn [with_cells with_docs w_docs w_nbs w_cells w_folders];
    repeat split; try assumption; apply aset_nodup; assumption.
Qed.

(* ---------- remove_text_document ---------- *)

Lemma remove_ok_gen call f s u :
  run_fun call f f_remove_text_document (Some (ws_val s)) [uri_val u] [] = Ok (ws_val (remove_text_document s u)).
Proof.
  unfold run_fun, f_remove_text_document, ws_val, remove_text_document, with_cells, with_docs. pysimp.
  cbn [w_docs w_nbs w_cells w_folders]. rewrite !dict_del_items. reflexivity.
Qed.

Lemma wf_remove s u : wf s -> wf (remove_text_document s u).
Proof.
  intros (W1 & W2 & W3 & W4). unfold remove_text_document, wf.
  cbn [with_cells with_docs w_docs w_nbs w_cells w_folders]. repeat split; try assumption; apply adel_nodup; assumption.
Qed.

(* ---------- add_folder, remove_folder ---------- *)

Lemma add_folder_ok_gen call f s (fo : N * N) : wf s ->
  run_fun call f f_add_folder (Some (ws_val s)) [folder_val (fst fo) (snd fo)] [] = Ok (ws_val (add_folder s fo)).
Proof.
  intros (W1 & W2 & W3 & W4). unfold run_fun, f_add_folder, ws_val, folder_val, add_folder, with_folders. pysimp.
  cbn [w_docs w_nbs w_cells w_folders].
  fold folder_val. rewrite <- (dict_set_items folder_val (fst fo) (snd fo) _ W4). reflexivity.
Qed.

Lemma wf_add_folder s fo : wf s -> wf (add_folder s fo).
Proof.
  intros (W1 & W2 & W3 & W4). unfold add_folder, wf. cbn [with_folders w_docs w_nbs w_cells w_folders].
  repeat split; try assumption; apply aset_nodup; assumption.
Qed.

Lemma aget_adel_same {V} k (l : list (N * V)) : aget k (adel k l) = None.
Proof. rewrite aget_adel, N.eqb_refl. reflexivity. Qed.

(* pop(folder_uri, None), then `del` in a try: the key is gone, KeyError, pass *)
Lemma remove_folder_ok_gen call f s u :
  run_fun call f f_remove_folder (Some (ws_val s)) [uri_val u] [] = Ok (ws_val (remove_folder s u)).
Proof.
  unfold run_fun, f_remove_folder, ws_val, remove_folder, with_folders. pybind. pystep. pystep.
  rewrite dict_del_items, dict_mem_items, aget_adel_same. pysimp. reflexivity.
Qed.

(* ---------- get_text_document, get_notebook_document ---------- *)

Definition got_val (g : got) : val :=
  match g with Open d l => VNone | Disk u => disk_val cf u end.

Lemma get_text_document_ok_gen call f : spec_create call -> forall s u,
  run_fun call f f_get_text_document (Some (ws_val s)) [uri_val u] [] =
  Ok (match aget u (w_docs s) with Some dl => td_val u dl | None => disk_val cf u end).
Proof.
  intros Hc s u. unfold spec_create, ws_val in Hc.
  unfold run_fun, f_get_text_document, ws_val. pysimp. rewrite dict_get_items.
  destruct (aget u (w_docs s)) as [dl|]; pysimp; [reflexivity|].
  rewrite (proj2 (Hc s u VNone VNone VNone)). reflexivity.
Qed.

(* the model's answer: an open document, or the fall-back to disk *)
Lemma get_text_document_model s u :
  match get_text_document s u with
  | Open d l => aget u (w_docs s) = Some (d, l)
  | Disk u' => aget u (w_docs s) = None /\ u' = u
  end.
Proof. unfold get_text_document. destruct (aget u (w_docs s)) as [[d l]|]; auto. Qed.

Lemma is_none_uri n : PyMini.is_none (uri_val n) = false.
Proof. reflexivity. Qed.

Lemma get_notebook_document_ok_gen call f s (nu cu : option N) :
  run_fun call f f_get_notebook_document (Some (ws_val s)) []
          [("notebook_uri", opt_uri nu); ("cell_uri", opt_uri cu)] =
  Ok (match get_notebook_document s nu cu with
      | Some nb => nb_val (match nu with Some n => n | None =>
                             match cu with Some c => match aget c (w_cells s) with Some n => n | None => 0%N end
                                         | None => 0%N end end) nb
      | None => VNone
      end).
Proof.
  unfold run_fun, f_get_notebook_document, ws_val, get_notebook_document.
  destruct nu as [n|]; cbn [opt_uri]; pysimp; rewrite ?is_none_uri; pysimp.
  - rewrite dict_get_items. destruct (aget n (w_nbs s)); reflexivity.
  - destruct cu as [c|]; cbn [opt_uri]; pysimp; rewrite ?is_none_uri; pysimp; [|reflexivity].
    rewrite dict_get_items. destruct (aget c (w_cells s)) as [n|]; pysimp; rewrite ?is_none_uri; pysimp; [|reflexivity].
    rewrite dict_get_items. destruct (aget n (w_nbs s)); reflexivity.
Qed.

(* ---------- loops over the cell documents ---------- *)

Lemma exec_for call f env x iter body :
  exec call f env (SFor x iter body) =
  match eval call env iter with
  | Ok (VList l) => for_each (fun env => exec_block call f env body) x l env
  | Ok (VTuple l) => for_each (fun env => exec_block call f env body) x l env
  | Ok _ => OStuck "for over a non-list"
  | Raise k => ORaise k env | Stuck w => OStuck w
  end.
Proof. reflexivity. Qed.

Lemma for_each_fold {A} (body : list (string * val) -> outcome) x (step : ws -> A -> ws) (gv : A -> val)
      (Inv : list (string * val) -> ws -> Prop) :
  (forall env s a, Inv env s -> wf s -> normal_with (fun env' => Inv env' (step s a)) (body (set x (gv a) env))) ->
  (forall s a, wf s -> wf (step s a)) ->
  forall l env s, Inv env s -> wf s ->
    normal_with (fun env' => Inv env' (fold_left step l s)) (for_each body x (map gv l) env).
Proof.
  intros Hb Hw. induction l as [|a r IH]; intros env s Hi Hwf; cbn [map for_each fold_left normal_with].
  - exact Hi.
  - pose proof (Hb env s a Hi Hwf) as Hs. destruct (body _); try contradiction.
    apply IH; [exact Hs | apply Hw, Hwf].
Qed.

Definition put_kw (nb : option N) : list (string * val) :=
  match nb with Some n => [("notebook_uri", uri_val n)] | None => [] end.

Definition spec_put (call : callT) : Prop := forall s it nb, wf s ->
  call q_put (Some (ws_val s)) [item_val it] (put_kw nb) = Ok (ws_val (put_text_document cf s it nb)).

Definition spec_remove (call : callT) : Prop := forall s u,
  call q_remove (Some (ws_val s)) [uri_val u] [] = Ok (ws_val (remove_text_document s u)).

(* ---------- put_notebook_document, remove_notebook_document ---------- *)

Definition open_params (n : N) (nb : notebook) (its : list (N * N * Z * list N)) : val :=
  VObj "DidOpenNotebookDocumentParams"
       [("notebook_document", nb_val n nb); ("cell_text_documents", VList (map item_val its))].

Lemma nb_uri n nb : py_getattr (nb_val n nb) "uri" = Ok (uri_val n).
Proof. reflexivity. Qed.

Lemma put_notebook_ok_gen call f : spec_put call -> forall s n nb its, wf s ->
  run_fun call f f_put_notebook_document (Some (ws_val s)) [open_params n nb its] [] =
  Ok (ws_val (put_notebook_document cf s n nb its)).
Proof.
  intros Hp s n nb its (W1 & W2 & W3 & W4). unfold spec_put in Hp.
  unfold run_fun, f_put_notebook_document, open_params, put_notebook_document.
  set (W := ws_val s); unfold ws_val in W; subst W. pybind.
  pystep. pystep. rewrite nb_uri. cbv beta iota. pyunhide. rewrite exec_block_cons, exec_for. pyexpr.
  rewrite (dict_set_items nb_val n nb _ W2).
  set (s1 := with_nbs s (aset n nb (w_nbs s))).
  match goal with |- context[for_each ?body ?x _ ?env0] =>
    assert (normal_with (fun env' => get "self" env' = Some (ws_val (fold_left (fun s it => put_text_document cf s it (Some n)) its s1))
                                     /\ get "$1" env' = Some (nb_val n nb))
              (for_each body x (map item_val its) env0)) as Hloop;
    [ apply (for_each_fold body x (fun s it => put_text_document cf s it (Some n)) item_val
               (fun env s => get "self" env = Some (ws_val s) /\ get "$1" env = Some (nb_val n nb)))
    | destruct (for_each body x (map item_val its) env0); try contradiction ]
  end.
  - intros env s0 a [G1 G2] Hwf. cbv beta. unfold ws_val in G1. pystep_env.
    rewrite nb_uri. pyexpr. pose proof (Hp s0 a (Some n) Hwf) as Hp'. unfold ws_val at 1 in Hp'. cbn [put_kw] in Hp'. rewrite Hp'. pyfinish. cbn [normal_with]. pyexpr. auto.
  - intros s0 a. apply wf_put.
  - split; pyexpr; reflexivity.
  - unfold s1, wf. cbn [with_nbs w_docs w_nbs w_cells w_folders]. repeat split; try assumption. apply aset_nodup, W2.
  - destruct Hloop as [G1 G2]. cbv beta iota. pyfinish. pyexpr. rewrite G1. reflexivity.
Qed.

Definition close_params (n : N) (cs : list N) : val :=
  VObj "DidCloseNotebookDocumentParams"
       [("notebook_document", VObj "NotebookDocumentIdentifier" [("uri", uri_val n)]);
        ("cell_text_documents", VList (map (fun c => VObj "TextDocumentIdentifier" [("uri", uri_val c)]) cs))].

Lemma remove_notebook_ok_gen call f : spec_remove call -> forall s n cs, wf s ->
  run_fun call f f_remove_notebook_document (Some (ws_val s)) [close_params n cs] [] =
  Ok (ws_val (remove_notebook_document s n cs)).
Proof.
  intros Hr s n cs (W1 & W2 & W3 & W4). unfold spec_remove in Hr.
  unfold run_fun, f_remove_notebook_document, close_params, remove_notebook_document.
  set (W := ws_val s); unfold ws_val in W; subst W. pybind.
  pystep. pystep. pyunhide. rewrite exec_block_cons, exec_for. pyexpr.
  rewrite dict_del_items.
  set (s1 := with_nbs s (adel n (w_nbs s))).
  match goal with |- context[for_each ?body ?x _ ?env0] =>
    assert (normal_with (fun env' => get "self" env' = Some (ws_val (fold_left remove_text_document cs s1)))
              (for_each body x (map (fun c => VObj "TextDocumentIdentifier" [("uri", uri_val c)]) cs) env0)) as Hloop;
    [ apply (for_each_fold body x remove_text_document (fun c => VObj "TextDocumentIdentifier" [("uri", uri_val c)])
               (fun env s => get "self" env = Some (ws_val s)))
    | destruct (for_each body x _ env0); try contradiction ]
  end.
  - intros env s0 a G1 Hwf. cbv beta. unfold ws_val in G1. pystep_env.
    pose proof (Hr s0 a) as Hr'. unfold ws_val at 1 in Hr'. rewrite Hr'. pyfinish. cbn [normal_with]. pyexpr. reflexivity.
  - intros s0 a. apply wf_remove.
  - pyexpr. reflexivity.
  - unfold s1, wf. cbn [with_nbs w_docs w_nbs w_cells w_folders]. repeat split; try assumption. apply adel_nodup, W2.
  - cbv beta iota. pyfinish. pyexpr. rewrite Hloop. reflexivity.
Qed.

(* ---------- update_text_document ---------- *)

Lemma aset_aset {V} k (v v' : V) l : aset k v (aset k v' l) = aset k v l.
Proof.
  induction l as [|[k' w] r IH]; cbn [aset].
  - rewrite N.eqb_refl. reflexivity.
  - destruct (k =? k')%N eqn:E; cbn [aset]; rewrite E; [reflexivity | f_equal; exact IH].
Qed.

Definition versioned_id (u : N) (v : Z) : val :=
  VObj "VersionedTextDocumentIdentifier" [("uri", uri_val u); ("version", VInt v)].

(* TextDocument.apply_change is text_document.py's (Proofs/AstDocEquiv.v); here it is an oracle: on the
   record of an open document it leaves the record of the model's Doc.apply_change *)
Definition spec_apply_change (call : callT) (chv : val) (c : change) : Prop := forall u d l,
  call ["TextDocument"; "apply_change"] (Some (td_val u (d, l))) [chv] [] = Ok (td_val u (apply_change d c, l)).

Lemma update_text_document_ok_gen call f chv c : spec_apply_change call chv c -> forall s u v, wf s ->
  run_fun call f f_update_text_document (Some (ws_val s)) [versioned_id u v; chv] [] =
  match ws_update_text_document s u v c with
  | Some s' => Ok (ws_val s')
  | None => Raise KeyError
  end.
Proof.
  intros Ha s u v (W1 & W2 & W3 & W4). unfold spec_apply_change in Ha.
  unfold run_fun, f_update_text_document, versioned_id, ws_update_text_document.
  set (W := ws_val s); unfold ws_val in W; subst W. pybind.
  pystep. pystep. rewrite dict_get_items.
  destruct (aget u (w_docs s)) as [[d l]|] eqn:Eg; [|reflexivity].
  pose proof (Ha u d l) as Ha'. unfold td_val at 1, td_record in Ha'. cbn [fst snd] in Ha'.
  unfold td_val at 1, td_record. cbn [fst snd]. rewrite Ha'. cbv beta iota.
  rewrite (dict_set_items td_val u (apply_change d c, l) _ W1).
  pystep. rewrite dict_get_items, aget_aset_eq.
  unfold td_val at 1, td_record. cbn [fst snd]. pyexpr.
  change (VObj "TextDocument"
            [("uri", uri_val u); ("source", VStr (d_source (apply_change d c))); ("version", VInt v);
             ("language_id", VInt (Z.of_N l)); ("local", VBool true); ("sync_kind", kind_val (d_kind (apply_change d c)));
             ("position_codec", codec_val (d_enc (apply_change d c)))])
    with (td_val u (update_text_document d v c, l)).
  rewrite (dict_set_items td_val u (update_text_document d v c, l)), aset_aset by (apply aset_nodup, W1).
  pyfinish. reflexivity.
Qed.

Definition spec_add_folder (call : callT) : Prop := forall s fo, wf s ->
  call q_add_folder (Some (ws_val s)) [folder_val (fst fo) (snd fo)] [] = Ok (ws_val (add_folder s fo)).

End Ws.

(* ---------- Workspace.__init__ (root_uri None; uri_scheme / to_fs_path are not evaluated then) ---------- *)

Lemma wf_empty : wf (mkWs [] [] [] [] 0).
Proof. repeat split; constructor. Qed.

Lemma wf_fold_add fs : forall s, wf s -> wf (fold_left add_folder fs s).
Proof. induction fs as [|a r IH]; intros s H; [exact H|]. cbn [fold_left]. apply IH, wf_add_folder, H. Qed.

Lemma init_ok_gen call f e k : spec_add_folder (e, k) VNone VNone call -> forall fs,
  run_fun call f f_init (Some (VObj "Workspace" []))
          [VNone; kind_val k; VList (map (fun fo => folder_val (fst fo) (snd fo)) fs); enc_val e] [] =
  Ok (ws_val (e, k) VNone VNone (init_ws fs)).
Proof.
  intros Ha fs. unfold spec_add_folder in Ha.
  unfold run_fun, f_init, init_ws. pybind.
  do 10 pystep. pystep.
  match goal with |- context[for_each ?body ?x _ ?env0] =>
    assert (normal_with (fun env' => get "self" env' = Some (ws_val (e, k) VNone VNone (fold_left add_folder fs (mkWs [] [] [] [] 0))))
              (for_each body x (map (fun fo => folder_val (fst fo) (snd fo)) fs) env0)) as Hloop;
    [ apply (for_each_fold body x add_folder (fun fo => folder_val (fst fo) (snd fo))
               (fun env s => get "self" env = Some (ws_val (e, k) VNone VNone s)))
    | destruct (for_each body x _ env0); try contradiction ]
  end.
  - intros env s0 a G1 Hwf. cbv beta. unfold ws_val in G1. cbn [fst snd] in G1. pyexpr. repeat (progress use_env; pyexpr).
    pose proof (Ha s0 a Hwf) as Ha'. unfold ws_val at 1 in Ha'. cbn [fst snd] in Ha'. rewrite Ha'. cbn [normal_with]. pyexpr. reflexivity.
  - intros s0 a. apply wf_add_folder.
  - pyexpr. reflexivity.
  - apply wf_empty.
  - cbv beta iota. pyfinish. pyexpr. rewrite Hloop. reflexivity.
Qed.

(* ------------------------------------------------------------------------------------ *)
(* The theorems.  `run prog fuel depth q (Some workspace) args`; no `while`, any fuel.    *)

Section Link.
Variable cf : encoding * sync_kind.
Variables r1 r2 : val.
Notation W := (ws_val cf r1 r2).

Lemma L_create f d : spec_create cf r1 r2 (mk_call prog f (S d)).
Proof.
  intros s u sv vv lv. split; enter f_create_text_document.
  - apply (proj1 (create_ok_gen cf r1 r2 _ f s u sv vv lv)).
  - apply (proj2 (create_ok_gen cf r1 r2 _ f s u sv vv lv)).
Qed.

Lemma L_put f d : spec_put cf r1 r2 (mk_call prog f (S (S d))).
Proof.
  intros s it nb Hwf. enter f_put_text_document. apply put_ok_gen; [apply L_create | exact Hwf | reflexivity].
Qed.

Lemma L_remove f d : spec_remove cf r1 r2 (mk_call prog f (S d)).
Proof. intros s u. enter f_remove_text_document. apply remove_ok_gen. Qed.

Lemma L_add_folder f d : spec_add_folder cf r1 r2 (mk_call prog f (S d)).
Proof. intros s fo Hwf. enter f_add_folder. apply add_folder_ok_gen, Hwf. Qed.
End Link.

Definition ast_workspace_equiv_statement : Prop :=
  forall (cf : encoding * sync_kind) (r1 r2 : val) (f d : nat) (s : ws), wf s ->
  let W := ws_val cf r1 r2 in
  (* put_text_document(item) / put_text_document(item, notebook_uri=n) *)
  (forall it nb, PyMini.mk_call prog f (S (S d)) ["Workspace"; "put_text_document"] (Some (W s)) [item_val it] (put_kw nb) =
                 Ok (W (put_text_document cf s it nb))) /\
  (forall u, PyMini.run prog f (S d) ["Workspace"; "remove_text_document"] (Some (W s)) [uri_val u] =
             Ok (W (remove_text_document s u))) /\
  (* get_text_document: the open document, or a fresh one that reads the file *)
  (forall u, PyMini.run prog f (S (S d)) ["Workspace"; "get_text_document"] (Some (W s)) [uri_val u] =
             Ok (match aget u (w_docs s) with Some dl => td_val u dl | None => disk_val cf u end)) /\
  (* get_notebook_document(notebook_uri=.., cell_uri=..) *)
  (forall nu cu, PyMini.mk_call prog f (S d) ["Workspace"; "get_notebook_document"] (Some (W s)) []
                   [("notebook_uri", opt_uri nu); ("cell_uri", opt_uri cu)] =
                 Ok (match get_notebook_document s nu cu with
                     | Some nb => nb_val (match nu with Some n => n | None =>
                                            match cu with Some c => match aget c (w_cells s) with Some n => n | None => 0%N end
                                                        | None => 0%N end end) nb
                     | None => VNone
                     end)) /\
  (* put_notebook_document / remove_notebook_document (copy.deepcopy is the identity on immutable values) *)
  (forall n nb its, PyMini.run prog f (S (S (S d))) ["Workspace"; "put_notebook_document"] (Some (W s)) [open_params n nb its] =
                    Ok (W (put_notebook_document cf s n nb its))) /\
  (forall n cs, PyMini.run prog f (S (S d)) ["Workspace"; "remove_notebook_document"] (Some (W s)) [close_params n cs] =
                Ok (W (remove_notebook_document s n cs))) /\
  (* add_folder / remove_folder *)
  (forall fo, PyMini.run prog f (S d) ["Workspace"; "add_folder"] (Some (W s)) [folder_val (fst fo) (snd fo)] =
              Ok (W (add_folder s fo))) /\
  (forall u, PyMini.run prog f (S d) ["Workspace"; "remove_folder"] (Some (W s)) [uri_val u] = Ok (W (remove_folder s u))) /\
  (* update_text_document: KeyError for a document that is not open, else apply_change (an oracle: the
     text of a document is text_document.py's) and the version *)
  (forall call chv c u v, spec_apply_change call chv c ->
     run_fun call f f_update_text_document (Some (W s)) [versioned_id u v; chv] [] =
     match ws_update_text_document s u v c with Some s' => Ok (W s') | None => Raise KeyError end).

Theorem ast_workspace_equiv : ast_workspace_equiv_statement.
Proof.
  unfold ast_workspace_equiv_statement. intros cf r1 r2 f d s Hwf. cbv zeta.
  repeat match goal with |- _ /\ _ => split end; intros; unfold PyMini.run.
  - apply L_put, Hwf.
  - apply L_remove.
  - enter f_get_text_document. apply get_text_document_ok_gen, L_create.
  - enter f_get_notebook_document. apply get_notebook_document_ok_gen.
  - enter f_put_notebook_document. apply put_notebook_ok_gen; [apply L_put | exact Hwf].
  - enter f_remove_notebook_document. apply remove_notebook_ok_gen; [apply L_remove | exact Hwf].
  - apply L_add_folder, Hwf.
  - enter f_remove_folder. apply remove_folder_ok_gen.
  - apply update_text_document_ok_gen; assumption.
Qed.

(* Workspace(None, sync_kind, folders, position_encoding) *)
Theorem ast_workspace_init_equiv f d e k fs :
  PyMini.run prog f (S (S d)) ["Workspace"; "__init__"] (Some (VObj "Workspace" []))
      [VNone; kind_val k; VList (map (fun fo => folder_val (fst fo) (snd fo)) fs); enc_val e] =
  Ok (ws_val (e, k) VNone VNone (init_ws fs)).
Proof. unfold PyMini.run. enter f_init. apply init_ok_gen, L_add_folder. Qed.

(* every state the model reaches has distinct keys *)
Lemma wf_init fs : wf (init_ws fs).
Proof. apply wf_fold_add, wf_empty. Qed.

(* the hypothesis on apply_change can be met: an oracle for a whole-document change *)
Example apply_change_oracle_exists t :
  exists call, spec_apply_change call (VStr t) (Whole t).
Proof.
  exists (fun q recv args kw =>
            match recv with
            | Some (VObj cls fields) =>
              match get "sync_kind" fields with
              | Some k => if py_eq k (kind_val SyncNone) then Ok (VObj cls fields)
                          else Ok (VObj cls (set_field "source" (VStr t) fields))
              | None => Stuck "no"
              end
            | _ => Stuck "no"
            end).
  intros u d l. destruct d as [src ver kd en]. destruct kd; reflexivity.
Qed.

(* non-vacuity: open a document, then get it; get one that is not open *)
Example ast_workspace_example :
  let s0 := init_ws [(1, 7)]%N in
  let cf := (Utf16, SyncIncremental) in
  let s1 := put_text_document cf s0 (5, 2, 3%Z, [97])%N None in
  PyMini.run prog 0 2 ["Workspace"; "put_text_document"] (Some (ws_val cf VNone VNone s0)) [item_val (5, 2, 3%Z, [97])%N] =
    Ok (ws_val cf VNone VNone s1) /\
  PyMini.run prog 0 2 ["Workspace"; "get_text_document"] (Some (ws_val cf VNone VNone s1)) [uri_val 5] =
    Ok (td_val 5 (open_doc Utf16 SyncIncremental [97%N] 3, 2%N)) /\
  PyMini.run prog 0 2 ["Workspace"; "get_text_document"] (Some (ws_val cf VNone VNone s1)) [uri_val 6] =
    Ok (disk_val cf 6).
Proof. cbv zeta. repeat split; vm_compute; reflexivity. Qed.

(* ==================================================================================== *)
(* update_notebook_document.  It works on the stored notebook through an alias            *)
(* (`notebook = self._notebook_documents[uri]`) and on its cells through an index dict of *)
(* aliases; in PyMini these locals are PATHS into self (Base/PyMini.v), and gen_ast.py    *)
(* checks statically that the paths stay valid.                                           *)

(* ---------- the index of the cells by document ---------- *)

(* position of the LAST cell with document d *)
Fixpoint last_index (d : N) (cells : list nbcell) : option nat :=
  match cells with
  | [] => None
  | c :: r => match last_index d r with
              | Some i => Some (S i)
              | None => if (c_doc c =? d)%N then Some O else None
              end
  end.

Lemma upd_last_cell_spec d cells :
  upd_last_cell d cells =
  match last_index (c_doc d) cells with
  | Some i => Some (list_set cells i (set_cell_data (nth i cells d) d))
  | None => None
  end.
Proof.
  induction cells as [|c r IH]; [reflexivity|]. cbn [upd_last_cell last_index]. rewrite IH.
  destruct (last_index (c_doc d) r) as [i|]; [reflexivity|].
  destruct (c_doc c =? c_doc d)%N; reflexivity.
Qed.

(* the association list {document: index} that the dict comprehension builds, later cells winning *)
Fixpoint build_index (cells : list nbcell) (i : Z) (acc : list (N * Z)) : list (N * Z) :=
  match cells with
  | [] => acc
  | c :: r => build_index r (i + 1) (aset (c_doc c) i acc)
  end.

Lemma build_index_nodup cells : forall i acc, NoDup (map fst acc) -> NoDup (map fst (build_index cells i acc)).
Proof. induction cells as [|c r IH]; intros i acc H; [exact H|]. cbn [build_index]. apply IH, aset_nodup, H. Qed.

Lemma build_index_get d cells : forall i acc,
  aget d (build_index cells i acc) =
  match last_index d cells with
  | Some j => Some (i + Z.of_nat j)
  | None => aget d acc
  end.
Proof.
  induction cells as [|c r IH]; intros i acc; [reflexivity|]. cbn [build_index last_index]. rewrite IH.
  destruct (last_index d r) as [j|].
  - f_equal. lia.
  - rewrite aget_aset, N.eqb_sym. destruct (c_doc c =? d)%N; [f_equal; lia | reflexivity].
Qed.

Lemma index_dict_cells base cells : forall i acc, NoDup (map fst acc) ->
  index_dict base "document" (map cell_val cells) i (items (fun _ j => mk_path (base ++ [VInt j])) acc) =
  Ok (items (fun _ j => mk_path (base ++ [VInt j])) (build_index cells i acc)).
Proof.
  induction cells as [|c r IH]; intros i acc H; [reflexivity|]. cbn [map index_dict build_index].
  unfold cell_val at 1. cbn [get String.eqb Ascii.eqb Bool.eqb].
  rewrite (dict_set_items (fun _ j => mk_path (base ++ [VInt j])) (c_doc c) i acc H).
  apply IH, aset_nodup, H.
Qed.
